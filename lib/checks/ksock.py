"""C17: turmoil-net binds and routes packets like a real socket table (specs/ksock).

  1. design level   - TLC checks KSock (ImplSpec: bindings / connections index,
                      port allocator cursor, udp / tcp demux as written) against
                      KSockProp (reference bind oracle, fresh ephemeral port,
                      reference demux) exhaustively for small constants; the
                      invariant SweepAgrees compares implementation demux and
                      reference demux for the whole probe space in every state;
  2. spec -> code   - TLC enumerates every behaviour of KSockGen up to a bound,
                      each entry carrying the predicted result of the call and of
                      a probe sweep; the driver executes it against the real
                      turmoil-net (it is the wire) and compares; a divergent
                      behaviour is judged by TLC on KSockPropTrace alone;
  3. code -> spec   - seeded random scenarios (2-3 hosts, both IP families, more
                      ports) recorded as NDJSON and validated by TLC against
                      KSockPropTrace (verdict) and KSockTrace (fidelity); and the
                      real 16 384-port range (all but 3-5 ports pre-bound) driven
                      through wrap-around and exhaustion.
"""
import glob
import json
import os
import random
import shutil

import vlib
from vlib import MachineryError, log

SUB = "ksock"
PID = "C17"
PROP_INVS = ["BindOracle", "FreshPort", "DemuxOracle"]
REAL_EPH = (49152, 65535)
ADDR_ORDER = ["lo", "a1", "a2", "b1", "b2", "c1", "c2", "x", "wild"]
MAX_JUDGED = 4             # violations reported per configuration before judging stops
MAX_FILL_BEHAVIOURS = 300  # behaviours replayed on the pre-filled real port range


def base(**kw):
    c = dict(Hosts={1, 2}, EphLo=49152, EphHi=49154, Fams={4}, Protos={"udp", "tcp"}, BindHosts={1},
             BindAddrs={"wild", "lo", "a1", "a2", "b1"}, BindPorts={5000, 0}, PeerAddrs=set(),
             ConnHosts=set(), ConnAddrs=set(), ConnPorts=set(), StallHosts=set(), MaxSocks=3, MaxOps=4, NoWrap=False,
             ProbeActs=False, FillFrom=0, SwAddrs={"lo", "a1", "a2", "b1", "x", "wild"},
             SwPorts={5000, 49152, 49153})
    c.update(kw)
    return c


BIND_ACTS = ["BindOkFixed", "BindOkEphemeral", "BindInUse", "BindNotLocal"]
CONN_ACTS = ["ConnectOk", "ConnectRefused", "ConnectNoReply"]
PROBE_ACTS = ["ProbeUdpExact", "ProbeUdpWild", "ProbeUdpFiltered", "ProbeUdpNobody", "ProbeUdpUnowned",
              "ProbeSynExact", "ProbeSynWild", "ProbeSynConn", "ProbeSynRst", "ProbeSynUnowned", "ProbeDataMC"]


def mc_configs(tier):
    """(name, SPECIFICATION, constants, actions that must have been taken).

    Spec = the plain alphabet; SpecCov = the same alphabet with Bind / Connect / Probe split by outcome
    class (each class a named action, so -coverage proves every class of the two oracles was exercised;
    about twice as expensive, therefore used on the two configurations built for that purpose: their
    alphabets and bounds are included in those of the larger plain configurations)."""
    q = tier == "quick"
    plain = ["BindMC", "CloseMC"]
    cfgs = [
        # every outcome class of bind and connect: 3-port range, fixed and ephemeral ports, wildcard / own /
        # foreign addresses, connects to listening, closed and unknown destinations, exhaustion by connects
        ("mc_outcomes", "SpecCov",
         base(BindAddrs={"wild", "a1", "b1"}, BindPorts={0, 49153}, ConnHosts={1}, ConnAddrs={"a1", "x"},
              ConnPorts={49153}, MaxSocks=5, MaxOps=4 if q else 5, SwAddrs={"a1", "x"}, SwPorts={49152, 49153}),
         BIND_ACTS + ["BindExhausted", "CloseMC", "CloseConnMC"] + CONN_ACTS + ["ConnectNoPort"]),
        # the probe actions themselves (P_Probe* ghosts driven, every demux branch taken)
        ("mc_probe", "SpecCov",
         base(ProbeActs=True, BindAddrs={"wild", "a1", "a2"}, BindPorts={5000}, PeerAddrs={"b1"},
              ConnHosts={2}, ConnAddrs={"a1"}, ConnPorts={5000}, MaxSocks=4, MaxOps=4,
              SwAddrs={"a1", "a2", "x"}, SwPorts={5000}),
         ["BindOkFixed", "BindInUse", "ConnectOk", "ConnectRefused", "CloseConnMC", "ConnectUdpMC"] + PROBE_ACTS),
        # the bind conflict matrix: {wild, lo, two own addresses, a foreign address} x {udp, tcp} x {fixed, 0}
        ("mc_bind", "Spec",
         base(MaxSocks=3 if q else 4, MaxOps=4 if q else 5,
              BindAddrs={"wild", "lo", "a1", "a2", "b1"} if q else {"wild", "lo", "a1", "a2", "x"}),
         plain),
        # the allocator: 3 ports, explicit binds inside the range, wrap-around, exhaustion, reuse after close,
        # implicit binds of TCP connects sharing the cursor
        ("mc_alloc", "Spec",
         base(Hosts={1}, BindAddrs={"wild", "a1"}, BindPorts={0, 49153}, MaxSocks=4 if q else 6,
              MaxOps=6 if q else 7, SwAddrs={"a1"}, SwPorts={49152, 49153}, ConnHosts={1}, ConnAddrs={"a1"},
              ConnPorts={49153}),
         plain + ["CloseConnMC", "ConnectMC"]),
        # demux: connected UDP sockets, TCP connects from both hosts over loopback / own / foreign / unknown
        # addresses, children bound to concrete addresses next to wildcard listeners
        ("mc_demux", "Spec",
         base(BindHosts={1, 2}, BindAddrs={"wild", "lo", "a1", "a2"}, BindPorts={5000},
              PeerAddrs={"a1", "b1"}, ConnHosts={1, 2}, ConnAddrs={"lo", "a1", "a2", "x", "wild"},
              ConnPorts={5000}, StallHosts={2}, MaxSocks=4, MaxOps=4 if q else 5, SwPorts={5000}),
         plain + ["CloseConnMC", "ConnectUdpMC", "ConnectMC", "StallMC", "CloseMidMC"]),
        # the two IP families are disjoint name spaces
        ("mc_fam", "Spec",
         base(Fams={4, 6}, Protos={"udp"}, BindAddrs={"wild", "a1"}, PeerAddrs={"a1"},
              SwAddrs={"a1", "a2"}, SwPorts={5000, 49152}, MaxSocks=4, MaxOps=4 if q else 5),
         plain + ["ConnectUdpMC"]),
    ]
    if not q:
        cfgs.append(("mc_3hosts", "Spec",
                     base(Hosts={1, 2, 3}, BindHosts={1, 3}, BindAddrs={"wild", "a2", "c1"},
                          BindPorts={5000, 0}, PeerAddrs={"b1", "c1"}, ConnHosts={2, 3},
                          ConnAddrs={"a2", "c1", "lo"}, ConnPorts={5000}, MaxSocks=4, MaxOps=4,
                          SwAddrs={"lo", "a1", "a2", "c1", "x"}, SwPorts={5000, 49152}),
                     plain + ["ConnectMC", "ConnectUdpMC"]))
    return cfgs


# a listener is closed while a connection it accepted stays open: the child (bound to the concrete address it was
# accepted on) is the only live socket left on the port - re-binds of that port (same address / wildcard / the other
# own address) and port-0 binds (the listener sat on the first ephemeral port, the cursor still points at it) must
# see it.  4 operations: bind, connect, close listener, bind.  Same shape with a handshake that stalls until the
# server side gives up (every SYN-ACK lost): the half-open child must be gone, so after the listener is closed the
# port can be bound again, and a later SYN from the same client tuple reaches the listener again.
GEN_CHILD = ("gen_child", base(NoWrap=True, Protos={"tcp"}, BindAddrs={"wild", "a1", "a2"}, BindPorts={49152, 0},
                               ConnHosts={2}, ConnAddrs={"a1"}, ConnPorts=set(), StallHosts={2}, MaxSocks=4, MaxOps=4,
                               SwAddrs={"a1", "a2"}, SwPorts={49152}))


def gen_configs(tier):
    """Behaviour generation.  NoWrap: no allocation scans past EphHi, so the
    3-port model and the real 16 384-port range behave identically."""
    q = tier == "quick"
    if q:
        return [
            # every sequence of 3 binds / closes over the full address set, both protocols, fixed + ephemeral
            ("gen_bind", base(NoWrap=True, MaxSocks=3, MaxOps=3, SwPorts={5000, 49152})),
            # binds, UDP connects, TCP connects (loopback, own, foreign, unknown), closes of connections
            ("gen_conn", base(NoWrap=True, BindHosts={1}, BindAddrs={"wild", "lo", "a1"}, BindPorts={5000},
                              PeerAddrs={"a1", "b1"}, ConnHosts={1, 2}, ConnAddrs={"lo", "a1", "a2", "x", "wild"},
                              ConnPorts={5000}, MaxSocks=4, MaxOps=3, SwPorts={5000})),
            GEN_CHILD,
        ]
    cfgs = [
        GEN_CHILD,
        ("gen_mix", base(NoWrap=True, BindAddrs={"wild", "lo", "a1", "a2", "b1"}, BindPorts={5000, 0},
                         PeerAddrs={"a1", "b1"}, ConnHosts={1, 2}, ConnAddrs={"lo", "a1", "a2", "x", "wild"},
                         ConnPorts={5000}, MaxSocks=4, MaxOps=3, SwPorts={5000, 49152, 49153})),
        ("gen_fam", base(NoWrap=True, Fams={4, 6}, BindAddrs={"wild", "a1"}, BindPorts={5000, 0},
                         PeerAddrs={"a1"}, ConnHosts={2}, ConnAddrs={"a1"}, ConnPorts={5000},
                         MaxSocks=4, MaxOps=3, SwAddrs={"lo", "a1", "a2"}, SwPorts={5000, 49152})),
        ("gen_host2", base(NoWrap=True, BindHosts={1, 2}, BindAddrs={"wild", "a1", "b1"},
                           BindPorts={5000, 0}, PeerAddrs={"b1"}, ConnHosts={1, 2},
                           ConnAddrs={"a1", "b1", "lo"}, ConnPorts={5000}, MaxSocks=4, MaxOps=3,
                           SwAddrs={"lo", "a1", "b1", "x"}, SwPorts={5000, 49152})),
        ("gen_deep", base(NoWrap=True, BindAddrs={"wild", "a1", "a2"}, BindPorts={5000},
                          PeerAddrs={"b1"}, ConnHosts={2}, ConnAddrs={"a1", "a2"}, ConnPorts={5000},
                          MaxSocks=5, MaxOps=5, SwAddrs={"a1", "a2"}, SwPorts={5000})),
        # the real range shrunk to 3 free ports by a block of pre-bound sockets: wrap-around and
        # exhaustion of the real allocator
        ("gen_wrap", base(Hosts={1}, EphHi=REAL_EPH[1], FillFrom=49155, Protos={"udp"},
                          BindAddrs={"wild", "a1"}, BindPorts={0, 49153}, MaxSocks=6, MaxOps=4,
                          SwAddrs={"a1"}, SwPorts={49152, 49153})),
        # two free ports, every sequence of 5 port-0 binds / closes (all replayed): includes "range full, the
        # socket bound last is closed, bind :0 again" = one free port right behind the cursor
        ("gen_wrap2", base(Hosts={1}, EphHi=REAL_EPH[1], FillFrom=49154, Protos={"udp"},
                           BindAddrs={"wild"}, BindPorts={0}, MaxSocks=6, MaxOps=5,
                           SwAddrs={"a1"}, SwPorts={49152, 49153})),
    ]
    return cfgs


def random_configs(tier, seed):
    q = tier == "quick"
    runs = 25 if q else 150
    return [dict(n=3, runs=runs, ops=16, probes=12, seed=seed * 101 + 1),
            dict(n=2, runs=runs, ops=20 if q else 30, probes=10, seed=seed * 101 + 2)]


def replay_args(consts):
    addrs = [a for a in ADDR_ORDER if a in consts["SwAddrs"]]
    ports = sorted(consts["SwPorts"])
    a = [f"n={len(consts['Hosts'])}", "fams=" + ",".join(str(f) for f in sorted(consts["Fams"])),
         "addrs=" + ",".join(addrs), "ports=" + ",".join(str(p) for p in ports)]
    if consts["FillFrom"]:
        a += [f"fill={consts['FillFrom']}", "fillprotos=" + ",".join(sorted(consts["Protos"], reverse=True)),
              "fillhosts=" + ",".join(str(h) for h in sorted(consts["BindHosts"]))]
    return a


def trace_impl_consts(n):
    return base(Hosts=set(range(1, n + 1)), EphLo=REAL_EPH[0], EphHi=REAL_EPH[1], Fams={4, 6},
                BindHosts=set(range(1, n + 1)), BindAddrs=set(), BindPorts=set(), ConnPorts={5000, 5001},
                MaxSocks=10 ** 6, MaxOps=10 ** 6, SwAddrs=set(), SwPorts=set())


def T(tag):
    """Work-directory tag unique to this process: two concurrent runs of the check (e.g. bin/mutcheck next to a
    plain run) must not wipe each other's scratch files."""
    return f"{PID}_{os.getpid()}_{tag}"


def cleanup():
    for d in glob.glob(os.path.join(vlib.WORK, f"{PID}_{os.getpid()}_*")):
        shutil.rmtree(d, ignore_errors=True)


def validate_trace(path, n, tag, impl=True):
    """(prop_result, impl_result): TLC on KSockPropTrace / KSockTrace with the real port range."""
    env = {"TRACE": os.path.abspath(path)}
    pcfg = vlib.cfg_text("TSpec", dict(Hosts=set(range(1, n + 1)), EphLo=REAL_EPH[0], EphHi=REAL_EPH[1]),
                         invariants=PROP_INVS, postcondition="Accepted")
    pr = vlib.run_tlc(SUB, "KSockPropTrace", pcfg, tag + "_prop", workers=1, env=env, dfs=True, heap="3g", timeout=900)
    if pr.error or pr.timed_out:
        raise MachineryError(f"trace validation (prop) failed: {pr.error or 'timeout'}")
    ir = None
    if impl:
        icfg = vlib.cfg_text("TSpec", trace_impl_consts(n), invariants=PROP_INVS + ["ImplInv"],
                             postcondition="Accepted")
        ir = vlib.run_tlc(SUB, "KSockTrace", icfg, tag + "_impl", workers=1, env=env, dfs=True, heap="3g", timeout=900)
        if ir.error or ir.timed_out:
            raise MachineryError(f"trace validation (impl) failed: {ir.error or 'timeout'}")
    return pr, ir


def crashed_at(spath):
    try:
        return int(open(spath + ".progress").read().strip())
    except (OSError, ValueError):
        return None


def rejected(r):
    return bool(r.violated or r.unmatched)


def trace_stats(path):
    st = {}
    with open(path) as f:
        for line in f:
            e = json.loads(line)
            k = e["ev"]
            if k.startswith("probe") or k == "data":
                k += ":observed" if e["obs"] else ":" + e.get("reply", "nobody")
            elif k == "stall":
                k += ":" + e["reply"]
            elif k in ("bind", "connect"):
                k += ":" + e["res"] + (":port0" if e.get("port") == 0 else "")
            st[k] = st.get(k, 0) + 1
            if e["ev"] in ("probe_udp", "probe_syn", "connect") and e.get("da") == "wild":
                st["probe_to_unspecified"] = st.get("probe_to_unspecified", 0) + 1
            if e["ev"] == "bind" and e.get("after_listener_close"):
                st["rebind_after_listener_close"] = st.get("rebind_after_listener_close", 0) + 1
    return st


def jsonable(c):
    return {k: (sorted(v, key=str) if isinstance(v, (set, frozenset)) else v) for k, v in c.items()}


def unjson(c):
    return {k: (set(v) if isinstance(v, list) else v) for k, v in c.items()}


def run(pid, tier, seed, replay=None):
    try:
        return run_(pid, tier, seed, replay)
    finally:
        cleanup()


def run_(pid, tier, seed, replay=None):
    ck = vlib.Check(pid, tier, seed)
    ck.assumptions = [
        "sockets are created through the shim (UdpSocket::bind, TcpListener::bind = bind + listen, TcpStream::connect); "
        "SO_REUSEADDR / SO_REUSEPORT cannot be set through it, so exact and wildcard bindings of one port never coexist "
        "for UDP; IPv4 and IPv6 are disjoint name spaces (no dual-stack sockets in the crate)",
        "the harness is the wire: every packet leaving a host is delivered at once; probes are tagged datagrams from a "
        "prober socket per host, bare SYNs put on the wire by the harness (never for loopback / own-address "
        "destinations, which never are on the wire), and tagged bytes on established streams; TCP over loopback and "
        "own addresses is probed with real connects",
        "TCP sockets are closed either as listeners or as whole connections (both ends, close handshake run to "
        "completion); half-closed connections and lingering sockets are outside the alphabet; a connect to a free "
        "ephemeral port of the connecting host itself (self-connect) is outside the alphabet",
        "the ephemeral range of the real code is fixed (16 384 ports): the model uses 3 ports; wrap-around and "
        "exhaustion on the real code are exercised by pre-binding all but a few ports (a scripted prologue plus random operations in both tiers, TLC behaviours of the pre-filled range in the thorough tier)",
        "TLC results hold for the stated small constants; larger parameters are sampled by recorded-trace validation",
    ]
    vlib.build_harness(["ksock"])
    if replay:
        return do_replay(ck, replay)
    w = vlib.workdir(T("files"))

    # 1. design level ------------------------------------------------------
    for name, spec, consts, need in mc_configs(tier):
        cfg = vlib.cfg_text(spec, consts, invariants=PROP_INVS + ["ImplInv", "SweepAgrees"], view="View")
        r = vlib.run_tlc(SUB, "KSock", cfg, T(name), workers=10, timeout=1700 if tier == "thorough" else 400,
                         coverage=True, heap="12g")
        ck.add_tlc(r, name, exhaustive=True)
        log(f"[{pid}] {name}: {r.distinct} distinct states, {r.generated} generated, depth {r.depth}, {r.wall:.0f}s")
        if r.violated or r.error or r.timed_out:
            log(vlib.counterexample_text(r))
            raise MachineryError(f"design-level check {name} did not pass: the committed ImplSpec does not satisfy the "
                                 f"PropSpec ({r.violated or r.error or 'timeout'}); the spec must be repaired first")
        missing = [a for a in need if r.coverage.get(a, 0) == 0]
        if missing:
            raise MachineryError(f"vacuity: actions / outcome classes never taken in {name}: {missing}")

    # 2. spec -> code -------------------------------------------------------
    for name, consts in gen_configs(tier):
        cfg = vlib.cfg_text("GenSpec", consts, invariants=["Emit"] + PROP_INVS + ["ImplInv"])
        r = vlib.run_tlc(SUB, "KSockGen", cfg, T(name), workers=10, timeout=1700, heap="12g")
        if r.violated or r.error or r.timed_out:
            log(vlib.counterexample_text(r))
            raise MachineryError(f"behaviour generation {name} failed ({r.violated or r.error or 'timeout'})")
        behs = vlib.extract_replays(r.stdout)
        r.stdout = ""
        ck.add_tlc(r, name)
        if not behs:
            raise MachineryError(f"behaviour generation {name} produced nothing")
        generated = len(behs)
        if consts["FillFrom"] and len(behs) > MAX_FILL_BEHAVIOURS:
            # every behaviour on the pre-filled real range costs ~0.5 s (16 381 binds): replay a seeded sample
            behs = random.Random(seed).sample(behs, MAX_FILL_BEHAVIOURS)
        bpath = os.path.join(w, f"{name}.ndjson")
        with open(bpath, "w") as f:
            f.write("\n".join(behs) + "\n")
        spath = os.path.join(w, f"{name}.summary.json")
        try:
            out = vlib.run_driver("ksock", ["replay", f"in={bpath}", f"out={spath}", f"traces={w}"] + replay_args(consts))
        except MachineryError:
            # the driver process died (a panic of the code under test while another panic was unwinding
            # aborts): the behaviour that was running is data - no admissible result of any call
            k = crashed_at(spath)
            if k is None:
                raise
            log(f"[{pid}] {name}: the code under test aborted the driver while behaviour #{k} was replayed")
            ck.violation({"kind": "behaviour", "property": pid, "config": name, "consts": jsonable(consts),
                          "behaviour": json.loads(behs[k]), "divergence": {"what": "abort", "line": k}})
            ck.traces += k
            continue
        s = json.load(open(spath))
        log(f"[{pid}] {name}: {generated} TLC behaviours ({r.wall:.0f}s), {out.strip()}")
        ck.traces += s["behaviours"]
        ck.evaluations += s["behaviours"]
        ck.nontrivial += s["nontrivial"]
        for smp in s["samples"][:1]:
            ck.sample({"kind": "tlc behaviour replayed on the real turmoil-net", "config": name, **smp})
        # the driver keeps two divergent behaviours of every kind (what diverged, wanted / observed result);
        # all of them are judged until MAX_JUDGED violations have been reported for this configuration
        v0, judged = ck.violations, 0
        for d in s["divergences"]:
            if ck.violations - v0 >= MAX_JUDGED:
                break
            judge_divergence(ck, name, consts, d)
            judged += 1
        ck.impl_drift += s["divergent"]
        if s["divergent"] > judged:
            log(f"[{pid}] note: {s['divergent']} divergent behaviours in {name}, {judged} (two of every kind) were "
                f"judged by the PropSpec")
        if os.path.exists(bpath):
            os.remove(bpath)

    # 3. code -> spec -------------------------------------------------------
    first = True
    stats_all = {}
    for i, rc in enumerate(random_configs(tier, seed)):
        tpath = os.path.join(w, f"random_{i}.ndjson")
        args = ["random"] + [f"{k}={v}" for k, v in rc.items()]
        out = vlib.run_driver("ksock", args + [f"out={tpath}"])
        pr, ir = validate_trace(tpath, rc["n"], T(f"rnd{i}"))
        ck.add_tlc(pr, f"trace_prop_{i}")
        ck.add_tlc(ir, f"trace_impl_{i}")
        ck.traces += rc["runs"]
        ck.evaluations += rc["runs"]
        ck.nontrivial += rc["runs"]
        st = trace_stats(tpath)
        for k, v in st.items():
            stats_all[k] = stats_all.get(k, 0) + v
        log(f"[{pid}] random {rc}: {out.strip()} -> prop {'ok' if not rejected(pr) else 'REJECTED'}, "
            f"impl {'ok' if not rejected(ir) else 'drift'}")
        if first:
            with open(tpath) as f:
                ck.sample({"kind": "recorded trace excerpt", "config": rc,
                           "events": [json.loads(x) for _, x in zip(range(14), f)]})
            first = False
        if rejected(pr):
            ck.violation({"kind": "random", "property": pid, "args": args, "cfg": rc,
                          "violated_clause": pr.violated, "unmatched": pr.unmatched,
                          "tlc": vlib.counterexample_text(pr, 3000)})
        elif rejected(ir):
            ck.impl_drift += 1
            log(f"[{pid}] note: implementation trace left the ImplSpec at event {ir.unmatched} "
                f"({ir.violated}); PropSpec accepted it (drift, no alarm)")
    ck.extra["random_trace_event_classes"] = stats_all
    # vacuity of the random direction: every outcome class must have been recorded
    need = ["bind:Ok", "bind:Ok:port0", "bind:AddrInUse", "bind:AddrNotAvailable", "rebind_after_listener_close",
            "probe_to_unspecified", "stall:synack", "connect:Ok", "connect:Refused",
            "connect:NoReply", "probe_udp:observed", "probe_udp:nobody", "probe_syn:observed", "probe_syn:rst",
            "probe_syn:none", "data:observed", "close", "connect_udp"]
    missing = [k for k in need if stats_all.get(k, 0) == 0]
    if missing and not ck.violations:      # (a misbehaving stack may well make a class disappear)
        raise MachineryError(f"vacuity: random scenarios never recorded {missing}")

    if True:
        # the real allocator on the real range (both tiers; thorough runs more random operations): all but 3-5
        # ports pre-bound, then a fixed prologue - take every free port, free the one handed out last (the only
        # free port then sits right behind the cursor) and bind :0 again, free the first one (the scan wraps
        # around), exhaustion, reuse after a failed attempt - followed by random port-0 binds / closes / probes
        tpath = os.path.join(w, "exhaust.ndjson")
        args = ["exhaust", f"seed={seed}", f"ops={8 if tier == 'quick' else 40}"]
        out = vlib.run_driver("ksock", args + [f"out={tpath}"])
        pr, ir = validate_trace(tpath, 2, T("exhaust"))
        ck.add_tlc(pr, "trace_prop_exhaust")
        ck.add_tlc(ir, "trace_impl_exhaust")
        ck.traces += 2
        st = trace_stats(tpath)
        ck.extra["exhaust_trace_event_classes"] = st
        log(f"[{pid}] exhaust: {out.strip()} {st} -> prop {'ok' if not rejected(pr) else 'REJECTED'}, "
            f"impl {'ok' if not rejected(ir) else 'drift'}")
        if (st.get("bind:AddrInUse:port0", 0) == 0 or st.get("bind:Ok:port0", 0) == 0) and not ck.violations:
            raise MachineryError("vacuity: the exhaustion scenario did not exhaust the range")
        if rejected(pr):
            ck.violation({"kind": "exhaust", "property": pid, "args": args, "cfg": {"n": 2, "runs": 2},
                          "violated_clause": pr.violated, "unmatched": pr.unmatched,
                          "tlc": vlib.counterexample_text(pr, 3000)})
        elif rejected(ir):
            ck.impl_drift += 1
            log(f"[{pid}] note: exhaustion trace left the ImplSpec at event {ir.unmatched} (drift, no alarm)")

    # binding demonstration: a corrupted trace must be rejected ----------------
    rc = random_configs(tier, seed)[0]
    tpath = os.path.join(w, "random_0.ndjson")
    bad = os.path.join(w, "random_0_corrupt.ndjson")
    what = corrupt_trace(tpath, bad)
    if what:
        pr, _ = validate_trace(bad, rc["n"], T("bind"), impl=False)
        ck.extra["binding_demo"] = {"corruption": what, "rejected": rejected(pr), "clause": pr.violated}
        if not rejected(pr):
            raise MachineryError("binding demonstration failed: corrupted trace was accepted")
    elif not ck.violations:
        raise MachineryError("binding demonstration: nothing to corrupt in the recorded trace")
    ck.extra["rule"] = ("behaviours: every action sequence of KSockGen within the bounds (distinct by construction), each "
                        "step followed by the probe sweep; non-trivial = contains a failing call (AddrInUse / "
                        "AddrNotAvailable / Refused / NoReply) and at least one probe that was observed by a socket. "
                        "random runs: one seeded scenario each")
    return ck.finish()


def corrupt_trace(src, dst):
    """Re-attribute one observed UDP probe to nobody."""
    lines = open(src).read().splitlines()
    idx = [i for i, l in enumerate(lines) if '"ev":"probe_udp"' in l and '"obs":[]' not in l]
    if not idx:
        return None
    i = idx[len(idx) // 2]
    e = json.loads(lines[i])
    e["obs"] = []
    lines[i] = json.dumps(e, separators=(",", ":"))
    open(dst, "w").write("\n".join(lines) + "\n")
    return f"event {i + 1}: an observed probe_udp recorded as observed by nobody"


def judge_divergence(ck, name, consts, d):
    """The real code left the ImplSpec on a TLC behaviour: ask the PropSpec."""
    pid = ck.pid
    tr = d.get("trace")
    payload = {"kind": "behaviour", "property": pid, "config": name, "consts": jsonable(consts),
               "behaviour": d.get("behaviour"),
               "divergence": {k: v for k, v in d.items() if k not in ("behaviour", "trace", "line")}}
    if not tr or d.get("what") == "panic":
        ck.violation(payload)
        return
    pr, _ = validate_trace(tr, len(consts["Hosts"]), T("div"), impl=False)
    if rejected(pr):
        ck.violation(dict(payload, violated_clause=pr.violated, unmatched=pr.unmatched,
                          tlc=vlib.counterexample_text(pr, 3000)))
    else:
        log(f"[{pid}] drift: behaviour #{d.get('line')} diverged from the ImplSpec ({d.get('what')}: want "
            f"{d.get('want')}, got {d.get('got')}) but the PropSpec accepts the observation")


def do_replay(ck, path):
    rp = json.load(open(path))
    pid = ck.pid
    w = vlib.workdir(T("replay"))
    if rp["kind"] == "behaviour":
        consts = unjson(rp["consts"])
        bpath = os.path.join(w, "beh.ndjson")
        open(bpath, "w").write(json.dumps(rp["behaviour"]) + "\n")
        spath = os.path.join(w, "summary.json")
        try:
            vlib.run_driver("ksock", ["replay", f"in={bpath}", f"out={spath}", f"traces={w}"] + replay_args(consts))
            s = json.load(open(spath))
        except MachineryError:
            if crashed_at(spath) is None:
                raise
            log(f"[{pid}] replay: the code under test aborted the driver")
            ck.violation(dict(rp, divergence={"what": "abort"}))
            s = {"divergences": [None]}
        ck.traces = ck.evaluations = 1
        if not s["divergences"]:
            log(f"[{pid}] replay: behaviour now matches the ImplSpec prediction")
        for d in s["divergences"]:
            if d is not None:
                judge_divergence(ck, rp.get("config", "replay"), consts, d)
    else:
        tpath = os.path.join(w, "trace.ndjson")
        vlib.run_driver("ksock", rp["args"] + [f"out={tpath}"])
        rc = rp["cfg"]
        pr, _ = validate_trace(tpath, rc["n"], T("replay_t"), impl=False)
        ck.add_tlc(pr, "replay")
        ck.traces = ck.evaluations = rc["runs"]
        if rejected(pr):
            ck.violation(dict(rp, violated_clause=pr.violated, unmatched=pr.unmatched))
        else:
            log(f"[{pid}] replay: trace accepted by the PropSpec")
    ck.states = max(ck.states, 1)
    ck.transitions = max(ck.transitions, 1)
    ck.nontrivial = 2
    ck.sample({"replayed": path})
    return ck.finish()
