"""C05 / C11 / C04: the simulation loop, the virtual clocks, crash and bounce (specs/simrun).

C05, C11 use SimRunProp (PropSpec) / SimRun (ImplSpec of sim.rs step / run / crash / bounce, rt.rs tick,
host.rs HostTimer); C04 uses SimCrashProp / SimCrash (crash + bounce composed with a compact model of
turmoil::net's message-level TCP / UDP tables and socket destructors).

Per property:
  1. design level   - TLC checks the ImplSpec against the property's clauses of the PropSpec
                      exhaustively for small constants (coverage of every action required);
                      for a property with an open known finding a tiny extra run shows that
                      the family clause is reachable (expected violation);
  2. spec -> code   - TLC enumerates every behaviour of the Gen spec up to a bound (for C04 this is
                      the fault enumeration: a crash / bounce at every step index of every small
                      workload); each is executed on the real Sim and everything observed is compared
                      with TLC's prediction; divergent behaviours are judged by the PropSpec alone;
                      witnesses of known findings (corpus/) are re-executed and judged by the PropSpec;
  3. code -> spec   - seeded random scenarios are recorded and validated by TLC against the
                      PropSpec trace spec (verdict) and the ImplSpec trace spec (fidelity);
  4. binding        - a corrupted recorded trace must be rejected.
"""
import json
import os

import vlib
from vlib import MachineryError, log

SUB = "simrun"
DRIVER = "simrun"

INVS = {
    "C05": ["ClockStep", "Window", "Consistent", "Monotone", "TimerExact"],
    "C11": ["StepResult", "RunResult", "RunInTime", "NoRepoll", "PanicSurfaces"],
    "C04": ["GuardsRan", "StopsDead", "NotRunning", "TablesEmpty", "PeersUnblocked", "Rebind",
            "StaleConnect", "StaleDatagram", "FactoryOnce", "Undisturbed"],
}
# Open findings proposed by this subsystem (the lead copies them into known_findings.json; an entry
# there with the same id takes precedence).  `clause` is the family clause of the PropSpec.
PROPOSED_FINDINGS = {
    "C11": [{"id": "C11-late-run", "property": "C11", "clause": "NoLateRun", "witness": "corpus/C11-late-run.json",
             "what": "Sim::run started after the simulation duration has elapsed returns Ok if the clients finish "
                     "within its first step (duration not enforced on a step that begins after it elapsed)"}],
}
ALL_OPS = {"register", "step", "run", "crash", "bounce"}
KINDS = {"client", "host"}


# ---------------------------------------------------------------------------
# configurations

def sr(**kw):
    """constants of SimRun"""
    c = dict(Tick=2, Duration=5, Epoch=1000, MaxNodes=2, Kinds=KINDS, Waits={0, 2, 5}, MaxPat=1,
             Outs={"Ok", "Err", "Panic", "Never"}, TWaits={1}, MaxTPat=1, TOuts={"none"}, RandomOrder=False,
             CtlOps={"register", "run", "step"}, MaxCtl=4, MaxSteps=9, DetTies=False)
    c.update(kw)
    return c


def sc(**kw):
    """constants of SimCrash"""
    c = dict(LatSteps=1, Tick=2, Cap=1, MaxConn=1, Ops={"listen", "accept", "connect", "read", "write"},
             Faults={"crash", "bounce"}, Targets={1}, MaxOps=5, MaxFaults=1, MaxSteps=5, Lis=1,
             LatChoices=set(), MaxLat=0, Writers={1, 2}, Early=False, EphPorts=0, WriterFixed=True, HalfOpenFixed=True)
    c.update(kw)
    return c


TCP = {"listen", "accept", "connect", "read", "write"}
UDP = {"ubind", "usend", "bg"}


def mc_configs(pid, tier):
    q = tier == "quick"
    if pid == "C11":
        cfgs = [
            # every outcome mix of two nodes around the duration boundary (duration not a multiple of the tick)
            ("mc_run_outcomes", sr(Tick=2, Duration=5, Waits={0, 2, 5}, CtlOps={"register", "run", "step"}, MaxCtl=4)),
            # spawned tasks (panic / Err), crashed and bounced hosts, random order, exact boundary (duration = 2 ticks)
            ("mc_run_tasks", sr(Tick=3, Duration=6, Waits={1, 6}, Outs={"Ok", "Err", "Never"}, TWaits={2},
                                TOuts={"none", "Panic", "Err"}, RandomOrder=True,
                                CtlOps={"register", "run", "crash", "bounce"}, MaxCtl=4)),
        ]
        if not q:
            cfgs.append(("mc_run_3nodes", sr(Tick=2, Duration=4, MaxNodes=3, Waits={0, 3, 4}, Outs={"Ok", "Err", "Never"},
                                             CtlOps={"register", "run"}, MaxCtl=5, RandomOrder=True)))
            cfgs.append(("mc_run_t1", sr(Tick=1, Duration=3, Waits={0, 1, 3, 4}, TWaits={2}, TOuts={"none", "Panic"},
                                         CtlOps=ALL_OPS, MaxCtl=5)))
        return cfgs
    if pid == "C05":
        cfgs = [
            # tick that does not divide the sleeps, two waits per task, spawned task, crash / bounce at every step
            ("mc_clock_t2", sr(Tick=2, Duration=100, Waits={1, 3}, MaxPat=2, Outs={"Never"}, TWaits={2, 5}, MaxTPat=1,
                               TOuts={"none", "Never"}, Kinds={"host"}, CtlOps={"register", "step", "crash", "bounce"},
                               MaxCtl=5)),
            # tick longer than the sleeps, clients registered between steps, random order
            ("mc_clock_t5", sr(Tick=5, Duration=100, Waits={1, 2, 7}, MaxPat=1, Outs={"Ok", "Never"}, TWaits={3},
                               TOuts={"none", "Never"}, RandomOrder=True, CtlOps={"register", "step", "bounce"},
                               MaxCtl=5)),
        ]
        # the duration is exceeded with a client unfinished and the test keeps stepping / registers more nodes
        cfgs.append(("mc_clock_overrun", sr(Tick=2, Duration=3, MaxNodes=2, Waits={1}, MaxPat=1, Outs={"Never"},
                                            TOuts={"none"}, CtlOps={"register", "step", "run"}, MaxCtl=6)))
        # repeated / idempotent fault calls: crash of a crashed or finished host, bounce of a running host, ...
        cfgs.append(("mc_clock_refault", sr(Tick=3, Duration=100, MaxNodes=1, Kinds={"host"}, Waits={1}, MaxPat=1,
                                            Outs={"Never", "Ok"}, TOuts={"none"},
                                            CtlOps={"register", "step", "crash", "bounce"}, MaxCtl=8 if q else 10)))
        if not q:
            cfgs.append(("mc_clock_t1", sr(Tick=1, Duration=100, Waits={1, 3}, MaxPat=2, Outs={"Never", "Ok"},
                                           TWaits={2}, TOuts={"none", "Never"}, MaxNodes=2,
                                           CtlOps={"register", "step", "run", "crash", "bounce"}, MaxCtl=5)))
            cfgs.append(("mc_clock_t3_3nodes", sr(Tick=3, Duration=100, Waits={2, 7}, MaxPat=1, Outs={"Never"}, MaxNodes=3,
                                                  TOuts={"none"}, RandomOrder=True,
                                                  CtlOps={"register", "step", "crash", "bounce"}, MaxCtl=6)))
        return cfgs
    if pid == "C04":
        cfgs = [
            # listener crashed / bounced in every TCP phase (listening, queued SYN, idle, unread data, blocked peer)
            ("mc_crash_listener", sc(Ops=TCP, Targets={1}, Lis=1, MaxOps=5, MaxFaults=1 if q else 2,
                                     MaxSteps=5 if q else 6)),
            # connector crashed (mid-connect, established, with pending reads / writes)
            ("mc_crash_connector", sc(Ops=TCP, Targets={2}, Lis=1, MaxOps=4 if q else 5, MaxFaults=1, MaxSteps=5)),
            # UDP socket + multicast membership + background tasks, both hosts crashable, two cycles
            ("mc_crash_udp", sc(Ops=UDP, Targets={1, 2}, MaxOps=4 if not q else 3, MaxFaults=2, MaxSteps=4 if not q else 3)),
            # latency changed between sends: segments overtake each other, reorder buffer, capacity 2
            ("mc_crash_reorder", sc(Ops={"listen", "accept", "connect", "write"} | (set() if q else {"read"}),
                                    Faults={"crash"}, Targets={1},
                                    Writers={2}, Early=True, Cap=2, LatChoices={1, 3}, MaxLat=2, MaxOps=6 if q else 7,
                                    MaxFaults=1, MaxSteps=6 if q else 7)),
            # connector's turn first (Lis = 2): accept() returns at once and the stream is used in the same turn
            ("mc_crash_conn_first", sc(Ops=TCP, Targets={1}, Lis=2, MaxOps=4 if q else 5, MaxFaults=1 if q else 2,
                                       MaxSteps=4 if q else 5)),
        ]
        if not q:
            cfgs.append(("mc_crash_2conn_lat2", sc(Ops=TCP, Targets={1}, Lis=1, LatSteps=2, Cap=2, MaxConn=2, MaxOps=6,
                                                   MaxFaults=1, MaxSteps=6)))
        return cfgs
    raise ValueError(pid)


def gen_configs(pid, tier):
    """behaviour generation: fixed host order, deterministic tie-break"""
    q = tier == "quick"
    if pid == "C11":
        cfgs = [("gen_run", sr(Tick=2, Duration=5, Waits={0, 2, 3, 5}, TWaits={1, 4}, TOuts={"none", "Panic"},
                               CtlOps={"register", "run"}, MaxCtl=3, DetTies=True)),
                ("gen_run_steps", sr(Tick=3, Duration=6, Waits={1, 6}, Outs={"Ok", "Err", "Never"}, TOuts={"none"},
                                     CtlOps={"register", "run", "step", "crash", "bounce"}, MaxCtl=4, DetTies=True))]
        if not q:
            cfgs.append(("gen_run_3nodes", sr(Tick=2, Duration=4, MaxNodes=3, Waits={0, 3, 4}, Outs={"Ok", "Err", "Never"},
                                              CtlOps={"register", "run"}, MaxCtl=5, DetTies=True)))
        return cfgs
    if pid == "C05":
        cfgs = [("gen_clock", sr(Tick=2, Duration=100, Waits={1, 3}, MaxPat=2, Outs={"Never"}, TWaits={2, 5},
                                 TOuts={"none", "Never"}, Kinds={"host"}, CtlOps={"register", "step", "crash", "bounce"},
                                 MaxCtl=4, DetTies=True)),
                ("gen_clock_t5", sr(Tick=5, Duration=100, Waits={1, 2, 7}, MaxPat=1, Outs={"Ok", "Never"}, TWaits={3},
                                    TOuts={"none", "Never"}, CtlOps={"register", "step", "bounce"}, MaxCtl=4,
                                    DetTies=True))]
        cfgs.append(("gen_clock_overrun", sr(Tick=2, Duration=3, MaxNodes=2, Waits={1}, MaxPat=1, Outs={"Never"},
                                             TOuts={"none"}, CtlOps={"register", "step", "run"}, MaxCtl=6,
                                             DetTies=True)))
        cfgs.append(("gen_clock_refault", sr(Tick=3, Duration=100, MaxNodes=1, Kinds={"host"}, Waits={1}, MaxPat=1,
                                             Outs={"Never", "Ok"}, TOuts={"none"},
                                             CtlOps={"register", "step", "crash", "bounce"}, MaxCtl=8 if q else 9,
                                             DetTies=True)))
        if not q:
            cfgs.append(("gen_clock_t3", sr(Tick=3, Duration=100, Waits={2, 7}, MaxPat=2, Outs={"Never", "Ok"},
                                            TWaits={1}, TOuts={"none", "Never"},
                                            CtlOps={"register", "step", "crash", "bounce"}, MaxCtl=4,
                                            DetTies=True)))
        return cfgs
    if pid == "C04":
        cfgs = [("gen_crash_listener", sc(Ops=TCP, Targets={1}, Lis=1, MaxOps=4, MaxFaults=1, MaxSteps=5)),
                ("gen_crash_connector", sc(Ops=TCP, Targets={2}, Lis=1, MaxOps=4, MaxFaults=1, MaxSteps=4)),
                ("gen_crash_udp_v6", sc(Ops=UDP, Targets={1}, MaxOps=3, MaxFaults=1, MaxSteps=3)),
                # the crashed host is the sender: capacity segments unread at the peer when the FIN arrives,
                # the peer reads afterwards (data, then end-of-file)
                ("gen_crash_sender", sc(Ops={"listen", "accept", "connect", "write", "read"}, Faults={"crash"},
                                        Targets={1}, Writers={1}, Early=True, MaxOps=6, MaxFaults=1, MaxSteps=6)),
                ("gen_crash_conn_first", sc(Ops=TCP, Targets={1}, Lis=2, MaxOps=4, MaxFaults=1, MaxSteps=4)),
                # a writer parked for send credit when the reader's host crashes (needs 5 operations)
                ("gen_crash_writer", sc(Ops={"listen", "accept", "connect", "write"}, Faults={"crash"}, Targets={1},
                                        MaxOps=5, MaxFaults=1, MaxSteps=5)),
                # segments overtake each other (set_link_latency between sends): the crashed host's unread data
                # sits only in the reorder buffer, the peer is parked in write (capacity 2, needs 6 operations)
                ("gen_crash_reorder", sc(Ops={"listen", "accept", "connect", "write"}, Faults={"crash"}, Targets={1},
                                         Writers={2}, Early=True, Cap=2, LatChoices={1, 3}, MaxLat=2, MaxOps=6,
                                         MaxFaults=1, MaxSteps=6)),
                # a narrow ephemeral port range (2 ports) and repeated connects / crash / bounce of the connector:
                # the ports of refused and abandoned connects must be free again when the allocation wraps
                ("gen_crash_ports", sc(Ops={"connect"}, Faults={"crash", "bounce"}, Targets={2}, MaxConn=3, MaxOps=3,
                                       MaxFaults=2, MaxSteps=5, EphPorts=2)),
                # several hosts selected by one regex call (adjacent crash 1, crash 2 = one Sim::crash(Regex)),
                # also when the first member of the group is already down
                ("gen_crash_regex", sc(Ops={"bg"}, Faults={"crash", "bounce"} if not q else {"crash"}, Targets={1, 2},
                                       MaxOps=1, MaxFaults=3, MaxSteps=3)),
                # the mirror image: the acceptor is the parked writer, the connector holds unread data and crashes
                ("gen_crash_writer_acc", sc(Ops={"listen", "accept", "connect", "write"}, Faults={"crash"}, Targets={2},
                                            MaxOps=5, MaxFaults=1, MaxSteps=5))]
        if not q:
            cfgs = [("gen_crash_listener", sc(Ops=TCP, Targets={1}, Lis=1, MaxOps=5, MaxFaults=2, MaxSteps=5)),
                    ("gen_crash_connector", sc(Ops=TCP, Targets={2}, Lis=1, MaxOps=5, MaxFaults=1, MaxSteps=5)),
                    ("gen_crash_udp", sc(Ops=UDP, Targets={1, 2}, MaxOps=4, MaxFaults=1, MaxSteps=4)),
                    ("gen_crash_conn_first", sc(Ops=TCP, Targets={1, 2}, Lis=2, MaxOps=4, MaxFaults=2, MaxSteps=4)),
                    ("gen_crash_lat2", sc(Ops=TCP, Targets={1}, Lis=1, LatSteps=2, Cap=2, MaxOps=5, MaxFaults=1, MaxSteps=6)),
                    ("gen_crash_writer", sc(Ops={"listen", "accept", "connect", "write"}, Faults={"crash", "bounce"},
                                            Targets={1}, MaxOps=6, MaxFaults=1, MaxSteps=6)),
                    ("gen_crash_writer_acc", sc(Ops={"listen", "accept", "connect", "write"}, Faults={"crash", "bounce"},
                                                Targets={2}, MaxOps=6, MaxFaults=1, MaxSteps=6)),
                    ("gen_crash_reorder", sc(Ops={"listen", "accept", "connect", "write", "read"},
                                             Faults={"crash", "bounce"}, Targets={1}, Writers={2}, Early=True, Cap=2,
                                             LatChoices={1, 3}, MaxLat=2, MaxOps=6, MaxFaults=1, MaxSteps=6)),
                    ("gen_crash_regex", sc(Ops={"bg", "ubind"}, Faults={"crash", "bounce"}, Targets={1, 2}, MaxOps=2,
                                           MaxFaults=3, MaxSteps=3)),
                    ("gen_crash_udp_v6", sc(Ops=UDP, Targets={1, 2}, MaxOps=3, MaxFaults=2, MaxSteps=4)),
                    ("gen_crash_sender", sc(Ops={"listen", "accept", "connect", "write", "read"},
                                            Faults={"crash", "bounce"}, Targets={1}, Writers={1}, Early=True, Cap=2,
                                            MaxOps=7, MaxFaults=1, MaxSteps=7))]
        return cfgs
    raise ValueError(pid)


def random_configs(pid, tier, seed):
    q = tier == "quick"
    if pid == "C04":
        runs = 30 if q else 150
        base = [dict(tick=2, lat=1, cap=8, steps=14), dict(tick=1, lat=2, cap=8, steps=16, ip=6)]
        if not q:
            base += [dict(tick=3, lat=1, cap=8, steps=24), dict(tick=2, lat=3, cap=8, steps=20)]
        return [dict(c, runs=runs, seed=seed * 131 + i) for i, c in enumerate(base)]
    runs = 40 if q else 250
    mode = "clock" if pid == "C05" else "run"
    base = [dict(tick=2, duration=7, epoch=1000), dict(tick=5, duration=12, epoch=86400000)]
    if pid == "C05":
        base = [dict(tick=2, duration=100000, epoch=1000), dict(tick=5, duration=100000, epoch=86400000),
                dict(tick=1, duration=100000, epoch=0)]
    if not q:
        base += [dict(tick=3, duration=10 if pid == "C11" else 100000, epoch=7),
                 dict(tick=7, duration=20 if pid == "C11" else 100000, epoch=1234567)]
    cfgs = [dict(c, runs=runs, seed=seed * 131 + i, mode=mode) for i, c in enumerate(base)]
    if pid == "C05":
        # ticks that are not a whole number of milliseconds (time unit 500 us / 250 us: ticks of 2.5 ms and 0.75 ms):
        # only Sim::elapsed / since_epoch are read and no node is registered, see the `subms` mode of the driver
        cfgs += [dict(tick=5, duration=100000, epoch=1000, runs=10, seed=seed * 131 + 50, mode="subms", unit_us=500),
                 dict(tick=3, duration=100000, epoch=86400000, runs=10, seed=seed * 131 + 51, mode="subms", unit_us=250)]
    return cfgs


# ---------------------------------------------------------------------------
# helpers

def is_crash(pid):
    return pid == "C04"


def modules(pid):
    return ("SimCrash", "SimCrashGen", "SimCrashPropTrace", "SimCrashTrace") if is_crash(pid) else \
           ("SimRun", "SimRunGen", "SimRunPropTrace", "SimRunTrace")


def need_actions(pid, consts):
    if is_crash(pid):
        need = ["StepBegin", "TurnBegin", "TurnEnd", "StepEnd"]
        ops = {"listen": "CmdListen", "accept": "CmdAccept", "connect": "CmdConnect", "read": "CmdReadAny",
               "write": "CmdWriteAny", "ubind": "CmdUbind", "usend": "CmdUsend", "bg": "CmdBg"}
        need += [ops[o] for o in consts["Ops"]]
        need += [{"crash": "CrashAny", "bounce": "BounceAny"}[f] for f in consts["Faults"]]
        if consts["MaxLat"] > 0:
            need.append("SetLat")
        return need
    need = ["Register", "StepBegin", "TurnBeginAny", "EvSample", "TurnEnd", "StepEnd"]
    if "run" in consts["CtlOps"]:
        need += ["RunBegin", "RunEnd"]
    if "crash" in consts["CtlOps"]:
        need.append("CrashAny")
    if "bounce" in consts["CtlOps"]:
        need.append("BounceAny")
    if consts["Outs"] & {"Ok", "Err", "Panic"}:
        need.append("EvFin")
    if "Panic" in consts["Outs"] or "Panic" in consts["TOuts"]:
        need.append("StepPanic")
    return need


def prop_trace_consts(pid, a):
    if is_crash(pid):
        return dict(LatSteps=a["lat"], EphPorts=a.get("eph", 0))
    return dict(Tick=a["tick"], Duration=a["duration"], Epoch=a["epoch"])


def impl_trace_consts(pid, a):
    if is_crash(pid):
        return dict(LatSteps=a["lat"], EphPorts=a.get("eph", 0), Tick=a["tick"], Cap=a["cap"], MaxConn=100000, Ops=TCP | UDP,
                    Faults={"crash", "bounce"}, Targets={1, 2}, MaxOps=10 ** 6, MaxFaults=10 ** 6, MaxSteps=10 ** 6,
                    LatChoices=set(range(1, 17)), MaxLat=10 ** 6, Writers={1, 2}, Early=False,
                    WriterFixed=True, HalfOpenFixed=True, Lis=a.get("lis", 1))
    return dict(Tick=a["tick"], Duration=a["duration"], Epoch=a["epoch"], MaxNodes=1000, Kinds=KINDS, Waits=set(),
                MaxPat=0, Outs=set(), TWaits=set(), MaxTPat=0, TOuts=set(), RandomOrder=True, CtlOps=ALL_OPS,
                MaxCtl=10 ** 6, MaxSteps=10 ** 6, DetTies=False)


def driver_args(pid, a):
    if is_crash(pid):
        return [f"tick={a['tick']}", f"lat={a['lat']}", f"cap={a['cap']}", f"lis={a.get('lis', 1)}",
                f"ip={a.get('ip', 4)}", f"eph={a.get('eph', 0)}"]
    return [f"tick={a['tick']}", f"duration={a['duration']}", f"epoch={a['epoch']}"]


def args_of_consts(pid, c, name=""):
    if is_crash(pid):
        # configurations whose name ends in _v6 are executed on an IPv6 simulation (sockets bind `::`,
        # groups are joined with join_multicast_v6); the specs do not depend on the address family
        return dict(tick=c["Tick"], lat=c["LatSteps"], cap=c["Cap"], lis=c["Lis"], ip=6 if name.endswith("_v6") else 4,
                    eph=c.get("EphPorts", 0))
    return dict(tick=c["Tick"], duration=c["Duration"], epoch=c["Epoch"])


def mode_prefix(pid):
    return ["crash"] if is_crash(pid) else []


def validate_trace(pid, path, a, tag, impl=True, extra_invs=()):
    """(prop_result, impl_result) of TLC trace validation"""
    _, _, ptrace, itrace = modules(pid)
    env = {"TRACE": os.path.abspath(path)}
    pcfg = vlib.cfg_text("TSpec", prop_trace_consts(pid, a), invariants=INVS[pid] + list(extra_invs),
                         postcondition="Accepted")
    pr = vlib.run_tlc(SUB, ptrace, pcfg, tag + "_prop", workers=1, env=env, dfs=True, heap="3g", timeout=900)
    if pr.error or pr.timed_out:
        raise MachineryError(f"trace validation (prop) failed: {pr.error or 'timeout'}")
    ir = None
    if impl:
        icfg = vlib.cfg_text("TSpec", impl_trace_consts(pid, a), invariants=INVS[pid] + ["ImplInv"],
                             postcondition="Accepted")
        ir = vlib.run_tlc(SUB, itrace, icfg, tag + "_impl", workers=1, env=env, dfs=True, heap="3g", timeout=900)
        if ir.error or ir.timed_out:
            raise MachineryError(f"trace validation (impl) failed: {ir.error or 'timeout'}")
    return pr, ir


def rejected(r):
    return bool(r.violated or r.unmatched)


def count_lines(path):
    with open(path) as f:
        return sum(1 for _ in f)


def jsonable(c):
    return {k: (sorted(v, key=str) if isinstance(v, (set, frozenset)) else v) for k, v in c.items()}


def findings_for(ck, pid):
    """open findings of this property: known_findings.json first, else the proposed entries"""
    listed = [f for f in ck.findings.get("findings", []) if isinstance(f, dict) and f.get("property") == pid]
    ids = {f.get("id") for f in listed}
    return listed + [f for f in PROPOSED_FINDINGS.get(pid, []) if f["id"] not in ids]


def replay_behaviours(pid, behs, a, w, name, keep=None, keepn=0):
    bpath = os.path.join(w, f"{name}.ndjson")
    with open(bpath, "w") as f:
        f.write("\n".join(behs) + "\n")
    spath = os.path.join(w, f"{name}.summary.json")
    tdir = os.path.join(w, f"{name}_div")
    os.makedirs(tdir, exist_ok=True)
    args = mode_prefix(pid) + ["replay", f"in={bpath}", f"out={spath}", f"traces={tdir}"] + driver_args(pid, a)
    if keep:
        args += [f"keep={keep}", f"keepn={keepn}"]
    out = vlib.run_driver(DRIVER, args)
    return json.load(open(spath)), out.strip()


def judge_divergence(ck, pid, name, consts, d):
    """The real code left the ImplSpec on a TLC behaviour: ask the PropSpec."""
    tr = d.get("trace")
    if not tr or d.get("what") == "panic":
        ck.violation({"kind": "behaviour", "property": pid, "config": name, "consts": jsonable(consts),
                      "args": args_of_consts(pid, consts, name),
                      "behaviour": d.get("behaviour"), "divergence": {k: v for k, v in d.items() if k != "behaviour"}})
        return
    pr, _ = validate_trace(pid, tr, args_of_consts(pid, consts, name), f"{pid}_div", impl=False)
    ck.add_tlc(pr, "trace_divergent")
    if rejected(pr):
        ck.violation({"kind": "behaviour", "property": pid, "config": name, "consts": jsonable(consts),
                      "args": args_of_consts(pid, consts, name),
                      "behaviour": d.get("behaviour"), "divergence": {k: v for k, v in d.items() if k != "behaviour"},
                      "violated_clause": pr.violated, "unmatched": pr.unmatched})
    else:
        log(f"[{pid}] drift: behaviour #{d.get('line')} diverged from the ImplSpec ({d.get('what')}: want "
            f"{json.dumps(d.get('want'))[:300]} got {json.dumps(d.get('got'))[:300]}) but the PropSpec accepts "
            f"the observation")


def run_witness(ck, pid, fnd, w):
    """Re-execute the witness of an open finding on the current tree; the PropSpec (with the family
    clause switched on) says whether it still fails as listed."""
    path = os.path.join(vlib.ROOT, fnd["witness"])
    if not os.path.exists(path):
        raise MachineryError(f"witness of finding {fnd['id']} missing: {fnd['witness']}")
    rp = json.load(open(path))
    keep = os.path.join(w, f"witness_{fnd['id']}.ndjson")
    s, _ = replay_behaviours(pid, [json.dumps(rp["behaviour"])], rp["args"], w, f"witness_{fnd['id']}", keep=keep, keepn=1)
    ck.traces += 1
    pr, _ = validate_trace(pid, keep, rp["args"], f"{pid}_wit", impl=False, extra_invs=[fnd["clause"]])
    ck.add_tlc(pr, f"trace_witness_{fnd['id']}")
    if pr.violated == fnd["clause"]:
        ck.known(fnd["id"], f"{fnd['id']}: {fnd['what']} (witness {fnd['witness']}, clause {fnd['clause']})")
        return True
    if rejected(pr):
        ck.violation({"kind": "witness", "property": pid, "finding": fnd["id"], "witness": fnd["witness"],
                      "violated_clause": pr.violated, "unmatched": pr.unmatched, "args": rp["args"],
                      "behaviour": rp["behaviour"]})
        return False
    log(f"[{pid}] witness of {fnd['id']} no longer fails (repaired?): nothing reported; divergent={s['divergent']}")
    return False


def family_reachable(ck, pid, fnd):
    """design level: the family clause of an open finding is violated by the ImplSpec (expected)"""
    impl = modules(pid)[0]
    if pid != "C11":
        raise MachineryError(f"no family configuration for {fnd['id']}")
    consts = sr(Tick=2, Duration=5, Kinds={"client"}, Waits={1, 5}, Outs={"Ok"}, TOuts={"none"},
                CtlOps={"register", "run"}, MaxCtl=4)
    cfg = vlib.cfg_text("Spec", consts, invariants=[fnd["clause"]], view="View")
    r = vlib.run_tlc(SUB, impl, cfg, f"{pid}_family", workers=4, timeout=300, heap="4g")
    ck.add_tlc(r, f"family_{fnd['id']}")
    if r.error or r.timed_out:
        raise MachineryError(f"family run for {fnd['id']} failed: {r.error or 'timeout'}")
    return r.violated == fnd["clause"]


# ---------------------------------------------------------------------------

def run(pid, tier, seed, replay=None):
    ck = vlib.Check(pid, tier, seed)
    common = ["TLC results hold for the stated small constants; larger parameters are sampled only",
              "spec->code replays use the registration host order and a deterministic tie-break between tasks of "
              "one host; random host order is covered by the exhaustive runs (all permutations) and the recorded traces"]
    if pid == "C05":
        ck.assumptions = ["whole-millisecond ticks, sleeps and epochs wherever programs read clocks (tokio's paused clock has "
                          "1 ms resolution; what programs observe under fractional ticks is outside what the crate documents, "
                          "DESIGN 6 C05 Bounds); ticks of 2.5 ms and 0.75 ms are driven with no node registered and only "
                          "Sim::elapsed / since_epoch read between steps",
                          "clock readings are taken by programs right after sleep / timeout / interval / sleep_until "
                          "and by the test thread between calls; readings taken by destructors while Sim::crash runs "
                          "are outside the statement (they are not inside any step)",
                          "claims end at the first step that returns Err or panics (C05 speaks about steps that "
                          "return Ok)"] + common
    elif pid == "C11":
        ck.assumptions = ["harness built with --cfg tokio_unstable (panic forwarding)",
                          "completion instants are those observed by the programs themselves (sim_elapsed() just "
                          "before the main future returns), so the step-boundary tolerance of the statement is applied "
                          "to observed completions",
                          "claims end at the first step that returns Err or panics (what run / step report after a "
                          "failed run is not part of the statement)"] + common
    else:
        ck.assumptions = ["healthy link, every message has a latency of a whole number of ticks (the Builder's value or "
                          "the one set with Sim::set_link_latency between steps, so segments may overtake each "
                          "other), fail_rate 0, registration host order (the twin comparison needs it, DESIGN 6 C04)",
                          "protocol pair: one listener / one connector, 1-byte segments, at most one pending operation "
                          "per kind and stream, operations on a stream start in a later turn than the one that handed "
                          "it over; the listener queue is kept below its capacity (a full queue is a documented panic)",
                          "fs / io_uring phases of the quantifier are not exercised by this check",
                          "hosts whose main future already returned are outside the claim"] + common
    vlib.build_harness([DRIVER])
    if replay:
        return do_replay(ck, replay)
    w = vlib.workdir(f"{pid}_files")
    impl, gen, _, _ = modules(pid)
    thorough = tier == "thorough"

    # 1. design level ------------------------------------------------------
    for name, consts in mc_configs(pid, tier):
        cfg = vlib.cfg_text("Spec", consts, invariants=INVS[pid] + ["ImplInv"], view="View")
        r = vlib.run_tlc(SUB, impl, cfg, f"{pid}_{name}", workers=10, timeout=1500 if thorough else 400,
                         coverage=True, heap="12g")
        ck.add_tlc(r, name, exhaustive=True)
        log(f"[{pid}] {name}: {r.distinct} distinct states, {r.generated} generated, depth {r.depth}, {r.wall:.0f}s")
        if r.violated or r.error or r.timed_out:
            log(vlib.counterexample_text(r))
            raise MachineryError(f"design-level check {name} did not pass: the committed ImplSpec does not satisfy the "
                                 f"PropSpec ({r.violated or r.error or 'timeout'}); the spec must be repaired first")
        missing = [a for a in need_actions(pid, consts) if r.coverage and r.coverage.get(a, 0) == 0]
        if missing:
            raise MachineryError(f"vacuity: actions never taken in {name}: {missing}")

    # open findings: the family is reachable at design level, and the witness is re-run on the code
    for fnd in findings_for(ck, pid):
        reach = family_reachable(ck, pid, fnd)
        log(f"[{pid}] finding {fnd['id']}: family clause {fnd['clause']} "
            f"{'is violated by the ImplSpec (the ImplSpec models the defect)' if reach else 'holds on the ImplSpec'}")
        still = run_witness(ck, pid, fnd, w)
        if still and not reach:
            raise MachineryError(f"finding {fnd['id']} reproduces on the code but the ImplSpec does not model it")

    # witnesses of repaired defects stay in the corpus and are re-run every time
    open_wit = {os.path.basename(f["witness"]) for f in findings_for(ck, pid)}
    for cf in sorted(os.listdir(os.path.join(vlib.ROOT, "corpus"))):
        if not cf.startswith(pid + "-") or cf in open_wit:
            continue
        rp = json.load(open(os.path.join(vlib.ROOT, "corpus", cf)))
        if rp.get("kind") != "behaviour" or rp.get("spec") not in ("SimRun", "SimCrash"):
            continue
        tag = cf[:-5]
        keep = os.path.join(w, f"corpus_{tag}.ndjson")
        replay_behaviours(pid, [json.dumps(rp["behaviour"])], rp["args"], w, f"corpus_{tag}", keep=keep, keepn=1)
        pr, _ = validate_trace(pid, keep, rp["args"], f"{pid}_corpus", impl=False)
        ck.add_tlc(pr, f"trace_corpus_{tag}")
        ck.traces += 1
        log(f"[{pid}] corpus {cf}: {'accepted by the PropSpec' if not rejected(pr) else 'REJECTED'}")
        if rejected(pr):
            ck.violation(dict(rp, violated_clause=pr.violated, unmatched=pr.unmatched, corpus=cf))

    # 2. spec -> code -------------------------------------------------------
    for name, consts in gen_configs(pid, tier):
        cfg = vlib.cfg_text("GenSpec", consts, invariants=["Emit"] + INVS[pid])
        r = vlib.run_tlc(SUB, gen, cfg, f"{pid}_{name}", workers=10, timeout=1500, heap="12g")
        if r.violated or r.error or r.timed_out:
            log(vlib.counterexample_text(r))
            raise MachineryError(f"behaviour generation {name} failed ({r.violated or r.error or 'timeout'})")
        behs = vlib.extract_replays(r.stdout)
        ck.add_tlc(r, name)
        s, out = replay_behaviours(pid, behs, args_of_consts(pid, consts, name), w, name)
        log(f"[{pid}] {name}: {len(behs)} TLC behaviours in {r.wall:.0f}s, {out}")
        ck.traces += s["behaviours"]
        ck.evaluations += s["behaviours"]
        ck.nontrivial += s["nontrivial"]
        for smp in s["samples"][:1]:
            ck.sample({"kind": "tlc behaviour replayed on the real Sim", "config": name, **smp})
        for d in s["divergences"]:
            judge_divergence(ck, pid, name, consts, d)
        ck.impl_drift += s["divergent"]

    # 3. code -> spec -------------------------------------------------------
    first = None
    for i, rc in enumerate(random_configs(pid, tier, seed)):
        tpath = os.path.join(w, f"random_{i}.ndjson")
        args = mode_prefix(pid) + ["random"] + [f"{k}={v}" for k, v in rc.items()] + [f"out={tpath}"]
        out = vlib.run_driver(DRIVER, args)
        pr, ir = validate_trace(pid, tpath, rc, f"{pid}_rnd{i}")
        ck.add_tlc(pr, f"trace_prop_{i}")
        ck.add_tlc(ir, f"trace_impl_{i}")
        ck.traces += rc["runs"]
        ck.evaluations += rc["runs"]
        ck.nontrivial += rc["runs"]
        log(f"[{pid}] random {rc}: {out.strip()} -> prop {'ok' if not rejected(pr) else 'REJECTED'}, "
            f"impl {'ok' if not rejected(ir) else 'drift'}")
        if first is None:
            first = (tpath, rc)
            with open(tpath) as f:
                ck.sample({"kind": "recorded trace excerpt", "config": rc,
                           "events": [json.loads(x) for _, x in zip(range(14), f)]})
        if rejected(pr):
            ck.violation({"kind": "random", "property": pid, "args": args[:-1], "cfg": rc,
                          "violated_clause": pr.violated, "unmatched": pr.unmatched,
                          "tlc": vlib.counterexample_text(pr, 3000)})
        elif rejected(ir):
            ck.impl_drift += 1
            log(f"[{pid}] note: implementation trace left the ImplSpec at event {ir.unmatched} "
                f"({ir.violated}); PropSpec accepted it (drift, no alarm)")

    # 4. binding demonstration ----------------------------------------------
    tpath, rc = first
    bad = os.path.join(w, "random_0_corrupt.ndjson")
    what = corrupt_trace(pid, tpath, bad)
    if what:
        pr, ir = validate_trace(pid, bad, rc, f"{pid}_bind")
        rej = rejected(pr) or rejected(ir)
        ck.extra["binding_demo"] = {"corruption": what, "rejected": rej,
                                    "by": "PropSpec" if rejected(pr) else ("ImplSpec" if rejected(ir) else None)}
        if not rej:
            raise MachineryError("binding demonstration failed: corrupted trace was accepted")
    else:
        raise MachineryError("binding demonstration: nothing to corrupt in the recorded trace")
    ck.extra["rule"] = ("behaviours: every action sequence of the Gen spec within the bounds (distinct by construction); "
                        "non-trivial = contains a crash / bounce or a second node and at least one program observation "
                        "that depends on it. random runs: one seeded scenario each")
    return ck.finish()


def corrupt_trace(pid, src, dst):
    """one recorded field is changed; the result must be rejected"""
    lines = open(src).read().splitlines()
    if pid == "C05":
        idx = [i for i, l in enumerate(lines) if '"ev":"sample"' in l]
        if not idx:
            return None
        i = idx[len(idx) // 2]
        e = json.loads(lines[i])
        e["el"] += 1          # a timer that fired one millisecond late
        what = "one clock sample: elapsed() one millisecond later than recorded"
    elif pid == "C11":
        idx = [i for i, l in enumerate(lines) if '"ev":"run_end"' in l and '"res":"Ok"' in l]
        if not idx:
            idx = [i for i, l in enumerate(lines) if '"ev":"step_end"' in l and '"res":"false"' in l and '"known":true' in l]
            if not idx:
                return None
            i = idx[len(idx) // 2]
            e = json.loads(lines[i])
            e["res"] = "true"
            what = "one step result flipped from Ok(false) to Ok(true)"
        else:
            i = idx[len(idx) // 2]
            e = json.loads(lines[i])
            e["res"] = "Err"
            what = "one Sim::run result flipped from Ok to Err"
    else:
        idx = [i for i, l in enumerate(lines) if '"ev":"crash"' in l and '"running":false' in l]
        if not idx:
            return None
        i = idx[len(idx) // 2]
        e = json.loads(lines[i])
        e["obs"]["tcp"] = 1   # a listener left behind by the crash
        what = "one crash observation: a TCP bind left in the crashed host's table"
    lines[i] = json.dumps(e)
    open(dst, "w").write("\n".join(lines) + "\n")
    return what


def do_replay(ck, path):
    rp = json.load(open(path))
    pid = ck.pid
    w = vlib.workdir(f"{pid}_replay")
    if rp["kind"] in ("behaviour", "witness"):
        a = rp["args"] if "args" in rp else args_of_consts(pid, rp["consts"], rp.get("config", ""))
        keep = os.path.join(w, "replay.ndjson")
        s, out = replay_behaviours(pid, [json.dumps(rp["behaviour"])], a, w, "replay", keep=keep, keepn=1)
        ck.traces = ck.evaluations = 1
        extra = [rp["family_clause"]] if rp.get("family_clause") else []
        pr, _ = validate_trace(pid, keep, a, f"{pid}_replay", impl=False, extra_invs=extra)
        ck.add_tlc(pr, "replay")
        log(f"[{pid}] replay: {out}")
        if pr.violated and pr.violated in extra:
            ck.known(rp.get("finding", "?"), f"{rp.get('finding')}: witness still fails clause {pr.violated}")
        elif rejected(pr):
            ck.violation(dict(rp, violated_clause=pr.violated, unmatched=pr.unmatched))
        else:
            log(f"[{pid}] replay: observations accepted by the PropSpec"
                + ("" if not s["divergent"] else " (they differ from the ImplSpec prediction: drift)"))
    else:
        tpath = os.path.join(w, "random.ndjson")
        vlib.run_driver(DRIVER, rp["args"] + [f"out={tpath}"])
        rc = rp["cfg"]
        pr, _ = validate_trace(pid, tpath, rc, f"{pid}_replay", impl=False)
        ck.add_tlc(pr, "replay")
        ck.traces = ck.evaluations = rc["runs"]
        if rejected(pr):
            ck.violation(dict(rp, violated_clause=pr.violated, unmatched=pr.unmatched))
        else:
            log(f"[{pid}] replay: trace accepted by the PropSpec")
    ck.states = max(ck.states, 1)
    ck.transitions = max(ck.transitions, 1)
    ck.nontrivial = 2
    ck.sample({"replayed": path})
    return ck.finish()
