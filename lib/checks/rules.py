"""C19: turmoil-net rule chains and the fixture scheduler (specs/rules).

  1. design level   - TLC checks Rules (ImplSpec) against the invariants of
                      RulesProp exhaustively for small constants, with coverage
                      and witness probes (vacuity guard);
  2. spec -> code   - TLC enumerates every behaviour of RulesGen within a bound;
                      each is executed on the real code - through the bare
                      primitives Net / EnterGuard (chain semantics, all three
                      installers, loopback / own-address folding) and through
                      fixture::ClientServer (delay semantics) - and every
                      observation is compared with TLC's prediction; divergent
                      behaviours are judged by the PropSpec alone;
  3. code -> spec   - seeded random chains + mixed UDP / TCP traffic through the
                      primitives, ClientServer and fixture::lo are recorded and
                      validated by TLC against RulesPropTrace (verdict) and
                      RulesTrace (fidelity).
"""
import json
import os
import re

import vlib
from vlib import MachineryError, log

SUB = "rules"
DRIVER = "rules"

PROP_INVS = ["FirstMatch", "ConsultedPrefix", "LoopbackNeverShown", "OnTime", "Delivered",
             "FifoEqualDeadline", "DroppedNeverArrive"]

ALL_KINDS = {"permanent", "enter_guard", "free"}


def consts(**kw):
    c = dict(Tick=2, Fixture=True, NH=2, Emitters={2}, Kinds={"free"}, Tables="@T_fix_q5", NC=2,
             Dsts={1}, Vias={"ip"}, TcpClass=0, MaxOps=2, MaxRules=2, MaxEmit=3, MaxKern=0,
             MaxTicks=4, Reduce=True, Prelude=False)
    c.update(kw)
    return c


def cfg_text(spec, c, **kw):
    """vlib.cfg_text plus `Name <- Definition` substitutions (values written as "@Definition")."""
    t = vlib.cfg_text(spec, c, **kw)
    return re.sub(r'(\w+) = "@(\w+)"', r"\1 <- \2", t)


# actions / witness probes that must have been taken at least once in a configuration
FIX_ACTIONS = ["InstallGuarded", "DropGuard", "Forget", "Emit", "Recv", "TickBegin", "EvalOne", "TickEnd", "End"]
FIX_WITNESSES = ["WitDroppedWouldDecide", "WitForgottenDecides", "WitShortCircuit", "WitOvertake",
                 "WitEqualDeadlinePair", "WitSubTick", "WitDeliveredBinding", "WitDropSeen"]
PRIM_ACTIONS = ["InstallPermanent", "Enter", "InstallGuarded", "DropGuard", "Forget", "Emit", "Recv",
                "TickBegin", "EvalOne", "TickEnd"]
PRIM_WITNESSES = ["WitDroppedWouldDecide", "WitForgottenDecides", "WitShortCircuit", "WitLocalReceived"]


def mc_configs(tier):
    """(name, constants, actions and probes that must be covered)."""
    q = tier == "quick"
    prim = dict(Fixture=False, Kinds=ALL_KINDS, NC=3, TcpClass=3, Dsts={0, 1, 2}, Vias={"ip", "lo"})
    cfgs = [
        # delay semantics: chains of <= 2 rules, delays {0, 1 (sub-tick), 2 (1 tick), 4 (2 ticks)},
        # 3 emissions over 4 ticks (equal and crossing deadlines)
        ("mc_fix_time", consts(), FIX_ACTIONS + FIX_WITNESSES),
        # two emitting hosts, loopback and own-address traffic, kernel-produced (TCP) packets
        ("mc_fix_local", consts(Emitters={1, 2}, Tables="@T_kern", NC=3, Dsts={1, 2}, Vias={"ip", "lo"},
                                TcpClass=3, MaxOps=2, MaxRules=1, MaxEmit=2, MaxKern=1, MaxTicks=2),
         FIX_ACTIONS + ["EvalKernelPkt", "WitLocalReceived"]),
        # chain semantics through the primitives: all three installers, <= 3 rules, <= 3 rule calls
        ("mc_prim", consts(NH=2, Emitters={1, 2}, Tables="@T_prim_q", MaxOps=3, MaxRules=3, MaxEmit=2,
                           MaxTicks=1, **prim), PRIM_ACTIONS + PRIM_WITNESSES),
    ]
    if not q:
        cfgs += [
            ("mc_fix_time_ops3", consts(Tables="@T_fix_quick", MaxOps=3), FIX_ACTIONS + FIX_WITNESSES),
            ("mc_fix_mixed", consts(Tables="@T_fix_quick", Dsts={1, 2}, Vias={"ip", "lo"}, MaxOps=3),
             FIX_ACTIONS + FIX_WITNESSES + ["WitLocalReceived"]),
            ("mc_fix_local_2rules", consts(Emitters={1, 2}, Tables="@T_kern", NC=3, Dsts={1, 2}, Vias={"ip", "lo"},
                                           TcpClass=3, MaxOps=2, MaxRules=2, MaxEmit=2, MaxKern=1, MaxTicks=3),
             FIX_ACTIONS + ["EvalKernelPkt", "WitLocalReceived"]),
            ("mc_prim_ops4", consts(NH=2, Emitters={1, 2}, Tables="@T_prim_q", MaxOps=4, MaxRules=3, MaxEmit=2,
                                    MaxTicks=2, **prim), PRIM_ACTIONS + PRIM_WITNESSES),
            ("mc_prim_3hosts", consts(NH=3, Emitters={1, 2, 3}, Tables="@T_prim_q", MaxOps=3, MaxRules=3, MaxEmit=2,
                                      MaxTicks=2, **prim), PRIM_ACTIONS + PRIM_WITNESSES),
        ]
    return cfgs


def gen_configs(tier):
    """(name, driver mode, constants)."""
    q = tier == "quick"
    prim = dict(Fixture=False, Kinds=ALL_KINDS, NC=3, TcpClass=3, Vias={"ip", "lo"})
    cfgs = [
        # all three installers, drop / forget, UDP to a remote socket, own-address and loopback
        # datagrams, TCP SYNs, from two hosts; one egress round
        ("gen_prim", "prim", consts(NH=2, Emitters={1, 2}, Tables="@T_gen_prim", Dsts={0, 1} if q else {0, 1, 2},
                                    MaxOps=2, MaxRules=2, MaxEmit=2, MaxTicks=1, **prim)),
        # chains of three rules with a removal from the front / middle (order of the rest must be kept)
        ("gen_prim_chain", "prim", consts(Fixture=False, NH=2, Emitters={2}, Kinds={"enter_guard"} if q else
                                          {"enter_guard", "free"}, Tables="@T_chain", NC=2, TcpClass=0, Dsts={1},
                                          Vias={"ip"}, MaxOps=4, MaxRules=3, MaxEmit=1, MaxTicks=1)),
        # ClientServer: client script of <= 2 rule calls and 2 datagrams (server socket or the
        # client's own address) over 3 ticks, delays {0, 1, 2, 4}, drop
        ("gen_fix", "fix", consts(Prelude=True, Tables="@T_gen_fix", Dsts={1, 2}, Vias={"ip"} if q else {"ip", "lo"},
                                  MaxOps=2, MaxRules=3, MaxEmit=2, MaxTicks=3)),
    ]
    if not q:
        cfgs += [
            ("gen_prim_3hosts", "prim", consts(NH=3, Emitters={1, 2, 3}, Tables="@T_prim_q", Dsts={0, 1, 2},
                                               MaxOps=2, MaxRules=2, MaxEmit=2, MaxTicks=1, **prim)),
            ("gen_prim_ops3", "prim", consts(NH=2, Emitters={1, 2}, Tables="@T_gen_prim", Dsts={0, 1}, MaxOps=3,
                                             MaxRules=3, MaxEmit=1, MaxTicks=2, **prim)),
            ("gen_fix_5tables", "fix", consts(Prelude=True, Dsts={1, 2}, Vias={"ip", "lo"}, MaxOps=2, MaxRules=3,
                                              MaxEmit=2, MaxTicks=3)),
            ("gen_fix_3emit", "fix", consts(Prelude=True, Tables="@T_gen_fix", Dsts={1}, Vias={"ip"}, MaxOps=2,
                                            MaxRules=3, MaxEmit=3, MaxTicks=4)),
            ("gen_fix_3hosts", "fix", consts(Prelude=True, Tables="@T_gen_fix", NH=3, Emitters={3}, Dsts={1, 2, 3},
                                             Vias={"ip", "lo"}, MaxOps=1, MaxRules=2, MaxEmit=3, MaxTicks=3)),
        ]
    return cfgs


def random_configs(tier, seed):
    """(trace name, [driver runs]); the fixture::lo runs are validated together with the
    ClientServer runs (host 1 alone, same constants)."""
    q = tier == "quick"
    n = 1 if q else 10
    return [("prim", [dict(mode="prim", runs=15 * n, seed=seed * 131 + 1)]),
            ("fix", [dict(mode="fix", runs=20 * n, seed=seed * 131 + 2),
                     dict(mode="lo", runs=5 * n, seed=seed * 131 + 3)])]


def trace_consts(mode):
    big = 100000
    c = consts(Tables="@T_kern", Kinds=ALL_KINDS, NC=3, TcpClass=3, Vias={"ip", "lo"}, MaxOps=big, MaxRules=big,
               MaxEmit=big, MaxKern=big, MaxTicks=big, Reduce=False, Prelude=False)
    if mode == "prim":
        c.update(Fixture=False, NH=3, Emitters={1, 2, 3}, Dsts={0, 1, 2, 3})
    elif mode == "fix":
        c.update(Fixture=True, NH=3, Emitters={1, 2, 3}, Dsts={0, 1, 2, 3})
    else:
        raise ValueError(mode)
    return c


def validate_trace(path, tag, impl_consts=None, prop=True):
    """Returns (prop_result or None, impl_result or None)."""
    env = {"TRACE": os.path.abspath(path)}
    pr = None
    if prop:
        pcfg = cfg_text("TSpec", dict(Tick=2), invariants=PROP_INVS, postcondition="Accepted")
        pr = vlib.run_tlc(SUB, "RulesPropTrace", pcfg, tag + "_prop", workers=1, env=env, dfs=True, heap="3g", timeout=900)
        if pr.error or pr.timed_out:
            raise MachineryError(f"trace validation (prop) failed: {pr.error or 'timeout'}")
    ir = None
    if impl_consts is not None:
        icfg = cfg_text("TSpec", impl_consts, invariants=PROP_INVS + ["ImplInv"], postcondition="Accepted")
        ir = vlib.run_tlc(SUB, "RulesTrace", icfg, tag + "_impl", workers=1, env=env, dfs=True, heap="3g", timeout=900)
        if ir.error or ir.timed_out:
            raise MachineryError(f"trace validation (impl) failed: {ir.error or 'timeout'}")
    return pr, ir


def rejected(r):
    return bool(r.violated or r.unmatched)


def count_lines(path):
    with open(path) as f:
        return sum(1 for _ in f)


def jsonable(c):
    return {k: (sorted(v, key=str) if isinstance(v, (set, frozenset)) else v) for k, v in c.items()}


def replay_args(mode, c):
    return [f"mode={mode}", f"nh={c['NH']}", f"nc={c['NC']}", f"tcpcls={c['TcpClass']}"]


def run(pid, tier, seed, replay=None):
    """Work directories carry the process id (a bin/mutcheck or a second bin/check running at the same time must
    not wipe this run's scratch files) and are removed at the end."""
    import glob
    import shutil
    try:
        return run_(pid, tier, seed, replay)
    finally:
        for d in glob.glob(os.path.join(vlib.WORK, f"{pid}_{os.getpid()}_*")):
            shutil.rmtree(d, ignore_errors=True)


def run_(pid, tier, seed, replay=None):
    ck = vlib.Check(pid, tier, seed)
    ck.assumptions = [
        "time in half-millisecond units; fixture tick = 1 ms; rule delays are multiples of 500 us",
        "rules are table-driven closures (verdict = f(packet class)); rules installing rules from inside "
        "on_packet are outside the alphabet",
        "fixture runs can install rules only through turmoil_net::rule (ClientServer owns its Net); Net::rule and "
        "EnterGuard::rule are exercised through the primitives, where the driver is the scheduler (no clock)",
        "under a fixture the chain's verdict is not observable; it is inferred from the API-level chain and "
        "checked through its consequences (arrival instant / order / absence); the instant a packet left its "
        "host is the instant the first (all-Pass, forgotten) logging rule saw it",
        "TCP packets are never dropped in random fixture runs (count-based retransmission); their arrival "
        "timing is not asserted, first-match / consulted-prefix is asserted for every packet the rules log",
        "TLC results hold for the stated small constants; larger parameters are sampled only",
    ]
    vlib.build_harness([DRIVER])
    if replay:
        return do_replay(ck, replay)
    w = vlib.workdir(f"{pid}_{os.getpid()}_files")
    thorough = tier == "thorough"

    # 1. design level ------------------------------------------------------
    for name, c, need in mc_configs(tier):
        cfg = cfg_text("SpecMC", c, invariants=PROP_INVS + ["ImplInv"], view="View")
        r = vlib.run_tlc(SUB, "Rules_MC", cfg, f"{pid}_{os.getpid()}_{name}", workers=10, timeout=1700 if thorough else 400,
                         coverage=True, heap="12g")
        ck.add_tlc(r, name, exhaustive=True)
        log(f"[{pid}] {name}: {r.distinct} distinct states, {r.generated} generated, depth {r.depth}, {r.wall:.0f}s")
        if r.violated or r.error or r.timed_out:
            log(vlib.counterexample_text(r))
            raise MachineryError(f"design-level check {name} did not pass: the committed ImplSpec does not satisfy the "
                                 f"PropSpec ({r.violated or r.error or 'timeout'}); the spec must be repaired first")
        if not r.coverage:
            raise MachineryError(f"vacuity: no coverage statistics parsed for {name}")
        missing = [a for a in need if r.coverage.get(a, 0) == 0]
        if missing:
            raise MachineryError(f"vacuity: actions / witnesses never reached in {name}: {missing}")

    # 2. spec -> code -------------------------------------------------------
    for name, mode, c in gen_configs(tier):
        cfg = cfg_text("GenSpec", c, invariants=["Emit_"] + PROP_INVS + ["ImplInv"])
        r = vlib.run_tlc(SUB, "RulesGen", cfg, f"{pid}_{os.getpid()}_{name}", workers=10, timeout=1700, heap="12g")
        if r.violated or r.error or r.timed_out:
            log(vlib.counterexample_text(r))
            raise MachineryError(f"behaviour generation {name} failed ({r.violated or r.error or 'timeout'})")
        behs = vlib.extract_replays(r.stdout)
        ck.add_tlc(r, name)
        if not behs:
            raise MachineryError(f"behaviour generation {name} produced nothing")
        bpath = os.path.join(w, f"{name}.ndjson")
        with open(bpath, "w") as f:
            f.write("\n".join(behs) + "\n")
        spath = os.path.join(w, f"{name}.summary.json")
        out = vlib.run_driver(DRIVER, ["replay", f"in={bpath}", f"out={spath}", f"traces={w}"] + replay_args(mode, c))
        s = json.load(open(spath))
        log(f"[{pid}] {name}: {len(behs)} TLC behaviours ({r.wall:.0f}s), {out.strip()}")
        ck.traces += s["behaviours"]
        ck.evaluations += s["behaviours"]
        ck.nontrivial += s["nontrivial"]
        for smp in s["samples"][:1]:
            ck.sample({"kind": f"tlc behaviour replayed on the real code ({mode})", "config": name, **smp})
        judge_divergences(ck, pid, name, mode, c, s)
        ck.impl_drift += s["divergent"]

    # 3. code -> spec -------------------------------------------------------
    for tname, parts in random_configs(tier, seed):
        tpath = os.path.join(w, f"random_{tname}.ndjson")
        outs, allargs, nruns = [], [], 0
        with open(tpath, "w") as tf:
            for rc in parts:
                ppath = os.path.join(w, f"random_part_{rc['mode']}.ndjson")
                args = ["random"] + [f"{k}={v}" for k, v in rc.items()]
                outs.append(vlib.run_driver(DRIVER, args + [f"out={ppath}"]).strip())
                allargs.append(args)
                nruns += rc["runs"]
                tf.write(open(ppath).read())
        pr, ir = validate_trace(tpath, f"{pid}_{os.getpid()}_rnd_{tname}", trace_consts(tname))
        ck.add_tlc(pr, f"trace_prop_{tname}")
        ck.add_tlc(ir, f"trace_impl_{tname}")
        ck.traces += nruns
        ck.evaluations += nruns
        ck.nontrivial += nruns
        log(f"[{pid}] random {tname} {parts}: {' | '.join(outs)} -> prop {'ok' if not rejected(pr) else 'REJECTED'}, "
            f"impl {'ok' if not rejected(ir) else 'drift'}")
        if tname == "fix":
            # vacuity: byte-identical datagram pairs (second copies are marked "dup") were shown to the rules under a
            # non-zero delay and arrived
            dup_evals = dup_arrivals = 0
            with open(tpath) as f:
                for line in f:
                    e = json.loads(line)
                    if e.get("dup"):
                        dup_evals += e["ev"] == "eval"
                        dup_arrivals += e["ev"] == "arrive"
            ck.extra["duplicate_datagrams"] = {"evals": dup_evals, "arrivals": dup_arrivals}
            if not rejected(pr) and (dup_evals == 0 or dup_arrivals == 0):
                raise MachineryError("vacuity: no byte-identical datagram pair in the fixture traffic")
            with open(tpath) as f:
                ck.sample({"kind": "recorded trace excerpt (ClientServer)", "config": parts[0],
                           "events": [json.loads(x) for _, x in zip(range(16), f)]})
        if rejected(pr):
            ck.violation({"kind": "random", "property": pid, "parts": allargs, "runs": nruns,
                          "violated_clause": pr.violated, "unmatched": pr.unmatched,
                          "tlc": vlib.counterexample_text(pr, 3000)})
        elif rejected(ir):
            ck.impl_drift += 1
            log(f"[{pid}] note: implementation trace left the ImplSpec at event {ir.unmatched} "
                f"({ir.violated}); PropSpec accepted it (drift, no alarm)")

    # binding demonstration: corrupted traces must be rejected ----------------
    demos = []
    src = os.path.join(w, "random_fix.ndjson")
    for what, fn, level in [("one arrival instant moved 3 ticks later", corrupt_arrival, "prop"),
                            ("last rule removed from one consulted list", corrupt_consulted, "prop"),
                            ("one send event removed (fidelity level)", corrupt_drop_send, "impl")]:
        bad = os.path.join(w, f"random_fix_corrupt_{len(demos)}.ndjson")
        if not fn(src, bad):
            raise MachineryError(f"binding demonstration: nothing to corrupt for '{what}'")
        pr, ir = validate_trace(bad, f"{pid}_{os.getpid()}_bind{len(demos)}", trace_consts("fix") if level == "impl" else None,
                                prop=(level == "prop"))
        res = pr if level == "prop" else ir
        rej = rejected(res)
        demos.append({"corruption": what, "level": level, "rejected": rej,
                      "clause": res.violated or (res.unmatched and "unmatched")})
        if not rej:
            raise MachineryError(f"binding demonstration failed: corrupted trace was accepted ({what})")
    ck.extra["binding_demo"] = demos
    ck.extra["rule"] = ("behaviours: every action sequence of RulesGen within the bounds (distinct by construction); "
                        "non-trivial = installs a rule and contains a packet whose fate a rule decided. "
                        "random runs: one seeded scenario each")
    return ck.finish()


# ---------------------------------------------------------------------------
# corruptions for the binding demonstration

def _load(src):
    return [json.loads(l) for l in open(src).read().splitlines() if l.strip()]


def _store(dst, evs):
    with open(dst, "w") as f:
        f.write("\n".join(json.dumps(e) for e in evs) + "\n")


def corrupt_arrival(src, dst):
    evs = _load(src)
    # an arrival of a datagram that was shown to the rules (has an eval in the same run)
    evald = set()
    for i, e in enumerate(evs):
        if e["ev"] == "reset":
            evald = set()
        elif e["ev"] == "eval" and e["tag"] > 0:
            evald.add(e["tag"])
        elif e["ev"] == "arrive" and e["tag"] in evald:
            e["at"] += 6
            _store(dst, evs)
            return True
    return False


def corrupt_consulted(src, dst):
    evs = _load(src)
    for e in evs:
        if e["ev"] == "eval" and len(e["consulted"]) >= 2:
            e["consulted"] = e["consulted"][:-1]
            _store(dst, evs)
            return True
    return False


def corrupt_drop_send(src, dst):
    evs = _load(src)
    for i, e in enumerate(evs):
        if e["ev"] == "send" and e["via"] == "ip" and e["sock"] != e["h"]:
            del evs[i]
            _store(dst, evs)
            return True
    return False


# ---------------------------------------------------------------------------

def judge_divergences(ck, pid, name, mode, c, s):
    """The real code left the ImplSpec on some TLC behaviours: ask the PropSpec.  All divergent
    traces (the driver keeps the first 400) are judged in one TLC run; a rejection is attributed
    to the behaviour whose events contain the rejected event."""
    divs = s["divergences"]
    if not divs:
        return

    def payload(d):
        return {"kind": "behaviour", "property": pid, "config": name, "mode": mode, "consts": jsonable(c),
                "behaviour": d.get("behaviour"),
                "divergence": {k: v for k, v in d.items() if k not in ("behaviour",)}}
    panics = [d for d in divs if d.get("what") == "panic" or "first_event" not in d]
    for d in panics[:3]:
        ck.violation(payload(d))
    tr = s.get("div_trace")
    if not tr:
        return
    pr, _ = validate_trace(tr, f"{pid}_{os.getpid()}_div")
    if not rejected(pr):
        log(f"[{pid}] drift: {s['divergent']} behaviours of {name} diverged from the ImplSpec (first: behaviour "
            f"#{divs[0].get('line')}, {divs[0].get('what')} at {divs[0].get('at')}); the PropSpec accepts all "
            f"{len(divs) - len(panics)} recorded observations")
        return
    if pr.unmatched:
        idx = pr.unmatched[0]
    else:   # the violating state has consumed events 1 .. l-1
        ls = re.findall(r"^/\\ l = (\d+)", pr.stdout, re.M)
        idx = int(ls[-1]) - 1 if ls else 1
    culprit = divs[0]
    for d in divs:
        if "first_event" in d and d["first_event"] <= idx < d["first_event"] + d["events"]:
            culprit = d
    ck.violation(dict(payload(culprit), violated_clause=pr.violated, unmatched=pr.unmatched, rejected_event=idx))


def judge_one(ck, pid, name, mode, c, d, trace):
    pr, _ = validate_trace(trace, f"{pid}_{os.getpid()}_div")
    if rejected(pr):
        ck.violation({"kind": "behaviour", "property": pid, "config": name, "mode": mode, "consts": jsonable(c),
                      "behaviour": d.get("behaviour"),
                      "divergence": {k: v for k, v in d.items() if k not in ("behaviour",)},
                      "violated_clause": pr.violated, "unmatched": pr.unmatched})
    else:
        log(f"[{pid}] drift: behaviour diverged from the ImplSpec ({d.get('what')} at {d.get('at')}) "
            f"but the PropSpec accepts the observation")


def do_replay(ck, path):
    rp = json.load(open(path))
    pid = ck.pid
    w = vlib.workdir(f"{pid}_{os.getpid()}_replay")
    if rp["kind"] == "behaviour":
        c = rp["consts"]
        bpath = os.path.join(w, "beh.ndjson")
        open(bpath, "w").write(json.dumps(rp["behaviour"]) + "\n")
        spath = os.path.join(w, "summary.json")
        vlib.run_driver(DRIVER, ["replay", f"in={bpath}", f"out={spath}", f"traces={w}"] + replay_args(rp["mode"], c))
        s = json.load(open(spath))
        ck.traces = ck.evaluations = 1
        if not s["divergences"]:
            log(f"[{pid}] replay: behaviour now matches the ImplSpec prediction")
        for d in s["divergences"]:
            if d.get("what") == "panic" or not s.get("div_trace"):
                ck.violation({"kind": "behaviour", "property": pid, "mode": rp["mode"], "consts": c,
                              "behaviour": rp["behaviour"], "divergence": {k: v for k, v in d.items() if k != "behaviour"}})
            else:
                judge_one(ck, pid, rp.get("config", "replay"), rp["mode"], c, d, s["div_trace"])
    else:
        tpath = os.path.join(w, "random.ndjson")
        with open(tpath, "w") as tf:
            for k, args in enumerate(rp["parts"]):
                ppath = os.path.join(w, f"part{k}.ndjson")
                vlib.run_driver(DRIVER, args + [f"out={ppath}"])
                tf.write(open(ppath).read())
        pr, _ = validate_trace(tpath, f"{pid}_{os.getpid()}_replay")
        ck.add_tlc(pr, "replay")
        ck.traces = ck.evaluations = rp["runs"]
        if rejected(pr):
            ck.violation(dict(rp, violated_clause=pr.violated, unmatched=pr.unmatched))
        else:
            log(f"[{pid}] replay: trace accepted by the PropSpec")
    ck.states = max(ck.states, 1)
    ck.transitions = max(ck.transitions, 1)
    ck.nontrivial = 2
    ck.sample({"replayed": path})
    return ck.finish()
