"""C02 / C12 / C15: turmoil::net message-level TCP and the port / DNS allocators
(specs/msgtcp).

Per property:
  1. design level   - TLC checks the ImplSpec (MsgTcp / Ports) against the
                      property's invariants of the PropSpec (MsgTcpProp /
                      PortsProp) exhaustively for small constants;
  2. spec -> code   - TLC generates behaviours of the ImplSpec (one shortest
                      history per reachable (state, last action), plus seeded
                      -simulate walks); each is executed against the real Sim
                      and every result / hook snapshot is compared with TLC's
                      prediction; divergent behaviours are judged by the
                      PropSpec alone (PropTrace);
  3. code -> spec   - seeded random scenarios are recorded and validated by TLC
                      against the PropTrace spec (verdict) and the Trace spec
                      (fidelity);
  4. corpus         - witnesses of repaired defects are re-run every time.
"""
import json
import os
import random

import vlib
from vlib import MachineryError, log

SUB = "msgtcp"
BIN = "msgtcp"

PORT_OPS = ["bind_udp", "bind_tcp", "connect_ok", "connect_refused", "connect_noroute", "connect_cancel", "connect_hang",
            "accept", "drop", "drop_half", "crash"]
DNS_OPS = ["lookup", "reverse", "literal", "regex"]

PROP_INVS = {
    "C15": ["FreshPort", "BindOracle", "Available", "NoDoubleUse",
            "DnsFunction", "DnsInjective", "DnsReverse", "DnsLiteral", "DnsRegex"],
    "C02": ["Prefix", "PeekFaithful", "ReadOverrun", "DataAfterEof", "EarlyEof", "Stall", "SpuriousReset",
            "ErrorKind", "NoPanic", "PrefixInv", "EofInv"],
    "C12": ["OkWithoutAccept", "RefusedThoughAccepted", "Hang", "SpuriousRefusal", "AcceptHang", "PhantomAccept", "AcceptedDead",
            "AcceptOrder", "Mirror", "Reclaimed", "Orphan", "ErrorKind", "NoPanic", "Prefix"],
}

_TCP = dict(impl="MsgTcp", gen="MsgTcpGen", ptrace="MsgTcpPropTrace", itrace="MsgTcpTrace",
            replay="tcp-replay", rand="tcp-random")
FAMILY = {
    "C15": dict(impl="Ports", gen="PortsGen", ptrace="PortsPropTrace", itrace="PortsTrace",
                replay="ports-replay", rand="ports-random"),
    "C02": _TCP,
    "C12": _TCP,
}

DATA_OPS = ["write", "shutdown", "read", "peek", "deliver", "quiet", "drop_stream", "drop_half"]
CONN_OPS = ["bind", "drop_listener", "connect", "deliver", "accept", "poll", "cancel", "partition"]
ALL_TCP_OPS = sorted(set(DATA_OPS + CONN_OPS))


def fs(*xs):
    return frozenset(xs)


# ---------------------------------------------------------------------------
# configurations

def ports_consts(**kw):
    c = dict(Lo=49152, Hi=49154, MaxSock=4, Fixed={49153, 9}, Ops=set(PORT_OPS), BindKindsP={"any"}, MaxOps=5, MaxIn=2,
             LeakOnFail=False, NameU=set(), Patterns=set())
    c.update(kw)
    return c


def dns_consts(**kw):
    c = ports_consts(Ops=set(DNS_OPS), NameU={1, 2, 3, 4}, MaxSock=1, Fixed=set(),
                     Patterns={fs(), fs(1), fs(1, 3), fs(2, 3, 4), fs(1, 2, 3, 4)}, MaxOps=5)
    c.update(kw)
    return c


def tcp_consts(**kw):
    """MsgTcp constants.  FinRoom = 1 / RstOnFin = FALSE describe the repaired code (D1, D14)."""
    c = dict(MaxConn=1, NH=2, PortIds={1}, Cap=1, FinRoom=1, RstOnFin=False, Pre=True, Alpha=set(DATA_OPS),
             DestKinds={"srv"}, BindKinds={"any"}, WriteLens={1}, ReadSizes={1}, PeekSizes=set(), NPorts=0, MaxWrites=2,
             MaxAct=8)
    c.update(kw)
    return c


def conn_consts(**kw):
    c = tcp_consts(MaxConn=2, NH=3, Cap=2, Pre=False, Alpha=set(CONN_OPS), DestKinds={"srv", "none", "unspec"},
                   BindKinds={"any", "lo"}, MaxWrites=1, MaxAct=8)
    c.update(kw)
    return c


def mc_configs(pid, tier):
    q = tier == "quick"
    if pid == "C02":
        cfgs = [
            # every delivery order, peeks interleaved, shutdown vs drop of either half, buffers 0/1/2, capacity 1
            ("mc_data_cap1", tcp_consts(Cap=1, WriteLens={1, 2}, ReadSizes={0, 1, 2}, PeekSizes={1}, MaxWrites=2,
                                        MaxAct=8 if q else 11)),
            # capacity 2: the FIN arrives behind a full queue (D1), writer outruns the reader
            ("mc_data_cap2", tcp_consts(Cap=2, Alpha={"write", "shutdown", "read", "deliver", "quiet", "drop_stream"},
                                        WriteLens={0, 1}, ReadSizes={1, 2}, MaxWrites=3, MaxAct=10 if q else 13)),
        ]
        if not q:
            cfgs.append(("mc_data_cap3", tcp_consts(Cap=3, Alpha={"write", "shutdown", "read", "deliver", "quiet"},
                                                    WriteLens={1}, ReadSizes={2}, MaxWrites=4, MaxAct=15)))
            cfgs.append(("mc_data_part", tcp_consts(Cap=2, Alpha={"write", "shutdown", "read", "deliver", "quiet", "partition"},
                                                    WriteLens={1}, ReadSizes={1}, MaxWrites=2, MaxAct=10)))
        return cfgs
    if pid == "C12":
        cfgs = [
            ("mc_conn", conn_consts(MaxAct=8 if q else 10)),
            # nonce exchange and the last clause (dropped streams are not counted): one client host
            ("mc_conn_data", conn_consts(NH=2, Alpha={"bind", "connect", "deliver", "accept", "poll", "cancel", "quiet",
                                                       "write", "read", "drop_stream", "drop_half"},
                                         DestKinds={"srv"}, BindKinds={"any"}, MaxAct=11 if q else 12)),
        ]
        cfgs.append(("mc_conn_burst", conn_consts(MaxConn=3 if q else 4, NH=2, Cap=3 if q else 4,
                                                  Alpha={"bind", "connect", "deliver", "accept", "cancel"},
                                                  DestKinds={"srv"}, BindKinds={"any"}, MaxAct=10 if q else 12)))
        cfgs.append(("mc_conn_reuse", conn_consts(MaxConn=3, NH=2, Cap=3, NPorts=1 if q else 2,
                                                  Alpha={"bind", "connect", "deliver", "accept", "poll", "cancel", "drop_listener"},
                                                  DestKinds={"srv"}, BindKinds={"any"}, MaxAct=11 if q else 12)))
        if not q:
            cfgs.append(("mc_conn3", conn_consts(MaxConn=3, Cap=3, Alpha=set(CONN_OPS) - {"partition"},
                                                 BindKinds={"any"}, MaxAct=10)))
        return cfgs
    if pid == "C15":
        cfgs = [
            ("mc_ports", ports_consts(MaxOps=6 if q else 8)),
            ("mc_dns", dns_consts(MaxOps=5 if q else 6)),
            ("mc_ports_shared", ports_consts(Hi=49153, Fixed=set(), BindKindsP={"any", "lo"},
                                             Ops={"bind_tcp", "bind_udp", "accept", "drop", "drop_half"},
                                             MaxOps=8 if q else 9, MaxIn=2)),
        ]
        if not q:
            cfgs.append(("mc_ports_r4", ports_consts(Hi=49155, MaxSock=5, MaxOps=6, Fixed={49154, 9})))
        return cfgs
    raise ValueError(pid)


def gen_configs(pid, tier):
    """(name, constants, driver args, simulate) - behaviours to replay on the code."""
    q = tier == "quick"
    if pid == "C02":
        cfgs = [
            ("gen_data_cap1", tcp_consts(Cap=1, WriteLens={1, 2}, ReadSizes={1, 2}, PeekSizes={1}, MaxWrites=2,
                                         MaxAct=5 if q else 7), dict(v6=0), None),
            ("gen_data_cap2", tcp_consts(Cap=2, Alpha={"write", "shutdown", "read", "deliver", "quiet", "drop_stream"},
                                         WriteLens={0, 1}, ReadSizes={0, 1}, MaxWrites=3, MaxAct=7 if q else 9), dict(v6=1), None),
            # the FIN meets a full queue (D1 family): one direction, capacity 1 and 2, reader starts late
            ("gen_fin_full", tcp_consts(Cap=1, Alpha={"write", "shutdown", "deliver", "read", "quiet"},
                                        WriteLens={1}, ReadSizes={1}, MaxWrites=1, MaxAct=8 if q else 10), dict(v6=0), None),
            # seeded random walks of 22 actions (num = walks per TLC worker)
            ("sim_data", tcp_consts(Cap=2, WriteLens={0, 1, 2, 3}, ReadSizes={0, 1, 2, 4}, PeekSizes={1, 2}, MaxWrites=4,
                                    MaxAct=22), dict(v6=0), f"num={150 if q else 3000}"),
        ]
        return cfgs
    if pid == "C12":
        cfgs = [
            ("gen_conn", conn_consts(MaxAct=5 if q else 7), dict(v6=0), None),
            ("gen_conn_data", conn_consts(NH=2, Alpha={"bind", "connect", "deliver", "accept", "poll", "cancel", "quiet",
                                                        "write", "read", "drop_stream"},
                                          DestKinds={"srv"}, BindKinds={"any"}, MaxAct=10 if q else 11), dict(v6=1), None),
            # bursts: 3-4 requests pending at one listener at the same time before / between accepts
            ("gen_conn_burst", conn_consts(MaxConn=3, NH=2 if q else 3, Cap=3, Alpha={"bind", "connect", "deliver", "accept", "cancel"},
                                           DestKinds={"srv"}, BindKinds={"any"}, MaxAct=10), dict(v6=0), None),
            # a 1-port ephemeral range: a connector re-uses the address of an abandoned / refused / closed one;
            # the RST of an abandoned connect is in flight together with the next connector's request
            ("gen_conn_reuse", conn_consts(MaxConn=3, NH=2, Cap=3, NPorts=1, Alpha={"bind", "connect", "deliver", "accept", "poll", "cancel"},
                                           DestKinds={"srv"}, BindKinds={"any"}, MaxAct=9 if q else 11), dict(v6=0, nports=1), None),
            ("sim_conn", conn_consts(MaxConn=3, Cap=3, Alpha=set(CONN_OPS) | {"write", "read", "drop_stream"},
                                     MaxAct=20), dict(v6=0), f"num={150 if q else 3000}"),
        ]
        return cfgs
    if pid == "C15":
        cfgs = [
            ("gen_ports", ports_consts(MaxOps=5 if q else 6), dict(v6=0), None),
            ("gen_dns", dns_consts(MaxOps=4 if q else 5), dict(v6=1), None),
            # streams accepted on a listener that was bound to port 0 share its (ephemeral) port: the port
            # stays in use until the last of them is gone, also after the listener itself was dropped
            ("gen_ports_shared", ports_consts(Hi=49153, Fixed=set(), BindKindsP={"any", "lo"},
                                              Ops={"bind_tcp", "bind_udp", "accept", "drop", "drop_half"},
                                              MaxOps=7 if q else 8, MaxIn=2), dict(v6=0), None),
        ]
        if not q:
            cfgs.append(("gen_ports_v6", ports_consts(MaxOps=5, Fixed={49152, 7}), dict(v6=1), None))
            cfgs.append(("gen_dns_v4", dns_consts(MaxOps=5), dict(v6=0), None))
        return cfgs
    raise ValueError(pid)


def random_configs(pid, tier, seed):
    q = tier == "quick"
    if pid in ("C02", "C12"):
        mode = "data" if pid == "C02" else "conn"
        base = [dict(mode=mode, nh=3, cap=2 if pid == "C02" else 4, tick=2, lmin=1, lmax=6, conns=3 if pid == "C02" else 4,
                     runs=12 if q else 80),
                dict(mode=mode, nh=2, cap=1, tick=1, lmin=1, lmax=4, conns=2, runs=12 if q else 80),
                dict(mode=mode, nh=3, cap=3, tick=3, lmin=2, lmax=11, conns=4, runs=8 if q else 60)]
        if pid == "C02":
            for c in base:      # scripted slow-reader / fast-writer scenarios after the random runs
                c["pressure"] = 6 if q else 30
        else:
            for c in base:      # scripted shared-listener scenarios (two tasks parked in accept)
                c["poolruns"] = (4 if q else 20) if c["nh"] > 1 and c["cap"] >= 3 else 0
                # reverse-direction one-way cuts made from host code in the step a request becomes due
                c["cutruns"] = (3 if q else 12) if c["nh"] > 1 else 0
        return [dict(c, seed=seed * 101 + i, maxconn=c["conns"], ports=[1, 2]) for i, c in enumerate(base)]
    if pid == "C15":
        base = [dict(lo=49152, hi=49156, maxsock=8, ops=40, names=40, runs=6 if q else 30),
                # every session first registers 640 distinct names (IPv4 in even runs, IPv6 in odd runs), looks
                # every one of them up again and reverse-resolves every address, then continues at random
                dict(lo=50000, hi=50002, maxsock=5, ops=30, names=700, dnsfill=640, dnsops=200, runs=2 if q else 12)]
        if not q:
            base.append(dict(lo=60000, hi=60007, maxsock=12, ops=80, names=600, runs=20))
        return [dict(c, seed=seed * 101 + i) for i, c in enumerate(base)]
    raise ValueError(pid)


def trace_consts(pid, rc):
    """Constants of the trace specs for a random / replay configuration."""
    if pid in ("C02", "C12"):
        prop = dict(MaxConn=rc["maxconn"], NH=rc["nh"], PortIds=set(rc["ports"]))
        impl = dict(prop, Cap=rc["cap"], FinRoom=1, RstOnFin=False, Pre=False, Alpha=set(ALL_TCP_OPS) | {"quiet"},
                    DestKinds={"srv", "none", "unspec"}, BindKinds={"any", "lo"}, WriteLens=set(range(0, 17)),
                    ReadSizes=set(range(0, 17)), PeekSizes=set(range(0, 17)), NPorts=rc.get("nports", 0), MaxWrites=10 ** 9,
                    MaxAct=10 ** 9)
        return prop, impl
    if pid == "C15":
        prop = dict(Lo=rc["lo"], Hi=rc["hi"], MaxSock=rc["maxsock"])
        impl = dict(prop, Fixed=set(), Ops=set(PORT_OPS + DNS_OPS), BindKindsP={"any", "lo"}, MaxOps=10 ** 9, MaxIn=10 ** 9,
                    LeakOnFail=False, NameU=set(), Patterns=set())
        return prop, impl
    raise ValueError(pid)


def replay_rc(pid, consts):
    if pid in ("C02", "C12"):
        return dict(maxconn=consts["MaxConn"], nh=consts["NH"], ports=sorted(consts["PortIds"]), cap=consts["Cap"],
                    nports=consts.get("NPorts", 0))
    if pid == "C15":
        return dict(lo=consts["Lo"], hi=consts["Hi"], maxsock=consts["MaxSock"])
    raise ValueError(pid)


# ---------------------------------------------------------------------------
# helpers

def validate_trace(pid, path, rc, tag, impl=True):
    """Returns (prop_result, impl_result)."""
    fam = FAMILY[pid]
    env = {"TRACE": os.path.abspath(path)}
    pc, ic = trace_consts(pid, rc)
    pcfg = vlib.cfg_text("TSpec", pc, invariants=PROP_INVS[pid], postcondition="Accepted")
    pr = vlib.run_tlc(SUB, fam["ptrace"], pcfg, tag + "_prop", workers=1, env=env, dfs=True, heap="3g", timeout=900)
    if pr.error or pr.timed_out:
        raise MachineryError(f"trace validation (prop) failed: {pr.error or 'timeout'}")
    ir = None
    if impl:
        icfg = vlib.cfg_text("TSpec", ic, invariants=PROP_INVS[pid] + ["ImplInv"], postcondition="Accepted")
        ir = vlib.run_tlc(SUB, fam["itrace"], icfg, tag + "_impl", workers=1, env=env, dfs=True, heap="3g", timeout=900)
        if ir.timed_out:
            raise MachineryError("trace validation (impl) failed: timeout")
        if ir.error:
            # the fidelity level must never turn into an alarm or a machinery error: an event the trace
            # spec cannot even evaluate is an event the ImplSpec does not explain - drift
            log(f"[{pid}] note: the fidelity-level trace spec could not evaluate an event ({ir.error.splitlines()[0][:200]}): "
                f"counted as drift")
            ir.unmatched = ir.unmatched or (0, "evaluation error")
    return pr, ir


class DriverAbort(Exception):
    """The driver process was killed by a panic of the code under test that cannot be caught
    (a panic inside a destructor aborts the process)."""
    def __init__(self, info):
        super().__init__(str(info))
        self.info = info


def drive(args, panics):
    """Run the driver.  A non-zero exit is a machinery error unless the side file written by the
    driver's panic hook shows that the last panic came from the code under test: then the process
    was aborted by that panic (destructor) and the caller reports it as an observation."""
    import subprocess
    if os.path.exists(panics):
        os.remove(panics)
    p = subprocess.run([os.path.join(vlib.BIN, BIN)] + args + [f"panics={panics}"], stdout=subprocess.PIPE,
                       stderr=subprocess.STDOUT, text=True, timeout=3600)
    if p.returncode == 0:
        return p.stdout
    last = None
    if os.path.exists(panics):
        for l in open(panics).read().splitlines():
            try:
                last = json.loads(l)
            except ValueError:
                pass
    if last and "crates/turmoil" in last.get("loc", "") and (p.returncode < 0 or p.returncode == 134):
        raise DriverAbort(dict(last, returncode=p.returncode))
    import sys
    sys.stdout.write(p.stdout[-4000:])
    raise MachineryError(f"driver {BIN} {' '.join(args)} exited {p.returncode}")


def rejected(r):
    return bool(r.violated or r.unmatched)


def count_lines(path):
    with open(path) as f:
        return sum(1 for _ in f)


def tree_leaves(behs):
    """behs: JSON texts of histories, one per distinct (state, last action).  The
    histories form a prefix tree (each is its BFS parent's history plus one
    action); replaying the leaves executes every node."""
    hs = [json.loads(b) for b in behs]
    keys = [json.dumps(h, sort_keys=True) for h in hs]
    parents = set(json.dumps(h[:-1], sort_keys=True) for h in hs)
    return [h for h, k in zip(hs, keys) if k not in parents]


def jsonable(c):
    def conv(v):
        if isinstance(v, (set, frozenset)):
            return sorted((conv(x) for x in v), key=str)
        return v
    return {k: conv(v) for k, v in c.items()}


def unjson(c):
    def conv(v):
        if isinstance(v, list):
            return frozenset(conv(x) for x in v)
        return v
    return {k: conv(v) for k, v in c.items()}


def driver_args(pid, consts, extra):
    if pid in ("C02", "C12"):
        return [f"nh={consts['NH']}", f"cap={consts['Cap']}", f"pre={1 if consts['Pre'] else 0}"] + \
               [f"{k}={v}" for k, v in extra.items()]
    if pid == "C15":
        return [f"lo={consts['Lo']}", f"hi={consts['Hi']}"] + [f"{k}={v}" for k, v in extra.items()]
    raise ValueError(pid)


def outcomes_of(pid, hs):
    """Vacuity: which interesting outcomes occur in the generated behaviours."""
    seen = {}
    if pid in ("C02", "C12"):
        for h in hs:
            for e in h:
                op = e["op"]
                if "res" in op:
                    k = f"{op['a']}:{op['res']}"
                    seen[k] = seen.get(k, 0) + 1
                    if op["a"] == "write" and not op["data"]:
                        seen[f"write0:{op['via']}"] = seen.get(f"write0:{op['via']}", 0) + 1
                elif op["a"] == "deliver":
                    k = f"deliver:{op['kind']}"
                    seen[k] = seen.get(k, 0) + 1
    if pid == "C15":
        for h in hs:
            for e in h:
                op = e["op"]
                r = op.get("res")
                if r == -1:
                    seen["AddrInUse"] = seen.get("AddrInUse", 0) + 1
                elif r == -2:
                    seen["Exhausted"] = seen.get("Exhausted", 0) + 1
                elif r == -3:
                    seen["ConnectFailed"] = seen.get("ConnectFailed", 0) + 1
                if op["a"] == "accept" and r and r >= 49152:
                    seen["AcceptEphemeral"] = seen.get("AcceptEphemeral", 0) + 1
                if op["a"] == "regex" and r:
                    seen["RegexNonEmpty"] = seen.get("RegexNonEmpty", 0) + 1
                if op["a"] == "reverse" and r:
                    seen["ReverseFound"] = seen.get("ReverseFound", 0) + 1
    return seen


NEED_OUTCOMES = {
    "gen_data_cap1": ["read:data", "read:eof", "read:pending", "read:reset", "write:wouldblock", "write:brokenpipe",
                      "peek:data", "deliver:rst", "deliver:fin"],
    "gen_data_cap2": ["read:data", "read:eof", "read:zero", "write:wouldblock", "write0:try", "write0:poll"],
    "gen_fin_full": ["read:data", "read:eof", "read:pending", "deliver:fin"],
    "gen_conn": ["connect:pending", "connect:refused", "poll:ok", "poll:refused", "poll:pending", "accept:ok",
                 "accept:pending", "bind:inuse", "deliver:syn"],
    "gen_conn_data": ["accept:ok", "poll:ok", "read:data", "read:reset", "deliver:rst"],
    "gen_conn_burst": ["accept:ok", "accept:pending", "deliver:syn"],
    "gen_conn_reuse": ["accept:ok", "poll:ok", "deliver:rst", "deliver:syn"],
    "gen_ports": ["AddrInUse", "Exhausted", "ConnectFailed"],
    "gen_dns": ["RegexNonEmpty", "ReverseFound"],
    "gen_ports_shared": ["AcceptEphemeral", "Exhausted"],
}

NEED_ACTIONS = {
    "mc_data_cap1": ["Write", "Shutdown", "Read", "Peek", "DropRead", "DropWrite", "DropStream", "DeliverSeg",
                     "DeliverRst", "Quiet"],
    "mc_data_cap2": ["Write", "Write0", "Shutdown", "Read", "DropStream", "DeliverSeg", "DeliverRst", "Quiet"],
    "mc_conn": ["Bind", "DropListener", "Connect", "DeliverSyn", "Accept", "Poll", "Cancel", "Partition", "Repair", "Tick"],
    "mc_conn_burst": ["Bind", "Connect", "DeliverSyn", "Accept", "Cancel"],
    "mc_conn_reuse": ["Bind", "Connect", "DeliverSyn", "DeliverRst", "Accept", "Poll", "Cancel", "DropListener"],
    "mc_conn_data": ["Bind", "Connect", "DeliverSyn", "Accept", "Poll", "Cancel", "Quiet", "Write", "Read", "DropStream",
                     "DeliverSeg", "DeliverRst"],
    "mc_ports": ["BindUdp", "BindTcp", "Connect", "AcceptIn", "Drop", "DropHalf", "Crash"],
    "mc_ports_r4": ["BindUdp", "BindTcp", "Connect", "AcceptIn", "Drop", "DropHalf", "Crash"],
    "mc_dns": ["Lookup", "Reverse", "Literal", "Regex"],
    "mc_ports_shared": ["BindUdp", "BindTcp", "AcceptIn", "Drop", "DropHalf"],
}


# ---------------------------------------------------------------------------

def run(pid, tier, seed, replay=None):
    ck = vlib.Check(pid, tier, seed)
    ck.assumptions = ASSUMPTIONS[pid]
    vlib.build_harness([BIN])
    if replay:
        return do_replay(ck, replay)
    fam = FAMILY[pid]
    w = vlib.workdir(f"{pid}_files")

    # 1. design level ------------------------------------------------------
    for name, consts in mc_configs(pid, tier):
        cfg = vlib.cfg_text("Spec", consts, invariants=PROP_INVS[pid] + ["ImplInv"], view="View")
        r = vlib.run_tlc(SUB, fam["impl"], cfg, f"{pid}_{name}", workers=10,
                         timeout=1500 if tier == "thorough" else 400, coverage=True, heap="12g")
        ck.add_tlc(r, name, exhaustive=True)
        log(f"[{pid}] {name}: {r.distinct} distinct states, {r.generated} generated, depth {r.depth}, {r.wall:.0f}s")
        if r.violated or r.error or r.timed_out:
            log(vlib.counterexample_text(r))
            raise MachineryError(f"design-level check {name} did not pass: the committed ImplSpec does not satisfy the "
                                 f"PropSpec ({r.violated or r.error or 'timeout'}); the spec must be repaired first")
        missing = [a for a in NEED_ACTIONS.get(name, []) if r.coverage and r.coverage.get(a, 0) == 0]
        if missing:
            raise MachineryError(f"vacuity: actions never taken in {name}: {missing}")

    # 2. spec -> code -------------------------------------------------------
    for name, consts, extra, simulate in gen_configs(pid, tier):
        gc = dict(consts, EmitAll=simulate is None)
        cfg = vlib.cfg_text("GenSpec", gc, invariants=["Emit"] + PROP_INVS[pid],
                            view="GenView" if simulate is None else None)
        r = vlib.run_tlc(SUB, fam["gen"], cfg, f"{pid}_{name}", workers=10, timeout=1500, heap="12g",
                         simulate=simulate, seed=seed if simulate else None)
        if r.violated or r.error or (r.timed_out and not simulate):
            log(vlib.counterexample_text(r))
            raise MachineryError(f"behaviour generation {name} failed ({r.violated or r.error or 'timeout'})")
        behs = vlib.extract_replays(r.stdout)
        if simulate is None:
            hs = tree_leaves(behs)
        else:
            hs = [json.loads(b) for b in dict.fromkeys(behs)]      # distinct walks that reached MaxAct
        ck.add_tlc(r, name)
        seen = outcomes_of(pid, hs)
        lack = [o for o in NEED_OUTCOMES.get(name, []) if not seen.get(o)]
        if lack:
            raise MachineryError(f"vacuity: outcomes never predicted in {name}: {lack}")
        ck.extra.setdefault("predicted_outcomes", {})[name] = seen
        bpath = os.path.join(w, f"{name}.ndjson")
        with open(bpath, "w") as f:
            for h in hs:
                f.write(json.dumps(h) + "\n")
        spath = os.path.join(w, f"{name}.summary.json")
        tdir = os.path.join(w, name)
        os.makedirs(tdir, exist_ok=True)
        try:
            out = drive([fam["replay"], f"in={bpath}", f"out={spath}", f"traces={tdir}"]
                        + driver_args(pid, consts, extra), os.path.join(tdir, "panics.ndjson"))
        except DriverAbort as a:
            k = a.info.get("case", -1)
            log(f"[{pid}] {name}: the code under test aborted the driver while behaviour #{k} was replayed: {a.info}")
            ck.violation({"kind": "behaviour", "property": pid, "config": name, "consts": jsonable(consts), "extra": extra,
                          "behaviour": hs[k] if 0 <= k < len(hs) else None, "violated_clause": "NoPanic",
                          "abort": a.info})
            continue
        s = json.load(open(spath))
        log(f"[{pid}] {name}: {len(behs)} TLC states -> {len(hs)} behaviours, {out.strip()}")
        ck.traces += s["behaviours"]
        ck.evaluations += s["behaviours"]
        ck.nontrivial += s["nontrivial"]
        for smp in s["samples"][:1]:
            ck.sample({"kind": "tlc behaviour replayed on the real Sim", "config": name, **smp})
        judge_batch(ck, pid, name, consts, extra, s, bpath, tdir)
        for d in [x for x in s["divergences"] if x.get("what") == "panic"][:3]:
            judge_divergence(ck, pid, name, consts, extra, d)      # an undocumented panic: reported as it is
        ck.impl_drift += s["divergent"]
        for d in s.get("table_divergences", [])[:1]:
            log(f"[{pid}] drift (hook tables only): {json.dumps({k: v for k, v in d.items() if k != 'behaviour'})[:400]}")

    # 4. corpus: witnesses of repaired defects stay and are re-run every time --
    run_corpus(ck, pid, w)

    # 3. code -> spec -------------------------------------------------------
    first = True
    rcs = random_configs(pid, tier, seed)
    for i, rc in enumerate(rcs):
        tpath = os.path.join(w, f"random_{i}.ndjson")
        args = [fam["rand"]] + [f"{k}={v}" for k, v in rc.items()]
        try:
            out = drive(args + [f"out={tpath}"], tpath + ".panics")
        except DriverAbort as a:
            log(f"[{pid}] random {rc}: the code under test aborted the driver in run {a.info.get('case')}: {a.info}")
            ck.violation({"kind": "random", "property": pid, "args": args, "cfg": rc, "violated_clause": "NoPanic",
                          "abort": a.info})
            continue
        pr, ir = validate_trace(pid, tpath, rc, f"{pid}_rnd{i}")
        ck.add_tlc(pr, f"trace_prop_{i}")
        ck.add_tlc(ir, f"trace_impl_{i}")
        ck.traces += rc["runs"]
        ck.evaluations += rc["runs"]
        ck.nontrivial += rc["runs"]
        log(f"[{pid}] random {rc}: {out.strip()} ({count_lines(tpath)} events) -> prop "
            f"{'ok' if not rejected(pr) else 'REJECTED'}, impl {'ok' if not rejected(ir) else 'drift'}")
        if first:
            with open(tpath) as f:
                ck.sample({"kind": "recorded trace excerpt", "config": rc,
                           "events": [json.loads(x) for _, x in zip(range(14), f)]})
            first = False
        if rejected(pr):
            ck.violation({"kind": "random", "property": pid, "args": args, "cfg": rc,
                          "violated_clause": pr.violated, "unmatched": pr.unmatched,
                          "tlc": vlib.counterexample_text(pr, 3000)})
        elif rejected(ir):
            ck.impl_drift += 1
            log(f"[{pid}] note: implementation trace left the ImplSpec at event {ir.unmatched} "
                f"({ir.violated}); PropSpec accepted it (drift, no alarm)")

    # binding demonstration: a corrupted trace must be rejected ----------------
    rc = rcs[0]
    tpath = os.path.join(w, "random_0.ndjson")
    bad = os.path.join(w, "random_0_corrupt.ndjson")
    if not os.path.exists(tpath) and ck.violations:
        ck.extra["rule"] = RULE[pid]
        return ck.finish()          # the driver was aborted by the code under test: already reported
    what = corrupt_trace(pid, tpath, bad, seed)
    if not what:
        raise MachineryError("binding demonstration: nothing to corrupt in the recorded trace")
    if what:
        pr, ir = validate_trace(pid, bad, rc, f"{pid}_bind")
        rej = rejected(pr) or rejected(ir)
        ck.extra["binding_demo"] = {"corruption": what, "rejected_by_prop": rejected(pr), "rejected_by_impl": rejected(ir)}
        if not rej:
            raise MachineryError("binding demonstration failed: corrupted trace was accepted")
    ck.extra["rule"] = RULE[pid]
    return ck.finish()


_TCP_ASSUME = [
    "spec->code replays: remote peers only (client hosts and one server host), every client<->server link held from "
    "the start and each in-flight message delivered through Sim::links / SentRef::deliver in the order of the TLC "
    "behaviour, one model action per Sim::step; same-host and 127.0.0.1 peers, real latency ranges with min < max, "
    "hold / release and IPv6 are covered by the recorded-trace direction",
    "a read / write / connect / accept is observed by polling its future once (a pending future is dropped: all of "
    "them are cancel-safe); 'quiet' = Sim::links showed no message in flight after a complete step",
    "the delivery half of C02 is asserted only for connections no partition touched and on which no abortive close "
    "happened (a read half dropped while accepted inbound bytes were unread, or bytes written towards a dropped read "
    "half), exactly as the quantifier says; host crashes are C04's subject and are not in the alphabet",
    "the number of simultaneously pending connection requests stays below tcp_capacity (beyond: documented panic)",
    "TLC results hold for the stated small constants; larger parameters are sampled only",
]
ASSUMPTIONS = {
    "C02": _TCP_ASSUME,
    "C12": _TCP_ASSUME,
    "C15": [
        "ports: one host under test with an ephemeral range of 3-8 ports, one remote peer that accepts / connects on "
        "demand and closes its end after the host under test dropped its own (4-tuple reuse while the peer still "
        "holds the old stream is the documented 'already connected' panic and is outside the statement)",
        "every call completes before the next one starts (the allocator is a sequential object; concurrency of "
        "connects is the subject of C12)",
        "DNS: names and patterns from a finite universe; regex matching itself (the regex crate) is trusted, what is "
        "checked is which registered names a pattern lookup returns",
        "TLC results hold for the stated small constants; larger ranges / several hundred names are sampled only",
    ],
}

_TCP_RULE = ("behaviours: one shortest history per reachable (state, last action) of MsgTcpGen within the bounds (the "
             "leaves of that prefix tree are replayed, so every node is executed) plus seeded -simulate walks; "
             "non-trivial = contains a controller / fault action (manual delivery, partition, cancel, listener or stream "
             "drop) and an observation that completed (read / peek / poll / accept not pending). random runs: one "
             "seeded scenario each, counted non-trivial when segments were reordered in flight or a fault was injected")
RULE = {
    "C02": _TCP_RULE,
    "C12": _TCP_RULE,
    "C15": ("behaviours: one shortest history per reachable (state, last action) of PortsGen within the bounds (leaves "
            "of that prefix tree are replayed, so every node is executed); non-trivial = contains a drop / half drop / "
            "crash (ports) or a reverse / literal / regex lookup (DNS). random runs: one seeded session each, all "
            "counted non-trivial (they always contain drops and regex lookups)"),
}


def corrupt_trace(pid, src, dst, seed):
    lines = open(src).read().splitlines()
    if pid == "C02":
        # one byte of one completed read is altered
        idx = [i for i, l in enumerate(lines) if '"ev":"read"' in l and '"res":"data"' in l]
        if not idx:
            return None
        i = idx[len(idx) // 2]
        e = json.loads(lines[i])
        e["got"][0] = (e["got"][0] + 7) % 250 + 1
        lines[i] = json.dumps(e)
        open(dst, "w").write("\n".join(lines) + "\n")
        return "one byte returned by a read altered"
    if pid == "C12":
        # an accepted stream is attributed to a different connector's address pair
        idx = [i for i, l in enumerate(lines) if '"ev":"poll"' in l and '"res":"ok"' in l]
        if not idx:
            return None
        i = idx[len(idx) // 2]
        e = json.loads(lines[i])
        e["local"] = "192.168.9.9:1"
        lines[i] = json.dumps(e)
        open(dst, "w").write("\n".join(lines) + "\n")
        return "local address of a successful connect altered (no longer mirrored by the accepted stream)"
    if pid == "C15":
        # an ephemeral bind is made to return a port that is in use at that moment
        inuse = {}
        for i, l in enumerate(lines):
            e = json.loads(l)
            if e["ev"] == "reset":
                inuse = {}
            elif e["ev"] == "bind" and e["res"] > 0:
                if e["p"] == 0 and inuse:
                    e["res"] = sorted(inuse.values())[0]
                    lines[i] = json.dumps(e)
                    open(dst, "w").write("\n".join(lines) + "\n")
                    return "an ephemeral bind re-labelled with a port that is bound at that moment"
                inuse[e["s"]] = e["res"]
            elif e["ev"] in ("drop",):
                inuse.pop(e["s"], None)
            elif e["ev"] == "crash":
                inuse = {}
        return None
    raise ValueError(pid)


def judge_divergence(ck, pid, name, consts, extra, d):
    """The real code left the ImplSpec on a TLC behaviour: ask the PropSpec."""
    payload = {"kind": "behaviour", "property": pid, "config": name, "consts": jsonable(consts), "extra": extra,
               "behaviour": d.get("behaviour"), "divergence": {k: v for k, v in d.items() if k != "behaviour"}}
    tr = d.get("trace")
    if not tr or d.get("what") == "panic":
        ck.violation(payload)
        return True
    pr, _ = validate_trace(pid, tr, replay_rc(pid, consts), f"{pid}_div", impl=False)
    ck.add_tlc(pr, "trace_divergence")
    if rejected(pr):
        payload.update(violated_clause=pr.violated, unmatched=pr.unmatched)
        ck.violation(payload)
        return True
    log(f"[{pid}] drift: behaviour #{d.get('line')} diverged from the ImplSpec ({d.get('what')}) "
        f"but the PropSpec accepts the observation")
    return False


def judge_batch(ck, pid, name, consts, extra, summary, bpath, tdir):
    """Every behaviour on which the code left the ImplSpec in an observable way (result of a call,
    stream count) is judged by the PropSpec: their recorded traces are concatenated (the reset event
    of each carries the behaviour's line number) and validated in one TLC run; a rejection is
    attributed to the run it occurs in, reported, and the rest is validated again (at most three
    violations per configuration are reported)."""
    path = os.path.join(tdir, "divs-all.ndjson")
    if not summary.get("result_divergent") or not os.path.exists(path):
        return
    lines = open(path).read().splitlines()
    if not lines:
        return
    if summary["result_divergent"] > len(summary.get("judged_lines", [])):
        log(f"[{pid}] {name}: {summary['result_divergent']} result divergences, the first "
            f"{len(summary['judged_lines'])} are judged (trace volume cap)")
    behs = None
    details = {d.get("line"): d for d in summary["divergences"]}
    offset, nviol, round_ = 0, 0, 0
    while offset < len(lines) and nviol < 3:
        sub = lines[offset:]
        tpath = os.path.join(tdir, f"divs-judge-{round_}.ndjson")
        open(tpath, "w").write("\n".join(sub) + "\n")
        round_ += 1
        pr, _ = validate_trace(pid, tpath, replay_rc(pid, consts), f"{pid}_div", impl=False)
        ck.add_tlc(pr, "trace_divergences")
        if not rejected(pr):
            break
        starts = [i for i, l in enumerate(sub) if l.startswith('{"ev":"reset"')]
        # TLC stops in the state after the offending event: that event is number d - 1 (1-based)
        at = (pr.unmatched[0] - 2) if pr.unmatched else len(sub) - 1
        at = max(0, min(at, len(sub) - 1))
        run_start = max([i for i in starts if i <= at] or [0])
        line = json.loads(sub[run_start]).get("line")
        if behs is None:
            behs = open(bpath).read().splitlines()
        beh = json.loads(behs[line]) if line is not None and line < len(behs) else None
        d = details.get(line, {"line": line})
        payload = {"kind": "behaviour", "property": pid, "config": name, "consts": jsonable(consts), "extra": extra,
                   "behaviour": beh, "divergence": {k: v for k, v in d.items() if k != "behaviour"},
                   "violated_clause": pr.violated, "offending_event": json.loads(sub[at])}
        ck.violation(payload)
        nviol += 1
        nxt = [i for i in starts if i > run_start]
        if not nxt:
            return
        offset += nxt[0]
    if nviol == 0:
        log(f"[{pid}] drift: {len(summary.get('judged_lines', []))} behaviours of {name} diverged from the ImplSpec in a "
            f"result, the PropSpec accepts every one of the observations")
    elif offset < len(lines) and nviol >= 3:
        log(f"[{pid}] {name}: further divergent behaviours not judged (3 violations already reported)")


def replay_behaviour(ck, pid, rp, w, tag):
    """Execute one behaviour file entry on the current tree; the PropSpec judges the
    recorded observation whether or not it matches the ImplSpec prediction."""
    fam = FAMILY[pid]
    consts = unjson(rp["consts"])
    bpath = os.path.join(w, f"{tag}.ndjson")
    open(bpath, "w").write(json.dumps(rp["behaviour"]) + "\n")
    spath = os.path.join(w, f"{tag}.summary.json")
    tdir = os.path.join(w, tag)
    os.makedirs(tdir, exist_ok=True)
    try:
        drive([fam["replay"], f"in={bpath}", f"out={spath}", f"traces={tdir}", "keep=1"]
              + driver_args(pid, consts, rp.get("extra", {})), os.path.join(tdir, "panics.ndjson"))
    except DriverAbort as a:
        ck.violation(dict(rp, violated_clause="NoPanic", abort=a.info))
        return False
    s = json.load(open(spath))
    ck.traces += 1
    ck.evaluations += 1
    tr = os.path.join(tdir, "all-0.ndjson")
    if not os.path.exists(tr):
        ck.violation(dict(rp, note="behaviour could not be executed (panic)", summary=s))
        return False
    pr, _ = validate_trace(pid, tr, replay_rc(pid, consts), f"{pid}_{tag}", impl=False)
    ck.add_tlc(pr, f"trace_{tag}")
    if rejected(pr):
        ck.violation(dict(rp, violated_clause=pr.violated, unmatched=pr.unmatched))
        return False
    return True


def run_corpus(ck, pid, w):
    cdir = os.path.join(vlib.ROOT, "corpus")
    for cf in sorted(os.listdir(cdir)):
        if not cf.startswith(pid + "-"):
            continue
        rp = json.load(open(os.path.join(cdir, cf)))
        if rp["kind"] == "behaviour":
            ok = replay_behaviour(ck, pid, rp, w, "corpus_" + cf.replace(".json", ""))
        else:
            ok = replay_random(ck, pid, rp, w, "corpus_" + cf.replace(".json", ""))
        log(f"[{pid}] corpus {cf}: {'ok' if ok else 'REJECTED'}")


def replay_random(ck, pid, rp, w, tag):
    tpath = os.path.join(w, f"{tag}.ndjson")
    try:
        drive(rp["args"] + [f"out={tpath}"], tpath + ".panics")
    except DriverAbort as a:
        ck.violation(dict(rp, violated_clause="NoPanic", abort=a.info))
        return False
    rc = rp["cfg"]
    pr, _ = validate_trace(pid, tpath, rc, f"{pid}_{tag}", impl=False)
    ck.add_tlc(pr, f"trace_{tag}")
    ck.traces += rc.get("runs", 1)
    ck.evaluations += rc.get("runs", 1)
    if rejected(pr):
        ck.violation(dict(rp, violated_clause=pr.violated, unmatched=pr.unmatched))
        return False
    return True


def do_replay(ck, path):
    rp = json.load(open(path))
    pid = ck.pid
    w = vlib.workdir(f"{pid}_replay")
    if rp["kind"] == "behaviour":
        ok = replay_behaviour(ck, pid, rp, w, "replay")
    else:
        ok = replay_random(ck, pid, rp, w, "replay")
    if ok:
        log(f"[{pid}] replay: observation accepted by the PropSpec")
    ck.states = max(ck.states, 1)
    ck.transitions = max(ck.transitions, 1)
    ck.nontrivial = 1
    ck.sample({"replayed": path})
    ck.extra["rule"] = RULE[pid]
    return ck.finish()
