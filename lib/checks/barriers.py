"""C20: turmoil::barriers (specs/barriers).

  1. design level  - TLC checks Barriers (ImplSpec, a transcription of barriers.rs)
                     against PropInv of BarriersProp exhaustively for small constants;
  2. spec -> code  - TLC enumerates every behaviour of BarriersGen with MaxOps
                     test-level operations; each is executed on the real
                     turmoil::barriers API (sources = futures polled by hand on a paused
                     current-thread tokio runtime) and the events the code produces are
                     compared with TLC's prediction; divergent behaviours are judged by
                     the PropSpec alone (BarriersPropTrace);
  3. code -> spec  - seeded random interleavings (more sources / barriers / values) and
                     runs inside a turmoil Sim (hosts as sources, the fs corruption hook
                     with corruption_probability = 1) are recorded and validated by TLC
                     against BarriersPropTrace (verdict) and BarriersTrace (fidelity).
"""
import json
import os
import re

import vlib
from vlib import MachineryError, log

SUB = "barriers"
PID = "C20"
ALLRX = ["Noop", "Suspend", "Panic"]
PROP_INVS = ["Reported", "SuspendHolds", "ResumesAfterDrop", "NeverBlocks", "PanicPanics",
             "NoSpuriousPanic", "CounterConsistent"]


def tla(v):
    if isinstance(v, bool):
        return "TRUE" if v else "FALSE"
    if isinstance(v, int):
        return str(v)
    if isinstance(v, str):
        return '"' + v + '"'
    if isinstance(v, (set, frozenset, list, tuple)):
        return "{" + ", ".join(sorted(tla(x) for x in v)) + "}"
    raise ValueError(v)


def cfg_text(spec, consts, invariants, view=None, postcondition=None):
    lines = [f"SPECIFICATION {spec}", "CONSTANTS"]
    lines += [f"  {k} = {tla(v)}" for k, v in consts.items()]
    lines.append("INVARIANTS")
    lines += [f"  {i}" for i in invariants]
    if view:
        lines.append(f"VIEW {view}")
    if postcondition:
        lines.append(f"POSTCONDITION {postcondition}")
    lines.append("CHECK_DEADLOCK FALSE")
    return "\n".join(lines) + "\n"


def S(*xs):
    return frozenset(xs)


def consts(nsrc, rx, conds, vals, sync, maxbars, maxtrig, **kw):
    c = dict(NSrc=nsrc, Reactions=set(rx), Conds=set(conds), TrigValues=set(vals), SyncModes=set(sync),
             MaxBars=maxbars, MaxTrig=maxtrig, GuardValues=set(), Prepare=False)
    c.update(kw)
    return c


def mc_configs(tier):
    cfgs = [
        # every reaction, sync and async triggers, a foreign-typed value, overlapping conditions
        ("mc_all", consts(2, ALLRX, [S(1), S(1, 2)], [0, 1, 2], [False, True], 2, 1)),
        # one source, three triggers: order of reports, repeated suspend / release cycles
        ("mc_order", consts(1, ["Noop", "Suspend"], [S(1), S(1, 2), S(2)], [1, 2], [False], 2, 3)),
        # prepared triggers: the future `trigger(v)` is built, the barrier set changes, then it is polled / dropped
        ("mc_prep", consts(2, ALLRX, [S(1)], [1], [False], 2, 1, Prepare=True)),
        # cleanup guards: a sync trigger fired from a destructor while the source unwinds
        ("mc_unwind", consts(1, ALLRX, [S(1), S(2)], [1, 2], [False, True], 2, 2, GuardValues={2})),
    ]
    if tier == "thorough":
        cfgs += [
            ("mc_order_all", consts(1, ALLRX, [S(1), S(1, 2), S(2)], [0, 1, 2], [False, True], 2, 3)),
            ("mc_3src", consts(3, ["Noop", "Suspend"], [S(1), S(1, 2)], [1, 2], [False], 2, 1)),
            ("mc_2x2", consts(2, ALLRX, [S(1), S(1, 2)], [0, 1], [False, True], 2, 2)),
            ("mc_3bars", consts(1, ["Noop", "Suspend"], [S(1), S(1, 2), S(2)], [1, 2], [False], 3, 2)),
            ("mc_unwind3", consts(2, ALLRX, [S(1), S(1, 2)], [0, 1, 2], [False, True], 2, 1, GuardValues={1, 2})),
        ]
    return cfgs


def gen_configs(tier):
    cfgs = [
        # all reactions and both trigger paths, 4 operations
        ("gen_all", consts(2, ALLRX, [S(1), S(1, 2)], [0, 1, 2], [False, True], 2, 2, MaxOps=4)),
        # overlap / order: one source, up to three async triggers, two barriers, 6 operations
        ("gen_order", consts(1, ["Noop", "Suspend"], [S(1), S(1, 2)], [1, 2], [False], 2, 3, MaxOps=6)),
        # a cleanup guard triggers while its source unwinds from a call that a Panic barrier (or trigger_noop on a
        # Suspend barrier) panicked: Panic / Noop / Suspend barriers over values 1, 2; guard value 2
        ("gen_unwind", consts(1, ALLRX, [S(1), S(2)], [1, 2], [False, True], 2, 2, MaxOps=4 if tier == "quick" else 5, GuardValues={2})),
        ("gen_prep", consts(1, ALLRX, [S(1), S(1, 2)], [1, 2], [False], 2, 2, MaxOps=5, Prepare=True)),
        # suspension: two sources on one Suspend/Noop barrier, 7 operations
        ("gen_suspend", consts(2, ["Suspend", "Noop"], [S(1, 2)], [1], [False], 1, 2, MaxOps=8)),
    ]
    if tier == "thorough":
        cfgs += [
            ("gen_all5", consts(2, ALLRX, [S(1), S(1, 2)], [0, 1, 2], [False, True], 2, 2, MaxOps=5)),
            ("gen_3bars", consts(2, ["Noop", "Suspend"], [S(1), S(1, 2), S(2)], [1, 2], [False], 3, 2, MaxOps=6)),
        ]
    return cfgs


def random_configs(tier, seed):
    q = tier == "quick"
    runs = 40 if q else 300
    cfgs = [
        dict(mode="random", nsrc=3, maxbars=4, ops=40, nvals=4, runs=runs, seed=seed * 131 + 1),
        dict(mode="random", nsrc=4, maxbars=5, ops=80, nvals=3, runs=runs, seed=seed * 131 + 2),
        dict(mode="sim", hosts=3, steps=40, runs=10 if q else 60, seed=seed * 131 + 3),
        # long bursts: 150..300 matching triggers (async + sync) queue up on one Noop barrier before the first wait
        dict(mode="random", nsrc=3, maxbars=3, ops=30, nvals=3, burst=150, runs=4 if q else 25, seed=seed * 131 + 6),
    ]
    if not q:
        cfgs += [
            dict(mode="random", nsrc=2, maxbars=6, ops=120, nvals=2, runs=runs, seed=seed * 131 + 4),
            dict(mode="sim", hosts=5, steps=60, runs=40, seed=seed * 131 + 5),
        ]
    return cfgs


def nsrc_of(rc):
    return rc.get("nsrc", rc.get("hosts"))


def trace_consts(nsrc):
    return consts(nsrc, ALLRX, [], range(0, 8), [False, True], 1000000, 1000000, GuardValues=set(range(0, 8)), Prepare=True)


def validate_trace(path, nsrc, tag, impl=True):
    env = {"TRACE": os.path.abspath(path)}
    pcfg = cfg_text("TSpec", dict(NSrc=nsrc), PROP_INVS, postcondition="Accepted")
    pr = vlib.run_tlc(SUB, "BarriersPropTrace", pcfg, tag + "_prop", workers=1, env=env, dfs=True, heap="3g", timeout=900)
    if pr.error or pr.timed_out:
        raise MachineryError(f"trace validation (prop) failed: {pr.error or 'timeout'}")
    ir = None
    if impl:
        icfg = cfg_text("TSpec", trace_consts(nsrc), PROP_INVS + ["ImplInv"], postcondition="Accepted")
        ir = vlib.run_tlc(SUB, "BarriersTrace", icfg, tag + "_impl", workers=1, env=env, dfs=True, heap="3g", timeout=900)
        if ir.error or ir.timed_out:
            raise MachineryError(f"trace validation (impl) failed: {ir.error or 'timeout'}")
    return pr, ir


def rejected(r):
    return bool(r.violated or r.unmatched)


def driver_args(rc, out):
    return [rc["mode"]] + [f"{k}={v}" for k, v in rc.items() if k != "mode"] + [f"out={out}"]


def run(pid, tier, seed, replay=None):
    ck = vlib.Check(pid, tier, seed)
    ck.assumptions = [
        "a condition is modelled as the set of values it accepts; trigger values are small integers carried in one "
        "Rust type, value 0 is a value of a foreign type (no barrier is built for it); in the Sim runs a second "
        "trigger type (turmoil_fs::FsCorruption, fired by the corruption hook) is mapped to values 3..4",
        "sources are futures polled by hand (replay / random) or tokio tasks of Sim hosts (sim); 'does not proceed' is "
        "observed as a Pending poll with a frozen progress counter, 'proceeds right after' as the counter advancing at "
        "the next poll (next Sim::step) after the handle drop",
        "whether a trigger that hits a Panic barrier (or trigger_noop on a Suspend barrier, a documented panic) is also "
        "reported to the barrier is left open by the PropSpec (at most once, only to the designated barrier)",
        "TLC results hold for the stated small constants; larger parameters are sampled only",
    ]
    vlib.build_harness(["barriers"])
    if replay:
        return do_replay(ck, replay)
    w = vlib.workdir(f"{pid}_files")

    # 1. design level ------------------------------------------------------
    for name, c in mc_configs(tier):
        cfg = cfg_text("Spec", c, PROP_INVS + ["ImplInv"], view="View")
        r = vlib.run_tlc(SUB, "Barriers", cfg, f"{pid}_{name}", workers=10, timeout=1500 if tier == "thorough" else 300,
                         coverage=True, heap="12g")
        ck.add_tlc(r, name, exhaustive=True)
        log(f"[{pid}] {name}: {r.distinct} distinct states, {r.generated} generated, depth {r.depth}, {r.wall:.0f}s")
        if r.violated or r.error or r.timed_out:
            log(vlib.counterexample_text(r))
            raise MachineryError(f"design-level check {name} did not pass: the committed ImplSpec does not satisfy the "
                                 f"PropSpec ({r.violated or r.error or 'timeout'}); the spec must be repaired first")
        need = [("Build", "BuildAny"), ("DropBarrier", "DropBarrierAny"), ("Wait", "WaitAny"),
                ("DropHandle", "DropHandleAny"), ("Poll", "PollAny"), ("Return", "ReturnAny"), ("PollEnd", "PollEndAny")]
        if False in c["SyncModes"]:
            need.append(("Trigger", "TriggerAny"))
        if True in c["SyncModes"]:
            need.append(("TriggerNoop", "TriggerNoopAny"))
        if "Panic" in c["Reactions"]:
            need.append(("Panicked", "PanickedAny"))
        if c["Prepare"]:
            need += [("PrepareTrigger", "PrepareAny"), ("TriggerPrepared", "PrepareAny"), ("DropPrepared", "PrepareAny")]
        if c["GuardValues"]:
            need += [("UnwindTrigger", "UnwindAny"), ("UnwindReturn", "UnwindAny"), ("UnwindPanicked", "UnwindAny")]
        missing = [a for a in need if r.coverage and not any(r.coverage.get(x, 0) > 0 for x in a)]
        if missing or not r.coverage:
            raise MachineryError(f"vacuity: actions never taken in {name}: {missing or 'no coverage output'}")

    # 2. spec -> code -------------------------------------------------------
    for name, c in gen_configs(tier):
        cfg = cfg_text("GenSpec", c, ["Emit"] + PROP_INVS)
        r = vlib.run_tlc(SUB, "BarriersGen", cfg, f"{pid}_{name}", workers=10, timeout=1500, heap="12g")
        if r.violated or r.error or r.timed_out:
            log(vlib.counterexample_text(r))
            raise MachineryError(f"behaviour generation {name} failed ({r.violated or r.error or 'timeout'})")
        behs = vlib.extract_replays(r.stdout)
        r.stdout = ""
        ck.add_tlc(r, name)
        if not behs:
            raise MachineryError(f"behaviour generation {name} produced nothing")
        bpath = os.path.join(w, f"{name}.ndjson")
        with open(bpath, "w") as f:
            f.write("\n".join(behs) + "\n")
        spath = os.path.join(w, f"{name}.summary.json")
        out = vlib.run_driver("barriers", ["replay", f"in={bpath}", f"out={spath}", f"traces={w}", f"nsrc={c['NSrc']}"])
        s = json.load(open(spath))
        log(f"[{pid}] {name}: {len(behs)} TLC behaviours, {out.strip()}")
        os.remove(bpath)
        ck.traces += s["behaviours"]
        ck.evaluations += s["behaviours"]
        ck.nontrivial += s["nontrivial"]
        for smp in s["samples"][:1]:
            ck.sample({"kind": "tlc behaviour replayed on turmoil::barriers", "config": name, **smp})
        judge_divergences(ck, name, c, s, w)
        ck.impl_drift += s["divergent"]

    # 3. code -> spec -------------------------------------------------------
    first = True
    rcs = random_configs(tier, seed)
    for i, rc in enumerate(rcs):
        tpath = os.path.join(w, f"random_{i}.ndjson")
        args = driver_args(rc, tpath)
        out = vlib.run_driver("barriers", args)
        if "sim_failed" in open(tpath).read():
            log(f"[{pid}] note: a Sim run ended with a failed step (host panic / error)")
        pr, ir = validate_trace(tpath, nsrc_of(rc), f"{pid}_rnd{i}")
        ck.add_tlc(pr, f"trace_prop_{i}")
        ck.add_tlc(ir, f"trace_impl_{i}")
        ck.traces += rc["runs"]
        ck.evaluations += rc["runs"]
        ck.nontrivial += rc["runs"]
        log(f"[{pid}] {rc}: {out.strip()} -> prop {'ok' if not rejected(pr) else 'REJECTED'}, "
            f"impl {'ok' if not rejected(ir) else 'drift'}")
        if first:
            with open(tpath) as f:
                ck.sample({"kind": "recorded trace excerpt", "config": rc,
                           "events": [json.loads(x) for _, x in zip(range(16), f)]})
            first = False
        if rejected(pr):
            ck.violation({"kind": "random", "property": pid, "args": args[:-1], "cfg": rc,
                          "violated_clause": pr.violated, "unmatched": pr.unmatched,
                          "tlc": vlib.counterexample_text(pr, 3000)})
        elif rejected(ir):
            ck.impl_drift += 1
            log(f"[{pid}] note: implementation trace left the ImplSpec at event {ir.unmatched} "
                f"({ir.violated}); PropSpec accepted it (drift, no alarm)")

    # binding demonstration: corrupted traces must be rejected -----------------
    demos = []
    for what, fn in (("a wait result redirected to another barrier", corrupt_wait),
                     ("a ret event moved before the handle drop that releases it", corrupt_ret)):
        bad = os.path.join(w, "corrupt.ndjson")
        if fn(os.path.join(w, "random_0.ndjson"), bad):
            pr, _ = validate_trace(bad, nsrc_of(rcs[0]), f"{pid}_bind", impl=False)
            demos.append({"corruption": what, "rejected": rejected(pr), "clause": pr.violated})
            if not rejected(pr):
                raise MachineryError(f"binding demonstration failed: trace with {what} was accepted")
    if not demos:
        raise MachineryError("binding demonstration could not be set up (no reported trigger in the recorded trace)")
    ck.extra["binding_demo"] = demos
    ck.extra["rule"] = ("behaviours: every action sequence of BarriersGen with exactly MaxOps test-level operations "
                        "(distinct by construction); non-trivial = contains a wait that returned a trigger, a poll of a "
                        "parked source or a panic. random / sim runs: one seeded scenario each")
    return ck.finish()


def corrupt_wait(src, dst):
    """Report a trigger at a barrier it was not designated for."""
    lines = [json.loads(x) for x in open(src)]
    for i, e in enumerate(lines):
        if e["ev"] == "wait" and e["res"] > 0:
            # find another live barrier in the same run
            nb = 0
            for f in lines[:i][::-1]:
                if f["ev"] == "reset":
                    break
                if f["ev"] == "build":
                    nb = max(nb, f["b"])
            dropped = set()
            for f in lines[:i][::-1]:
                if f["ev"] == "reset":
                    break
                if f["ev"] == "drop_barrier":
                    dropped.add(f["b"])
            others = [b for b in range(1, nb + 1) if b != e["b"] and b not in dropped]
            if others:
                e["b"] = others[0]
                open(dst, "w").write("\n".join(json.dumps(x) for x in lines) + "\n")
                return True
    return False


def corrupt_ret(src, dst):
    """Make a suspended source return although its handle is still held."""
    lines = [json.loads(x) for x in open(src)]
    for i, e in enumerate(lines):
        if e["ev"] == "drop_handle":
            t = e["t"]
            for j in range(i + 1, len(lines)):
                if lines[j]["ev"] == "reset":
                    break
                if lines[j]["ev"] == "ret" and lines[j]["t"] == t and lines[j - 1]["ev"] == "poll":
                    # move "poll, ret, poll_end" in front of the drop
                    blk = lines[j - 1:j + 2]
                    if blk[2]["ev"] != "poll_end":
                        break
                    rest = lines[:i] + blk + lines[i:j - 1] + lines[j + 2:]
                    open(dst, "w").write("\n".join(json.dumps(x) for x in rest) + "\n")
                    return True
    return False


def reject_position(pr):
    """Record index (1-based) at which PropTrace stopped: the unmatched record, or the record whose
    consumption violated an invariant (= l - 1 in the last state of TLC's counterexample)."""
    if pr.unmatched:
        return pr.unmatched[0]
    ls = re.findall(r"^/?\\?\s*l = (\d+)", pr.stdout, re.M) or re.findall(r"\bl = (\d+)", pr.stdout)
    return int(ls[-1]) - 1 if ls else 1


def judge_divergences(ck, name, c, s, w, max_reports=5):
    """The real code left the ImplSpec on some TLC behaviours: ask the PropSpec about every kind of
    divergence (the driver hands over a sample that covers every divergence signature)."""
    divs = s["divergences"]
    if not divs:
        return
    log(f"[{PID}] {name}: {s['divergent']} behaviours diverge from the ImplSpec prediction; signatures "
        f"(predicted|observed event): {s.get('signatures')}; {len(divs)} of them go to the PropSpec")
    lines = open(s["div_all"]).read().splitlines()
    first = 0          # index into divs of the first behaviour not judged yet
    reports = 0
    while first < len(divs) and reports < max_reports:
        base = divs[first]["start"] - 1
        part = os.path.join(w, "div_part.ndjson")
        open(part, "w").write("\n".join(lines[base:]) + "\n")
        pr, _ = validate_trace(part, c["NSrc"], f"{PID}_div", impl=False)
        if not rejected(pr):
            break
        pos = base + reject_position(pr)
        k = max(i for i in range(first, len(divs)) if divs[i]["start"] <= pos)
        d = divs[k]
        ck.violation({"kind": "behaviour", "property": PID, "config": name, "nsrc": c["NSrc"],
                      "behaviour": d.get("behaviour"),
                      "divergence": {x: v for x, v in d.items() if x not in ("behaviour",)},
                      "violated_clause": pr.violated, "unmatched": pr.unmatched})
        reports += 1
        first = k + 1
    if reports == 0:
        d = divs[0]
        log(f"[{PID}] drift: {len(divs)} sampled divergent behaviours of {name} are all accepted by the PropSpec "
            f"(e.g. behaviour #{d.get('line')}: predicted {d.get('predicted')}, observed {d.get('observed')})")


def do_replay(ck, path):
    rp = json.load(open(path))
    pid = ck.pid
    w = vlib.workdir(f"{pid}_replay")
    if rp["kind"] == "behaviour":
        bpath = os.path.join(w, "beh.ndjson")
        open(bpath, "w").write(json.dumps(rp["behaviour"]) + "\n")
        spath = os.path.join(w, "summary.json")
        vlib.run_driver("barriers", ["replay", f"in={bpath}", f"out={spath}", f"traces={w}", f"nsrc={rp['nsrc']}"])
        s = json.load(open(spath))
        ck.traces = ck.evaluations = 1
        if not s["divergences"]:
            log(f"[{pid}] replay: behaviour now matches the ImplSpec prediction")
        judge_divergences(ck, rp.get("config", "replay"), {"NSrc": rp["nsrc"]}, s, w)
    else:
        tpath = os.path.join(w, "random.ndjson")
        vlib.run_driver("barriers", rp["args"] + [f"out={tpath}"])
        pr, _ = validate_trace(tpath, nsrc_of(rp["cfg"]), f"{pid}_replay", impl=False)
        ck.add_tlc(pr, "replay")
        ck.traces = ck.evaluations = rp["cfg"]["runs"]
        if rejected(pr):
            ck.violation(dict(rp, violated_clause=pr.violated, unmatched=pr.unmatched))
        else:
            log(f"[{pid}] replay: trace accepted by the PropSpec")
    ck.states = max(ck.states, 1)
    ck.transitions = max(ck.transitions, 1)
    ck.nontrivial = 1
    ck.sample({"replayed": path})
    return ck.finish()
