"""C06 / C16 / C13: the turmoil-net byte-level TCP stack (specs/ktcp).

Per property:
  1. design level  - TLC checks KTcp (ImplSpec, functional transcription of
                     kernel/tcp.rs with the wire as harness actions) against the
                     property's clauses of KTcpProp exhaustively for small
                     constants.  For C06 the liveness clauses are checked with the
                     recorded zero-window family (D4) set aside by its Dev_*
                     predicates; everything else must hold outright.
  2. spec -> code  - TLC enumerates every behaviour of KTcpGen up to a depth bound
                     after a forced prefix (and, in the thorough tier, long
                     -simulate walks); each is executed on the real stack with the
                     harness as the wire and compared packet by packet, TCB scalar
                     by TCB scalar.  Divergent behaviours are judged by the
                     PropSpec alone (KTcpPropTrace).
  3. code -> spec  - seeded random walks of application + wire are recorded and
                     validated by TLC against KTcpPropTrace (verdict) and
                     KTcpTrace (fidelity + family attribution).
  Witnesses of repaired defects (corpus/) are re-run every time; the witness of the
  open finding D4 prints KNOWN-FINDING while it reproduces.
"""
import json
import os
import random

import vlib
from vlib import MachineryError, log

SUB = "ktcp"
ALL_OPS = {"listen", "connect", "accept", "write", "read", "shutdown", "close", "cancel", "droplistener", "udp"}

# invariants of KTcpProp per property: pure (verdict on real observations) ...
PURE = {
    "C06": ["PrefixInv", "EofOnlyAtEnd", "NoSpuriousAbort", "BoundedProgress", "AcceptOffered"],
    "C16": ["CapsOk", "MssOk", "WindowOk", "UdpOk"],
    "C13": ["AcceptOnce", "ConnectRule", "Reclaimed", "ConnectCompletes", "AcceptOffered", "AcceptWoken"],
}
# ... and with the recorded family set aside (needs the ImplSpec state)
TOLERANT = {
    "C06": ["PrefixInv", "EofOnlyAtEnd", "AbortOrKnown", "ProgressOrKnown", "AcceptOffered"],
    "C16": PURE["C16"],
    "C13": PURE["C13"],
}
FAMILY_CLAUSES = {"C06": {"NoSpuriousAbort", "BoundedProgress"}, "C16": set(), "C13": set()}
D4_WHAT = ("zero-window handling (D4 family): with the peer's window closed the sender either stalls forever "
           "(no window update below recv_cap/2, no persist probe) or burns its retransmit budget on a full "
           "receiver and aborts with TimedOut [family Dev_ZeroWindowStall / Dev_ZeroWindowAbort, kernel/tcp.rs "
           "poll_recv should_update, segment_one wnd_remaining, check_retx]")


def d4_listed(ck):
    """The zero-window family is tolerated only while known_findings.json lists it
    (entry with property C06 and id D4); removing the entry re-arms the alarm."""
    return any(isinstance(f, dict) and f.get("id") == "D4" and f.get("property") == "C06"
               for f in ck.findings.get("findings", []))


def listed(ck, fid):
    return any(isinstance(f, dict) and f.get("id") == fid and f.get("property") == "C06"
               for f in ck.findings.get("findings", []))


KT1_WHAT = ("cumulative ACK dropped after a go-back-N rewind (KT1): check_retx rewinds snd_nxt to snd_una, segment_one re-sends "
            "only what the window allows, and an ACK covering bytes sent before the rewind (acked > snd_nxt - snd_una) is "
            "discarded by handle_established - the sender retransmits the same bytes until it aborts with TimedOut "
            "[family Dev_AckBeyondRewind, kernel/tcp.rs handle_established ACK branch / check_retx: no SND.MAX]")
TOLERANT2 = ["PrefixInv", "EofOnlyAtEnd", "AbortOrKnown2", "ProgressOrKnown2", "AcceptOffered"]


def consts(**kw):
    c = dict(MaxP=1, Mss=1, SendCap=2, RecvCap=2, Backlog=1, RetxT=3, RetxMax=2, PremD=1, PremAge=0,
             WriteSizes={2}, ReadSizes={1, 2}, MaxBytes=2, MaxAge=0, MaxDrops=1,
             Ops={"listen", "connect", "accept", "write", "read", "shutdown"}, Start="est",
             UdpSizes=set(), Writers={"c"}, Readers={"s"}, Legacy=set())
    c.update(kw)
    c["UdpMax"] = c["Mss"] + 12
    # the premise of the liveness half must make sense for the chosen kernel constants
    assert c["PremD"] <= c["RetxMax"]
    assert (c["PremD"] + 1) * c["RetxT"] + 2 * c["PremAge"] + 2 <= (c["RetxMax"] + 1) * c["RetxT"], c
    return c


def prop_consts(c):
    return {k: c[k] for k in ["MaxP", "Mss", "SendCap", "RecvCap", "Backlog", "RetxT", "RetxMax", "PremD",
                              "PremAge", "UdpMax"]}


def trace_consts(c):
    d = dict(c)
    d.update(WriteSizes=set(), ReadSizes=set(), MaxBytes=0, MaxAge=1000000, MaxDrops=1000000, Ops=ALL_OPS,
             Start="fresh", UdpSizes=set(), Writers=set(), Readers=set())
    return d


def harness_args(c):
    return [f"mss={c['Mss']}", f"scap={c['SendCap']}", f"rcap={c['RecvCap']}", f"backlog={c['Backlog']}",
            f"retxt={c['RetxT']}", f"retxmax={c['RetxMax']}"]


def cfg_text(spec, c, invariants, view=None, post=None, alias=None):
    lines = [f"SPECIFICATION {spec}", "CONSTANTS"]
    for k, v in c.items():
        lines.append(f"  {k} = {vlib.tla_value(v)}")
    lines.append("INVARIANTS")
    lines += [f"  {i}" for i in invariants]
    if view:
        lines.append(f"VIEW {view}")
    if alias:
        lines.append(f"ALIAS {alias}")
    if post:
        lines.append(f"POSTCONDITION {post}")
    lines.append("CHECK_DEADLOCK FALSE")
    return "\n".join(lines) + "\n"


HS_OPS = {"listen", "connect", "accept", "close", "cancel", "droplistener"}


def mc_configs(pid, tier):
    """(name, constants, actions that must be covered)."""
    q = tier == "quick"
    data_need = ["AWrite", "ARead", "AShutdown", "AEgress", "ADeliver", "ADrop"]
    if pid == "C06":
        cfgs = [
            ("mc_data", consts(WriteSizes={1, 2}, MaxBytes=3, MaxAge=0, MaxDrops=1), data_need),
            ("mc_zero_window", consts(Mss=4, SendCap=4, RecvCap=4, RetxMax=1, PremD=0, WriteSizes={4, 1},
                                      ReadSizes={1}, MaxBytes=5, MaxDrops=0, Ops={"listen", "connect", "accept", "write", "read"}),
             ["AWrite", "ARead", "AEgress", "ADeliver"]),
        ]
        cfgs.append(("mc_simclose", consts(WriteSizes={1}, ReadSizes={1}, MaxBytes=1, MaxAge=0, MaxDrops=1, Writers={"c", "s"},
                                            Readers=set(), Ops={"listen", "connect", "accept", "write", "shutdown"}),
                     ["AWrite", "AShutdown", "AEgress", "ADeliver", "ADrop"]))
        if not q:
            cfgs += [
                ("mc_data_delay", consts(WriteSizes={2}, MaxBytes=2, MaxAge=1, MaxDrops=1), data_need),
                ("mc_data_t2", consts(RetxT=2, RetxMax=2, PremD=1, WriteSizes={1, 2}, MaxBytes=3, MaxAge=0, MaxDrops=1), data_need),
                ("mc_both_dirs", consts(WriteSizes={1}, ReadSizes={1}, MaxBytes=1, MaxAge=0, MaxDrops=1,
                                        Writers={"c", "s"}, Readers={"c", "s"}), data_need),
            ]
        return cfgs
    if pid == "C16":
        cfgs = [
            ("mc_caps", consts(Mss=2, SendCap=3, RecvCap=1, WriteSizes={3, 1}, ReadSizes={1}, MaxBytes=4, MaxAge=1,
                               MaxDrops=0, Ops={"listen", "connect", "accept", "write", "read"}),
             ["AWrite", "ARead", "AEgress", "ADeliver"]),
            ("mc_caps_acceptor", consts(Mss=2, SendCap=3, RecvCap=1, WriteSizes={3, 1}, ReadSizes={1}, MaxBytes=4, MaxAge=1,
                                        MaxDrops=1, Writers={"s"}, Readers={"c"}, Ops={"listen", "connect", "accept", "write", "read"}),
             ["AWrite", "ARead", "AEgress", "ADeliver"]),
            ("mc_udp", consts(Start="fresh", Ops={"udp"}, UdpSizes={12, 13, 14}, MaxDrops=1), ["AUdp", "AEgress", "ADeliver"]),
        ]
        if not q:
            cfgs += [
                ("mc_caps_wide", consts(Mss=2, SendCap=2, RecvCap=3, WriteSizes={2, 1}, ReadSizes={1, 2}, MaxBytes=3,
                                        MaxAge=0, MaxDrops=1), data_need),
                ("mc_caps_mss3", consts(Mss=3, SendCap=4, RecvCap=2, WriteSizes={4}, ReadSizes={1, 2}, MaxBytes=4,
                                        MaxAge=0, MaxDrops=1), data_need),
            ]
        return cfgs
    if pid == "C13":
        hs_need = ["AListen", "AConnect", "APoll", "ACancel", "AAccept", "AClose", "ADropListener", "AEgress",
                   "ADeliver", "ADrop"]
        cfgs = [
            ("mc_handshake_close", consts(Start="fresh", RetxT=2, RetxMax=2, PremD=1, Ops=HS_OPS, MaxAge=1, MaxDrops=1,
                                          Writers=set(), Readers=set()), hs_need),
        ]
        cfgs.append(("mc_simclose", consts(WriteSizes={1}, ReadSizes={1}, MaxBytes=1, MaxAge=0, MaxDrops=1, Writers={"c", "s"},
                                            Readers=set(), Ops={"listen", "connect", "accept", "write", "shutdown", "close"}),
                     ["AWrite", "AShutdown", "AClose", "AEgress", "ADeliver", "ADrop"]))
        if not q:
            cfgs += [
                ("mc_two_connects", consts(MaxP=2, Start="listen", RetxT=2, RetxMax=1, PremD=0, Backlog=1,
                                           Ops={"listen", "connect", "accept", "close", "cancel"}, MaxAge=0, MaxDrops=1,
                                           Writers=set(), Readers=set()),
                 ["AConnect", "APoll", "ACancel", "AAccept", "AClose", "AEgress", "ADeliver", "ADrop"]),
                ("mc_close_with_data", consts(Start="est", RetxT=3, RetxMax=2, PremD=1, WriteSizes={1}, ReadSizes={1},
                                              MaxBytes=1, MaxAge=0, MaxDrops=2, Writers={"c"}, Readers={"s"},
                                              Ops={"listen", "connect", "accept", "write", "read", "shutdown", "close"}),
                 ["AWrite", "ARead", "AShutdown", "AClose", "AEgress", "ADeliver", "ADrop"]),
            ]
        return cfgs
    raise ValueError(pid)


def gen_configs(pid, tier):
    """(name, constants, Depth, simulate-or-None)"""
    q = tier == "quick"
    if pid == "C06":
        cfgs = [("gen_data", consts(WriteSizes={2}, MaxBytes=2, MaxAge=1, MaxDrops=1), 7 if q else 8, None)]
        if not q:
            cfgs.append(("sim_data", consts(WriteSizes={1, 2}, MaxBytes=4, MaxAge=2, MaxDrops=2, PremD=1,
                                            Writers={"c", "s"}, Readers={"c", "s"}), 60, "num=500"))
        return cfgs
    if pid == "C16":
        cfgs = [("gen_caps", consts(Mss=2, SendCap=3, RecvCap=1, WriteSizes={3, 1}, ReadSizes={1}, MaxBytes=4, MaxAge=1,
                                    MaxDrops=1, Ops={"listen", "connect", "accept", "write", "read"}), 7 if q else 8, None),
                ("gen_caps_acceptor", consts(Mss=2, SendCap=3, RecvCap=1, WriteSizes={3, 1}, ReadSizes={1}, MaxBytes=4, MaxAge=1,
                                             MaxDrops=1, Writers={"s"}, Readers={"c"},
                                             Ops={"listen", "connect", "accept", "write", "read"}), 6 if q else 7, None),
                ("gen_udp", consts(Start="fresh", Ops={"udp"}, UdpSizes={12, 13, 14}, MaxDrops=1), 4, None)]
        if not q:
            cfgs.append(("sim_caps", consts(Mss=2, SendCap=2, RecvCap=3, WriteSizes={1, 2, 3}, ReadSizes={1, 2}, MaxBytes=6,
                                            MaxAge=2, MaxDrops=1), 60, "num=500"))
        return cfgs
    if pid == "C13":
        cfgs = [("gen_handshake_close", consts(MaxP=2, Start="fresh", RetxT=2, RetxMax=1, PremD=0, Ops=HS_OPS, MaxAge=1,
                                               MaxDrops=1, Writers=set(), Readers=set()), 7 if q else 8, None)]
        if not q:
            cfgs.append(("sim_close", consts(MaxP=2, Start="listen", RetxT=2, RetxMax=2, PremD=1,
                                             Ops=HS_OPS | {"write", "read", "shutdown"}, WriteSizes={1}, ReadSizes={1},
                                             MaxBytes=1, MaxAge=2, MaxDrops=2, Writers={"c", "s"}, Readers={"c", "s"}),
                         70, "num=500"))
        return cfgs
    raise ValueError(pid)


def random_configs(pid, tier, seed):
    q = tier == "quick"
    runs = 12 if q else 60
    if pid == "C06":
        base = [dict(c=consts(MaxP=2, Mss=3, SendCap=8, RecvCap=8, Backlog=2), nconn=2, maxdrops=1, maxage=0, maxbytes=20, wmax=6, rmax=5, steps=140),
                dict(c=consts(MaxP=2, Mss=2, SendCap=5, RecvCap=3, Backlog=2, RetxT=3, RetxMax=3, PremD=1, PremAge=2),
                     nconn=2, maxdrops=1, maxage=2, maxbytes=14, wmax=5, rmax=2, steps=160)]
        if not q:
            base += [dict(c=consts(MaxP=3, Mss=16, SendCap=64, RecvCap=48, Backlog=3, RetxT=3, RetxMax=5, PremD=3, PremAge=2),
                          nconn=3, maxdrops=3, maxage=2, maxbytes=300, wmax=90, rmax=40, steps=400),
                     dict(c=consts(MaxP=2, Mss=1, SendCap=1, RecvCap=1, Backlog=1, RetxT=1, RetxMax=3, PremD=1, PremAge=0),
                          nconn=2, maxdrops=1, maxage=0, maxbytes=6, wmax=2, rmax=2, steps=160)]
        base.append(dict(c=consts(MaxP=1, Mss=2, SendCap=4, RecvCap=4, Backlog=1), mode="simclose", nconn=1, maxdrops=1, maxage=0,
                         maxbytes=6, wmax=3, rmax=3, steps=0, closeprob=20))
        # one lost handshake segment (mostly the connector's bare ACK), idle connector, acceptor speaks first
        base.append(dict(c=consts(MaxP=1, Mss=2, SendCap=4, RecvCap=4, Backlog=1, RetxT=2, RetxMax=2, PremD=1), mode="hsackloss", nconn=1,
                         maxdrops=1, maxage=0, maxbytes=2, wmax=2, rmax=2, steps=0))
        # constant delay of 2 rounds, no loss, one small record per round for > T*(retx_max+1) rounds
        base.append(dict(c=consts(MaxP=1, Mss=2, SendCap=16, RecvCap=16, Backlog=1, RetxT=3, RetxMax=5, PremD=0, PremAge=2),
                         mode="pipeline", nconn=1, maxdrops=0, maxage=2, maxbytes=200, wmax=2, rmax=8, steps=0))
        # peer's data + FIN received but unread, then the TCB is aborted, only then the application reads
        base.append(dict(c=consts(MaxP=1, Mss=4, SendCap=8, RecvCap=8, Backlog=1, RetxT=2, RetxMax=1, PremD=0), mode="abortread",
                         nconn=1, maxdrops=99, maxage=0, maxbytes=8, wmax=4, rmax=8, steps=0))
    elif pid == "C16":
        base = [dict(c=consts(MaxP=2, Mss=4, SendCap=6, RecvCap=5, Backlog=2), nconn=2, maxdrops=1, maxage=1, maxbytes=24, wmax=9, rmax=3, steps=150),
                dict(c=consts(MaxP=2, Mss=7, SendCap=3, RecvCap=9, Backlog=2), nconn=2, maxdrops=0, maxage=2, maxbytes=24, wmax=9, rmax=9, steps=150)]
        if not q:
            base += [dict(c=consts(MaxP=3, Mss=1460 % 97 + 3, SendCap=40, RecvCap=17, Backlog=3, RetxT=3, RetxMax=4, PremD=2, PremAge=1),
                          nconn=3, maxdrops=2, maxage=2, maxbytes=200, wmax=70, rmax=11, steps=400),
                     dict(c=consts(MaxP=2, Mss=1, SendCap=2, RecvCap=1, Backlog=1), nconn=2, maxdrops=1, maxage=1, maxbytes=8, wmax=3, rmax=1, steps=160)]
    else:
        base = [dict(c=consts(MaxP=4, Backlog=2, RetxT=2, RetxMax=2, PremD=1, SendCap=4, RecvCap=4), nconn=4, maxdrops=1, maxage=0,
                     maxbytes=3, wmax=2, rmax=2, steps=150, listenfirst=1),
                dict(c=consts(MaxP=3, Backlog=1, RetxT=3, RetxMax=2, PremD=0, PremAge=2, SendCap=4, RecvCap=4), nconn=3, maxdrops=0, maxage=2,
                     maxbytes=2, wmax=2, rmax=2, steps=150, listenfirst=0)]
        if not q:
            base += [dict(c=consts(MaxP=8, Backlog=3, RetxT=2, RetxMax=3, PremD=2, SendCap=4, RecvCap=4), nconn=8, maxdrops=2, maxage=0,
                          maxbytes=3, wmax=2, rmax=2, steps=400, listenfirst=1),
                     dict(c=consts(MaxP=6, Backlog=1, RetxT=3, RetxMax=3, PremD=1, PremAge=2, SendCap=4, RecvCap=4), nconn=6, maxdrops=1, maxage=2,
                          maxbytes=2, wmax=2, rmax=2, steps=400, listenfirst=0)]
    if pid == "C16":
        # receive cap below one MSS, first burst above the cap, pure ACKs lost, idle reader
        base.append(dict(c=consts(MaxP=1, Mss=4, SendCap=8, RecvCap=3, Backlog=1, RetxT=3, RetxMax=3, PremD=1), mode="overlap", nconn=1,
                         maxdrops=3, maxage=0, maxbytes=8, wmax=8, rmax=2, steps=0))
        # window shrink: burst above the acceptor's cap on the SYN-ACK window, ACKs shrink the window below what is in
        # flight, new data is written before the retransmit timer rewinds
        base.append(dict(c=consts(MaxP=1, Mss=2, SendCap=6, RecvCap=2, Backlog=1, RetxT=4, RetxMax=2, PremD=0), mode="shrink", nconn=1,
                         maxdrops=0, maxage=0, maxbytes=12, wmax=3, rmax=2, steps=0))
        # the connector host also holds a loopback connection (created first) with pending data
        base.append(dict(c=consts(MaxP=2, Mss=4, SendCap=16, RecvCap=16, Backlog=1), mode="lomss", nconn=1, maxdrops=0, maxage=0,
                         maxbytes=100, wmax=12, rmax=16, steps=0, prop_only=1))
    if pid == "C13":
        # directed choreographies, grouped by kernel constants so that one recorded file (and one pair of
        # TLC runs) serves several of them; the runs cycle through the listed modes
        # - simclose: crossing closes (mostly drops of the streams), wildcard or specific listener
        # - hsackloss: one lost handshake segment, idle connector, acceptor speaks first
        # - closeinflight: shutdown / drop while written bytes are still unacknowledged, the peer reads to the end and closes
        base.append(dict(c=consts(MaxP=1, Mss=2, SendCap=4, RecvCap=4, Backlog=1, RetxT=2, RetxMax=2, PremD=1), mode="simclose+hsackloss+closeinflight",
                         nconn=1, maxdrops=1, maxage=0, maxbytes=4, wmax=2, rmax=2, steps=0, closeprob=80, wild=2, nmodes=3))
        # - backlog: more overlapping handshakes than the backlog, partly full accept queue, no accept until the end
        # - deadhs: `backlog` handshakes die at the listener (cancelled connects), quiet wire, then one more connect
        # - acceptwake: accept futures with their own wakers, earlier ones polled once and dropped, a later one parked
        base.append(dict(c=consts(MaxP=4, Mss=2, SendCap=4, RecvCap=4, Backlog=2, RetxT=2, RetxMax=1, PremD=0), mode="backlog+deadhs+acceptwake",
                         nconn=4, maxdrops=0, maxage=0, maxbytes=2, wmax=2, rmax=2, steps=0, nmodes=3))
        base.append(dict(c=consts(MaxP=3, Mss=2, SendCap=4, RecvCap=4, Backlog=1, RetxT=3, RetxMax=2, PremD=0), mode="deadhs", nconn=3,
                         maxdrops=0, maxage=0, maxbytes=2, wmax=2, rmax=2, steps=0))
        # - lsndrop: the listener (wildcard or specific) is dropped at a seeded point of handshakes in flight
        base.append(dict(c=consts(MaxP=2, Mss=2, SendCap=4, RecvCap=4, Backlog=2, RetxT=3, RetxMax=2, PremD=0, PremAge=1), mode="lsndrop",
                         nconn=2, maxdrops=0, maxage=1, maxbytes=2, wmax=2, rmax=2, steps=0, wild=2))
    out = []
    for i, b in enumerate(base):
        b = dict(b)
        b["runs"] = runs * (2 if b.get("mode") else 1) * b.pop("nmodes", 1)
        b["seed"] = seed * 131 + i
        out.append(b)
    return out


# ---------------------------------------------------------------------------

def run_prop_trace(pid, path, c, tag, invs=None):
    cfg = cfg_text("TSpec", prop_consts(c), invs or PURE[pid], post="Accepted")
    r = vlib.run_tlc(SUB, "KTcpPropTrace", cfg, tag + "_prop", workers=1, env={"TRACE": os.path.abspath(path)},
                     dfs=True, heap="4g", timeout=1500)
    if r.error or r.timed_out:
        raise MachineryError(f"trace validation (prop) failed: {r.error or 'timeout'}")
    return r


def run_impl_trace(pid, path, c, tag, invs=None):
    cfg = cfg_text("TSpec", trace_consts(c), (invs or TOLERANT[pid]) + ["ImplInv"], post="Accepted")
    r = vlib.run_tlc(SUB, "KTcpTrace", cfg, tag + "_impl", workers=1, env={"TRACE": os.path.abspath(path)},
                     dfs=True, heap="4g", timeout=1500)
    if r.error or r.timed_out:
        raise MachineryError(f"trace validation (impl) failed: {r.error or 'timeout'}")
    return r


def run_tlc_sim(module, cfg, tag, num, depth, seed):
    """tlc -simulate num=N -depth D (vlib.run_tlc has no -depth)."""
    import subprocess
    import time
    d = vlib.workdir(tag)
    cfgp = os.path.join(d, f"{module}_{tag}.cfg")
    open(cfgp, "w").write(cfg)
    cmd = ["tlc", "-workers", "4", "-metadir", os.path.join(d, "meta"), "-cleanup", "-noGenerateSpecTE",
           "-config", cfgp, "-simulate", num, "-depth", str(depth), "-seed", str(seed), module + ".tla"]
    r = vlib.TlcResult()
    r.cmd = " ".join(cmd)
    vlib._tlc_cmds.append(r.cmd)
    t0 = time.time()
    p = subprocess.run(["timeout", "900"] + cmd, cwd=os.path.join(vlib.SPECS, SUB),
                       env=dict(os.environ, JAVA_TOOL_OPTIONS="-Xss1g -Xmx8g"),
                       stdout=subprocess.PIPE, stderr=subprocess.STDOUT, text=True)
    r.wall = time.time() - t0
    r.stdout = p.stdout
    r.timed_out = p.returncode == 124
    import re
    m = re.search(r"Error: Invariant (\S+) is violated", p.stdout)
    if m:
        r.violated = m.group(1)
    return r


def rejected(r):
    return bool(r.violated or r.unmatched)


def split_runs(path):
    runs, cur = [], []
    for line in open(path):
        if '"ev":"reset"' in line.replace(" ", "") and cur:
            runs.append(cur)
            cur = []
        cur.append(line)
    if cur:
        runs.append(cur)
    return runs


def run_index_of_event(runs, d):
    """d = 1-based index of the event TLC stopped at."""
    n = 0
    for i, r in enumerate(runs):
        n += len(r)
        if d <= n:
            return i
    return len(runs) - 1


def stop_index(r):
    if r.unmatched and not r.violated:
        return r.unmatched[0]
    return max(r.depth - 1, 1) if r.depth else 1


def attribute(ck, pid, path, c, tag, ir, known_state):
    """A liveness rejection by the PropSpec: is it an instance of a listed family? ir = fidelity run with the
    D4-tolerant invariants. Returns True (and records the family) or False."""
    if not rejected(ir):
        if d4_listed(ck):
            known_state["d4"] = True
            return True
        return False
    if pid == "C06" and listed(ck, "KT1") and ir.violated in ("AbortOrKnown", "ProgressOrKnown"):
        ir2 = run_impl_trace(pid, path, c, tag + "_kt1", TOLERANT2)
        if not rejected(ir2):
            known_state["kt1"] = True
            return True
    return False


def judge_trace(ck, pid, path, c, tag, payload, known_state, impl=True):
    """Verdict + fidelity for one recorded trace file (possibly many runs).
    Returns (prop_ok, drift). impl=False: scenario outside the ImplSpec (loopback sockets), verdict only."""
    pr = run_prop_trace(pid, path, c, tag)
    ck.add_tlc(pr, f"trace_prop_{tag}")
    if not impl:
        if rejected(pr):
            ck.violation(dict(payload, violated_clause=pr.violated, unmatched=pr.unmatched,
                              tlc=vlib.counterexample_text(pr, 2500)))
            return False, 0
        return True, 0
    ir = run_impl_trace(pid, path, c, tag)
    ck.add_tlc(ir, f"trace_impl_{tag}")
    if not rejected(pr):
        if rejected(ir):
            log(f"[{pid}] note: implementation trace {tag} left the ImplSpec at event {ir.unmatched} ({ir.violated}); "
                f"the PropSpec accepted it (drift, no alarm)")
            return True, 1
        return True, 0
    if pr.violated in FAMILY_CLAUSES[pid] and (d4_listed(ck) or listed(ck, "KT1")):
        # the code did exactly what the model of the defective algorithm does and a Dev_*
        # predicate of a recorded family held where the PropSpec objects?
        if attribute(ck, pid, path, c, tag, ir, known_state):
            return True, 0
        # cannot be attributed wholesale: isolate the runs
        return judge_runs(ck, pid, path, c, tag, payload, known_state)
    ck.violation(dict(payload, violated_clause=pr.violated, unmatched=pr.unmatched,
                      tlc=vlib.counterexample_text(pr, 2500)))
    return False, 0


def judge_runs(ck, pid, path, c, tag, payload, known_state, limit=6):
    runs = split_runs(path)
    drift = 0
    w = os.path.dirname(path)
    for it in range(limit):
        whole = os.path.join(w, f"{tag}_rest.ndjson")
        open(whole, "w").write("".join("".join(r) for r in runs))
        pr = run_prop_trace(pid, whole, c, f"{tag}_r{it}")
        if not rejected(pr):
            return True, drift
        k = run_index_of_event(runs, stop_index(pr))
        one = os.path.join(w, f"{tag}_run{it}.ndjson")
        open(one, "w").write("".join(runs[k]))
        p1 = run_prop_trace(pid, one, c, f"{tag}_o{it}")
        i1 = run_impl_trace(pid, one, c, f"{tag}_o{it}")
        if rejected(p1):
            if p1.violated in FAMILY_CLAUSES[pid] and attribute(ck, pid, one, c, f"{tag}_o{it}", i1, known_state):
                pass
            else:
                ck.violation(dict(payload, run_events=[json.loads(x) for x in runs[k]][:400],
                                  violated_clause=p1.violated, unmatched=p1.unmatched,
                                  impl_rejected=rejected(i1), tlc=vlib.counterexample_text(p1, 2500)))
                return False, drift
        elif rejected(i1):
            drift += 1
        del runs[k]
        if not runs:
            return True, drift
    return True, drift


def count_lines(path):
    with open(path) as f:
        return sum(1 for _ in f)


def dedupe(lines):
    seen, out = set(), []
    for x in lines:
        if x not in seen:
            seen.add(x)
            out.append(x)
    return out


def corpus_files(pid):
    d = os.path.join(vlib.ROOT, "corpus")
    return [os.path.join(d, f) for f in sorted(os.listdir(d)) if f.startswith(pid + "-") and f.endswith(".json")]


def run_labels(labels, c, w, name):
    lp = os.path.join(w, f"{name}.labels.json")
    open(lp, "w").write(json.dumps(labels) + "\n")
    tp = os.path.join(w, f"{name}.trace.ndjson")
    vlib.run_driver("ktcp", ["labels", f"in={lp}", f"out={tp}"] + harness_args(c))
    return tp


def jsonable(c):
    return {k: (sorted(v, key=str) if isinstance(v, (set, frozenset)) else v) for k, v in c.items()}


def run(pid, tier, seed, replay=None):
    ck = vlib.Check(pid, tier, seed)
    ck.assumptions = [
        "two hosts (connector, acceptor), one listener, cross-host IPv4 traffic; the harness is the wire "
        "(egress_all / deliver); loopback fold-back, IPv6 header size and 32-bit sequence wrap are not modelled",
        "connect futures are polled by the harness right after every deliver / egress round",
        "the liveness half of C06 and the reclamation clause of C13 are claimed only under the premise "
        "(<= PremD drops, no lost RST, every packet kept <= PremAge rounds, (PremD+1)*T + 2*PremAge + 2 <= (retx_max+1)*T)",
        "TLC results hold for the stated small constants; larger parameters are sampled by recorded-trace validation",
    ]
    vlib.build_harness(["ktcp"])
    if replay:
        return do_replay(ck, replay)
    w = vlib.workdir(f"{pid}_files")
    known_state = {"d4": False}

    # 1. design level ------------------------------------------------------
    for name, c, need in mc_configs(pid, tier):
        cfg = cfg_text("Spec", c, TOLERANT[pid] + ["ImplInv"], view="View")
        r = vlib.run_tlc(SUB, "KTcp", cfg, f"{pid}_{name}", workers=10, timeout=1700 if tier == "thorough" else 420,
                         coverage=True, heap="12g")
        ck.add_tlc(r, name, exhaustive=True)
        log(f"[{pid}] {name}: {r.distinct} distinct states, {r.generated} generated, depth {r.depth}, {r.wall:.0f}s")
        if r.violated or r.error or r.timed_out:
            log(vlib.counterexample_text(r))
            raise MachineryError(f"design-level check {name} did not pass: the committed ImplSpec does not satisfy the "
                                 f"PropSpec ({r.violated or r.error or 'timeout'}); the spec must be repaired first")
        missing = [a for a in need if r.coverage and r.coverage.get(a, 0) == 0]
        if missing or not r.coverage:
            raise MachineryError(f"vacuity: actions never taken in {name}: {missing or 'no coverage output'}")

    # 2. spec -> code -------------------------------------------------------
    for name, c, depth, sim in gen_configs(pid, tier):
        gc = dict(c, Depth=depth)
        cfg = cfg_text("GenSpec", gc, ["EmitBeh"] + TOLERANT[pid])
        if sim:
            r = run_tlc_sim("KTcpGen", cfg, f"{pid}_{name}", sim, depth + 12, seed)
        else:
            r = vlib.run_tlc(SUB, "KTcpGen", cfg, f"{pid}_{name}", workers=10, timeout=1500, heap="12g")
        if r.violated or (r.error and not sim) or r.timed_out:
            log(vlib.counterexample_text(r))
            raise MachineryError(f"behaviour generation {name} failed ({r.violated or r.error or 'timeout'})")
        behs = dedupe(vlib.extract_replays(r.stdout))
        if not behs:
            raise MachineryError(f"behaviour generation {name} produced no behaviour")
        if not sim:
            ck.add_tlc(r, name)
        bpath = os.path.join(w, f"{name}.ndjson")
        with open(bpath, "w") as f:
            f.write("\n".join(behs) + "\n")
        spath = os.path.join(w, f"{name}.summary.json")
        out = vlib.run_driver("ktcp", ["replay", f"in={bpath}", f"out={spath}", f"traces={w}"] + harness_args(c))
        s = json.load(open(spath))
        log(f"[{pid}] {name}: {len(behs)} TLC behaviours, {out.strip()}")
        ck.traces += s["behaviours"]
        ck.evaluations += s["steps"]
        ck.nontrivial += s["nontrivial"]
        for smp in s["samples"][:1]:
            ck.sample({"kind": "TLC behaviour executed on the real stack (wire = harness)", "config": name, **smp})
        # judge the first few divergences by the PropSpec (one root cause gives many)
        nviol = 0
        for d in s["divergences"]:
            if nviol >= 3:
                break
            nviol += judge_divergence(ck, pid, name, c, d)
        ck.impl_drift += s["divergent"]

    # corpus: witnesses of repaired defects and of the open finding -----------
    for cf in corpus_files(pid):
        rp = json.load(open(cf))
        c = consts(**rp["consts"])
        tp = run_labels(rp["labels"], c, w, "corpus_" + os.path.basename(cf)[:-5])
        pr = run_prop_trace(pid, tp, c, f"{pid}_corpus")
        ck.add_tlc(pr, "trace_corpus")
        ck.traces += 1
        if not rejected(pr):
            log(f"[{pid}] corpus {os.path.basename(cf)}: accepted by the PropSpec"
                + (" (the recorded finding no longer reproduces)" if rp.get("finding") else ""))
            continue
        ir = run_impl_trace(pid, tp, c, f"{pid}_corpus")
        ks2 = {}
        if (rp.get("finding") and pr.violated in FAMILY_CLAUSES[pid] and attribute(ck, pid, tp, c, f"{pid}_corpus", ir, ks2)
                and ((rp["finding"] == "D4" and ks2.get("d4")) or (rp["finding"] == "KT1" and ks2.get("kt1")))):
            ck.known(rp["finding"], f"{pr.violated}: {rp['what']} (witness corpus/{os.path.basename(cf)})")
            known_state["printed_" + rp["finding"]] = True
            continue
        log(f"[{pid}] corpus {os.path.basename(cf)}: REJECTED ({pr.violated or pr.unmatched})")
        ck.violation(dict(kind="labels", property=pid, consts=rp["consts"], labels=rp["labels"], corpus=os.path.basename(cf),
                          violated_clause=pr.violated, unmatched=pr.unmatched, tlc=vlib.counterexample_text(pr, 2500)))

    # 3. code -> spec -------------------------------------------------------
    first = True
    rcs = random_configs(pid, tier, seed)
    for i, rc in enumerate(rcs):
        c = rc["c"]
        tpath = os.path.join(w, f"random_{i}.ndjson")
        args = ["random"] + [f"{k}={v}" for k, v in rc.items() if k not in ("c", "prop_only", "nmodes")] + harness_args(c)
        out = vlib.run_driver("ktcp", args + [f"out={tpath}"])
        payload = {"kind": "random", "property": pid, "args": args, "consts": jsonable(c)}
        okp, drift = judge_trace(ck, pid, tpath, c, f"{pid}_rnd{i}", payload, known_state, impl=not rc.get("prop_only"))
        ck.traces += rc["runs"]
        ck.evaluations += count_lines(tpath)
        ck.nontrivial += rc["runs"]
        ck.impl_drift += drift
        log(f"[{pid}] random {({k: v for k, v in rc.items() if k != 'c'})} {harness_args(c)}: {out.strip()} -> "
            f"prop {'ok' if okp else 'REJECTED'}" + (f", impl {'ok' if not drift else 'drift'}" if okp else ""))
        if first:
            with open(tpath) as f:
                evs = [json.loads(x) for _, x in zip(range(10), f)]
            for e in evs:
                e.pop("dump", None)
            ck.sample({"kind": "recorded trace excerpt", "config": {k: v for k, v in rc.items() if k != "c"}, "events": evs})
            first = False

    if tier == "thorough" and pid == "C13":
        reuse_scenario(ck, w)
    if pid == "C06":
        wrap_scenario(ck, w, 3 if tier == "quick" else 8)
    if pid == "C13":
        portwrap_scenario(ck, w)

    if known_state.get("d4") and not known_state.get("printed_D4"):
        ck.known("D4", D4_WHAT + " (reproduced in a recorded random walk)")
    if known_state.get("kt1") and not known_state.get("printed_KT1"):
        ck.known("KT1", KT1_WHAT + " (reproduced in a recorded random walk)")

    # binding demonstration: a corrupted trace must be rejected ----------------
    tpath = os.path.join(w, "random_0.ndjson")
    bad = os.path.join(w, "random_0_corrupt.ndjson")
    what = corrupt_trace(pid, tpath, bad, rcs[0]["c"])
    if what:
        pr = run_prop_trace(pid, bad, rcs[0]["c"], f"{pid}_bind")
        ck.extra["binding_demo"] = {"corruption": what, "rejected": rejected(pr), "clause": pr.violated}
        if not rejected(pr):
            raise MachineryError("binding demonstration failed: corrupted trace was accepted")
    else:
        raise MachineryError("binding demonstration could not be built (no suitable event recorded)")
    ck.extra["rule"] = ("behaviours: every action sequence of KTcpGen of the stated depth after the forced prefix (distinct by "
                        "construction; -simulate walks de-duplicated); non-trivial = contains a drop / out-of-order delivery / "
                        "cancel / listener drop and a read / accept / connect completion. random runs: one seeded walk each")
    return ck.finish()


def corrupt_trace(pid, src, dst, c):
    lines = open(src).read().splitlines()
    evs = [json.loads(x) for x in lines]
    if pid == "C06":
        idx = [i for i, e in enumerate(evs) if e.get("ev") == "read" and e.get("res") == "data"]
        if not idx:
            return None
        e = evs[idx[len(idx) // 2]]
        e["bytes"][0] = (e["bytes"][0] % 90) + 7
        what = "one byte returned by a read altered"
    elif pid == "C16":
        idx = [i for i, e in enumerate(evs) if e.get("ev") == "egress" and any(p["data"] for p in e["pk"])]
        if not idx:
            return None
        e = evs[idx[len(idx) // 2]]
        p = [p for p in e["pk"] if p["data"]][0]
        p["data"] = p["data"] + [1] * (c["Mss"] + 1 - len(p["data"]))
        what = "one emitted segment made one byte longer than the MSS"
    else:
        idx = [i for i, e in enumerate(evs) if e.get("ev") == "accept"]
        if not idx:
            return None
        i = idx[len(idx) // 2]
        evs.insert(i + 1, json.loads(json.dumps(evs[i])))
        what = "one accept event duplicated (same connection handed out twice)"
    open(dst, "w").write("\n".join(json.dumps(e) for e in evs) + "\n")
    return what


def judge_divergence(ck, pid, name, c, d):
    """The real stack left the ImplSpec on a TLC behaviour: ask the PropSpec."""
    tr = d.get("trace")
    base = {"kind": "labels", "property": pid, "config": name, "consts": jsonable(c),
            "labels": d.get("behaviour"), "divergence": {k: v for k, v in d.items() if k not in ("behaviour",)}}
    if not tr or d.get("what") == "panic":
        ck.violation(base)
        return 1
    pr = run_prop_trace(pid, tr, c, f"{pid}_div")
    if rejected(pr):
        ck.violation(dict(base, violated_clause=pr.violated, unmatched=pr.unmatched))
        return 1
    else:
        log(f"[{pid}] drift: behaviour #{d.get('line')} of {name} diverged from the ImplSpec at step {d.get('step')} "
            f"({d.get('what')}) but the PropSpec accepts the observation")
    return 0


def reuse_scenario(ck, w):
    """4-tuple reuse on the real allocator (16 384 ephemeral ports): a cancelled connect whose SYN-ACK is
    answered with RST, then > 16 384 sequential connects; PropSpec verdict only."""
    c = consts(MaxP=1, Backlog=4, RetxT=3, RetxMax=2, PremD=0, PremAge=1)
    tp = os.path.join(w, "reuse.ndjson")
    out = vlib.run_driver("ktcp", ["reuse", "n=16500", f"out={tp}"] + harness_args(c), timeout=1200)
    pr = run_prop_trace("C13", tp, c, "C13_reuse")
    ck.add_tlc(pr, "trace_reuse")
    ck.traces += 16501
    log(f"[C13] reuse: {out.strip()} -> prop {'ok' if not rejected(pr) else 'REJECTED'}")
    if rejected(pr):
        ck.violation({"kind": "reuse", "property": "C13", "consts": jsonable(c), "violated_clause": pr.violated,
                      "unmatched": pr.unmatched, "tlc": vlib.counterexample_text(pr, 2500)})


def wrap_scenario(ck, w, conns):
    """32-bit sequence wrap on the real stack: the connector host's ISN counter is burnt (65 277 cancelled
    connects, SYNs discarded by the wire) so that the next connections start < 64 KiB below 2^32, then each
    moves 66 000 bytes across the wrap on a lossless, undelayed wire. PropSpec verdict (prefix, EOF, no abort,
    no stall); not in the model (DESIGN section 9)."""
    c = consts(MaxP=1, Mss=500, SendCap=2000, RecvCap=2000, Backlog=2, RetxT=3, RetxMax=2, PremD=1, PremAge=0)
    tp = os.path.join(w, "wrap.ndjson")
    args = ["wrap", f"conns={conns}", "bytes=66000"] + harness_args(c)
    out = vlib.run_driver("ktcp", args + [f"out={tp}"], timeout=600)
    pr = run_prop_trace("C06", tp, c, "C06_wrap")
    ck.add_tlc(pr, "trace_wrap")
    ck.traces += conns
    ck.evaluations += count_lines(tp)
    log(f"[C06] wrap: {out.strip()} -> prop {'ok' if not rejected(pr) else 'REJECTED'}")
    if rejected(pr):
        ck.violation({"kind": "wrap", "property": "C06", "args": args, "consts": jsonable(c), "violated_clause": pr.violated,
                      "unmatched": pr.unmatched, "tlc": vlib.counterexample_text(pr, 2500)})


def portwrap_scenario(ck, w):
    """Ephemeral-port wrap on the real allocator: 16 382 cancelled connects move the connector host's port cursor
    to the top of 49152..=65535 (SYNs discarded by the wire), then 4 connections are opened at the same time
    across the wrap, accepted and closed. PropSpec verdict (every connect Ok, accept once, reclaimed)."""
    c = consts(MaxP=4, Mss=2, SendCap=4, RecvCap=4, Backlog=4, RetxT=2, RetxMax=1, PremD=0, PremAge=0)
    tp = os.path.join(w, "portwrap.ndjson")
    args = ["portwrap", "conns=4", "burn=16382"] + harness_args(c)
    out = vlib.run_driver("ktcp", args + [f"out={tp}"], timeout=600)
    pr = run_prop_trace("C13", tp, c, "C13_portwrap")
    ck.add_tlc(pr, "trace_portwrap")
    ck.traces += 1
    ck.evaluations += count_lines(tp)
    log(f"[C13] portwrap: {out.strip()} -> prop {'ok' if not rejected(pr) else 'REJECTED'}")
    if rejected(pr):
        ck.violation({"kind": "portwrap", "property": "C13", "args": args, "consts": jsonable(c), "violated_clause": pr.violated,
                      "unmatched": pr.unmatched, "tlc": vlib.counterexample_text(pr, 2500)})


def do_replay(ck, path):
    rp = json.load(open(path))
    pid = ck.pid
    w = vlib.workdir(f"{pid}_replay")
    known_state = {}
    c = consts(**{k: (set(v) if isinstance(v, list) else v) for k, v in rp["consts"].items() if k != "UdpMax"})
    if rp["kind"] == "labels":
        tp = run_labels(rp["labels"], c, w, "replay")
        pr = run_prop_trace(pid, tp, c, f"{pid}_replay")
        ck.add_tlc(pr, "replay")
        ck.traces = ck.evaluations = 1
        if rejected(pr):
            ck.violation(dict(rp, violated_clause=pr.violated, unmatched=pr.unmatched))
        else:
            log(f"[{pid}] replay: observations accepted by the PropSpec")
    elif rp["kind"] == "random":
        tp = os.path.join(w, "random.ndjson")
        vlib.run_driver("ktcp", rp["args"] + [f"out={tp}"])
        okp, _ = judge_trace(ck, pid, tp, c, f"{pid}_replay", {k: v for k, v in rp.items() if k not in ("tlc",)}, known_state)
        ck.traces = ck.evaluations = 1
        if okp:
            log(f"[{pid}] replay: trace accepted by the PropSpec" + (" (known D4 family reproduced)" if known_state.get("d4") else ""))
    elif rp["kind"] == "wrap":
        wrap_scenario(ck, w, 3)
    elif rp["kind"] == "portwrap":
        portwrap_scenario(ck, w)
    else:
        reuse_scenario(ck, w)
    ck.states = max(ck.states, 1)
    ck.transitions = max(ck.transitions, 1)
    ck.nontrivial = 2
    ck.sample({"replayed": path})
    return ck.finish()
