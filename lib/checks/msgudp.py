"""C09: turmoil::net UDP (specs/msgudp).

  1. design level   - TLC checks MsgUdp (ImplSpec, free interleaving of sends, hand-overs,
                      socket calls) against the clauses of MsgUdpProp exhaustively for small
                      constants; one configuration per concern (routing classes and bind
                      forms, membership histories, capacity with slow receivers, connect
                      filters and re-binds in flight, broadcast over three hosts);
  2. spec -> code   - TLC enumerates / samples behaviours of MsgUdpGen (replayable schedule);
                      each is executed against the real Sim (links held, copies delivered one
                      by one through Sim::links in TLC's order) and every observation is
                      compared with TLC's prediction; divergent behaviours are judged by the
                      PropSpec alone (MsgUdpPropTrace);
  3. code -> spec   - seeded random scenarios (2..4 hosts, IPv4 / IPv6, sampled latencies that
                      reorder, random host order, slow receivers, every receive path) are
                      recorded and validated by TLC against MsgUdpPropTrace (verdict) and
                      MsgUdpTrace (fidelity).
"""
import json
import os

import vlib
from vlib import MachineryError, log

SUB = "msgudp"
PID = "C09"
PROP_INVS = ["OnlyTargeted", "AtMostOnce", "PayloadIntact", "OriginIsSender", "ExactlyOnce"]
ALL_OPS = {"bind", "bindeph", "drop", "connect", "join", "leave", "setbc", "setml", "send", "recv", "readable"}
ALL_DST = {"host", "none", "lo", "bcast", "mc"}


def base_consts(**kw):
    c = dict(N=2, Cap=1, FixedPorts={1}, EphLo=2, EphHi=2, DstPorts={1, 2}, Groups={1}, Lens={3}, Bufs={2, 8},
             BindKinds={"any"}, DstKinds={"host"}, Ops={"send", "recv"}, PreBind={111, 211},
             Grouped=False, MaxSend=2, MaxSock=3, MaxCtl=2, MaxRecv=1000000)
    c.update(kw)
    return c


# (name, constants, actions that must have been taken - the vacuity guard)
def mc_configs(tier):
    q = tier == "quick"
    cfgs = [
        # unicast routing classes (remote, own address, loopback, unowned address) under both bind forms
        ("mc_uni", base_consts(BindKinds={"any", "lo"}, DstKinds={"host", "none", "lo"},
                               Ops={"bindeph", "send", "recv"}, MaxSend=2, MaxSock=3, MaxCtl=0),
         ["BindEph", "SendLoop", "SendSelf", "SendRemote", "SendRefused", "DeliverQueued", "DeliverKind",
          "DeliverUnbound", "DeliverFull", "LoDeliverQueued", "LoDeliverDropped", "RecvWhole", "RecvCut"]),
        # broadcast and multicast routing (option off / on, members on own and other hosts)
        ("mc_multi", base_consts(DstKinds={"bcast", "mc"}, Ops={"setbc", "join", "send", "recv"}, Lens={0, 3},
                                 MaxSend=2, MaxSock=2, MaxCtl=2),
         ["SetBc", "Join", "SendBcast", "SendMcNet", "SendMcLoop", "SendMcNone", "SendRefused", "DeliverQueued",
          "DeliverFull", "LoDeliverQueued", "LoDeliverDropped", "RecvWhole", "RecvCut", "RecvZero"]),
        # zero-length datagrams (no id: matched by origin, discharged by count), capacity, readable()
        ("mc_zero", base_consts(Cap=2, DstPorts={1}, Lens={0}, DstKinds={"host", "lo"}, Ops={"send", "recv", "readable"},
                                MaxSend=3 if q else 4, MaxSock=2, MaxCtl=0),
         ["SendRemote", "SendLoop", "SendSelf", "DeliverQueued", "DeliverFull", "DeliverSilent", "LoDeliverQueued",
          "RecvZero", "RecvBuffered", "ReadableOk"]),
        # join / leave / drop-socket / re-bind / loop-option histories around multicast sends
        ("mc_member", base_consts(DstKinds={"mc"}, Ops={"join", "leave", "drop", "bind", "setml", "send", "recv"},
                                  MaxSend=2, MaxSock=3, MaxCtl=3 if q else 4),
         ["Join", "LeaveOk", "LeaveErr", "DropMember", "DropPlain", "DropLoaded", "BindOk", "SetMl", "SendMcNet",
          "SendMcSkip", "SendMcLoop", "SendMcNone", "DeliverQueued", "DeliverUnbound", "DeliverSilent", "DeliverFull",
          "LoDeliverQueued", "LoDeliverSilent", "RecvWhole"]),
        # capacity overflow with a slow receiver, readable() buffering one more
        ("mc_cap", base_consts(Cap=2, DstPorts={1}, DstKinds={"host", "lo"}, Ops={"send", "recv", "readable"},
                               MaxSend=3 if q else 4, MaxSock=2, MaxCtl=0),
         ["SendRemote", "SendLoop", "DeliverQueued", "DeliverFull", "DeliverSilent", "LoDeliverQueued",
          "LoDeliverDropped", "RecvWhole", "RecvCut", "RecvBuffered", "ReadableOk"]),
        # connect filters, drop and re-bind while datagrams are in flight, bind conflicts
        ("mc_filter", base_consts(BindKinds={"any", "lo"}, DstKinds={"host", "lo"}, DstPorts={1},
                                  Ops={"connect", "drop", "bind", "send", "recv"},
                                  MaxSend=1 if q else 2, MaxSock=3, MaxCtl=2),
         ["Connect", "DropPlain", "DropLoaded", "BindOk", "BindInUse", "SendRemote", "SendSelf", "SendLoop",
          "SendRefused", "DeliverQueued", "DeliverPeer", "DeliverKind", "DeliverUnbound", "DeliverSilent",
          "LoDeliverQueued", "LoDeliverDropped", "LoDeliverSilent", "RecvWhole"]),
        # membership and peer filter changing independently around one multicast / unicast datagram
        ("mc_mixed", base_consts(DstPorts={1}, DstKinds={"mc", "host"}, Ops={"join", "leave", "connect", "send", "recv"},
                                 Bufs={8}, MaxSend=1, MaxSock=2, MaxCtl=4),
         ["Join", "LeaveOk", "Connect", "SendMcNet", "SendRemote", "DeliverQueued", "DeliverPeer", "DeliverSilent",
          "RecvWhole"]),
    ]
    if not q:
        cfgs += [
            ("mc_bcast3", base_consts(N=3, PreBind={111, 211, 311}, DstKinds={"bcast", "mc"},
                                      Ops={"setbc", "join", "drop", "send", "recv"}, Bufs={8}, MaxSend=2, MaxSock=3, MaxCtl=2),
             ["SetBc", "Join", "DropMember", "SendBcast", "SendMcNet", "SendMcLoop", "SendRefused", "DeliverQueued",
              "DeliverUnbound", "DeliverFull", "LoDeliverQueued", "RecvWhole"]),
            ("mc_cap1", base_consts(Cap=1, DstPorts={1}, DstKinds={"host", "lo", "bcast"}, Ops={"setbc", "send", "recv", "readable"},
                                    Bufs={8}, MaxSend=3, MaxSock=2, MaxCtl=1),
             ["SendRemote", "SendLoop", "SendBcast", "DeliverFull", "RecvBuffered", "ReadableOk"]),
            ("mc_twoports", base_consts(FixedPorts={1, 2}, EphLo=3, EphHi=3, DstPorts={1, 2}, PreBind={111, 121, 211},
                                        DstKinds={"host", "lo", "mc"}, Ops={"join", "connect", "send", "recv"},
                                        Bufs={8}, MaxSend=2, MaxSock=3, MaxCtl=1),
             ["Join", "Connect", "SendRemote", "SendSelf", "SendMcLoop", "SendMcNet", "DeliverPeer", "LoDeliverDropped",
              "RecvWhole"]),
        ]
    return cfgs


# (name, constants, simulate spec or None, harness geometry)
def gen_configs(tier, seed):
    q = tier == "quick"
    g = dict(Grouped=True, MaxRecv=3)
    cfgs = [
        # exhaustive enumerations over tiny alphabets
        ("gen_mcast", base_consts(DstKinds={"mc"}, Ops={"join", "leave", "drop", "send", "recv"}, Bufs={8},
                                  MaxSend=1, MaxSock=2, MaxCtl=2, MaxLen=5, **g), None),
        ("gen_cap", base_consts(Cap=1, DstPorts={1}, DstKinds={"host", "lo"}, Ops={"send", "recv", "readable"}, Bufs={2},
                                PreBind={111, 211}, MaxSend=3, MaxSock=2, MaxCtl=0, MaxLen=5 if q else 6,
                                Grouped=True, MaxRecv=2 if q else 3), None),
        ("gen_filter", base_consts(DstPorts={1}, DstKinds={"host"}, Ops={"connect", "drop", "bind", "send", "recv"},
                                   Bufs={8}, MaxSend=1, MaxSock=3, MaxCtl=2, MaxLen=4 if q else 5, **g), None),
        # multicast fan-out around a local member whose loop option is off (join order, other members still served)
        ("gen_mcloop", base_consts(DstPorts={1}, DstKinds={"mc"}, Ops={"join", "setml", "send", "recv"}, Bufs={8},
                                   MaxSend=1, MaxSock=2, MaxCtl=3, MaxLen=5 if q else 6, Grouped=True, MaxRecv=1), None),
        # broadcast fan-out incl. the sender's own host under every combination of the broadcast / loop options
        ("gen_bcloop", base_consts(DstPorts={1}, DstKinds={"bcast"}, Ops={"setbc", "setml", "send", "recv"}, Bufs={8},
                                   MaxSend=1, MaxSock=2, MaxCtl=2, MaxLen=5, Grouped=True, MaxRecv=2), None),
        # a backlog of `capacity` datagrams, partial consumption through readable() / recv_from, then an overrun:
        # only capacity - unread (+ the one readable() parks) more may be accepted (final queue contents compared)
        ("gen_backlog", base_consts(Cap=2, DstPorts={1}, DstKinds={"lo"}, Ops={"send", "recv", "readable"}, Bufs={8},
                                    PreBind={111}, MaxSend=4, MaxSock=1, MaxCtl=0, MaxLen=10 if q else 11,
                                    Grouped=True, MaxRecv=2 if q else 3), None),
        ("gen_zero", base_consts(Cap=1, DstPorts={1}, Lens={0}, DstKinds={"host", "lo"}, Ops={"connect", "send", "recv"},
                                 Bufs={8}, MaxSend=2, MaxSock=2, MaxCtl=1, MaxLen=5, **g), None),
        # random walks of the full alphabet
        ("gen_walk", base_consts(Cap=2, FixedPorts={1, 2}, EphLo=3, EphHi=4, DstPorts={1, 2, 3}, Lens={0, 3},
                                 BindKinds={"any", "lo"},
                                 DstKinds=set(ALL_DST), Ops=set(ALL_OPS), PreBind={111, 211, 122},
                                 MaxSend=6, MaxSock=7, MaxCtl=8, MaxLen=16, Grouped=True, MaxRecv=8),
         f"num={12 if q else 150}"),
        ("gen_walk3", base_consts(N=3, Cap=1, FixedPorts={1}, EphLo=2, EphHi=3, DstPorts={1, 2}, Lens={0, 3},
                                  BindKinds={"any", "lo"},
                                  DstKinds={"host", "lo", "bcast", "mc"}, Ops=set(ALL_OPS) - {"bind"},
                                  PreBind={111, 211, 311}, MaxSend=6, MaxSock=6, MaxCtl=6, MaxLen=14,
                                  Grouped=True, MaxRecv=6),
         f"num={10 if q else 120}"),
    ]
    return cfgs


def random_configs(tier, seed):
    q = tier == "quick"
    runs = 30 if q else 120
    base = [dict(n=3, cap=2, nfixed=2, neph=2, tick=2, gmin=1, gmax=5, v6=0),
            dict(n=2, cap=1, nfixed=1, neph=2, tick=1, gmin=1, gmax=3, v6=1),
            dict(n=4, cap=3, nfixed=2, neph=1, tick=3, gmin=1, gmax=7, v6=0)]
    if not q:
        base += [dict(n=3, cap=1, nfixed=2, neph=2, tick=2, gmin=2, gmax=2, v6=1),
                 dict(n=4, cap=2, nfixed=1, neph=2, tick=1, gmin=1, gmax=9, v6=1),
                 dict(n=2, cap=5, nfixed=2, neph=2, tick=5, gmin=1, gmax=12, v6=0)]
    return [dict(c, runs=runs, steps=24, seed=seed * 131 + i) for i, c in enumerate(base)]


def trace_consts(n, cap, nfixed, neph):
    return dict(N=n, Cap=cap, FixedPorts=set(range(1, nfixed + 1)), EphLo=nfixed + 1, EphHi=nfixed + neph,
                DstPorts=set(range(1, nfixed + neph + 1)),
                Groups={1, 2}, Lens={0} | set(range(2, 10)), Bufs=set(range(1, 11)) | {64},
                BindKinds={"any", "lo"}, DstKinds=set(ALL_DST), Ops=set(ALL_OPS), PreBind=set(), Grouped=False,
                MaxSend=100000, MaxSock=100000, MaxCtl=100000, MaxRecv=100000)


def validate_trace(path, n, cap, nfixed, neph, tag, impl=True):
    """Returns (prop_result, impl_result)."""
    env = {"TRACE": os.path.abspath(path)}
    pcfg = vlib.cfg_text("TSpec", dict(N=n, Cap=cap), invariants=PROP_INVS, postcondition="Accepted")
    pr = vlib.run_tlc(SUB, "MsgUdpPropTrace", pcfg, tag + "_prop", workers=1, env=env, dfs=True, heap="3g", timeout=900)
    if pr.error or pr.timed_out:
        raise MachineryError(f"trace validation (prop) failed: {pr.error or 'timeout'}")
    ir = None
    if impl:
        icfg = vlib.cfg_text("TSpec", trace_consts(n, cap, nfixed, neph), invariants=PROP_INVS + ["ImplInv"],
                             postcondition="Accepted")
        ir = vlib.run_tlc(SUB, "MsgUdpTrace", icfg, tag + "_impl", workers=1, env=env, dfs=True, heap="3g", timeout=900)
        if ir.error or ir.timed_out:
            raise MachineryError(f"trace validation (impl) failed: {ir.error or 'timeout'}")
    return pr, ir


def extract_replays(stdout):
    """REPLAY lines of MsgUdpGen; a line cut short by the time cap of a -simulate run is dropped."""
    res = []
    pre = '<<"REPLAY", '
    for line in stdout.splitlines():
        if line.startswith(pre) and line.rstrip().endswith('">>'):
            try:
                t = json.loads(line.strip()[len(pre):-2])
                json.loads(t)
                res.append(t)
            except ValueError:
                pass
    return res


def run_index(path, event_index):
    """Index of the run (separated by `reset`) that contains the given 1-based event index."""
    k = -1
    for i, line in enumerate(open(path), start=1):
        if '"ev":"reset"' in line:
            k += 1
        if event_index is not None and i >= event_index:
            break
    return max(k, 0)


def geometry(consts):
    return dict(n=consts["N"], cap=consts["Cap"], nfixed=len(consts["FixedPorts"]),
                neph=consts["EphHi"] - consts["EphLo"] + 1)


def count_lines(path):
    with open(path) as f:
        return sum(1 for _ in f)


def rejected(r):
    return bool(r.violated or r.unmatched)


def run(pid, tier, seed, replay=None):
    ck = vlib.Check(pid, tier, seed)
    ck.assumptions = [
        "whole-millisecond ticks and latencies; hosts registered before the first step and running throughout "
        "(crash / bounce belong to C04); no partitions or random link failure (C03); ports, groups, payload "
        "lengths are small integers mapped to real ports 9001.., 49152.., groups 239.1.1.g / ff08::g",
        "verdict-level observations come from the public API only: socket call results, turmoil::elapsed(), "
        "Sim::elapsed() and Sim::links snapshots between steps. A copy on a link has reached its host in the step "
        "after which it left Sim::links, before that host runs (latencies >= 1 ms so that it is seen at least once); "
        "a copy for the sender's own host is handed over one tick after the send; hand-overs that cannot be ordered "
        "against calls on the same socket are optional (`amb`). turmoil's tracing events (`Send`, `Delivered`) feed "
        "the fidelity trace only: renaming them costs drift, never a verdict",
        "spec->code replays hold every link and hand copies over one at a time (any order TLC chose); sampled "
        "latencies, random host order, blocked receivers and IPv6 are covered by the recorded-trace direction",
        "TLC results hold for the stated small constants; larger parameters are sampled only",
    ]
    vlib.build_harness(["msgudp"])
    if replay:
        return do_replay(ck, replay)
    w = vlib.workdir(f"{pid}_files")

    # 1. design level ------------------------------------------------------
    for name, consts, need in mc_configs(tier):
        cfg = vlib.cfg_text("Spec", consts, invariants=PROP_INVS + ["ImplInv"], view="View")
        r = vlib.run_tlc(SUB, "MsgUdp", cfg, f"{pid}_{name}", workers=10, timeout=1500 if tier == "thorough" else 400,
                         coverage=True, heap="12g")
        ck.add_tlc(r, name, exhaustive=True)
        log(f"[{pid}] {name}: {r.distinct} distinct states, {r.generated} generated, depth {r.depth}, {r.wall:.0f}s")
        if r.violated or r.error or r.timed_out:
            log(vlib.counterexample_text(r))
            raise MachineryError(f"design-level check {name} did not pass: the committed ImplSpec does not satisfy the "
                                 f"PropSpec ({r.violated or r.error or 'timeout'}); the spec must be repaired first")
        missing = [a for a in need if r.coverage.get(a, 0) == 0]
        if missing:
            raise MachineryError(f"vacuity: actions never taken in {name}: {missing}")

    # 2. spec -> code -------------------------------------------------------
    for name, consts, sim in gen_configs(tier, seed):
        cfg = vlib.cfg_text("GenSpec", consts, invariants=["Emit"] + PROP_INVS + ["ImplInv"])
        # (-simulate restarts a walk whenever a behaviour is complete, so `num` walks give a few thousand
        # behaviours; the timeout only caps the time, the behaviours printed until then are used)
        r = vlib.run_tlc(SUB, "MsgUdpGen", cfg, f"{pid}_{name}", workers=4 if sim else 10,
                         timeout=(60 if tier == "quick" else 150) if sim else 1500, heap="12g",
                         simulate=sim, seed=seed if sim else None)
        if r.violated or r.error or (r.timed_out and not sim):
            log(vlib.counterexample_text(r))
            raise MachineryError(f"behaviour generation {name} failed ({r.violated or r.error or 'timeout'})")
        behs = extract_replays(r.stdout)
        if not behs:
            if sim:
                log(f"[{pid}] {name}: no complete walk before the time cap (machine busy); skipped")
                continue
            raise MachineryError(f"behaviour generation {name} produced no behaviours")
        if not sim:
            ck.add_tlc(r, name)
        behs = sorted(set(behs))
        bpath = os.path.join(w, f"{name}.ndjson")
        with open(bpath, "w") as f:
            f.write("\n".join(behs) + "\n")
        geo = geometry(consts)
        # IPv4 always; the configurations without broadcast are replayed under IPv6 as well
        for v6 in ([0, 1] if "bcast" not in consts["DstKinds"] else [0]):
            spath = os.path.join(w, f"{name}.v{6 if v6 else 4}.summary.json")
            # every `step`-th behaviour is also run to the end (everything handed over, sockets drained) and
            # its complete trace is judged by the PropSpec, divergent or not
            step = max(1, len(behs) // (1500 if tier == "quick" else 8000)) if not v6 else 0
            out = vlib.run_driver("msgudp", ["replay", f"in={bpath}", f"out={spath}", f"traces={w}", f"v6={v6}",
                                             f"force={step}"] + [f"{k}={v}" for k, v in geo.items()])
            s = json.load(open(spath))
            fpath = os.path.join(w, "forced.ndjson")
            if step and os.path.exists(fpath) and count_lines(fpath) > 0:
                pr, _ = validate_trace(fpath, geo["n"], geo["cap"], geo["nfixed"], geo["neph"], f"{pid}_full", impl=False)
                ck.add_tlc(pr, f"trace_full_{name}_v{6 if v6 else 4}")
                if rejected(pr):
                    k = run_index(fpath, pr.unmatched[0] if pr.unmatched else None)
                    ck.violation({"kind": "behaviour", "property": pid, "config": name, "consts": jsonable(consts),
                                  "v6": v6, "behaviour": json.loads(behs[min(k * step, len(behs) - 1)]),
                                  "divergence": {"what": "complete trace rejected by the PropSpec"},
                                  "violated_clause": pr.violated, "unmatched": pr.unmatched})
            log(f"[{pid}] {name}: {len(behs)} TLC behaviours ({'simulated ' + sim if sim else 'exhaustive'}), "
                f"IPv{6 if v6 else 4}: {out.strip()}")
            ck.traces += s["behaviours"]
            ck.evaluations += s["behaviours"]
            if not v6:
                ck.nontrivial += s["nontrivial"]
            for smp in s["samples"][:1]:
                ck.sample({"kind": "tlc behaviour replayed on the real Sim", "config": name, **smp})
            for d in s["divergences"]:
                d["v6"] = v6
                judge_divergence(ck, name, consts, d)
            ck.impl_drift += s["divergent"]

    # 3. code -> spec -------------------------------------------------------
    first = True
    for i, rc in enumerate(random_configs(tier, seed)):
        tpath = os.path.join(w, f"random_{i}.ndjson")
        args = ["random"] + [f"{k}={v}" for k, v in rc.items()]
        out = vlib.run_driver("msgudp", args + [f"out={tpath}"])
        pr, ir = validate_trace(tpath, rc["n"], rc["cap"], rc["nfixed"], rc["neph"], f"{pid}_rnd{i}")
        ck.add_tlc(pr, f"trace_prop_{i}")
        ck.add_tlc(ir, f"trace_impl_{i}")
        ck.traces += rc["runs"]
        ck.evaluations += rc["runs"]
        ck.nontrivial += rc["runs"]
        log(f"[{pid}] random {rc}: {out.strip()} -> prop {'ok' if not rejected(pr) else 'REJECTED'}, "
            f"impl {'ok' if not rejected(ir) else 'drift'}")
        if first:
            with open(tpath) as f:
                ck.sample({"kind": "recorded trace excerpt", "config": rc,
                           "events": [json.loads(x) for _, x in zip(range(16), f)]})
            first = False
        if rejected(pr):
            ck.violation({"kind": "random", "property": pid, "args": args, "cfg": rc,
                          "violated_clause": pr.violated, "unmatched": pr.unmatched,
                          "tlc": vlib.counterexample_text(pr, 3000)})
        elif rejected(ir):
            ck.impl_drift += 1
            log(f"[{pid}] note: implementation trace left the ImplSpec at event {ir.unmatched} "
                f"({ir.violated}); PropSpec accepted it (drift, no alarm)")

    # binding demonstration: corrupted traces must be rejected -------------------
    rc = random_configs(tier, seed)[0]
    tpath = os.path.join(w, "random_0.ndjson")
    demos = {}
    for what in ("duplicate", "payload", "readdress"):
        bad = os.path.join(w, f"random_0_{what}.ndjson")
        if corrupt_trace(tpath, bad, what):
            pr, _ = validate_trace(bad, rc["n"], rc["cap"], rc["nfixed"], rc["neph"], f"{pid}_bind", impl=False)
            demos[what] = {"rejected": rejected(pr), "clause": pr.violated}
            if not rejected(pr):
                raise MachineryError(f"binding demonstration failed: trace with corruption '{what}' was accepted")
    if not demos:
        raise MachineryError("binding demonstration impossible: the recorded trace has no data receive")
    ck.extra["binding_demo"] = demos
    ck.extra["rule"] = ("behaviours: distinct action sequences of MsgUdpGen (exhaustive within the bounds, or TLC "
                        "-simulate walks, de-duplicated); non-trivial = contains a socket-state change "
                        "(drop/join/leave/connect/option) or a controlled hand-over, and at least one datagram "
                        "received. random runs: one seeded scenario each")
    return ck.finish()


def corrupt_trace(src, dst, what):
    lines = open(src).read().splitlines()
    idx = [i for i, l in enumerate(lines) if '"ev":"recv"' in l and '"k":"data"' in l]
    if not idx:
        return False
    if what == "payload":
        idx = [i for i in idx if len(json.loads(lines[i])["res"]["data"]) >= 3]
        if not idx:
            return False
    i = idx[len(idx) // 2]
    e = json.loads(lines[i])
    if what == "duplicate":
        lines.insert(i + 1, lines[i])
    elif what == "payload":
        e["res"]["data"][-1] ^= 1
        lines[i] = json.dumps(e)
    elif what == "readdress":
        # the same datagram reported by a different live socket id
        e["sid"] = e["sid"] + 1 if e["sid"] > 1 else e["sid"] + 2
        sids = [json.loads(l)["sid"] for l in lines[:i] if '"ev":"bind"' in l and '"res":"ok"' in l]
        if e["sid"] not in sids:
            e["sid"] = max(1, e["sid"] - 2)
        lines[i] = json.dumps(e)
    open(dst, "w").write("\n".join(lines) + "\n")
    return True


def judge_divergence(ck, name, consts, d):
    """The real code left the ImplSpec on a TLC behaviour: ask the PropSpec."""
    pid = ck.pid
    tr = d.get("trace")
    if not tr or d.get("what") == "panic":
        ck.violation({"kind": "behaviour", "property": pid, "config": name, "consts": jsonable(consts),
                      "v6": d.get("v6", 0),
                      "behaviour": d.get("behaviour"), "divergence": {k: v for k, v in d.items() if k != "behaviour"}})
        return
    geo = geometry(consts)
    pr, _ = validate_trace(tr, geo["n"], geo["cap"], geo["nfixed"], geo["neph"], f"{pid}_div", impl=False)
    if rejected(pr):
        ck.violation({"kind": "behaviour", "property": pid, "config": name, "consts": jsonable(consts),
                      "v6": d.get("v6", 0),
                      "behaviour": d.get("behaviour"), "divergence": {k: v for k, v in d.items() if k != "behaviour"},
                      "violated_clause": pr.violated, "unmatched": pr.unmatched})
    else:
        log(f"[{pid}] drift: behaviour #{d.get('line')} diverged from the ImplSpec ({d.get('what')}) "
            f"but the PropSpec accepts the observation")


def jsonable(c):
    return {k: (sorted(v, key=str) if isinstance(v, (set, frozenset)) else v) for k, v in c.items()}


def do_replay(ck, path):
    rp = json.load(open(path))
    pid = ck.pid
    w = vlib.workdir(f"{pid}_replay")
    if rp["kind"] == "behaviour":
        consts = rp["consts"]
        consts = {k: (set(v) if isinstance(v, list) else v) for k, v in consts.items()}
        bpath = os.path.join(w, "beh.ndjson")
        open(bpath, "w").write(json.dumps(rp["behaviour"]) + "\n")
        spath = os.path.join(w, "summary.json")
        geo = geometry(consts)
        vlib.run_driver("msgudp", ["replay", f"in={bpath}", f"out={spath}", f"traces={w}", f"v6={rp.get('v6', 0)}",
                                    "force=1"] + [f"{k}={v}" for k, v in geo.items()])
        s = json.load(open(spath))
        ck.traces = ck.evaluations = 1
        pr, _ = validate_trace(os.path.join(w, "forced.ndjson"), geo["n"], geo["cap"], geo["nfixed"], geo["neph"],
                               f"{pid}_replay_full", impl=False)
        if rejected(pr):
            ck.violation(dict(rp, violated_clause=pr.violated, unmatched=pr.unmatched))
            s["divergences"] = []
        elif not s["divergences"]:
            log(f"[{pid}] replay: behaviour now matches the ImplSpec prediction; complete trace accepted by the PropSpec")
        for d in s["divergences"]:
            judge_divergence(ck, rp.get("config", "replay"), consts, d)
    else:
        tpath = os.path.join(w, "random.ndjson")
        vlib.run_driver("msgudp", rp["args"] + [f"out={tpath}"])
        rc = rp["cfg"]
        pr, _ = validate_trace(tpath, rc["n"], rc["cap"], rc["nfixed"], rc["neph"], f"{pid}_replay", impl=False)
        ck.add_tlc(pr, "replay")
        ck.traces = ck.evaluations = rc["runs"]
        if rejected(pr):
            ck.violation(dict(rp, violated_clause=pr.violated, unmatched=pr.unmatched))
        else:
            log(f"[{pid}] replay: trace accepted by the PropSpec")
    ck.states = max(ck.states, 1)
    ck.transitions = max(ck.transitions, 1)
    ck.nontrivial = 2
    ck.sample({"replayed": path})
    return ck.finish()
