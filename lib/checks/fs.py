"""C10 / C07: the simulated filesystem (specs/fs).

  FsRef        PropSpec: inode based POSIX tree + the crate's documented durability model
  FsImpl       ImplSpec: the pending-operation-log algorithm of turmoil-fs transcribed, FsRef in lock step
  FsGen        behaviour generation (transition cover / all histories), one JSON line per behaviour
  FsRefTrace   verdict-level trace validation (FsRef only)
  FsImplTrace  fidelity-level trace validation (FsImpl, state-level through Fs::verif_dump)

Per property:
  1. design level   TLC explores FsImpl x FsRef exhaustively for small constants: every point where the
                    transcribed algorithm leaves the reference must be attributed to a Dev_* predicate of a
                    recorded finding (DivergenceExplained), the reference itself must be well-formed and
                    sync-inert;
  2. spec -> code   TLC enumerates behaviours (every transition of the joint state graph within the bound,
                    and every history for the small configs), the harness executes each on a real `Fs`
                    through the std / tokio shims (one or two hosts) and compares every returned value,
                    the read-back view and the verif_dump state with TLC's predictions.  A behaviour on which
                    the real code leaves the reference is recorded and judged by TLC (FsRefTrace); it is a
                    known finding iff the code did exactly what FsImpl predicts and a Dev_* predicate of a
                    listed finding holds there, otherwise VIOLATION;
  3. code -> spec   seeded random histories (richer alphabet) recorded from the real code, validated by TLC
                    against FsRefTrace (verdict) and FsImplTrace (fidelity + family attribution).
"""
import collections
import json
import os
import re

import vlib
from vlib import MachineryError, log

SUB = "fs"
JUDGE = {"C10": "c10", "C07": "c07"}

ALL_MODES = {"r", "w", "rw", "wc", "wt", "wct", "wn", "rwc", "rwt", "rwct", "rwn", "a", "ac", "an", "ra", "rac"}


# ---------------------------------------------------------------------------
# configuration helpers

def tv(v):
    if isinstance(v, bool):
        return "TRUE" if v else "FALSE"
    if isinstance(v, int):
        return str(v)
    if isinstance(v, str):
        return '"' + v + '"'
    if isinstance(v, (set, frozenset, list, tuple)):
        return "{" + ", ".join(tv(x) for x in sorted(v, key=lambda x: (str(type(x)), x))) + "}"
    raise ValueError(v)


def cfg_text(spec, consts, invariants=(), properties=(), view=None, postcondition=None):
    lines = [f"SPECIFICATION {spec}", "CONSTANTS"] + [f"  {k} = {tv(v)}" for k, v in consts.items()]
    if invariants:
        lines += ["INVARIANTS"] + [f"  {i}" for i in invariants]
    if properties:
        lines += ["PROPERTIES"] + [f"  {i}" for i in properties]
    if view:
        lines.append(f"VIEW {view}")
    if postcondition:
        lines.append(f"POSTCONDITION {postcondition}")
    lines.append("CHECK_DEADLOCK FALSE")
    return "\n".join(lines) + "\n"


def consts(pid, **kw):
    c = dict(MaxH=1, OpKinds=set(), FilePaths={"/a", "/b"}, DirPaths=set(), RenFiles=set(), RenDirs=set(),
             OpenModes={"rwc"}, Bytes={1}, WriteLens={1}, Offsets={0}, ReadLens={2}, SetLens={0, 2},
             SeekWh=set(), SeekOffs=set(), SeekNeg=set(), ViewSet={"/", "/a", "/b"}, Judge=JUDGE[pid], SyncKnob=False, BlockSize=0,
             MaxLen=4, MaxCrash=0)
    c.update(kw)
    return c


def jsonable(c):
    return {k: (sorted(v, key=str) if isinstance(v, (set, frozenset)) else v) for k, v in c.items()}


def unjson(c):
    return {k: (set(v) if isinstance(v, list) else v) for k, v in c.items()}


STEP_OF = {"open": "StepOpen", "close": "StepClose", "write_at": "StepWriteAt", "read_at": "StepReadAt",
           "write": "StepWrite", "read": "StepRead", "seek": "StepSeek", "set_len": "StepSetLen", "len": "StepLen",
           "sync_all": "StepSyncAll", "sync_data": "StepSyncData", "sync_dir": "StepSyncDir", "rename": "StepRename",
           "remove_file": "StepRemoveFile", "create_dir": "StepCreateDir", "create_dir_all": "StepCreateDirAll",
           "remove_dir": "StepRemoveDir", "remove_dir_all": "StepRemoveDirAll", "read_dir": "StepReadDir",
           "metadata": "StepMetadata", "exists": "StepExists", "read_file": "StepReadFile",
           "write_file": "StepWriteFile", "crash": "StepCrash"}

DATA_OPS = {"open", "close", "write", "read_at", "set_len", "sync_all", "sync_dir", "rename", "remove_file", "create_dir"}
DIR_OPS = {"write_file", "sync_dir", "rename", "remove_file", "create_dir", "create_dir_all", "remove_dir",
           "remove_dir_all", "read_dir"}
DIR_PATHS = dict(FilePaths={"/a", "/d/a"}, DirPaths={"/d", "/e"}, RenFiles={"/a", "/d/a"}, RenDirs={"/d", "/e"},
                 ViewSet={"/", "/a", "/d", "/d/a", "/e", "/e/a"})


def mc_configs(pid, tier):
    """Exhaustive exploration of FsImpl x FsRef (no history variable)."""
    q = tier == "quick"
    if pid == "C10":
        cfgs = [
            ("mc_data", consts(pid, OpKinds=DATA_OPS | {"sync_data", "len"}, DirPaths={"/d"}, RenFiles={"/a", "/b"},
                               ViewSet={"/", "/a", "/b", "/d"}, MaxLen=5 if q else 6)),
            ("mc_dirs", consts(pid, OpKinds=DIR_OPS | {"metadata", "exists", "read_file"}, MaxLen=4 if q else 5, **DIR_PATHS)),
        ]
        if not q:
            cfgs.append(("mc_handles", consts(pid, MaxH=2, OpKinds={"open", "close", "write", "write_at", "read", "read_at", "seek",
                                                                     "set_len", "len", "rename", "remove_file"},
                                              FilePaths={"/a", "/b"}, RenFiles={"/a", "/b"}, OpenModes={"rwc", "ra", "wct"},
                                              Bytes={1, 2}, Offsets={0, 2}, ReadLens={1, 3}, SetLens={1, 3},
                                              SeekWh={"set", "end", "cur"}, SeekOffs={1}, SeekNeg={1}, MaxLen=4)))
        return cfgs
    cfgs = [
        ("mc_crash_files", consts(pid, OpKinds={"write_file", "open", "write", "set_len", "sync_all", "sync_data", "sync_dir", "rename",
                                                "remove_file", "crash"},
                                  RenFiles={"/a", "/b"}, OpenModes={"rw", "ac"}, MaxLen=4 if q else 6, MaxCrash=1)),
        ("mc_crash_dirs", consts(pid, OpKinds={"write_file", "sync_dir", "rename", "remove_file", "create_dir", "remove_dir", "crash"},
                                 FilePaths={"/a", "/d/a"}, DirPaths={"/d"}, RenFiles={"/a", "/d/a"},
                                 ViewSet={"/", "/a", "/d", "/d/a"}, MaxLen=5 if q else 6, MaxCrash=2)),
        ("mc_crash_nested", consts(pid, OpKinds={"create_dir", "create_dir_all", "sync_dir", "remove_dir", "write_file", "remove_file", "crash"},
                                   FilePaths={"/d/e/a"}, DirPaths={"/d", "/d/e"}, ViewSet={"/", "/d", "/d/e", "/d/e/a"},
                                   MaxLen=5 if q else 7, MaxCrash=2)),
        ("mc_crash_bgsync", consts(pid, SyncKnob=True, OpKinds={"write_file", "open", "write", "set_len", "sync_all", "sync_dir",
                                                                 "rename", "remove_file", "crash"},
                                   RenFiles={"/a", "/b"}, OpenModes={"rw"}, MaxLen=4 if q else 5, MaxCrash=1)),
    ]
    if q:   # the gen_* runs of the quick tier check the same invariants on the same alphabets
        cfgs = [c for c in cfgs if c[0] not in ("mc_crash_nested", "mc_crash_dirs")]
    return cfgs


def gen_configs(pid, tier):
    """(name, constants, emit mode, VIEW?, [(front-end, hosts)...])"""
    q = tier == "quick"
    if pid == "C10":
        cfgs = [
            # syncs at every position, remove + re-create, rename onto new and existing names, truncate / extend
            ("gen_data", consts(pid, OpKinds=DATA_OPS, DirPaths={"/d"}, RenFiles={"/a", "/b"}, ViewSet={"/", "/a", "/b", "/d"},
                                MaxLen=5 if q else 6), "edges", True, [("std", 1), ("tokio", 1)]),
            # directories: create_dir(_all), remove_dir(_all), read_dir, renames of directories and across directories
            ("gen_dirs", consts(pid, OpKinds=DIR_OPS | {"metadata", "exists", "read_file"}, MaxLen=4 if q else 6, **DIR_PATHS),
             "edges", True, [("std", 1), ("mix", 2)]),
            # nested directories: sub-directories pending / synced below a directory that is removed, renamed or renamed onto
            ("gen_nested", consts(pid, OpKinds={"create_dir", "create_dir_all", "remove_dir", "remove_dir_all", "sync_dir", "rename", "read_dir"},
                                  FilePaths=set(), DirPaths={"/d", "/d/a", "/e"}, RenDirs={"/d", "/e"},
                                  ViewSet={"/", "/d", "/d/a", "/e", "/e/a"}, MaxLen=4 if q else 6), "edges", True, [("std", 1), ("tokio", 1)]),
            # every valid combination of create / create_new / truncate / append on existing and missing files
            ("gen_modes", consts(pid, OpKinds={"open", "close", "write_file", "read", "write", "len", "remove_file"},
                                 FilePaths={"/a", "/d/a"}, DirPaths={"/d"}, OpenModes=ALL_MODES, Bytes={1, 2}, ReadLens={3},
                                 ViewSet={"/", "/a", "/d", "/d/a"}, MaxLen=4 if q else 5), "edges", True, [("mix", 1)]),
            # two handles, cursor read / write / seek, append, write_at / read_at with holes and overlaps, set_len
            ("gen_cursor", consts(pid, MaxH=2, OpKinds={"open", "write", "write_at", "read", "read_at", "seek", "set_len", "len"},
                                  FilePaths={"/a"}, OpenModes={"rwc", "ra"}, Bytes={1, 2}, Offsets={0, 2}, ReadLens={1, 3},
                                  SetLens={1, 3}, SeekWh={"set", "end", "cur"}, SeekOffs={1}, SeekNeg={1}, ViewSet={"/", "/a"},
                                  MaxLen=4 if q else 5), "edges", True, [("std", 1), ("tokio", 2)]),
            # truncation points inside and before read windows: longer files, set_len shrinking and extending,
            # positional reads starting beyond the truncation point
            ("gen_window", consts(pid, OpKinds={"open", "write_at", "set_len", "read_at", "sync_all"}, FilePaths={"/a"}, OpenModes={"rwc"},
                                  WriteLens={1, 2}, Offsets={0, 2, 4}, ReadLens={2, 4}, SetLens={1, 2, 5}, ViewSet={"/", "/a"},
                                  MaxLen=5 if q else 6), "edges", True, [("std", 1), ("tokio", 1)]),
            # every history (no VIEW) of a small alphabet
            ("gen_all", consts(pid, OpKinds={"write_file", "open", "write", "set_len", "sync_all", "sync_dir", "rename", "remove_file"},
                               FilePaths={"/a", "/b"}, RenFiles={"/a", "/b"}, OpenModes={"rwc"}, SetLens={0, 2},
                               MaxLen=4 if q else 5), "edges", False, [("mix", 1)]),
        ]
        if not q:
            # wider: files in the root and in a directory, data and namespace calls mixed
            cfgs.append(("gen_wide", consts(pid, OpKinds={"open", "close", "write", "set_len", "sync_all", "sync_dir", "rename", "remove_file",
                                                          "create_dir", "remove_dir", "write_file"},
                                            FilePaths={"/a", "/b", "/d/a"}, DirPaths={"/d"}, RenFiles={"/a", "/b", "/d/a"},
                                            OpenModes={"rwc", "wct"}, ViewSet={"/", "/a", "/b", "/d", "/d/a"}, MaxLen=5),
                         "edges", True, [("mix", 1)]))
        return cfgs
    cfgs = [
        # crash after every prefix; data syncs vs directory syncs vs renames
        ("gen_crash_files", consts(pid, OpKinds={"write_file", "open", "sync_all", "sync_dir", "rename", "crash"} | (set() if q else {"remove_file"}),
                                   RenFiles={"/a", "/b"}, OpenModes={"rw"}, MaxLen=6 if q else 7, MaxCrash=1),
         "edges", True, [("std", 1)]),
        ("gen_crash_data", consts(pid, OpKinds={"open", "write", "set_len", "sync_all", "sync_data", "sync_dir", "remove_file", "crash"},
                                  FilePaths={"/a"}, OpenModes={"rwc", "wct", "ac"}, SetLens={0, 2}, ViewSet={"/", "/a"},
                                  MaxLen=6 if q else 7, MaxCrash=2), "edges", True, [("mix", 1)]),
        # sync_probability > 0: every write / set_len with and without a background sync of that file
        ("gen_crash_bgsync", consts(pid, SyncKnob=True, OpKinds={"open", "write", "set_len", "sync_all", "sync_dir", "rename", "remove_file", "crash"},
                                    FilePaths={"/a", "/b"}, RenFiles={"/a", "/b"}, OpenModes={"rwc"}, SetLens={0, 2},
                                    MaxLen=5 if q else 6, MaxCrash=1), "edges", True, [("std", 1)]),
        # directories: durable own creation, entries synced per directory, renames across directories,
        # crash - continue - crash
        ("gen_crash_dirs", consts(pid, OpKinds={"write_file", "sync_dir", "rename", "remove_file", "create_dir", "remove_dir", "crash"},
                                  FilePaths={"/a", "/d/a"}, DirPaths={"/d"}, RenFiles={"/a", "/d/a"},
                                  ViewSet={"/", "/a", "/d", "/d/a"}, MaxLen=5 if q else 6, MaxCrash=2),
         "edges", True, [("std", 2)]),
        # nested directories: two and three levels pending at once (create_dir_all and successive create_dir),
        # sync_dir top-down and bottom-up, files in the deepest directory
        ("gen_crash_nested", consts(pid, OpKinds={"create_dir", "create_dir_all", "sync_dir", "remove_dir", "write_file", "crash"},
                                    FilePaths={"/d/e/a"}, DirPaths={"/d", "/d/e"}, ViewSet={"/", "/d", "/d/e", "/d/e/a"},
                                    MaxLen=6 if q else 7, MaxCrash=1), "edges", True, [("mix", 1)]),
    ]
    return cfgs


def random_configs(pid, tier, seed):
    q = tier == "quick"
    if pid == "C10":
        cfgs = [dict(runs=120 if q else 800, len=30, rich=1, dir_rename=1, crash=0, fe="mix", maxh=2),
                dict(runs=60 if q else 400, len=40, rich=0, dir_rename=0, crash=0, fe="std", maxh=2),
                dict(runs=60 if q else 400, len=30, rich=2, dir_rename=0, crash=0, fe="tokio", maxh=2)]   # nested directories
    else:
        cfgs = [dict(runs=100 if q else 800, len=30, rich=2, dir_rename=0, crash=8, fe="mix", maxh=2, knob=0),
                dict(runs=50 if q else 400, len=40, rich=0, dir_rename=0, crash=12, fe="tokio", maxh=2, knob=0),
                dict(runs=60 if q else 600, len=30, rich=1, dir_rename=0, crash=10, fe="std", maxh=2, knob=1)]
    return [dict(c, seed=seed * 131 + i) for i, c in enumerate(cfgs)]


# ---------------------------------------------------------------------------
# findings

def listed_families(pid, findings):
    """family name -> text of the listed finding (known_findings.json, else the proposal shipped with the specs)."""
    fam = {}
    for f in findings.get("findings", []):
        if isinstance(f, dict):
            if f.get("property") == pid and f.get("family"):
                fam[f["family"]] = f"{f.get('id', '')} {f.get('title', '')}".strip()
            continue
        if f"property={pid}" in f:
            for m in re.finditer(r"family[=:]\s*\"?(\w+)", f):
                fam[m.group(1)] = f
    if not fam:
        p = os.path.join(vlib.SPECS, SUB, "findings.json")
        if os.path.exists(p):
            for f in json.load(open(p))["findings"]:
                if f["property"] == pid:
                    fam[f["family"]] = f"{f['id']} {f['title']}"
    return fam


class Families:
    """Bookkeeping of which listed findings reproduced."""

    def __init__(self, ck, pid):
        self.ck, self.pid = ck, pid
        self.listed = listed_families(pid, ck.findings)
        self.hits = collections.OrderedDict()

    def attribute(self, devs, witness, count=True):
        """True iff at least one of the Dev_* names belongs to a listed finding."""
        got = [d for d in devs if d in self.listed]
        for d in got if count else []:
            h = self.hits.setdefault(d, {"n": 0, "witness": witness})
            h["n"] += 1
            if witness and (not h["witness"] or (witness.count(";"), len(witness)) < (h["witness"].count(";"), len(h["witness"]))):
                h["witness"] = witness
        for d in got if not count else []:
            self.hits.setdefault(d, {"n": 0, "witness": witness})
        return bool(got)

    def report(self):
        for d, h in self.hits.items():
            self.ck.known(d, f"family={d} {self.listed[d]} [{h['n']} observations; e.g. {h['witness']}]")


def opstr(o):
    a = [str(o[f]) for f in ("h", "p", "q", "m", "off", "n", "data", "wh") if f in o]
    return o["k"] + "(" + ",".join(a) + ")"


def behstr(beh):
    return " ; ".join(opstr(e["op"]) for e in beh["h"]) + (" ; " if beh["h"] else "") + opstr(beh["last"]["op"])


# ---------------------------------------------------------------------------
# TLC trace validation

def trace_consts(pid, maxh, ps, knob=False, block=0):
    return consts(pid, MaxH=maxh, SyncKnob=knob, BlockSize=block, FilePaths=set(), OpenModes=set(), Bytes=set(), WriteLens=set(), Offsets=set(),
                  ReadLens=set(), SetLens=set(), ViewSet=set(ps), MaxLen=0)


def validate_trace(pid, path, maxh, ps, tag, impl=True, knob=False, block=0):
    """Returns (rejects {(run,i): clause}, lost set, kinds Counter, devs {(run,i): [names]}, drifts {(run,i): what}, prop result, impl result)."""
    env = {"TRACE": os.path.abspath(path)}
    pcfg = cfg_text("TSpec", dict(MaxH=maxh, Judge=JUDGE[pid], SyncKnob=knob, BlockSize=block), postcondition="Accepted")
    pr = vlib.run_tlc(SUB, "FsRefTrace", pcfg, tag + "_prop", workers=1, env=env, dfs=True, heap="4g", timeout=1200)
    if pr.error or pr.timed_out or pr.unmatched:
        raise MachineryError(f"trace validation (FsRefTrace) failed on {path}: {pr.error or pr.unmatched or 'timeout'}")
    rejects = {(int(a), int(b)): c for a, b, c in re.findall(r'^<<"REJECT", (\d+), (\d+), "([\w.]+)"', pr.stdout, re.M)}
    lost = {(int(a), int(b)) for a, b in re.findall(r'^<<"(?:LOST|UNSPEC)", (\d+), (\d+)>>', pr.stdout, re.M)}
    kinds = collections.Counter()
    for _r, _i, k, obs, exp in re.findall(r'^<<"KIND", (\d+), (\d+), "(\w+)", "(\w*)", "(\w*)">>', pr.stdout, re.M):
        kinds[f"{k}: kind {obs} where std returns {exp}"] += 1
    devs, drifts, ir = {}, {}, None
    if impl:
        icfg = cfg_text("TSpec", trace_consts(pid, maxh, ps, knob, block), postcondition="Accepted")
        ir = vlib.run_tlc(SUB, "FsImplTrace", icfg, tag + "_impl", workers=1, env=env, dfs=True, heap="4g", timeout=1200)
        if ir.error or ir.timed_out or ir.unmatched:
            raise MachineryError(f"trace validation (FsImplTrace) failed on {path}: {ir.error or ir.unmatched or 'timeout'}")
        for a, b, _w, d in re.findall(r'^<<"DEV", (\d+), (\d+), "(\w+)", "(.*)">>', ir.stdout, re.M):
            devs[(int(a), int(b))] = json.loads(json.loads('"' + d + '"'))
        for a, b, w in re.findall(r'^<<"DRIFT", (\d+), (\d+), "(\w+)"', ir.stdout, re.M):
            drifts[(int(a), int(b))] = w
    return rejects, lost, kinds, devs, drifts, pr, ir


def judge_runs(ck, fam, pid, tag, rejects, devs, drifts, describe, payload_of, count=True):
    """Common verdict for recorded runs: every FsRefTrace rejection is a listed family (FsImpl predicts the
    observation and a Dev_* predicate of a listed finding holds there) or a VIOLATION."""
    nviol = 0
    for (run, i), clause in sorted(rejects.items()):
        drifted = any(r == run and j <= i for (r, j) in drifts)
        d = devs.get((run, i))
        if not drifted and d and fam.attribute(d, describe(run, i), count):
            continue
        nviol += 1
        if nviol <= 5:
            why = ("the code does not do what the frozen model FsImpl does" if drifted else
                   "FsImpl predicts it but no Dev_* predicate of a listed finding holds" if d is not None and not d else
                   f"families {d} are not listed in known_findings.json" if d else "FsImpl does not diverge there")
            ck.violation(dict(payload_of(run, i), violated_clause=clause, step=i, why=why))
        else:
            ck.violations += 1
    return nviol


# ---------------------------------------------------------------------------

def run_gen(ck, fam, pid, name, c, emit, view, fes, w, only_line=None):
    gc = dict(c, EmitMode=emit)
    # the generation run is at the same time a design-level run (same invariants as the mc_* configurations)
    r = vlib.run_tlc(SUB, "FsGen", cfg_text("GenSpec", gc, invariants=["RefWellformed", "ImplInv", "DivergenceExplained"],
                                             view="GenView" if view else None), f"{pid}_{name}",
                     workers=10, timeout=1500, heap="12g")
    if r.violated or r.error or r.timed_out:
        log(vlib.counterexample_text(r)[:6000])
        raise MachineryError(f"behaviour generation {name} failed ({r.violated or r.error or 'timeout'}); if DivergenceExplained is "
                             f"violated FsImpl leaves FsRef at a point that no Dev_* predicate of a recorded finding explains")
    behs = vlib.extract_replays(r.stdout)
    ck.add_tlc(r, name)
    r.stdout = ""
    kinds_seen = collections.Counter(json.loads(b)["last"]["op"]["k"] for b in behs)
    missing = [k for k in c["OpKinds"] if kinds_seen[k] == 0]
    if missing:
        raise MachineryError(f"vacuity: operation kinds never generated in {name}: {missing}")
    bpath = os.path.join(w, f"{name}.ndjson")
    with open(bpath, "w") as f:
        f.write("\n".join(behs) + "\n")
    log(f"[{pid}] {name}: {r.distinct} distinct states, {len(behs)} behaviours generated by TLC in {r.wall:.0f}s")
    for n, (fe, hosts) in enumerate(fes):
        # a sample of every known-family combination is judged by TLC for the first front-end; behaviours that
        # no listed family explains are judged by TLC always
        replay_behaviours(ck, fam, pid, f"{name}_{fe}{hosts}", c, bpath, len(behs), fe, hosts, w, cap_known=6 if n == 0 else 0)
    if pid == "C07":
        sim_replay(ck, pid, name, c, bpath, w)


def run_torn(ck, fam, pid, tier, w):
    """block_size: TLC enumerates the histories (and, design level, every tearing choice of FsImpl against the
    permitted set of FsRef); the harness runs every history that ends in a crash under many fs seeds; TLC decides
    whether each recorded image lies in the permitted set."""
    q = tier == "quick"
    block = 2
    cfgs = [("gen_crash_torn", consts(pid, BlockSize=block, OpKinds={"open", "write", "sync_all", "sync_dir", "crash"}, FilePaths={"/a"},
                                      OpenModes={"rwc"}, WriteLens={1, 3}, ViewSet={"/", "/a"}, MaxLen=5 if q else 6, MaxCrash=1))]
    if not q:
        cfgs.append(("gen_crash_torn2", consts(pid, BlockSize=block, OpKinds={"write_file", "open", "write", "set_len", "sync_dir", "rename", "crash"},
                                               FilePaths={"/a", "/b"}, RenFiles={"/a", "/b"}, OpenModes={"ra"}, WriteLens={3},
                                               SetLens={1}, MaxLen=5, MaxCrash=1)))
    for name, c in cfgs:
        r = vlib.run_tlc(SUB, "FsGen", cfg_text("GenSpec", dict(c, EmitMode="edges"),
                                                 invariants=["RefWellformed", "ImplInv", "DivergenceExplained"], view="GenView"),
                         f"{pid}_{name}", workers=10, timeout=1500, heap="12g")
        if r.violated or r.error or r.timed_out:
            log(vlib.counterexample_text(r)[:6000])
            raise MachineryError(f"{name} failed ({r.violated or r.error or 'timeout'}): a torn image of FsImpl is outside the permitted "
                                 f"set of FsRef and no Dev_* predicate of a recorded finding explains it")
        behs = vlib.extract_replays(r.stdout)
        ck.add_tlc(r, name, exhaustive=True)
        r.stdout = ""
        bpath = os.path.join(w, f"{name}.ndjson")
        with open(bpath, "w") as f:
            f.write("\n".join(behs) + "\n")
        tpath = os.path.join(w, f"{name}.trace.ndjson")
        ps = sorted(c["ViewSet"])
        out = vlib.run_driver("fs", ["torn", f"in={bpath}", f"out={tpath}", "ps=" + ",".join(ps), f"block={block}",
                                     "seeds=24" if q else "seeds=48", f"maxh={c['MaxH']}"])
        m = re.match(r"(\d+) crash histories .*: (\d+) distinct outcomes recorded, (\d+) histories with more than one image, (\d+) with", out)
        nh, nruns, multi, torn = (int(x) for x in m.groups())
        if torn == 0:
            raise MachineryError(f"vacuity: no history of {name} was torn in more than one way")
        rejects, lost, _k, devs, drifts, pr, ir = validate_trace(pid, tpath, c["MaxH"], ps, f"{pid}_{name}_trace", block=block)
        ck.add_tlc(pr, f"trace_prop_{name}")
        ck.add_tlc(ir, f"trace_impl_{name}")
        ck.traces += nruns
        ck.evaluations += nruns
        ck.nontrivial += nruns
        log(f"[{pid}] {name}: {r.distinct} distinct states (every tearing choice of FsImpl inside FsRef's permitted set); {out.strip()} "
            f"-> FsRefTrace rejects {len(rejects)}, FsImplTrace drift {len(drifts)}")
        ck.extra.setdefault("torn_writes", {})[name] = {"block_size": block, "histories": nh, "distinct_images_recorded": nruns,
                                                        "histories_with_several_images": multi, "rejected": len(rejects)}
        rej_runs = {rr for (rr, _i) in rejects}
        for (rr, i), wht in drifts.items():
            if rr not in rej_runs:
                ck.impl_drift += 1
        runs = {}
        with open(tpath) as f:
            for line in f:
                e = json.loads(line)
                if e["ev"] == "op":
                    runs.setdefault(e["run"], []).append(e)

        def describe(run, i):
            return " ; ".join(opstr(e["op"]) for e in runs.get(run, []))

        def payload(run, i):
            evs = runs.get(run, [])
            return {"kind": "torn", "property": pid, "config": name, "consts": jsonable(c), "block": block,
                    "ops": [e["op"] for e in evs], "seed": evs[-1].get("seed") if evs else None, "text": describe(run, i),
                    "observed_image": evs[-1]["res"]["v"] if evs else None}

        judge_runs(ck, fam, pid, name, rejects, devs, drifts, describe, payload)


def sim_replay(ck, pid, name, c, bpath, w):
    """The behaviours that end in a crash, executed by host software inside a running Sim (Sim::crash + Sim::bounce)."""
    spath = os.path.join(w, f"{name}.sim.json")
    out = vlib.run_driver("fs", ["simreplay", f"in={bpath}", f"out={spath}", f"maxh={c['MaxH']}", "ps=" + ",".join(sorted(c["ViewSet"])),
                                 "fe=mix", "every=1" if ck.tier == "thorough" else "every=2"])
    s = json.load(open(spath))
    log(f"[{pid}] {name}_sim: {out.strip()}")
    ck.traces += s["behaviours"]
    ck.evaluations += s["behaviours"]
    ck.nontrivial += s["behaviours"]
    ck.extra.setdefault("sim_crash_bounce", {})[name] = {"behaviours": s["behaviours"], "crashes": s["crashes"], "as_predicted": s["ok"]}
    for b in s["bad"][:3]:
        ck.violation({"kind": "sim", "property": pid, "config": name, "consts": jsonable(c), "behaviour": b.get("behaviour"),
                      "text": behstr(b["behaviour"]) if "behaviour" in b else "", "what": b.get("what"),
                      "why": "driven through Sim::crash / Sim::bounce the post-crash image is neither the reference's nor the "
                             "one the frozen model FsImpl predicts"})
    ck.violations += max(0, s["bad_count"] - 3)


def replay_behaviours(ck, fam, pid, name, c, bpath, nbeh, fe, hosts, w, cap_known=6):
    ps = sorted(c["ViewSet"])
    spath = os.path.join(w, f"{name}.summary.json")
    out = vlib.run_driver("fs", ["replay", f"in={bpath}", f"out={spath}", f"traces={w}", f"name={name}", f"fe={fe}",
                                 f"hosts={hosts}", f"maxh={c['MaxH']}", "ps=" + ",".join(ps), f"judge={c['Judge']}",
                                 f"cap_known={cap_known}"])
    s = json.load(open(spath))
    log(f"[{pid}] {name}: {out.strip()}")
    ck.traces += s["behaviours"]
    ck.evaluations += s["behaviours"]
    ck.nontrivial += s["nontrivial"]
    for smp in s["samples"][:1]:
        ck.sample({"kind": "TLC behaviour replayed on the real Fs", "config": name,
                   "behaviour": behstr(smp["behaviour"]), "observed_last": smp["observed"]})
    if s["prefix_divergent"]:
        # every prefix of a behaviour is a behaviour of its own: the divergence is judged there
        log(f"[{pid}] {name}: {s['prefix_divergent']} behaviours already diverged inside their prefix (judged on the prefix itself)")
        if not (s["unexplained"] or s["known"] or s["drift_count"]):
            raise MachineryError(f"{name}: behaviours diverged inside their prefix but no behaviour diverged at its last call")
    # the code left the ImplSpec but the reference accepts: drift, no alarm
    if s["drift_count"]:
        ck.impl_drift += s["drift_count"]
        d0 = s["drift"][0]
        log(f"[{pid}] {name}: drift: {s['drift_count']} behaviours differ from the ImplSpec prediction but the PropSpec accepts "
            f"them; first: {behstr(d0['behaviour']) if 'behaviour' in d0 else d0}")
        # The transition cover reaches every model state behind ONE history; a history on which the code left the
        # model ends in a state the model does not know, so its continuations are not covered any more: the drifted
        # histories are extended by every sequence of <= 2 directory syncs (and, C07, a crash) and judged by FsRef alone.
        dl = [d for d in s["drift"] if "behaviour" in d]
        dpath = os.path.join(w, f"{name}.drift.ndjson")
        with open(dpath, "w") as f:
            f.write("\n".join(json.dumps(d["behaviour"]) for d in dl) + "\n")
        xpath = os.path.join(w, f"{name}.drift.trace.ndjson")
        dirs = sorted(c["DirPaths"] | {"/"})
        out = vlib.run_driver("fs", ["extend", f"in={dpath}", f"out={xpath}", "ps=" + ",".join(ps), "dirs=" + ",".join(dirs), "depth=2",
                                     f"maxh={c['MaxH']}", f"judge={c['Judge']}", f"fe={fe}"])
        rejects, _l, _k, _d, _dr, pr, _ir = validate_trace(pid, xpath, c["MaxH"], ps, f"{pid}_{name}_drift", impl=False,
                                                           knob=c.get("SyncKnob", False))
        ck.add_tlc(pr, f"trace_prop_drift_{name}")
        log(f"[{pid}] {name}: drift extension: {out.strip()} from {len(dl)} drifted behaviours -> FsRefTrace rejects {len(rejects)}")
        xr = {}
        with open(xpath) as f:
            for line in f:
                e = json.loads(line)
                if e["ev"] == "op":
                    xr.setdefault(e["run"], []).append(e)
        for n, ((run, i), clause) in enumerate(sorted(rejects.items())):
            if n < 3:
                evs = xr.get(run, [])
                ck.violation({"kind": "drift-extension", "property": pid, "config": name, "consts": jsonable(c), "fe": fe,
                              "ops": [e["op"] for e in evs], "text": " ; ".join(opstr(e["op"]) for e in evs), "step": i,
                              "violated_clause": clause, "observed": evs[i - 1]["res"] if 0 < i <= len(evs) else None,
                              "why": "the code left the frozen model FsImpl on this history (drift) and a continuation of it is rejected by FsRef"})
            else:
                ck.violations += 1
    # error kinds: own finding identity
    for km in s["kind_mismatch"]:
        judge_kind(ck, fam, pid, name, km["what"], km["count"], km["predicted_by_impl"], c, fe, hosts)
    # behaviours on which the code left the reference: TLC gives the verdict on the recorded traces
    if s["div_runs"]:
        rejects, _lost, _k, devs, drifts, pr, ir = validate_trace(pid, s["div_trace"], c["MaxH"], ps, f"{pid}_{name}_div", knob=c.get("SyncKnob", False))
        ck.add_tlc(pr, f"trace_prop_{name}")
        ck.add_tlc(ir, f"trace_impl_{name}")
        runs = {}
        for u in s["unexplained"]:
            runs[u["run"]] = u
        for kf in s["known"]:
            if kf["witness"]["run"]:
                runs[kf["witness"]["run"]] = kf["witness"]
        rej_runs = {r for (r, _i) in rejects}
        for u in s["unexplained"]:
            if u["run"] not in rej_runs:
                raise MachineryError(f"{name}: the harness flagged behaviour #{u['line']} but FsRefTrace accepts its trace")

        def describe(run, i):
            u = runs.get(run)
            return behstr(u["behaviour"]) if u else f"run {run}"

        def payload(run, i):
            u = runs.get(run, {})
            return {"kind": "behaviour", "property": pid, "config": name, "consts": jsonable(c), "fe": fe, "hosts": hosts,
                    "behaviour": u.get("behaviour"), "text": describe(run, i),
                    "detail": {k: v for k, v in u.get("detail", {}).items() if k in
                               ("op", "what", "observed", "ref", "impl", "devs", "impl_res_ok", "impl_view_ok", "impl_state_ok")}}

        judge_runs(ck, fam, pid, name, rejects, devs, drifts, describe, payload, count=False)
    # count the known-family behaviours (TLC's Dev_* prediction; a sample of each combination was judged above)
    for kf in s["known"]:
        devl = kf["devs"].split("+")
        if fam.attribute(devl, behstr(kf["witness"]["behaviour"])):
            for d in devl:
                if d in fam.listed:
                    fam.hits[d]["n"] += kf["count"] - 1
        elif not kf["witness"]["run"]:
            ck.violation({"kind": "behaviour", "property": pid, "config": name, "consts": jsonable(c), "fe": fe, "hosts": hosts,
                          "behaviour": kf["witness"]["behaviour"], "text": behstr(kf["witness"]["behaviour"]),
                          "why": f"families {devl} are not listed in known_findings.json"})


def judge_kind(ck, fam, pid, name, what, count, predicted, c=None, fe="std", hosts=1):
    """error-kind sub-check (C10): own finding identity `ErrKind`, never masks a value mismatch."""
    if pid != "C10":
        return
    if predicted and "ErrKind" in fam.listed:
        h = fam.hits.setdefault("ErrKind", {"n": 0, "witness": what, "what": set()})
        h["n"] += count
        h.setdefault("what", set()).add(what)
        h["witness"] = "; ".join(sorted(h["what"]))[:300]
    else:
        ck.violation({"kind": "errkind", "property": pid, "config": name, "what": what, "count": count,
                      "why": "error kind differs from std::fs and is " +
                             ("not listed" if predicted else "not what the frozen model FsImpl predicts")})


def run_random(ck, fam, pid, rc, w, idx, first):
    tpath = os.path.join(w, f"random_{idx}.ndjson")
    args = ["random"] + [f"{k}={v}" for k, v in rc.items()]
    out = vlib.run_driver("fs", args + [f"out={tpath}"])
    with open(tpath) as f:
        head = json.loads(f.readline())
    ps = head["ps"]
    rejects, lost, kinds, devs, drifts, pr, ir = validate_trace(pid, tpath, rc["maxh"], ps, f"{pid}_rnd{idx}", knob=rc.get("knob", 0) == 1)
    ck.add_tlc(pr, f"trace_prop_rnd{idx}")
    ck.add_tlc(ir, f"trace_impl_rnd{idx}")
    ck.traces += rc["runs"]
    ck.evaluations += rc["runs"]
    ck.nontrivial += rc["runs"]
    log(f"[{pid}] random {rc}: {out.strip()} -> FsRefTrace rejects {len(rejects)} runs"
        f"{', not judged ' + str(len(lost)) if lost else ''}, FsImplTrace drift {len(drifts)}")
    if first:
        with open(tpath) as f:
            ck.sample({"kind": "recorded trace excerpt", "config": rc, "events": [json.loads(x) for _, x in zip(range(6), f)]})
    rej_runs = {r for (r, _i) in rejects}
    for (r, i), wht in drifts.items():
        if r not in rej_runs:
            ck.impl_drift += 1
            log(f"[{pid}] note: run {r} left the ImplSpec at call {i} ({wht}); the PropSpec accepts it (drift, no alarm)")
    for k, n in kinds.items():
        judge_kind(ck, fam, pid, f"random_{idx}", k, n, True)

    def payload(run, i):
        return {"kind": "random", "property": pid, "args": args, "cfg": rc, "run": run}

    judge_runs(ck, fam, pid, f"random_{idx}", rejects, devs, drifts, lambda r, i: None, payload)
    return tpath, ps, {r for (r, _i) in list(rejects) + list(lost)}


def corrupt_trace(src, dst, unjudged):
    """Binding demonstration: flip one byte of the first non-empty file content read back (in a run that the
    reference accepts as recorded)."""
    lines = open(src).read().splitlines()
    for n, line in enumerate(lines):
        e = json.loads(line)
        if e["ev"] != "op" or not e["view"] or e["run"] in unjudged:
            continue
        for ent in e["view"]:
            if ent["k"] == "file" and ent["d"]:
                ent["d"][0] = ent["d"][0] % 3 + 1
                lines[n] = json.dumps(e)
                open(dst, "w").write("\n".join(lines) + "\n")
                return (e["run"], e["i"])
    return None


def corrupt_crash(src, dst, unjudged):
    """Binding demonstration (C07): make a file that survived a crash disappear from the recorded image
    (in a run that the reference judges up to that crash)."""
    lines = open(src).read().splitlines()
    for n, line in enumerate(lines):
        e = json.loads(line)
        if e["ev"] != "op" or e["op"]["k"] != "crash" or e["run"] in unjudged:
            continue
        for ent in e["res"]["v"]:
            if ent["k"] == "file":
                ent["k"], ent["l"], ent["d"] = "none", 0, []
                lines[n] = json.dumps(e)
                open(dst, "w").write("\n".join(lines) + "\n")
                return (e["run"], e["i"])
    return None


def run(pid, tier, seed, replay=None):
    ck = vlib.Check(pid, tier, seed)
    ck.assumptions = [
        "paths: a fixed universe of 13 names in directories nested up to depth 3; bytes from a 2-3 letter alphabet; "
        "one or two open handles; symlinks, hard links, permissions, timestamps are outside the property",
        "all fault probabilities 0, io_latency / page cache / capacity off; C07 exercises sync_probability by forcing the "
        "per-call coin (Fs::sync_probability = 1.0 / 0.0 before the call), which covers every outcome of any p; "
        "block_size = 2 with writes of 1 and 3 bytes: the tearing choices come from the fs rng (24 / 48 seeds per history), "
        "FsImpl's choices are enumerated exhaustively; sync_probability and block_size are not combined",
        "open flag combinations restricted to those std::fs::OpenOptions accepts; write_at on append handles "
        "(Linux appends regardless of the offset) and set_len on read-only handles are not issued",
        "crash = drop every File, then Fs::crash() (what Sim::crash does for one host); directory renames are not "
        "part of the C07 alphabets; after a crash that leaves a dangling subtree or an inode under two names the "
        "reference stops asserting (the statement leaves them unspecified)",
        "TLC results hold for the stated small constants; larger parameters are sampled by the random driver only",
    ]
    vlib.build_harness(["fs"])
    fam = Families(ck, pid)
    if replay:
        return do_replay(ck, fam, replay)
    w = vlib.workdir(f"{pid}_files")

    # 1. design level ------------------------------------------------------
    for name, c in mc_configs(pid, tier):
        # FsGen with EmitMode "kind" is FsImpl plus one short line per transition: the per-action counts of the
        # vacuity guard are measured on the exhaustive run itself (TLC's -coverage exhausts the heap on this spec)
        cfg = cfg_text("GenSpec", dict(c, EmitMode="kind"), invariants=["RefWellformed", "ImplInv", "DivergenceExplained"],
                       properties=["SyncInert"], view="MCView")
        r = vlib.run_tlc(SUB, "FsGen", cfg, f"{pid}_{name}", workers=10, timeout=1500 if tier == "thorough" else 300, heap="12g")
        ck.add_tlc(r, name, exhaustive=True)
        log(f"[{pid}] {name}: {r.distinct} distinct states, {r.generated} generated, depth {r.depth}, {r.wall:.0f}s")
        if r.violated or r.error or r.timed_out:
            log(vlib.counterexample_text(r))
            raise MachineryError(f"design-level check {name} did not pass ({r.violated or r.error or 'timeout'}): FsImpl leaves "
                                 f"FsRef at a point that no Dev_* predicate of a recorded finding explains; repair the spec or "
                                 f"confirm the defect on the code and record it")
        taken = collections.Counter(re.findall(r'^<<"TAKEN", "(\w+)", "\w*">>', r.stdout, re.M))
        divs = collections.Counter(re.findall(r'^<<"TAKEN", "\w+", "(\w+)">>', r.stdout, re.M))
        r.stdout = ""
        for k, v in taken.items():
            ck.cov[f"{name}:{STEP_OF[k]}"] = v
        ck.cov[f"{name}:divergent_transitions"] = sum(divs.values())
        missing = [k for k in c["OpKinds"] if taken[k] == 0]
        if missing:
            raise MachineryError(f"vacuity: operation kinds never taken in {name}: {missing}")
        if pid == "C07" and taken["crash"] == 0:
            raise MachineryError(f"vacuity: no crash in {name}")

    # 2. spec -> code -------------------------------------------------------
    for name, c, emit, view, fes in gen_configs(pid, tier):
        run_gen(ck, fam, pid, name, c, emit, view, fes, w)

    if pid == "C07":
        run_torn(ck, fam, pid, tier, w)

    # witnesses of the listed findings are re-run every time (they are TLC behaviours kept in corpus/)
    cdir = os.path.join(vlib.ROOT, "corpus")
    for cf in sorted(os.listdir(cdir)):
        if not cf.startswith(pid + "-"):
            continue
        rp = json.load(open(os.path.join(cdir, cf)))
        c = unjson(rp["consts"])
        bpath = os.path.join(w, "corpus.ndjson")
        open(bpath, "w").write(json.dumps(rp["behaviour"]) + "\n")
        replay_behaviours(ck, fam, pid, "corpus_" + cf.split(".")[0].replace("-", "_"), c, bpath, 1, rp.get("fe", "std"), 1, w)

    # 3. code -> spec -------------------------------------------------------
    first_trace = None
    for i, rc in enumerate(random_configs(pid, tier, seed)):
        tpath, ps, unjudged = run_random(ck, fam, pid, rc, w, i, first_trace is None)
        if first_trace is None:
            first_trace = (tpath, ps, rc, unjudged)

    # binding demonstration: a corrupted observation must be rejected by the PropSpec -----------------
    tpath, ps, rc, unjudged = first_trace
    bad = os.path.join(w, "random_0_corrupt.ndjson")
    if ck.violations:
        # the demonstration presupposes a tree on which the recorded trace is accepted; the verdict stands
        ck.extra["binding_demo"] = {"skipped": "violations were recorded on this tree"}
    else:
        where = corrupt_trace(tpath, bad, unjudged) if pid == "C10" else corrupt_crash(tpath, bad, unjudged)
        if where:
            rejects, _l, _k, devs, drifts, pr, ir = validate_trace(pid, bad, rc["maxh"], ps, f"{pid}_bind", knob=rc.get("knob", 0) == 1)
            rejected = where in rejects and where in drifts
            ck.extra["binding_demo"] = {"corruption": "one byte of a file read back after a call changed" if pid == "C10"
                                        else "a file that survived a crash removed from the recorded image",
                                        "at": list(where), "rejected_by_FsRefTrace": where in rejects,
                                        "rejected_by_FsImplTrace": where in drifts}
            if not rejected:
                raise MachineryError(f"binding demonstration failed: corrupted trace accepted at {where}")
        else:
            ck.extra["binding_demo"] = {"skipped": "no suitable event in the first random trace"}

    fam.report()
    ck.extra["rule"] = ("behaviours: one per transition of the joint FsImpl x FsRef state graph within the bound (VIEW) or one per "
                        "history (gen_all); non-trivial = contains a mutation and a sync / rename / remove / truncate / crash. "
                        "random runs: one seeded history each")
    ck.extra["families_listed"] = sorted(fam.listed)
    return ck.finish()


def do_replay(ck, fam, path):
    rp = json.load(open(path))
    pid = ck.pid
    w = vlib.workdir(f"{pid}_replay")
    if rp["kind"] == "behaviour":
        c = unjson(rp["consts"])
        bpath = os.path.join(w, "beh.ndjson")
        open(bpath, "w").write(json.dumps(rp["behaviour"]) + "\n")
        replay_behaviours(ck, fam, pid, "replay", c, bpath, 1, rp.get("fe", "std"), 1, w)
    elif rp["kind"] == "random":
        rc = rp["cfg"]
        run_random(ck, fam, pid, rc, w, 0, True)
    elif rp["kind"] == "drift-extension":
        c = unjson(rp["consts"])
        ps = sorted(c["ViewSet"])
        host_ops = rp["ops"]
        tpath = os.path.join(w, "ext.trace.ndjson")
        # the recorded run is re-executed as a one-line random-free trace: prefix as behaviour, no further extension
        beh = {"h": [{"op": o, "rr": {"ok": True}} for o in host_ops[:-1]], "last": {"op": host_ops[-1]}}
        bpath = os.path.join(w, "ext.ndjson")
        open(bpath, "w").write(json.dumps(beh) + "\n")
        vlib.run_driver("fs", ["extend", f"in={bpath}", f"out={tpath}", "ps=" + ",".join(ps), "dirs=/", "depth=0", "exact=1",
                               f"maxh={c['MaxH']}", f"judge={c['Judge']}", f"fe={rp.get('fe', 'std')}"])
        rejects, _l, _k, _d, _dr, pr, _ir = validate_trace(pid, tpath, c["MaxH"], ps, f"{pid}_replay_ext", impl=False,
                                                           knob=c.get("SyncKnob", False))
        for (run, i), clause in rejects.items():
            ck.violation(dict(rp, violated_clause=clause, step=i))
    elif rp["kind"] == "torn":
        # re-execute the history under the recorded seed schedule (all seeds) and let TLC judge every image
        c = unjson(rp["consts"])
        beh = {"h": [{"op": o, "rr": {"ok": True}} for o in rp["ops"][:-1]], "last": {"op": rp["ops"][-1]}}
        bpath = os.path.join(w, "torn.ndjson")
        open(bpath, "w").write(json.dumps(beh) + "\n")
        tpath = os.path.join(w, "torn.trace.ndjson")
        ps = sorted(c["ViewSet"])
        vlib.run_driver("fs", ["torn", f"in={bpath}", f"out={tpath}", "ps=" + ",".join(ps), f"block={rp['block']}", "seeds=48",
                               f"maxh={c['MaxH']}"])
        rejects, _l, _k, devs, drifts, pr, ir = validate_trace(pid, tpath, c["MaxH"], ps, f"{pid}_replay_torn", block=rp["block"])
        judge_runs(ck, fam, pid, "replay", rejects, devs, drifts, lambda r, i: rp.get("text"), lambda r, i: dict(rp))
    else:
        log(f"[{pid}] replay of kind {rp['kind']}: re-run the check ({rp.get('what')})")
    if not ck.violations:
        log(f"[{pid}] replay: accepted (PropSpec or listed family)")
    fam.report()
    ck.states = max(ck.states, 1)
    ck.transitions = max(ck.transitions, 1)
    ck.nontrivial = max(ck.nontrivial, 1)
    ck.sample({"replayed": path})
    return ck.finish()
