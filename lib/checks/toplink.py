"""C03 / C08 / C14: the turmoil link layer (specs/toplink).

Per property:
  1. design level   - TLC checks TopLink (ImplSpec) against the property's
                      invariants of TopLinkProp exhaustively for small constants;
  2. spec -> code   - TLC enumerates every behaviour of TopLinkGen up to a bound,
                      each is executed against the real Sim and the observation
                      after every step is compared with TLC's prediction;
                      divergent behaviours are judged by the PropSpec alone;
  3. code -> spec   - seeded random scenarios (sampled latencies, fail / repair
                      rates, random host order) are recorded and validated by TLC
                      against TopLinkPropTrace (verdict) and TopLinkTrace (fidelity).
"""
import json
import os
import random

import vlib
from vlib import MachineryError, log

SUB = "toplink"

PART_OPS = ["partition", "partition_oneway", "repair", "repair_oneway"]
HOLD_OPS = ["hold", "release"]
HOLD_REPAIR_OPS = ["hold", "release", "repair"]   # Sim::repair on a held link leaves the held messages parked

PROP_INVS = {
    "C03": ["Wellformed", "NoDeliveryAcrossExplicit", "FlowsWhenNotPartitioned"],
    "C08": ["Wellformed", "AtMostOnce", "OnlyOneHost", "HeldNotDelivered", "ReleasedArrive",
            "FifoOnRelease", "LinksShowInFlight", "FlowsWhenNotPartitioned"],
    "C14": ["Wellformed", "LatencyWindow", "SampleWithinConfig", "FifoEqualLatency",
            "FlowsWhenNotPartitioned"],
}
MODE = {"C03": "part", "C08": "hold", "C14": "lat"}


def base_consts(**kw):
    c = dict(N=2, Tick=2, GMin=0, GMax=2, LatChoices=set(), MaxChoices=set(), Offsets={0},
             RandomOrder=False, CtlOps=set(), HostCtlOps=set(), AllowManual=False, Kinds={"dgram"},
             FailModes={False}, MaxMsgs=3, MaxSteps=3, MaxCtl=2, MaxLatCtl=0)
    c.update(kw)
    if "RegOrder" not in c:
        c["RegOrder"] = reg(*range(1, c["N"] + 1))
    return c


def reg(*hosts):
    """Registration order as a cfg substitution by one of the RegXYZ operators of TopLink.tla."""
    return vlib.Raw("<- Reg" + "".join(str(h) for h in hosts))


def mc_configs(pid, tier):
    """Exhaustive configurations (name, constants)."""
    q = tier == "quick"
    if pid == "C03":
        cfgs = [
            ("mc_part_fail", base_consts(GMax=2, CtlOps=set(PART_OPS), HostCtlOps={"partition_oneway", "repair"},
                                         FailModes={True}, MaxMsgs=3, MaxSteps=3, MaxCtl=2)),
            ("mc_part_nofail", base_consts(GMax=3, CtlOps=set(PART_OPS), HostCtlOps={"partition_oneway", "repair"},
                                           FailModes={False}, MaxMsgs=3, MaxSteps=4 if not q else 3, MaxCtl=3 if not q else 2)),
        ]
        # TCP probes answered by the receiving host itself (ReplySend)
        cfgs.append(("mc_part_probe", base_consts(GMax=1, CtlOps=set(PART_OPS), HostCtlOps=set(), Kinds={"probe"},
                                                  FailModes={True}, MaxMsgs=4, MaxSteps=4, MaxCtl=2)))
        cfgs.append(("mc_part_probe_host", base_consts(GMax=1, CtlOps=set(PART_OPS), HostCtlOps={"partition_oneway", "repair"}, Kinds={"probe"},
                                                       FailModes={False}, MaxMsgs=4, MaxSteps=3, MaxCtl=2)))
        if not q:
            cfgs.append(("mc_part_probe_dgram", base_consts(GMax=2, CtlOps=set(PART_OPS), HostCtlOps=set(), Kinds={"dgram", "probe"},
                                                            FailModes={False}, MaxMsgs=4, MaxSteps=4, MaxCtl=2)))
            cfgs.append(("mc_part_3hosts", base_consts(N=3, GMax=1, CtlOps=set(PART_OPS), HostCtlOps={"partition_oneway"},
                                                       FailModes={True}, MaxMsgs=2, MaxSteps=3, MaxCtl=2)))
        return cfgs
    if pid == "C08":
        cfgs = [
            ("mc_hold", base_consts(GMax=2, CtlOps=set(HOLD_OPS), HostCtlOps=set(HOLD_OPS), AllowManual=True,
                                    MaxMsgs=3, MaxSteps=4 if not q else 3, MaxCtl=3)),
        ]
        cfgs.append(("mc_hold_repair", base_consts(GMax=1, CtlOps=set(HOLD_REPAIR_OPS), HostCtlOps=set(), AllowManual=False,
                                                   MaxMsgs=2, MaxSteps=4 if not q else 3, MaxCtl=3)))
        cfgs.append(("mc_hold_probe", base_consts(GMax=1, CtlOps=set(HOLD_OPS), HostCtlOps=set(), AllowManual=True, Kinds={"probe"},
                                                  MaxMsgs=4, MaxSteps=4, MaxCtl=3)))
        cfgs.append(("mc_hold_probe_host", base_consts(GMax=1, CtlOps=set(HOLD_OPS), HostCtlOps=set(HOLD_OPS), AllowManual=False, Kinds={"probe"},
                                                       MaxMsgs=4, MaxSteps=3, MaxCtl=2)))
        if not q:
            cfgs.append(("mc_hold_probe_dgram", base_consts(GMax=1, CtlOps=set(HOLD_OPS), HostCtlOps=set(), AllowManual=True,
                                                            Kinds={"dgram", "probe"}, MaxMsgs=4, MaxSteps=4, MaxCtl=3)))
            cfgs.append(("mc_hold_3hosts", base_consts(N=3, GMax=1, CtlOps=set(HOLD_OPS), HostCtlOps={"release"},
                                                       AllowManual=True, MaxMsgs=2, MaxSteps=3, MaxCtl=2)))
            cfgs.append(("mc_hold_4msgs", base_consts(GMax=1, CtlOps=set(HOLD_OPS), HostCtlOps=set(), AllowManual=True,
                                                      MaxMsgs=4, MaxSteps=4, MaxCtl=4)))
        return cfgs
    if pid == "C14":
        cfgs = [
            ("mc_lat_t2", base_consts(Tick=2, GMin=1, GMax=3, LatChoices={0, 2, 5}, MaxChoices={1, 4}, Offsets={0, 1},
                                      RandomOrder=True, MaxMsgs=3, MaxSteps=4 if not q else 3, MaxLatCtl=1)),
            ("mc_lat_t3", base_consts(Tick=3, GMin=0, GMax=4, LatChoices={1}, MaxChoices={2}, Offsets={0, 2},
                                      RandomOrder=False, MaxMsgs=3, MaxSteps=3, MaxLatCtl=1)),
            ("mc_lat_release", base_consts(Tick=2, GMin=1, GMax=3, LatChoices={5}, MaxChoices=set(), Offsets={0}, CtlOps={"release"},
                                           HostCtlOps={"release"}, RandomOrder=False, MaxMsgs=2, MaxSteps=4, MaxCtl=2, MaxLatCtl=1)),
        ]
        cfgs.append(("mc_lat_probe", base_consts(Tick=2, GMin=1, GMax=3, LatChoices={5}, MaxChoices={4}, Offsets={0}, RandomOrder=True,
                                                 Kinds={"probe"}, MaxMsgs=4, MaxSteps=4, MaxLatCtl=1)))
        if not q:
            cfgs.append(("mc_lat_probe_t2", base_consts(Tick=2, GMin=1, GMax=3, LatChoices={0, 5}, MaxChoices={1, 4}, Offsets={0, 1},
                                                        RandomOrder=True, Kinds={"probe"}, MaxMsgs=4, MaxSteps=4, MaxLatCtl=1)))
            cfgs.append(("mc_lat_t1_3hosts", base_consts(N=3, Tick=1, GMin=0, GMax=2, LatChoices={3}, MaxChoices={1},
                                                         Offsets={0}, RandomOrder=True, MaxMsgs=2, MaxSteps=3, MaxLatCtl=1)))
        return cfgs
    raise ValueError(pid)


def gen_configs(pid, tier):
    """Behaviour generation: latencies must be deterministic (fixed global
    latency or set_link_latency), fail_rate 0, fixed host order."""
    q = tier == "quick"
    if pid == "C03":
        cfgs = [("gen_part", base_consts(GMin=1, GMax=1, LatChoices={0, 3}, CtlOps=set(PART_OPS),
                                         HostCtlOps={"partition_oneway"}, MaxMsgs=2, MaxSteps=3, MaxCtl=2, MaxLatCtl=1)),
                # the host with the greater address is registered first
                ("gen_part_reg21", base_consts(GMin=1, GMax=1, LatChoices=set(), CtlOps={"partition_oneway", "repair_oneway"},
                                               HostCtlOps={"repair_oneway"}, MaxMsgs=2, MaxSteps=3, MaxCtl=2, MaxLatCtl=0,
                                               RegOrder=reg(2, 1)))]
        # TCP probes and the answers the receiving host makes inside deliver_messages
        cfgs.append(("gen_part_probe", base_consts(GMin=1, GMax=1, LatChoices=set(), CtlOps=set(PART_OPS), HostCtlOps=set(),
                                                   Kinds={"probe"}, MaxMsgs=4, MaxSteps=3, MaxCtl=2, MaxLatCtl=0)))
        if not q:
            cfgs.append(("gen_part_3msg", base_consts(GMin=2, GMax=2, LatChoices={0}, CtlOps=set(PART_OPS),
                                                      HostCtlOps={"repair_oneway"}, MaxMsgs=3, MaxSteps=3, MaxCtl=2, MaxLatCtl=1)))
        return cfgs
    if pid == "C08":
        cfgs = [("gen_hold", base_consts(GMin=1, GMax=1, LatChoices={3}, CtlOps=set(HOLD_OPS), HostCtlOps={"release"},
                                         AllowManual=True, MaxMsgs=2, MaxSteps=3, MaxCtl=2, MaxLatCtl=1))]
        # hold, two sends, a manual delivery, release: three controller calls
        cfgs.append(("gen_hold_manual", base_consts(GMin=1, GMax=1, LatChoices=set(), CtlOps=set(HOLD_OPS), HostCtlOps=set(),
                                                    AllowManual=True, MaxMsgs=2, MaxSteps=3, MaxCtl=3, MaxLatCtl=0)))
        cfgs.append(("gen_hold_repair", base_consts(GMin=1, GMax=1, LatChoices=set(), CtlOps=set(HOLD_REPAIR_OPS), HostCtlOps=set(),
                                                    AllowManual=False, MaxMsgs=2, MaxSteps=3, MaxCtl=3, MaxLatCtl=0)))
        cfgs.append(("gen_hold_probe", base_consts(GMin=1, GMax=1, LatChoices=set(), CtlOps=set(HOLD_OPS), HostCtlOps=set(),
                                                   AllowManual=True, Kinds={"probe"}, MaxMsgs=4, MaxSteps=3, MaxCtl=3, MaxLatCtl=0)))
        if not q:
            cfgs.append(("gen_hold_3msg", base_consts(GMin=0, GMax=0, LatChoices=set(), CtlOps=set(HOLD_OPS), HostCtlOps={"hold"},
                                                      AllowManual=True, MaxMsgs=3, MaxSteps=3, MaxCtl=3, MaxLatCtl=0)))
        return cfgs
    if pid == "C14":
        cfgs = [("gen_lat", base_consts(Tick=2, GMin=1, GMax=1, LatChoices={0, 2, 3, 5}, Offsets={0, 1},
                                        MaxMsgs=3, MaxSteps=4, MaxLatCtl=2)),
                # release calls on links that were never held (Sim handle and host code)
                ("gen_lat_release", base_consts(Tick=2, GMin=3, GMax=3, LatChoices={5}, Offsets={0}, CtlOps={"release"},
                                                HostCtlOps={"release"}, MaxMsgs=2, MaxSteps=4, MaxCtl=2, MaxLatCtl=1))]
        cfgs.append(("gen_lat_probe", base_consts(Tick=2, GMin=1, GMax=1, LatChoices={0, 3}, Offsets={0}, Kinds={"dgram", "probe"},
                                                  MaxMsgs=3, MaxSteps=4, MaxLatCtl=1)))
        if not q:
            cfgs.append(("gen_lat_t3", base_consts(Tick=3, GMin=4, GMax=4, LatChoices={0, 1, 3, 7}, Offsets={0, 2},
                                                   MaxMsgs=3, MaxSteps=4, MaxLatCtl=2)))
        return cfgs
    raise ValueError(pid)


def random_configs(pid, tier, seed):
    q = tier == "quick"
    runs = 25 if q else 150
    # reg = registration order of the hosts (numbered in address order): the second and third
    # configurations register them in an order that differs from the address order
    base = [dict(n=3, tick=2, gmin=0, gmax=5), dict(n=2, tick=1, gmin=1, gmax=3, reg="2,1"),
            dict(n=4, tick=3, gmin=0, gmax=7, reg="3,1,4,2")]
    if pid == "C14":
        base.append(dict(n=3, tick=2, gmin=2, gmax=6))      # non-zero minimum strictly below the maximum
        base.append(dict(n=3, tick=1, gmin=3, gmax=5, reg="2,3,1"))   # minimum above two ticks, sparse links
    if not q:
        base += [dict(n=3, tick=5, gmin=2, gmax=4), dict(n=4, tick=1, gmin=0, gmax=9), dict(n=2, tick=2, gmin=3, gmax=3)]
    cfgs = [dict(c, runs=runs, seed=seed * 101 + i, mode=MODE[pid]) for i, c in enumerate(base)]
    # the same scenarios with TCP probes mixed in: a probe is refused by the receiving host, which answers
    # with an RST from inside Link::deliver_messages (ReplySend)
    tcp = [dict(n=3, tick=2, gmin=0, gmax=5), dict(n=2, tick=1, gmin=1, gmax=3, reg="2,1")]
    if not q:
        tcp += [dict(n=4, tick=3, gmin=0, gmax=7, reg="3,1,4,2"), dict(n=3, tick=1, gmin=2, gmax=6)]
    cfgs += [dict(c, runs=runs, seed=seed * 103 + 50 + i, mode="rst" + MODE[pid]) for i, c in enumerate(tcp)]
    return cfgs


ALL_OPS = set(PART_OPS + HOLD_OPS)


def regof(rc):
    return [int(x) for x in rc["reg"].split(",")] if rc.get("reg") else None


def trace_consts(n, tick, gmin, gmax, regorder=None):
    big = set(range(0, 64))
    return dict(RegOrder=reg(*(regorder or range(1, n + 1))), N=n, Tick=tick, GMin=gmin, GMax=gmax, LatChoices=big, MaxChoices=big, Offsets=set(range(0, tick)),
                RandomOrder=True, CtlOps=ALL_OPS, HostCtlOps=ALL_OPS, AllowManual=True, FailModes={False},
                Kinds={"dgram", "probe"},
                MaxMsgs=100000, MaxSteps=100000, MaxCtl=100000, MaxLatCtl=100000)


def validate_trace(pid, path, n, tick, gmin, gmax, tag, impl=True, regorder=None):
    """Returns (prop_result, impl_result)."""
    env = {"TRACE": os.path.abspath(path)}
    pcfg = vlib.cfg_text("TSpec", dict(N=n, Tick=tick), invariants=PROP_INVS[pid], postcondition="Accepted")
    pr = vlib.run_tlc(SUB, "TopLinkPropTrace", pcfg, tag + "_prop", workers=1, env=env, dfs=True, heap="3g", timeout=900)
    if pr.error or pr.timed_out:
        raise MachineryError(f"trace validation (prop) failed: {pr.error or 'timeout'}")
    ir = None
    if impl:
        icfg = vlib.cfg_text("TSpec", trace_consts(n, tick, gmin, gmax, regorder), invariants=PROP_INVS[pid] + ["ImplInv"],
                             postcondition="Accepted")
        ir = vlib.run_tlc(SUB, "TopLinkTrace", icfg, tag + "_impl", workers=1, env=env, dfs=True, heap="3g", timeout=900)
        if ir.error or ir.timed_out:
            raise MachineryError(f"trace validation (impl) failed: {ir.error or 'timeout'}")
    return pr, ir


def count_lines(path):
    with open(path) as f:
        return sum(1 for _ in f)


def run(pid, tier, seed, replay=None):
    ck = vlib.Check(pid, tier, seed)
    ck.assumptions = [
        "whole-millisecond ticks and latencies; hosts registered before the first step; traffic = UDP datagrams plus "
        "TCP probes (data segments for a stream the receiver has dropped) and the RSTs the receiving host answers "
        "them with from inside Link::deliver_messages; complete TCP streams over the same link layer are "
        "exercised by the C02/C12 checks",
        "spec->code replays use deterministic latencies (fixed global latency / set_link_latency), fail_rate 0, "
        "registration host order; sampled latencies, fail/repair rates and random host order are covered by "
        "the recorded-trace direction",
        "TLC results hold for the stated small constants; larger parameters are sampled only",
    ]
    vlib.build_harness(["toplink"])
    if replay:
        return do_replay(ck, replay)
    w = vlib.workdir(f"{pid}_files")

    # 1. design level ------------------------------------------------------
    for name, consts in mc_configs(pid, tier):
        cfg = vlib.cfg_text("Spec", consts, invariants=PROP_INVS[pid] + ["ImplInv"], view="View")
        r = vlib.run_tlc(SUB, "TopLink", cfg, f"{pid}_{name}", workers=10, timeout=1500 if tier == "thorough" else 400,
                         coverage=True, heap="12g")
        ck.add_tlc(r, name, exhaustive=True)
        log(f"[{pid}] {name}: {r.distinct} distinct states, {r.generated} generated, depth {r.depth}, {r.wall:.0f}s")
        if r.violated or r.error or r.timed_out:
            log(vlib.counterexample_text(r))
            raise MachineryError(f"design-level check {name} did not pass: the committed ImplSpec does not satisfy the "
                                 f"PropSpec ({r.violated or r.error or 'timeout'}); the spec must be repaired first")
        # vacuity guard: every action of the alphabet was taken
        need = ["StepBegin", "TurnBegin", "StepEnd", "HostSend"]
        if consts["CtlOps"]:
            need.append("CtlMC")
        if "probe" in consts["Kinds"]:
            need.append("ReplySend")
        missing = [a for a in need if r.coverage and r.coverage.get(a, 0) == 0]
        if missing:
            raise MachineryError(f"vacuity: actions never taken in {name}: {missing}")

    # 2. spec -> code -------------------------------------------------------
    for name, consts in gen_configs(pid, tier):
        cfg = vlib.cfg_text("GenSpec", consts, invariants=["Emit"] + PROP_INVS[pid])
        r = vlib.run_tlc(SUB, "TopLinkGen", cfg, f"{pid}_{name}", workers=10, timeout=1500, heap="12g")
        if r.violated or r.error or r.timed_out:
            log(vlib.counterexample_text(r))
            raise MachineryError(f"behaviour generation {name} failed ({r.violated or r.error or 'timeout'})")
        behs = vlib.extract_replays(r.stdout)
        ck.add_tlc(r, name)
        bpath = os.path.join(w, f"{name}.ndjson")
        with open(bpath, "w") as f:
            f.write("\n".join(behs) + "\n")
        spath = os.path.join(w, f"{name}.summary.json")
        out = vlib.run_driver("toplink", ["replay", f"in={bpath}", f"out={spath}", f"traces={w}",
                                          f"n={consts['N']}", f"tick={consts['Tick']}", f"gmin={consts['GMin']}",
                                          f"gmax={consts['GMax']}", "reg=" + regarg(consts)])
        s = json.load(open(spath))
        log(f"[{pid}] {name}: {len(behs)} TLC behaviours, {out.strip()}")
        ck.traces += s["behaviours"]
        ck.evaluations += s["behaviours"]
        ck.nontrivial += s["nontrivial"]
        for smp in s["samples"][:1]:
            ck.sample({"kind": "tlc behaviour replayed on the real Sim", "config": name, **smp})
        for d in s["divergences"]:
            judge_divergence(ck, pid, name, consts, d)
        ck.impl_drift += s["divergent"]

    # witnesses of repaired defects stay in the corpus and are re-run every time
    for cf in sorted(os.listdir(os.path.join(vlib.ROOT, "corpus"))):
        if not cf.startswith(pid + "-"):
            continue
        rp = json.load(open(os.path.join(vlib.ROOT, "corpus", cf)))
        tpath = os.path.join(w, "corpus.ndjson")
        vlib.run_driver("toplink", rp["args"] + [f"out={tpath}"])
        rc = rp["cfg"]
        pr, _ = validate_trace(pid, tpath, rc["n"], rc["tick"], rc["gmin"], rc["gmax"], f"{pid}_corpus", impl=False, regorder=regof(rc))
        ck.add_tlc(pr, "trace_corpus")
        ck.traces += rc["runs"]
        log(f"[{pid}] corpus {cf}: {'ok' if not (pr.violated or pr.unmatched) else 'REJECTED'}")
        if pr.violated or pr.unmatched:
            ck.violation(dict(rp, violated_clause=pr.violated, unmatched=pr.unmatched, corpus=cf))

    # 3. code -> spec -------------------------------------------------------
    first = True
    for i, rc in enumerate(random_configs(pid, tier, seed)):
        tpath = os.path.join(w, f"random_{i}.ndjson")
        args = ["random"] + [f"{k}={v}" for k, v in rc.items()] + [f"out={tpath}"]
        out = vlib.run_driver("toplink", args)
        nev = count_lines(tpath)
        pr, ir = validate_trace(pid, tpath, rc["n"], rc["tick"], rc["gmin"], rc["gmax"], f"{pid}_rnd{i}", regorder=regof(rc))
        ck.add_tlc(pr, f"trace_prop_{i}")
        ck.add_tlc(ir, f"trace_impl_{i}")
        ck.traces += rc["runs"]
        ck.evaluations += rc["runs"]
        ck.nontrivial += rc["runs"]
        log(f"[{pid}] random {rc}: {out.strip()} -> prop {'ok' if not (pr.violated or pr.unmatched) else 'REJECTED'}, "
            f"impl {'ok' if not (ir.violated or ir.unmatched) else 'drift'}")
        if first:
            with open(tpath) as f:
                ck.sample({"kind": "recorded trace excerpt", "config": rc,
                           "events": [json.loads(x) for _, x in zip(range(14), f)]})
            first = False
        if pr.violated or pr.unmatched:
            ck.violation({"kind": "random", "property": pid, "args": args[:-1], "cfg": rc,
                          "violated_clause": pr.violated, "unmatched": pr.unmatched,
                          "tlc": vlib.counterexample_text(pr, 3000)})
        elif ir.violated or ir.unmatched:
            ck.impl_drift += 1
            log(f"[{pid}] note: implementation trace left the ImplSpec at event {ir.unmatched} "
                f"({ir.violated}); PropSpec accepted it (drift, no alarm)")

    # binding demonstration: a corrupted trace must be rejected ----------------
    rc = random_configs(pid, tier, seed)[0]
    tpath = os.path.join(w, "random_0.ndjson")
    bad = os.path.join(w, "random_0_corrupt.ndjson")
    if corrupt_trace(tpath, bad, seed):
        pr, ir = validate_trace(pid, bad, rc["n"], rc["tick"], rc["gmin"], rc["gmax"], f"{pid}_bind", regorder=regof(rc))
        rejected = bool(pr.violated or pr.unmatched or ir.violated or ir.unmatched)
        ck.extra["binding_demo"] = {"corruption": "one recv event re-addressed to another host",
                                    "rejected": rejected}
        if not rejected:
            raise MachineryError("binding demonstration failed: corrupted trace was accepted")
    ck.extra["rule"] = ("behaviours: every action sequence of TopLinkGen within the bounds (distinct by construction); "
                        "non-trivial = contains a control call and at least one receipt. random runs: one seeded scenario each")
    return ck.finish()


def corrupt_trace(src, dst, seed):
    lines = open(src).read().splitlines()
    idx = [i for i, l in enumerate(lines) if '"ev":"recv"' in l]
    if not idx:
        return False
    i = idx[len(idx) // 2]
    e = json.loads(lines[i])
    e["h"] = e["h"] % 2 + 1 if e["h"] <= 2 else 1
    lines[i] = json.dumps(e)
    open(dst, "w").write("\n".join(lines) + "\n")
    return True


def judge_divergence(ck, pid, name, consts, d):
    """The real code left the ImplSpec on a TLC behaviour: ask the PropSpec."""
    tr = d.get("trace")
    if not tr or d.get("what") == "panic":
        ck.violation({"kind": "behaviour", "property": pid, "config": name, "consts": jsonable(consts),
                      "behaviour": d.get("behaviour"), "divergence": d})
        return
    pr, _ = validate_trace(pid, tr, consts["N"], consts["Tick"], consts["GMin"], consts["GMax"],
                           f"{pid}_div", impl=False, regorder=[int(x) for x in regarg(consts).split(",")])
    if pr.violated or pr.unmatched:
        ck.violation({"kind": "behaviour", "property": pid, "config": name, "consts": jsonable(consts),
                      "behaviour": d.get("behaviour"), "divergence": {k: v for k, v in d.items() if k != "behaviour"},
                      "violated_clause": pr.violated, "unmatched": pr.unmatched})
    else:
        log(f"[{pid}] drift: behaviour #{d.get('line')} diverged from the ImplSpec ({d.get('what')}) "
            f"but the PropSpec accepts the observation")


def regarg(consts):
    r = consts.get("RegOrder")
    txt = r.s if isinstance(r, vlib.Raw) else (r or "")
    digits = [ch for ch in txt.replace("<- Reg", "") if ch.isdigit()]
    return ",".join(digits) if digits else ",".join(str(i) for i in range(1, consts["N"] + 1))


def jsonable(c):
    return {k: (sorted(v, key=str) if isinstance(v, (set, frozenset)) else (v.s if isinstance(v, vlib.Raw) else v))
            for k, v in c.items()}


def do_replay(ck, path):
    rp = json.load(open(path))
    pid = ck.pid
    w = vlib.workdir(f"{pid}_replay")
    if rp["kind"] == "behaviour":
        consts = rp["consts"]
        bpath = os.path.join(w, "beh.ndjson")
        open(bpath, "w").write(json.dumps(rp["behaviour"]) + "\n")
        spath = os.path.join(w, "summary.json")
        vlib.run_driver("toplink", ["replay", f"in={bpath}", f"out={spath}", f"traces={w}", f"n={consts['N']}",
                                    f"tick={consts['Tick']}", f"gmin={consts['GMin']}", f"gmax={consts['GMax']}",
                                    "reg=" + regarg(consts)])
        s = json.load(open(spath))
        ck.traces = ck.evaluations = 1
        if not s["divergences"]:
            log(f"[{pid}] replay: behaviour now matches the ImplSpec prediction")
        for d in s["divergences"]:
            judge_divergence(ck, pid, rp.get("config", "replay"), consts, d)
    else:
        tpath = os.path.join(w, "random.ndjson")
        vlib.run_driver("toplink", rp["args"] + [f"out={tpath}"])
        rc = rp["cfg"]
        pr, _ = validate_trace(pid, tpath, rc["n"], rc["tick"], rc["gmin"], rc["gmax"], f"{pid}_replay", impl=False, regorder=regof(rc))
        ck.add_tlc(pr, "replay")
        ck.traces = ck.evaluations = rc["runs"]
        if pr.violated or pr.unmatched:
            ck.violation(dict(rp, violated_clause=pr.violated, unmatched=pr.unmatched))
        else:
            log(f"[{pid}] replay: trace accepted by the PropSpec")
    ck.states = max(ck.states, 1)
    ck.transitions = max(ck.transitions, 1)
    ck.nontrivial = 2
    ck.sample({"replayed": path})
    return ck.finish()
