"""C18: the simulated io_uring (specs/uring).

  1. design level   - TLC checks Uring (ImplSpec: SQ / in-flight set / ready batches /
                      ring clock, cancel, drop, crash, plus the twin filesystem the
                      harness drives through the synchronous API) against the clauses
                      of UringProp exhaustively for small constants;
  2. spec -> code   - TLC enumerates every command sequence of UringGen up to a bound
                      (all of them); each is
                      executed on a real Fs + IoUringHostState entered directly and every
                      observation is compared with TLC's prediction (the fs seed is varied
                      until the pop order TLC chose among simultaneously matured entries
                      is realised); divergent behaviours are judged by UringPropTrace; a
                      sample of the recorded traces is validated against both trace specs;
  3. code -> spec   - seeded random scenarios (direct embedding and one-host turmoil::Sim
                      with crash / bounce and AsyncFd::readable loops; fixed and ranged
                      latencies, page cache, capacity) recorded as NDJSON and validated by
                      TLC against UringPropTrace (verdict) and UringTrace (fidelity).
"""
import json
import os

import vlib
from vlib import MachineryError, log

SUB = "uring"
PID = "C18"

PROP_INVS = ["CqeOnce", "SyncLower", "Delivers", "NotEarly", "SyncUpper", "ReadableOk", "ResultOk",
             "CancelPairs", "EffectOk", "PushFull", "DeadRingSilent", "BufferUntouched"]

ALL_KINDS = {"read", "write", "fsync", "cancel"}
ALL_CTL = {"dropring", "close", "open", "shimw", "crash"}    # (+ "submitbad": the failing submit_with_args entry point)


def consts(**kw):
    c = dict(Fill=9, Tick=1, LatChoices={1}, NF=1, InitLen=1, Entries={2}, Kinds=set(ALL_KINDS),
             WVals={2}, WLens={1}, Offs={0}, RLens={2}, BadFlags={False}, CtlOps=set(), Modes={"rw"}, AllowDup=False,
             MaxRings=1, MaxOps=2, MaxTicks=2, MaxCrash=0)
    c.update(kw)
    return c


def mc_configs(tier):
    q = tier == "quick"
    cfgs = [
        # every kind, unsupported flags, full SQ (entries 1), two latencies sampled per entry
        ("mc_core2", consts(Entries={1, 2}, BadFlags={False, True}, LatChoices={0, 2}, MaxOps=2, MaxTicks=2)),
        # crash between submit and completion, fsync durability
        ("mc_crash2", consts(Entries={2}, Kinds={"write", "fsync", "cancel"}, LatChoices={1}, CtlOps={"crash", "submitbad"},
                             MaxOps=2, MaxTicks=2, MaxCrash=1)),
        # closed / re-opened handles between submit and completion
        ("mc_close2", consts(Entries={2}, Kinds={"write", "read", "fsync"}, LatChoices={1}, CtlOps={"close", "open"},
                             Modes={"rw", "ro", "wo", "ao"}, MaxOps=2, MaxTicks=1)),
        # entries tagged alike (copies of an outstanding write under the same user_data), cancel by that user_data
        ("mc_dup3", consts(Entries={4}, Kinds={"write", "cancel"}, LatChoices={1}, AllowDup=True, MaxOps=3, MaxTicks=1)),
        # shim writes between ring operations (effect at pop time), dropped rings
        ("mc_shimdrop2", consts(Entries={2}, Kinds={"write", "read", "cancel"}, LatChoices={1}, CtlOps={"shimw", "dropring"},
                                MaxOps=2, MaxTicks=2)),
    ]
    if not q:
        cfgs += [
            ("mc_ctl2", consts(Entries={2}, Kinds={"read", "write", "cancel"}, LatChoices={1}, CtlOps=set(ALL_CTL),
                               MaxOps=2, MaxTicks=2, MaxCrash=1)),
            ("mc_dup3b", consts(Entries={2, 4}, Kinds={"write", "cancel"}, LatChoices={0, 1}, AllowDup=True, MaxOps=3, MaxTicks=2)),
            ("mc_dup4", consts(Entries={4}, Kinds={"write", "cancel"}, LatChoices={1}, AllowDup=True, MaxOps=4, MaxTicks=1)),
            ("mc_core3", consts(Entries={2}, Kinds={"read", "write", "cancel"}, LatChoices={0, 1}, MaxOps=3, MaxTicks=2)),
            ("mc_fsync_crash3", consts(Entries={2}, Kinds={"write", "fsync", "cancel"}, LatChoices={0, 2},
                                       CtlOps={"crash"}, MaxOps=3, MaxTicks=2, MaxCrash=1)),
            # two rings on one host: per-ring SQ / completions, cancel across rings misses, one ring dropped
            ("mc_2rings", consts(Entries={1, 2}, Kinds={"write", "read", "cancel"}, LatChoices={0, 1}, CtlOps={"dropring"},
                                 MaxRings=2, MaxOps=2, MaxTicks=2)),
            # two files, shim writes in between, three entries
            ("mc_2files", consts(NF=2, Entries={2}, Kinds={"write", "read"}, LatChoices={0, 1}, CtlOps={"shimw"},
                                 MaxOps=3, MaxTicks=1)),
        ]
    return cfgs


def gen_configs(tier):
    """(name, constants, driver latency): one latency per configuration (the fs config is fixed per run)."""
    q = tier == "quick"
    cfgs = [
        ("gen_core", consts(Entries={2}, Kinds={"read", "write", "cancel"}, LatChoices={1}, MaxOps=3, MaxTicks=2,
                            GenLen=7 if q else 8), 1),
        ("gen_ctl", consts(Entries={1}, Kinds={"write", "fsync", "cancel"}, LatChoices={1}, CtlOps={"crash", "close", "dropring", "submitbad"},
                           BadFlags={False, True}, MaxOps=2, MaxTicks=2, MaxCrash=1, GenLen=6 if q else 7), 1),
    ]
    cfgs += [
        # copies of an outstanding write under the same user_data, cancel by that user_data
        ("gen_dup", consts(Entries={4}, Kinds={"write", "cancel"}, LatChoices={1}, AllowDup=True, MaxOps=4 if not q else 3,
                           MaxTicks=1, GenLen=7 if q else 8), 1),
        # handles re-opened read-only / append-only, ring reads and writes on them
        ("gen_modes", consts(Entries={2}, Kinds={"write", "read"}, LatChoices={0}, CtlOps={"close", "open"},
                             Modes={"ao", "ro"}, MaxOps=2, MaxTicks=1, GenLen=7 if q else 8), 0),
        # data written through the shim, handle re-opened read-only, ring fsync on it, crash: the crash image must
        # hold the data (fsync flushes the file, not what that fd wrote)
        ("gen_rofsync", consts(Entries={1}, Kinds={"fsync"}, LatChoices={0}, CtlOps={"shimw", "close", "open", "crash"},
                               Modes={"ro"}, MaxOps=1, MaxTicks=0, MaxCrash=1, GenLen=9 if q else 10), 0),
    ]
    if not q:
        cfgs += [
            ("gen_lat0", consts(Entries={2}, Kinds={"read", "write", "cancel"}, LatChoices={0}, CtlOps={"shimw"},
                                MaxOps=3, MaxTicks=1, GenLen=7), 0),
            ("gen_lat2", consts(Entries={2, 3}, Kinds={"write", "fsync", "cancel"}, LatChoices={2}, CtlOps={"crash"},
                                MaxOps=3, MaxTicks=3, MaxCrash=1, GenLen=7), 2),
        ]
    return cfgs


def random_configs(tier, seed):
    q = tier == "quick"
    runs = 30 if q else 200
    steps = 70 if q else 110
    base = [
        dict(mode="direct", tick=1000, latlo=2000, lathi=2000, impl=True),
        dict(mode="direct", tick=1000, latlo=0, lathi=0, impl=True),
        dict(mode="sim", tick=1000, latlo=3000, lathi=3000, impl=True),              # half of the crashes: software exited first
        dict(mode="sim", tick=1000, latlo=4000, lathi=4000, exitcrash=100, impl=True),  # every crash hits software that
                                                                                      # returned by itself, old ring handles kept
        dict(mode="direct", tick=1000, latlo=500, lathi=3500, impl=False),          # sampled latencies
        dict(mode="direct", tick=1000, latlo=2000, lathi=2000, cache=1, impl=False),  # page cache
    ]
    if not q:
        base += [
            dict(mode="direct", tick=2000, latlo=1500, lathi=1500, impl=True),      # latency not a multiple of the tick
            dict(mode="sim", tick=2000, latlo=1000, lathi=5000, cache=1, impl=False),
            dict(mode="direct", tick=1000, latlo=1000, lathi=1000, cap=40, impl=False),  # ENOSPC through both front-ends
            dict(mode="sim", tick=1000, latlo=0, lathi=0, impl=True),
        ]
    return [dict(c, runs=runs, steps=steps, seed=seed * 131 + i) for i, c in enumerate(base)]


def trace_consts(rc):
    lats = {rc["latlo"]} if rc["latlo"] == rc["lathi"] else set(range(rc["latlo"], rc["lathi"] + 1))
    return consts(Tick=rc["tick"], LatChoices=lats, NF=rc.get("nf", 2), InitLen=rc.get("initlen", 2), Entries=set(),
                  Kinds=set(), WVals=set(), WLens=set(), Offs=set(), RLens=set(), BadFlags=set(), CtlOps=set(), Modes=set(),
                  MaxRings=100000, MaxOps=100000, MaxTicks=100000, MaxCrash=100000)


def validate_trace(path, tag, impl_consts=None):
    """Returns (prop_result, impl_result or None)."""
    env = {"TRACE": os.path.abspath(path)}
    pcfg = vlib.cfg_text("TSpec", dict(Fill=9), invariants=PROP_INVS, postcondition="Accepted")
    pr = vlib.run_tlc(SUB, "UringPropTrace", pcfg, tag + "_prop", workers=1, env=env, dfs=True, heap="3g", timeout=900)
    if pr.error or pr.timed_out:
        raise MachineryError(f"trace validation (prop) failed: {pr.error or 'timeout'}")
    ir = None
    if impl_consts is not None:
        icfg = vlib.cfg_text("TSpec", impl_consts, invariants=PROP_INVS + ["ImplInv"], postcondition="Accepted")
        ir = vlib.run_tlc(SUB, "UringTrace", icfg, tag + "_impl", workers=1, env=env, dfs=True, heap="3g", timeout=900)
        if ir.error or ir.timed_out:
            raise MachineryError(f"trace validation (impl) failed: {ir.error or 'timeout'}")
    return pr, ir


def validate_prop_many(items, tag):
    """items: [(label, path)].  One PropTrace run over the concatenation (every run starts with a reset event); only
    if that is rejected, one run per item to find out which.  Returns (merged_result, {label: rejected_result})."""
    w = vlib.workdir(tag + "_cat")
    cat = os.path.join(w, "all.ndjson")
    with open(cat, "w") as out:
        for _, pth in items:
            with open(pth) as f:
                out.write(f.read())
    pr, _ = validate_trace(cat, tag + "_all")
    bad = {}
    if rejected(pr):
        for label, pth in items:
            r1, _ = validate_trace(pth, tag + "_one")
            if rejected(r1):
                bad[label] = r1
    return pr, bad


def validate_impl(path, tag, impl_consts):
    env = {"TRACE": os.path.abspath(path)}
    icfg = vlib.cfg_text("TSpec", impl_consts, invariants=PROP_INVS + ["ImplInv"], postcondition="Accepted")
    ir = vlib.run_tlc(SUB, "UringTrace", icfg, tag + "_impl", workers=1, env=env, dfs=True, heap="3g", timeout=900)
    if ir.error or ir.timed_out:
        raise MachineryError(f"trace validation (impl) failed: {ir.error or 'timeout'}")
    return ir


def drive(ck, args, timeout=420):
    """Run the driver. A driver that hangs or dies (the code under test may spin, e.g. an AsyncFd::readable loop
    that never becomes ready) is a machinery error - unless violations were already reported, which take priority."""
    import subprocess
    try:
        return vlib.run_driver("uring", args, timeout=timeout)
    except (subprocess.TimeoutExpired, MachineryError) as e:
        if ck.violations:
            log(f"[{ck.pid}] note: driver {' '.join(args[:6])} ... did not finish ({type(e).__name__}); "
                f"violations were already reported")
            return None
        if isinstance(e, subprocess.TimeoutExpired):
            raise MachineryError(f"driver uring {' '.join(args)} did not finish within {timeout}s")
        raise


def rejected(r):
    return bool(r is not None and (r.violated or r.unmatched))


def count_lines(path):
    with open(path) as f:
        return sum(1 for _ in f)


FEATURES = ["cancel_hit", "cancel_miss", "full_push", "late_pop", "partial_drain", "lat_wait", "crash_lost",
            "exit_crash_lost", "ebadf", "einval", "dup_cancel", "dup_both_complete", "append_write",
            "ro_fsync", "parked_wake", "parked_cancel_only_wake", "badargs_nonempty_sq", "submit_entry_points"]


def features_of(path, acc):
    """Vacuity bookkeeping on recorded executions of the real code (counts only, no verdict)."""
    ops, sub_at, now, vis, alive_ops, exited = {}, {}, 0, {}, set(), False
    fmode, run_cqes, parked = {}, [], {}
    for line in open(path):
        e = json.loads(line)
        ev = e["ev"]
        if ev == "note" and e.get("what") == "exit":
            exited = True      # the host software returned by itself; its handles are parked outside the task
        if ev == "reset":
            ops, sub_at, now, vis, alive_ops, exited = {}, {}, 0, {}, set(), False
            fmode, run_cqes, parked = {}, [], {}
        elif ev == "tick":
            now = e["now"]
        elif ev == "push":
            ops[e["ud"]] = dict(e, hmode=fmode.get(e["f"], "rw"))
            if not e["ok"]:
                acc["full_push"] += 1
        elif ev == "open":
            fmode[e["f"]] = e.get("mode", "rw")
        elif ev == "note" and e.get("what") == "park":
            parked[e["r"]] = None          # a reactor task is parked in AsyncFd::readable() on this ring
        elif ev == "readable" and e.get("parked"):
            if e["ok"]:
                acc["parked_wake"] += 1
                if parked.get(e["r"]) == "cancel_only":
                    acc["parked_cancel_only_wake"] += 1   # woken by a batch of AsyncCancels that found nothing
            parked.pop(e["r"], None)
        elif ev == "submit" and not e["ok"]:
            if e.get("via") == "badargs" and any(o["r"] == e["r"] and o["ok"] and u not in sub_at for u, o in ops.items()):
                acc["badargs_nonempty_sq"] += 1   # submit_with_args rejected while entries were queued
        elif ev == "submit" and e["ok"]:
            if e.get("via") in ("wait", "args"):
                acc["submit_entry_points"] += 1
            earlier = []
            for u in sorted(ops):
                o = ops[u]
                if o["r"] == e["r"] and o["ok"] and u not in sub_at:
                    if o["kind"] == "cancel" and not o["bad"]:
                        cands = [v for v in alive_ops if ops[v]["r"] == o["r"] and ops[v]["tag"] == o["tgt"]] + \
                                [v for v in earlier if ops[v]["tag"] == o["tgt"]]
                        if len(cands) >= 2:
                            acc["dup_cancel"] += 1     # a cancel aimed at a user_data that >= 2 outstanding entries carry
                    earlier.append(u)
            if e["r"] in parked and earlier and parked[e["r"]] is None:
                parked[e["r"]] = "cancel_only" if all(ops[u]["kind"] == "cancel" for u in earlier) else "mixed"
            for u in earlier:
                sub_at[u] = now
                alive_ops.add(u)
        elif ev == "sync":
            vis[e["r"]] = e["n"]
        elif ev == "cqe":
            u = e["ud"]
            alive_ops.discard(u)
            vis[e["r"]] = vis.get(e["r"], 1) - 1
            o = ops.get(u)
            if o and e["res"] >= 0 and o["kind"] == "write" and o.get("hmode") in ("ao", "wa", "ra"):
                acc["append_write"] += 1       # a ring write completed on a handle opened with append
            if o and e["res"] == 0 and o["kind"] == "fsync" and o.get("hmode") == "ro":
                acc["ro_fsync"] += 1           # a ring fsync completed on a read-only handle (a crash image follows every run)
            if o and o["tag"] != u and e["res"] >= 0 and any(
                    c["ev"] == "cqe" and c["tag"] == e["tag"] and c["r"] == e["r"] and c["res"] >= 0 for c in run_cqes):
                acc["dup_both_complete"] += 1  # two entries tagged alike both completed normally
            run_cqes.append(e)
            if e["res"] == -125:
                acc["cancel_hit"] += 1
            if e["res"] == -2:
                acc["cancel_miss"] += 1
            if e["res"] == -9:
                acc["ebadf"] += 1
            if e["res"] == -22:
                acc["einval"] += 1
            if o and u in sub_at:
                if now > sub_at[u] + o["lhi"]:
                    acc["late_pop"] += 1
                if o["llo"] > 0 and now >= sub_at[u] + o["llo"] > sub_at[u]:
                    acc["lat_wait"] += 1
        elif ev in ("tick", "push", "submit") or ev == "none":
            pass
        if ev in ("submit", "push", "tick") and any(v > 0 for v in vis.values()):
            acc["partial_drain"] += 1      # something sync() exposed was left un-popped while the consumer moved on
            vis = {k: 0 for k in vis}
        if ev == "crash":
            acc["crash_lost"] += len(alive_ops)
            if exited:
                acc["exit_crash_lost"] += len(alive_ops)   # in flight when a host whose software had exited was crashed
            exited = False
            alive_ops = set()
    return acc


def run(pid, tier, seed, replay=None):
    ck = vlib.Check(pid, tier, seed)
    ck.assumptions = [
        "ring clock = the per-tick `now` the embedder passes to turmoil_fs::enter / turmoil_io_uring::host::enter "
        "(DESIGN A.6); in the turmoil::Sim embedding that is the host's virtual time at the start of the tick",
        "the oracle for result / effect is a twin Fs driven through turmoil_fs::shim::std::fs with the identical history "
        "(fault probabilities 0: io_error / corruption / short_read draw from the fs rng and are not comparable call by call)",
        "user_data values are unique per run; files are opened read+write unless a scenario says otherwise; O_DIRECT not exercised",
        "TLC results hold for the stated small constants; larger parameters are sampled only",
    ]
    vlib.build_harness(["uring"])
    if replay:
        return do_replay(ck, replay)
    w = vlib.workdir(f"{pid}_files")
    feats = {k: 0 for k in FEATURES}

    # 1. design level ------------------------------------------------------
    for name, c in mc_configs(tier):
        cfg = vlib.cfg_text("Spec", c, invariants=PROP_INVS + ["ImplInv"], view="View")
        r = vlib.run_tlc(SUB, "Uring", cfg, f"{pid}_{name}", workers=10, timeout=1500 if tier == "thorough" else 400,
                         coverage=True, heap="12g")
        ck.add_tlc(r, name, exhaustive=True)
        log(f"[{pid}] {name}: {r.distinct} distinct states, {r.generated} generated, depth {r.depth}, {r.wall:.0f}s")
        if r.violated or r.error or r.timed_out:
            log(vlib.counterexample_text(r))
            raise MachineryError(f"design-level check {name} did not pass: the committed ImplSpec does not satisfy the "
                                 f"PropSpec ({r.violated or r.error or 'timeout'}); the spec must be repaired first")
        need = (["PushDup"] if c["AllowDup"] else []) + ["NewRing"] + [{"read": "PushRead", "write": "PushWrite", "fsync": "PushFsync", "cancel": "PushCancel"}[k]
                              for k in sorted(c["Kinds"])] + ["SubmitMC", "SyncMC", "PopSome", "PopNoneMC", "TickNow", "End"]
        for op, act in (("dropring", "DropRingMC"), ("close", "CloseMC"), ("open", "OpenMC"), ("shimw", "ShimWriteMC"),
                        ("crash", "CrashMC"), ("submitbad", "SubmitBadMC")):
            if op in c["CtlOps"]:
                need.append(act)
        missing = [a for a in need if r.coverage and r.coverage.get(a, 0) == 0]
        if missing:
            raise MachineryError(f"vacuity: actions never taken in {name}: {missing}")

    if tier == "thorough":
        # vacuity witnesses: each W_* invariant must be *violated* (the situation is reachable in the model)
        c = consts(Entries={1, 2}, LatChoices={0, 1}, CtlOps={"crash"}, MaxOps=2, MaxTicks=2, MaxCrash=1)
        c = dict(c, AllowDup=True, MaxOps=3, Entries={1, 4})
        for wname in ["W_DupCancel", "W_CancelInflight", "W_CancelMissing", "W_FullPush", "W_LateDrain", "W_CrashLoses"]:
            cfg = vlib.cfg_text("Spec", c, invariants=[wname], view="View")
            r = vlib.run_tlc(SUB, "Uring", cfg, f"{pid}_{wname}", workers=4, timeout=600, heap="6g")
            if r.violated != wname:
                raise MachineryError(f"vacuity: witness {wname} is not reachable in the model ({r.error or 'held'})")
        ck.extra["model_witnesses_reachable"] = True

    # 2. spec -> code -------------------------------------------------------
    samples = []
    for name, c, lat in gen_configs(tier):
        cfg = vlib.cfg_text("GenSpec", c, invariants=["Emit"] + PROP_INVS)
        r = vlib.run_tlc(SUB, "UringGen", cfg, f"{pid}_{name}", workers=10, timeout=1500, heap="12g")
        if r.violated or (r.error and "Emit" not in str(r.error)) or r.timed_out:
            log(vlib.counterexample_text(r))
            raise MachineryError(f"behaviour generation {name} failed ({r.violated or r.error or 'timeout'})")
        behs = sorted(set(vlib.extract_replays(r.stdout)))
        if not behs:
            raise MachineryError(f"behaviour generation {name} produced nothing")
        ck.add_tlc(r, name)
        bpath = os.path.join(w, f"{name}.ndjson")
        with open(bpath, "w") as f:
            f.write("\n".join(behs) + "\n")
        spath = os.path.join(w, f"{name}.summary.json")
        tdir = os.path.join(w, f"{name}_traces")
        os.makedirs(tdir, exist_ok=True)
        sample = 150 if tier == "quick" else 600
        out = vlib.run_driver("uring", ["replay", f"in={bpath}", f"out={spath}", f"traces={tdir}", f"tick={c['Tick']}",
                                        f"lat={lat}", f"nf={c['NF']}", f"initlen={c['InitLen']}", f"sample={sample}"])
        s = json.load(open(spath))
        log(f"[{pid}] {name}: {len(behs)} TLC behaviours, {out.strip()}")
        ck.traces += s["realised"] + s["divergent"]
        ck.evaluations += s["realised"] + s["divergent"]
        ck.nontrivial += s["nontrivial"]
        ck.extra.setdefault("unrealised_orders", 0)
        ck.extra["unrealised_orders"] += s["unrealised"]     # model branches (pop order / cancel choice) the code did not take
        ck.extra.setdefault("command_sequences_without_realised_branch", 0)
        ck.extra["command_sequences_without_realised_branch"] += s.get("orphan_sequences", 0)
        for smp in s["samples"][:1]:
            ck.sample({"kind": "tlc behaviour replayed on the real ring", "config": name, **smp})
        for d in s["divergences"][:4]:        # the first few are judged by TLC; the rest are counted
            judge_divergence(ck, name, c, lat, d)
        ck.impl_drift += s["divergent"]
        if s["realised"] == 0:
            raise MachineryError(f"no behaviour of {name} could be realised on the code")
        # the sampled traces go through both trace specs (the PropSpec pass is done for all configs at once below)
        sp = os.path.join(tdir, "sample.ndjson")
        features_of(sp, feats)
        samples.append([name, sp, c, lat, bpath, None])
    # fidelity pass: one UringTrace run per group of configs with the same (Tick, NF, InitLen); the latency of each
    # entry is inferred from the union of the groups' latencies
    groups = {}
    for smp in samples:
        c = smp[2]
        groups.setdefault((c["Tick"], c["NF"], c["InitLen"]), []).append(smp)
    for (tk, nf, il), members in groups.items():
        cat = os.path.join(w, f"samples_{tk}_{nf}_{il}.ndjson")
        with open(cat, "w") as out:
            for m in members:
                out.write(open(m[1]).read())
        tc = trace_consts(dict(tick=tk, latlo=0, lathi=0, nf=nf, initlen=il))
        tc["LatChoices"] = {m[3] for m in members}
        ir = validate_impl(cat, f"{pid}_smp_{tk}_{nf}_{il}", tc)
        ck.add_tlc(ir, f"trace_impl_samples_{tk}_{nf}_{il}")
        if rejected(ir):       # find out which config
            for m in members:
                m[5] = validate_impl(m[1], f"{pid}_smp_one", trace_consts(dict(tick=tk, latlo=m[3], lathi=m[3], nf=nf, initlen=il)))
    pr, bad = validate_prop_many([(smp[0], smp[1]) for smp in samples], f"{pid}_smp")
    ck.add_tlc(pr, "trace_prop_samples")
    for name, sp, c, lat, bpath, ir in samples:
        if name in bad:
            b = bad[name]
            ck.violation({"kind": "sample", "property": pid, "config": name, "consts": jsonable(c), "lat": lat,
                          "behaviours": bpath, "violated_clause": b.violated, "unmatched": b.unmatched,
                          "tlc": vlib.counterexample_text(b, 3000)})
        elif rejected(ir):
            ck.impl_drift += 1
            log(f"[{pid}] note: sampled replay traces of {name} left the ImplSpec at {ir.unmatched} ({ir.violated}); "
                f"PropSpec accepted them (drift, no alarm)")

    # witnesses of findings (repaired or recorded) stay in the corpus and are re-run every time
    run_corpus(ck, w)

    # 3. code -> spec -------------------------------------------------------
    runs = []
    for i, rc in enumerate(random_configs(tier, seed)):
        tpath = os.path.join(w, f"random_{i}.ndjson")
        args = ["random"] + [f"{k}={v}" for k, v in rc.items() if k != "impl"]
        out = drive(ck, args + [f"out={tpath}"])
        if out is None:
            continue
        features_of(tpath, feats)
        ir = validate_impl(tpath, f"{pid}_rnd{i}", trace_consts(rc)) if rc["impl"] else None
        if ir:
            ck.add_tlc(ir, f"trace_impl_{i}")
        ck.traces += rc["runs"]
        ck.evaluations += rc["runs"]
        ck.nontrivial += rc["runs"]
        runs.append((i, rc, tpath, args, out, ir))
        if i == 0:
            with open(tpath) as f:
                ck.sample({"kind": "recorded trace excerpt", "config": rc,
                           "events": [json.loads(x) for _, x in zip(range(16), f)]})
    if runs:
        pr_all, bad = validate_prop_many([(i, t) for i, _, t, *_ in runs], f"{pid}_rnd")   # one PropTrace pass for all
        ck.add_tlc(pr_all, "trace_prop_random")
    for i, rc, tpath, args, out, ir in runs:
        pr = bad.get(i)
        log(f"[{pid}] random {rc}: {out.strip()} -> prop {'ok' if pr is None else 'REJECTED'}, "
            f"impl {'-' if ir is None else 'ok' if not rejected(ir) else 'drift'}")
        if pr is not None:
            ck.violation({"kind": "random", "property": pid, "args": args, "cfg": rc,
                          "violated_clause": pr.violated, "unmatched": pr.unmatched,
                          "tlc": vlib.counterexample_text(pr, 3000)})
        elif rejected(ir):
            ck.impl_drift += 1
            log(f"[{pid}] note: implementation trace left the ImplSpec at event {ir.unmatched} "
                f"({ir.violated}); PropSpec accepted it (drift, no alarm)")

    # vacuity on the executions of the real code
    ck.extra["features_exercised_on_code"] = feats
    missing = [k for k, v in feats.items() if v == 0]
    if missing and not ck.violations:
        raise MachineryError(f"vacuity: situations never exercised on the real code in this run: {missing}")
    if missing:
        log(f"[{pid}] note: situations never exercised on the real code in this run: {missing} (violations were reported)")

    if ck.violations:
        return ck.finish()

    # binding demonstration: corrupted traces must be rejected ----------------
    src = os.path.join(w, "random_0.ndjson")
    rc0 = random_configs(tier, seed)[0]
    demos = []
    kinds = ("dup_cqe", "wrong_res", "early")
    for kind in (kinds if tier == "thorough" else kinds[seed % 3:seed % 3 + 1]):     # quick: one of them, by seed
        bad = os.path.join(w, f"random_0_{kind}.ndjson")
        if corrupt_trace(src, bad, kind):
            pr, ir = validate_trace(bad, f"{pid}_bind_{kind}", trace_consts(rc0))
            rej = rejected(pr) or rejected(ir)
            demos.append({"corruption": kind, "rejected": rej, "clause": pr.violated or (pr.unmatched and "unmatched")})
            if not rej:
                raise MachineryError(f"binding demonstration failed: trace corrupted by {kind} was accepted")
    ck.extra["binding_demo"] = demos
    ck.extra["rule"] = ("behaviours: distinct command sequences of UringGen within the bounds (each realised on the code with "
                        "the pop order TLC chose); non-trivial = contains a cancel / crash / drop / close / shim write and at "
                        "least one popped completion. random runs: one seeded scenario each")
    return ck.finish()


def corrupt_trace(src, dst, kind):
    lines = open(src).read().splitlines()
    evs = [json.loads(l) for l in lines]
    idx = [i for i, e in enumerate(evs) if e["ev"] == "cqe" and e["res"] >= 0]
    if not idx:
        return False
    if kind in ("dup_cqe", "wrong_res"):
        i = idx[len(idx) // 2]
        if kind == "dup_cqe":
            lines.insert(i + 1, lines[i])
        else:
            e = dict(evs[i], res=evs[i]["res"] + 1)
            lines[i] = json.dumps(e)
    elif kind == "early":
        # a completion that had to wait for its latency is moved to right after its submit
        done = False
        for i in idx:
            start = max(k for k in range(i) if evs[k]["ev"] == "reset")
            push = [k for k in range(start, i) if evs[k]["ev"] == "push" and evs[k]["ud"] == evs[i]["ud"]]
            if not push or evs[push[0]]["llo"] <= 0:
                continue
            sub = [k for k in range(push[0], i) if evs[k]["ev"] == "submit" and evs[k]["r"] == evs[push[0]]["r"] and evs[k]["ok"]]
            if not sub or not any(evs[k]["ev"] == "tick" for k in range(sub[0], i)):
                continue
            line = lines.pop(i)
            lines.insert(sub[0] + 1, line)
            done = True
            break
        if not done:
            return False
    open(dst, "w").write("\n".join(lines) + "\n")
    return True


def run_corpus(ck, w):
    pid = ck.pid
    cdir = os.path.join(vlib.ROOT, "corpus")
    known = {f.get("id"): f for f in ck.findings.get("findings", []) if f.get("property") == pid}
    items, meta = [], {}
    for cf in sorted(os.listdir(cdir)):
        if not cf.startswith(pid + "-"):
            continue
        rp = json.load(open(os.path.join(cdir, cf)))
        tpath = os.path.join(w, f"corpus_{cf}.ndjson")
        if rp["kind"] == "script":
            out = drive(ck, ["script", f"in={os.path.join(cdir, cf)}", f"out={tpath}"])
        else:
            out = drive(ck, rp["args"] + [f"out={tpath}"])
        if out is None:
            continue
        items.append((cf, tpath))
        meta[cf] = rp
        ck.traces += rp.get("runs", 1)
    if not items:
        return
    pr_all, bad = validate_prop_many(items, f"{pid}_corpus")      # one PropTrace pass; per witness only on rejection
    ck.add_tlc(pr_all, "trace_corpus")
    for cf, tpath in items:
        pr = bad.get(cf)
        log(f"[{pid}] corpus {cf}: {'ok' if pr is None else 'REJECTED ' + str(pr.violated or 'unmatched')}")
        if pr is None:
            continue
        rp = meta[cf]
        fid = rp.get("finding")
        f = known.get(fid)
        if f and pr.violated in f.get("clauses", []) and family_matches(f, tpath, pr):
            ck.known(fid, f["what"])
        else:
            ck.violation(dict(rp, violated_clause=pr.violated, unmatched=pr.unmatched, corpus=cf,
                              tlc=vlib.counterexample_text(pr, 3000)))


def family_matches(finding, tpath, pr):
    """A rejection belongs to a recorded finding only if the rejected completion is of the listed family."""
    fam = finding.get("family")
    if fam == "ring_op_ignores_open_mode":
        # every completion whose result differs from the twin's is a write on a handle without write access
        # (or a read on a handle without read access) that the ring executed as if the handle had it
        mode = {}
        ops = {}
        for line in open(tpath):
            e = json.loads(line)
            if e["ev"] == "newfile":
                mode[len(mode) + 1] = "rw"
            elif e["ev"] == "open":
                mode[e["f"]] = e.get("mode", "rw")
            elif e["ev"] == "push":
                ops[e["ud"]] = dict(e, mode=mode.get(e["f"], "rw"))
            elif e["ev"] == "cqe":
                o = ops.get(e["ud"])
                if o and o["kind"] in ("read", "write") and e["res"] != e["exp"] and e["res"] != -125:
                    need = "w" if o["kind"] == "write" else "r"
                    lacks = (o["mode"] == "ro" and need == "w") or (o["mode"] == "wo" and need == "r")
                    if not (lacks and e["exp"] == -9 and e["res"] >= 0):
                        return False
        return True
    return False


def judge_divergence(ck, name, c, lat, d):
    """The real code left the ImplSpec on a TLC behaviour: ask the PropSpec."""
    pid = ck.pid
    tr = d.get("trace")
    payload = {"kind": "behaviour", "property": pid, "config": name, "consts": jsonable(c), "lat": lat,
               "behaviour": d.get("behaviour"), "fs_seed": d.get("fs_seed"),
               "divergence": {k: v for k, v in d.items() if k != "behaviour"}}
    if not tr or d.get("what") == "panic":
        ck.violation(payload)
        return
    pr, _ = validate_trace(tr, f"{pid}_div")
    if rejected(pr):
        ck.violation(dict(payload, violated_clause=pr.violated, unmatched=pr.unmatched))
    else:
        log(f"[{pid}] drift: behaviour #{d.get('line')} diverged from the ImplSpec ({d.get('what')}) "
            f"but the PropSpec accepts the observation")


def jsonable(c):
    return {k: (sorted(v, key=str) if isinstance(v, (set, frozenset)) else v) for k, v in c.items()}


def do_replay(ck, path):
    rp = json.load(open(path))
    pid = ck.pid
    w = vlib.workdir(f"{pid}_replay")
    if rp["kind"] == "behaviour":
        c = rp["consts"]
        bpath = os.path.join(w, "beh.ndjson")
        open(bpath, "w").write(json.dumps(rp["behaviour"]) + "\n")
        spath = os.path.join(w, "summary.json")
        vlib.run_driver("uring", ["replay", f"in={bpath}", f"out={spath}", f"traces={w}", f"tick={c['Tick']}",
                                  f"lat={rp['lat']}", f"nf={c['NF']}", f"initlen={c['InitLen']}", "sample=1"])
        s = json.load(open(spath))
        ck.traces = ck.evaluations = 1
        if not s["divergences"]:
            log(f"[{pid}] replay: behaviour now matches the ImplSpec prediction")
            sp = os.path.join(w, "sample.ndjson")
            if os.path.exists(sp) and count_lines(sp) > 0:
                pr, _ = validate_trace(sp, f"{pid}_replay")
                ck.add_tlc(pr, "replay")
                if rejected(pr):
                    ck.violation(dict(rp, violated_clause=pr.violated, unmatched=pr.unmatched))
        for d in s["divergences"]:
            judge_divergence(ck, rp.get("config", "replay"), c, rp["lat"], d)
    else:
        tpath = os.path.join(w, "trace.ndjson")
        if rp["kind"] == "script":
            vlib.run_driver("uring", ["script", f"in={os.path.abspath(path)}", f"out={tpath}"])
        elif rp["kind"] == "sample":
            spath = os.path.join(w, "summary.json")
            c = rp["consts"]
            vlib.run_driver("uring", ["replay", f"in={rp['behaviours']}", f"out={spath}", f"traces={w}", f"tick={c['Tick']}",
                                      f"lat={rp['lat']}", f"nf={c['NF']}", f"initlen={c['InitLen']}", "sample=100000"])
            tpath = os.path.join(w, "sample.ndjson")
        else:
            vlib.run_driver("uring", rp["args"] + [f"out={tpath}"])
        pr, _ = validate_trace(tpath, f"{pid}_replay")
        ck.add_tlc(pr, "replay")
        ck.traces = ck.evaluations = rp.get("runs", rp.get("cfg", {}).get("runs", 1))
        if rejected(pr):
            ck.violation(dict(rp, violated_clause=pr.violated, unmatched=pr.unmatched))
        else:
            log(f"[{pid}] replay: trace accepted by the PropSpec")
    ck.states = max(ck.states, 1)
    ck.transitions = max(ck.transitions, 1)
    ck.nontrivial = 2
    ck.sample({"replayed": path})
    return ck.finish()
