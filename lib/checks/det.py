"""C01: same seed, configuration and programs give the same execution (specs/det).

Determinism is a hyperproperty of the code: the check samples scenarios (level
`exploration`) and TLC is the comparator.

  * `vh det mk` generates seeded scenarios: builder settings (seed, epoch, tick,
    latency range and curve, fail / repair rate, random node order, tcp / udp
    capacities, ip version, fs sync / error / short-read / corruption / latency /
    block-size knobs), 1..5 hosts, one program per host drawn from the families
    UDP traffic, TCP echo traffic, tokio select!/spawn/timeout/JoinSet, fs activity
    (std and tokio shims, read_dir order, file timestamps), io_uring batches (CQE
    order), plus a crash / bounce / partition / hold / latency controller script.
  * `vh det run` executes every scenario twice in one process and twice in fresh OS
    processes (`det --emit`); each run yields a complete NDJSON trace.
  * specs/det/DetTrace.tla consumes the four traces in lock step; the step at
    position l is enabled only if the four records at l are equal; acceptance = all
    consumed and equal lengths. Rejection => VIOLATION, replay file = the scenario.
"""
import concurrent.futures
import hashlib
import json
import os
import re
import shutil

import vlib
from vlib import MachineryError, log

SUB = "det"
CFG = "SPECIFICATION Spec\nPOSTCONDITION Accepted\nCHECK_DEADLOCK FALSE\n"
RUNS = ["a", "b", "c", "d"]


def tlc_compare(files, tag):
    """files: the four trace paths. Returns (TlcResult, diverge-info or None)."""
    env = {f"TRACE_{k.upper()}": os.path.abspath(p) for k, p in zip(RUNS, files)}
    r = vlib.run_tlc(SUB, "DetTrace", CFG, tag, workers=1, env=env, dfs=True, heap="3g", timeout=900)
    if r.error or r.timed_out:
        raise MachineryError(f"trace comparison {tag} failed: {r.error or 'timeout'}")
    shutil.rmtree(os.path.join(vlib.WORK, tag), ignore_errors=True)   # only the cfg is left in there
    info = None
    if r.unmatched or r.violated:
        m = re.search(r'<<"DIVERGE", (\d+), (.*)>>', r.stdout)
        recs = []
        if m:
            for s in re.findall(r'"((?:[^"\\]|\\.)*)"', m.group(2)):
                try:
                    recs.append(json.loads(json.loads('"' + s + '"')))
                except Exception:
                    recs.append(s)
        info = {"position": int(m.group(1)) if m else (r.unmatched or (0, None))[0],
                "records": dict(zip(["run_a_same_process_1", "run_b_same_process_2", "run_c_fresh_process_1",
                                     "run_d_fresh_process_2"], recs))}
    return r, info


def concat(dirpath, ids, out_prefix):
    paths = []
    for k in RUNS:
        p = f"{out_prefix}_{k}.ndjson"
        with open(p, "w") as f:
            for i in ids:
                f.write(json.dumps({"ev": "scenario", "id": str(i)}) + "\n")
                f.write(open(os.path.join(dirpath, f"s{i}_{k}.ndjson")).read())
        paths.append(p)
    return paths


def scenario_files(dirpath, i):
    return [os.path.join(dirpath, f"s{i}_{k}.ndjson") for k in RUNS]


def nontrivial(path):
    """A scenario counts as non-trivial if its trace has network tracing events or fs / io_uring
    observations and at least 30 records. Returns (bool, digest of trace a)."""
    data = open(path).read()
    lines = data.count("\n")
    rich = ('"message":"Send"' in data) or ('"what":"fs"' in data) or ('"what":"cqe"' in data)
    return (lines >= 30 and rich), hashlib.sha1(data.encode()).hexdigest()


def explore(ck, scen_path, outdir, tag, chunk=25, label="random"):
    """Run all scenarios of scen_path four times and let TLC compare. Returns list of (scenario, info)."""
    os.makedirs(outdir, exist_ok=True)
    out = vlib.run_driver("det", ["run", f"in={scen_path}", f"out={outdir}"], timeout=3000)
    scs = [json.loads(x) for x in open(scen_path) if x.strip()]
    log(f"[{ck.pid}] {label}: {out.strip()}")
    ids = list(range(len(scs)))
    chunks = [ids[i:i + chunk] for i in range(0, len(ids), chunk)]
    bad = []

    def do_chunk(ci):
        files = concat(outdir, chunks[ci], os.path.join(outdir, f"chunk{ci}"))
        return ci, tlc_compare(files, f"{tag}_chunk{ci}")

    with concurrent.futures.ThreadPoolExecutor(max_workers=4) as ex:
        results = list(ex.map(do_chunk, range(len(chunks))))
    suspects = []
    for ci, (r, info) in results:
        ck.add_tlc(r, f"compare_{label}_{ci}")
        if info:
            suspects += chunks[ci]
        for k in RUNS:
            os.remove(os.path.join(outdir, f"chunk{ci}_{k}.ndjson"))
    if suspects:
        # a chunk was rejected: compare its scenarios one by one so that every diverging one is reported
        def do_one(i):
            return i, tlc_compare(scenario_files(outdir, i), f"{tag}_s{i}")
        with concurrent.futures.ThreadPoolExecutor(max_workers=6) as ex:
            for i, (r, info) in ex.map(do_one, suspects):
                ck.add_tlc(r, f"compare_{label}_s{i}")
                if info:
                    bad.append((scs[i], info))
    seen = set()
    for i in ids:
        nt, dig = nontrivial(os.path.join(outdir, f"s{i}_a.ndjson"))
        if nt and dig not in seen:
            seen.add(dig)
            ck.nontrivial += 1
    ck.evaluations += 4 * len(scs)
    ck.traces += 4 * len(scs)
    return scs, bad


DD2 = "C01-DD2"


def dd2_open():
    """The open finding C01-DD2 is listed in the committed known_findings.json (never edited at run time)."""
    return any(f.get("id") == DD2 for f in vlib.load_findings().get("findings", []))


def is_dd2(files, info):
    """Family predicate of C01-DD2: the first divergence lies in the burst of events that a
    Sim::crash / Sim::bounce call produces (between the last `step` record and the controller's crash / bounce
    record), the two fresh-process traces agree with each other, and inside that burst the four traces contain the
    same network sends, only in a different order (the crashed host's spawned tasks were dropped in another order)."""
    try:
        tr = [[json.loads(x) for x in open(f)] for f in files]
        p = info["position"] - 1
        if tr[2] != tr[3] or p >= min(len(t) for t in tr):
            return False
        ref = tr[2]
        start = max([i for i in range(p) if ref[i].get("ev") == "step"] + [-1]) + 1
        wins = []
        for t in tr:
            end = next((i for i in range(p, len(t)) if t[i].get("ev") == "ctl" and t[i].get("op") in ("crash", "bounce")), None)
            if end is None or any(r.get("ev") == "step" for r in t[p:end]):
                return False
            sends = sorted(json.dumps(r, sort_keys=True) for r in t[start:end] if r.get("message") == "Send")
            wins.append((end, json.dumps(t[end], sort_keys=True), sends))
        return len(sends) >= 2 and all(w == wins[0] for w in wins)
    except Exception:
        return False


def report(ck, sc, info, extra=None, files=None):
    if files and dd2_open() and is_dd2(files, info):
        ck.known(DD2, f"scenario {sc.get('id')}: the spawned tasks of a crashed host are dropped in an order that depends on "
                      f"tokio's process-global task ids (in-process repetition differs at record {info.get('position')}; "
                      f"fresh processes agree)")
        return
    payload = {"kind": "scenario", "property": ck.pid, "scenario": sc,
               "first_divergence": info,
               "clause": "DetTrace.Step: the four records at the same position must be equal (and the traces equally long)"}
    if extra:
        payload.update(extra)
    ck.violation(payload)
    recs = info.get("records", {})
    log(f"[{ck.pid}] scenario {sc.get('id')} diverges at record {info.get('position')}: "
        + " | ".join(f"{k}={json.dumps(v)[:160]}" for k, v in list(recs.items())[:4]))


def run(pid, tier, seed, replay=None):
    ck = vlib.Check(pid, tier, seed, level="exploration")
    ck.assumptions = [
        "sampled scenarios only (level exploration): the TLA+ part is the comparator DetTrace (lock-step consumption of "
        "four traces, first diverging record reported); no exhaustive argument over seeds x configurations x programs",
        "the host programs are deterministic themselves (no wall clock, no std hash iteration, no randomness besides "
        "the scenario); some programs burn real time (thread::sleep without reading a clock) so that results that "
        "depend on how fast the process runs become visible",
        "a trace = all tracing events of targets turmoil / turmoil_verif, every program-level observation with the "
        "observing host's elapsed() and sim_elapsed(), controller actions, Sim::step / Sim::run results, Sim::elapsed",
    ]
    vlib.build_harness(["det"])
    w = vlib.workdir(f"{pid}_files")
    if replay:
        return do_replay(ck, replay, w)
    n = 150 if tier == "quick" else 2000
    scen = os.path.join(w, "scenarios.ndjson")
    vlib.run_driver("det", ["mk", f"seed={seed}", f"count={n}", f"out={scen}"])
    scs, bad = explore(ck, scen, os.path.join(w, "runs"), f"{pid}_rnd")
    for sc, info in bad[:30]:
        report(ck, sc, info, files=scenario_files(os.path.join(w, "runs"), sc["id"]))
    if len(bad) > 30:
        log(f"[{pid}] ... and {len(bad) - 30} more diverging scenarios (not written as replay files)")
        ck.violations += len(bad) - 30
    log(f"[{pid}] {len(scs)} scenarios x 4 runs compared by TLC: {len(bad)} diverging")

    # witnesses of repaired defects stay in the corpus and are re-run every time
    cdir = os.path.join(vlib.ROOT, "corpus")
    cfiles = sorted(f for f in os.listdir(cdir) if f.startswith(pid + "-"))
    if cfiles:
        cs = os.path.join(w, "corpus.ndjson")
        with open(cs, "w") as f:
            for k, cf in enumerate(cfiles):
                f.write(json.dumps(dict(json.load(open(os.path.join(cdir, cf)))["scenario"], id=k)) + "\n")
        reps = 3 if tier == "quick" else 10      # the witnesses are short; repeat them
        for rep in range(reps):
            _, cbad = explore(ck, cs, os.path.join(w, f"corpus_runs{rep}"), f"{pid}_corpus{rep}", label=f"corpus#{rep}")
            for sc, info in cbad:
                report(ck, sc, info, {"corpus": cfiles[sc["id"]] if sc.get("id", 0) < len(cfiles) else "?"},
                       files=scenario_files(os.path.join(w, f"corpus_runs{rep}"), sc["id"]))
            if ck.violations:
                break
        log(f"[{pid}] corpus witnesses {cfiles}: {'ok' if not cbad else 'REJECTED'}")

    # sample + binding demonstration
    sample_trace(ck, scs, os.path.join(w, "runs"))
    binding_demo(ck, os.path.join(w, "runs"), w, {sc.get("id") for sc, _ in bad})
    if not ck.violations:
        # the traces are big (hundreds of MB in the thorough tier): keep the first few scenarios only
        rd = os.path.join(w, "runs")
        for fn in os.listdir(rd):
            m = re.match(r"s(\d+)_", fn)
            if fn.startswith("all_") or (m and int(m.group(1)) >= 5):
                os.remove(os.path.join(rd, fn))
        for d in os.listdir(w):
            if d.startswith("corpus_runs"):
                shutil.rmtree(os.path.join(w, d), ignore_errors=True)
    # design-level half (DESIGN §6 C01, first bullet): the link-layer ImplSpec has no hidden choice --
    # once the labelled oracle inputs (sampled latency, fail/repair coins, shuffled host order) are
    # fixed, every state has at most one successor per label.  A failure here is a defect of the
    # specification, not of the code: machinery error.
    import detwalk
    dw = detwalk.walk("toplink", "TopLink", detwalk.TOPLINK_CFG, f"{pid}_detwalk_{os.getpid()}")
    ck.extra["design_level_no_hidden_choice"] = dict(dw, spec="specs/toplink/TopLink.tla")
    log(f"[{pid}] design-level walk of TopLink: {dw['states']} states, {dw['edges']} edges, "
        f"{dw['states_with_choice']} states with labelled choices, hidden choices: {dw['hidden_count']}")
    if dw["hidden_count"]:
        raise MachineryError(f"TopLink has a transition choice its label does not determine: {dw['hidden'][:1]}")
    ck.extra["rule"] = ("cases: seeded scenarios from `det mk`, each executed 4 times (2 in one process, 2 in fresh "
                        "processes) and compared record by record by TLC; evaluations = executions; distinct_nontrivial = "
                        "scenarios whose trace has >= 30 records and contains network tracing events or fs / io_uring "
                        "observations, distinct by the digest of their first trace")
    return ck.finish()


def sample_trace(ck, scs, outdir):
    for i, sc in enumerate(scs[:40]):
        p = os.path.join(outdir, f"s{i}_a.ndjson")
        if nontrivial(p)[0]:
            with open(p) as f:
                lines = f.readlines()
            ck.sample({"kind": "scenario", "scenario": {k: v for k, v in sc.items() if k != "hosts"},
                       "programs": [{k: v for k, v in h.items() if k != "fsops"} for h in sc["hosts"]],
                       "trace_records": len(lines),
                       "trace_excerpt": [json.loads(x) for x in lines[:6] + lines[len(lines) // 2:len(lines) // 2 + 6]]})
            return


def binding_demo(ck, outdir, w, skip=()):
    """Corrupt one virtual timestamp in the fresh-process trace of a (non-diverging) scenario -> TLC must reject
    at that record."""
    for i in range(0, 60):
        if i in skip:
            continue
        files = scenario_files(outdir, i)
        if not os.path.exists(files[2]):
            break
        lines = open(files[2]).read().splitlines()
        idx = [k for k, l in enumerate(lines) if '"ev":"obs"' in l and '"at":"' in l]
        if len(idx) < 4:
            continue
        k = idx[len(idx) // 2]
        e = json.loads(lines[k])
        e["at"] = str(int(e["at"]) + 1)
        lines[k] = json.dumps(e)
        bad = os.path.join(w, "bind_c.ndjson")
        open(bad, "w").write("\n".join(lines) + "\n")
        r, info = tlc_compare([files[0], files[1], bad, files[3]], f"{ck.pid}_bind")
        ok = bool(info) and info["position"] == k + 1
        ck.extra["binding_demo"] = {"corruption": f"virtual timestamp of record {k + 1} of the fresh-process trace +1us",
                                    "rejected": bool(info), "position_reported": info and info["position"]}
        if not ok:
            raise MachineryError("binding demonstration failed: corrupted trace accepted or wrong position reported")
        return
    raise MachineryError("binding demonstration could not be set up")


def do_replay(ck, path, w):
    rp = json.load(open(path))
    scen = os.path.join(w, "scenario.ndjson")
    sc = dict(rp["scenario"], id=0)
    open(scen, "w").write(json.dumps(sc) + "\n")
    reps = 5
    for rep in range(reps):
        _, bad = explore(ck, scen, os.path.join(w, f"replay{rep}"), f"{ck.pid}_replay{rep}", label=f"replay#{rep}")
        if bad:
            report(ck, rp["scenario"], bad[0][1], {"replayed": path}, files=scenario_files(os.path.join(w, f"replay{rep}"), 0))
            break
    else:
        log(f"[{ck.pid}] replay: {reps} x 4 runs of the scenario are identical")
    ck.nontrivial = max(ck.nontrivial, 2)
    ck.sample({"replayed": path})
    ck.extra["rule"] = "replay of one scenario, 5 repetitions x 4 runs"
    return ck.finish()
