"""Shared machinery for the turmoil checks: harness build, TLC runs (exhaustive,
behaviour generation, trace validation), evidence files, known findings,
violation reports.

Exit codes used by bin/check: 0 = held on everything explored, 1 = VIOLATION
(with a replay file), 2 = machinery error (TLC crash, timeout, build failure,
the ImplSpec no longer satisfying the PropSpec, ...).
"""
import hashlib
import json
import os
import re
import shutil
import subprocess
import sys
import time

ROOT = os.path.dirname(os.path.dirname(os.path.abspath(__file__)))
# VERIF_HARNESS_DIR / VERIF_REPO_DIR are used only by bin/mutcheck (a scratch copy of the
# harness whose path dependencies point at a scratch worktree of the repository).
HARNESS = os.environ.get("VERIF_HARNESS_DIR", os.path.join(ROOT, "harness"))
REPO = os.environ.get("VERIF_REPO_DIR", "/repo")
WORK = os.environ.get("VERIF_WORK_DIR", os.path.join(ROOT, "work"))
SPECS = os.path.join(ROOT, "specs")
BIN = os.path.join(HARNESS, "target", "release")
JAR = "/opt/veriftools/tla/tla2tools.jar"


class MachineryError(Exception):
    pass


def log(*a):
    print(*a, flush=True)


# ---------------------------------------------------------------------------
# build

def build_harness(bins=None):
    """Rebuild the harness against /repo's current working tree (hooks on).
    bins: list of driver binaries this check needs (default: all of them)."""
    t0 = time.time()
    lock_src = os.path.join(REPO, "Cargo.lock")
    lock_dst = os.path.join(HARNESS, "Cargo.lock")
    if not os.path.exists(lock_dst):
        shutil.copy(lock_src, lock_dst)
    env = dict(os.environ, CARGO_NET_OFFLINE="true")
    cmd = ["cargo", "build", "--release", "--offline"]
    for b in bins or []:
        cmd += ["--bin", b]
    p = subprocess.run(cmd, cwd=HARNESS,
                       env=env, stdout=subprocess.PIPE, stderr=subprocess.STDOUT, text=True)
    if p.returncode != 0:
        # one retry with a fresh lock copy (the repo's lock may have changed)
        shutil.copy(lock_src, lock_dst)
        p = subprocess.run(cmd, cwd=HARNESS,
                           env=env, stdout=subprocess.PIPE, stderr=subprocess.STDOUT, text=True)
    if p.returncode != 0:
        sys.stdout.write(p.stdout[-6000:])
        raise MachineryError("harness build failed")
    return time.time() - t0


class CodePanic(MachineryError):
    """The driver died of a panic raised inside the code under test (a frame of one of /repo's
    crates is the first non-runtime frame of the backtrace, or the panic location is a file of
    /repo).  Legal API calls never panic on the unchanged tree, so this is an observation of the
    code, not a tool failure: bin/check turns it into a VIOLATION with a replay file unless the
    check module handled it itself."""

    def __init__(self, msg, payload):
        super().__init__(msg)
        self.payload = payload


_RUNTIME_FRAME = re.compile(
    r"^<?(&?mut )?(__rustc|rust_begin_unwind|core::|std::|alloc::|tokio::|scoped_tls::|tracing|futures|"
    r"rand|indexmap::|hashbrown::|bytes::)")
_UNDER_TEST = re.compile(r"^<?(&?mut )?(turmoil|turmoil_net|turmoil_fs|turmoil_io_uring)::")


def classify_panic(out):
    """Return a dict describing the first panic in a driver's output when it was raised inside
    the code under test, else None."""
    m = re.search(r"panicked at ([^\n]+):\n([^\n]*)", out)
    if not m:
        return None
    loc, msg = m.group(1), m.group(2)
    tail = out[m.end():]
    nxt = tail.find("panicked at ")
    if nxt >= 0:
        tail = tail[:nxt]
    frames = re.findall(r"^\s+\d+: (.+)$", tail, flags=re.M)
    first = next((f for f in frames if not _RUNTIME_FRAME.match(f)), None)
    in_repo = loc.startswith("crates/turmoil") or loc.startswith(REPO + "/") or "/crates/turmoil" in loc
    if in_repo or (first and _UNDER_TEST.match(first)):
        return {"location": loc, "message": msg, "first_frame": first, "frames": frames[:12]}
    return None


def run_driver(binary, args, timeout=3600):
    env = dict(os.environ)
    env.setdefault("RUST_BACKTRACE", "1")
    p = subprocess.run([os.path.join(BIN, binary)] + args, stdout=subprocess.PIPE,
                       stderr=subprocess.STDOUT, text=True, timeout=timeout, env=env)
    if p.returncode != 0:
        sys.stdout.write(p.stdout[-4000:])
        what = f"driver {binary} {' '.join(args)} exited {p.returncode}"
        pan = classify_panic(p.stdout) if p.returncode == 101 else None
        if pan:
            raise CodePanic(what + f": panic in the code under test at {pan['location']}: {pan['message']}",
                            {"kind": "driver-panic", "driver": binary, "args": list(args), "panic": pan})
        raise MachineryError(what)
    return p.stdout


# ---------------------------------------------------------------------------
# TLC

_tlc_cmds = []


def workdir(tag):
    d = os.path.join(WORK, tag)
    shutil.rmtree(d, ignore_errors=True)
    os.makedirs(d, exist_ok=True)
    return d


def cfg_text(spec, constants, invariants=(), view=None, postcondition=None, properties=(),
             constraint=None):
    lines = [f"SPECIFICATION {spec}", "CONSTANTS"]
    for k, v in constants.items():
        if isinstance(v, Raw) and v.s.startswith("<-"):
            lines.append(f"  {k} {v.s}")       # substitution by an operator of the root module
        else:
            lines.append(f"  {k} = {tla_value(v)}")
    if invariants:
        lines.append("INVARIANTS")
        lines += [f"  {i}" for i in invariants]
    if properties:
        lines.append("PROPERTIES")
        lines += [f"  {i}" for i in properties]
    if view:
        lines.append(f"VIEW {view}")
    if constraint:
        lines.append(f"CONSTRAINT {constraint}")
    if postcondition:
        lines.append(f"POSTCONDITION {postcondition}")
    lines.append("CHECK_DEADLOCK FALSE")
    return "\n".join(lines) + "\n"


class Raw:
    """A constant value given as TLA+ text (e.g. a sequence `<<2, 1>>`)."""
    def __init__(self, s):
        self.s = s

    def __repr__(self):
        return self.s


def tla_value(v):
    if isinstance(v, Raw):
        return v.s
    if isinstance(v, bool):
        return "TRUE" if v else "FALSE"
    if isinstance(v, int):
        return str(v)
    if isinstance(v, str):
        return '"' + v + '"'
    if isinstance(v, (set, frozenset, list, tuple)):
        return "{" + ", ".join(tla_value(x) for x in sorted(v, key=lambda x: (str(type(x)), x))) + "}"
    raise ValueError(v)


class TlcResult:
    def __init__(self):
        self.stdout = ""
        self.generated = 0
        self.distinct = 0
        self.depth = 0
        self.violated = None      # name of violated invariant / property
        self.error = None         # other error text
        self.unmatched = None     # (index, event json) for trace validation
        self.wall = 0.0
        self.cmd = ""
        self.coverage = {}        # action name -> distinct states generated
        self.timed_out = False


def run_tlc(subdir, module, cfg, tag, workers=8, timeout=900, env=None, simulate=None,
            coverage=False, dfs=False, heap=None, seed=None):
    """Run TLC on specs/<subdir>/<module>.tla with the given cfg text."""
    # the per-call timeouts were sized on an idle 16-core machine; leave headroom for a loaded one
    timeout = int(timeout * float(os.environ.get("VERIF_TIMEOUT_SCALE", "2.5")))
    d = workdir(tag)
    cfgp = os.path.join(d, f"{module}_{tag}.cfg")
    with open(cfgp, "w") as f:
        f.write(cfg)
    cmd = ["tlc"]  # the wrapper on PATH carries the classpath (incl. CommunityModules)
    cmd += ["-workers", str(workers), "-metadir", os.path.join(d, "meta"), "-cleanup",
            "-noGenerateSpecTE", "-config", cfgp]
    if coverage:
        cmd += ["-coverage", "1"]
    if simulate:
        cmd += ["-simulate", simulate]
        if seed is not None:
            cmd += ["-seed", str(seed)]
    cmd.append(module + ".tla")
    e = dict(os.environ)
    jopts = ["-Xss1g"]
    if dfs:
        jopts.append("-Dtlc2.tool.queue.IStateQueue=StateDeque")
    if heap:
        jopts.append(f"-Xmx{heap}")
    e["JAVA_TOOL_OPTIONS"] = " ".join(jopts)
    if env:
        e.update(env)
    r = TlcResult()
    r.cmd = " ".join(cmd)
    _tlc_cmds.append(r.cmd)
    t0 = time.time()
    try:
        p = subprocess.run(["timeout", str(timeout)] + cmd, cwd=os.path.join(SPECS, subdir), env=e,
                           stdout=subprocess.PIPE, stderr=subprocess.STDOUT, text=True)
    finally:
        r.wall = time.time() - t0
    r.stdout = p.stdout
    if p.returncode == 124:
        r.timed_out = True
    parse_tlc(r)
    shutil.rmtree(os.path.join(d, "meta"), ignore_errors=True)
    return r


def parse_tlc(r):
    out = r.stdout
    m = None
    for m in re.finditer(r"(\d+) states generated, (\d+) distinct states found", out):
        pass
    if m:
        r.generated, r.distinct = int(m.group(1)), int(m.group(2))
    m = re.search(r"depth of the complete state graph search is (\d+)", out)
    if m:
        r.depth = int(m.group(1))
    m = re.search(r"Error: Invariant (\S+) is violated", out)
    if m:
        r.violated = m.group(1)
    m = re.search(r"Error: (Temporal properties were violated|Action property \S+ is violated)", out)
    if m and not r.violated:
        r.violated = m.group(1)
    m = re.search(r'<<"UNMATCHED", (\d+), "(.*)">>', out)
    if m:
        try:
            ev = json.loads(json.loads('"' + m.group(2) + '"'))
        except Exception:
            ev = m.group(2)
        r.unmatched = (int(m.group(1)), ev)
    if r.violated is None and r.unmatched is None:
        m = re.search(r"Error: (.*)", out)
        if m and "Postcondition" not in m.group(1):
            r.error = m.group(1) + "\n" + out[m.end():m.end() + 1500]
    # coverage: "<Action line .. of module M>: distinct:total"
    for m in re.finditer(r"^<(\w+) line \d+, col \d+ to line \d+, col \d+ of module \w+(?: \([\d ]+\))?>: (\d+):(\d+)",
                         out, re.M):
        r.coverage[m.group(1)] = r.coverage.get(m.group(1), 0) + int(m.group(3))
    if r.generated == 0 and not r.error and not r.timed_out and "Finished in" not in out:
        r.error = "TLC produced no statistics:\n" + out[-2000:]


def extract_replays(stdout):
    """Lines printed by `Emit == Done => PrintT(<<"REPLAY", ToJson(hist)>>)`."""
    res = []
    pre = '<<"REPLAY", '
    for line in stdout.splitlines():
        if line.startswith(pre):
            s = line.strip()[len(pre):-2]
            res.append(json.loads(s))      # TLA+ string literal -> JSON text
    return res


def counterexample_text(r, limit=6000):
    i = r.stdout.find("Error:")
    return r.stdout[i:i + limit] if i >= 0 else r.stdout[-limit:]


# ---------------------------------------------------------------------------
# evidence / findings / violations

class Check:
    def __init__(self, pid, tier, seed, level="model_checking"):
        self.pid, self.tier, self.seed, self.level = pid, tier, seed, level
        self.t0 = time.time()
        self.states = 0
        self.transitions = 0
        self.traces = 0
        self.evaluations = 0
        self.nontrivial = 0
        self.samples = []
        self.cov = {}
        self.extra = {}
        self.assumptions = []
        self.violations = 0
        self.known_reproduced = []
        self.impl_drift = 0
        self.exhaustive = []
        self.findings = load_findings()

    def add_tlc(self, r, what, exhaustive=False):
        self.states += r.distinct
        self.transitions += r.generated
        for k, v in r.coverage.items():
            self.cov[f"{what}:{k}"] = v
        self.exhaustive.append({"run": what, "distinct_states": r.distinct,
                                "states_generated": r.generated, "depth": r.depth,
                                "complete": bool(exhaustive and not r.timed_out and not r.violated and not r.error),
                                "wall_s": round(r.wall, 1)})

    def sample(self, s):
        if len(self.samples) < 6:
            self.samples.append(s)

    def known(self, finding_id, what):
        self.known_reproduced.append(finding_id)
        log(f"KNOWN-FINDING: property={self.pid} {what}")

    def violation(self, payload):
        """Record a violation: writes the replay file and prints the VIOLATION line."""
        self.violations += 1
        os.makedirs(os.path.join(ROOT, "replays"), exist_ok=True)
        blob = json.dumps(payload, sort_keys=True)
        h = hashlib.sha1(blob.encode()).hexdigest()[:10]
        path = os.path.join("replays", f"{self.pid}-{h}.json")
        with open(os.path.join(ROOT, path), "w") as f:
            json.dump(payload, f, indent=1, sort_keys=True)
        log(f"VIOLATION property={self.pid} replay={path}")
        return path

    def finish(self):
        wall = time.time() - self.t0
        cov = {
            "states": max(self.states, 0),
            "transitions": max(self.transitions, 0),
            "traces_validated_against_impl": self.traces,
            "samples": self.samples if self.samples else ["(no sample recorded)"],
            "evaluations": self.evaluations,
            "distinct_nontrivial": self.nontrivial,
            "exhaustive": bool(self.exhaustive) and all(e["complete"] for e in self.exhaustive if e["run"].startswith("mc")),
            "exhaustive_runs": self.exhaustive,
            "action_coverage": self.cov,
            "impl_drift": self.impl_drift,
            "known_findings_reproduced": self.known_reproduced,
            "checker_cmd": " ; ".join(_tlc_cmds[-12:]),
        }
        cov.update(self.extra)
        ev = {
            "property_id": self.pid,
            "tier": self.tier,
            "seed": self.seed,
            "level": self.level,
            "coverage": cov,
            "assumptions": self.assumptions,
            "wall_s": round(wall, 2),
            "violations": self.violations,
        }
        evdir = os.environ.get("VERIF_EVIDENCE_DIR", os.path.join(ROOT, "evidence"))
        os.makedirs(evdir, exist_ok=True)
        path = os.path.join(evdir, f"{self.pid}.json")
        with open(path, "w") as f:
            json.dump(ev, f, indent=1)
        validate_evidence(path)
        return 1 if self.violations else 0


def validate_evidence(path):
    """Validate against the evidence schema with the tooling venv's jsonschema."""
    vt = shutil.which("python3-vt")
    if not vt or not os.path.exists("/root/.vp/EVIDENCE.schema.json"):
        return
    code = ("import json,sys,jsonschema;"
            "jsonschema.validate(json.load(open(sys.argv[1])), json.load(open('/root/.vp/EVIDENCE.schema.json')))")
    p = subprocess.run([vt, "-c", code, path], stdout=subprocess.PIPE, stderr=subprocess.STDOUT, text=True)
    if p.returncode != 0:
        raise MachineryError("evidence file does not validate: " + p.stdout[-1500:])


def load_findings():
    p = os.path.join(ROOT, "known_findings.json")
    if os.path.exists(p):
        return json.load(open(p))
    return {"findings": [], "fixed": []}
