"""Design-level half of C01 (DESIGN §6 C01, first bullet): an ImplSpec has no hidden choice.

TLC dumps the complete state graph of a small configuration of an ImplSpec whose `last`
variable labels every transition with the action and ALL of its oracle inputs (sampled
latency, coin flips, host chosen by the shuffled order, ...).  The walk below checks that, from
every state, two different successor states never carry the same label: once the seeded rng's
draws are fixed, the specification has exactly one behaviour.  (That the *code* follows the
specification is the business of the conformance checks of the other properties; that the
code's draws are a function of the seed is what the recorded-run comparison of C01 samples.)
"""
import os
import re
import shutil

import vlib

NODE = re.compile(r'^(-?\d+) \[label="((?:[^"\\]|\\.)*)"(,|\])')
EDGE = re.compile(r'^(-?\d+) -> (-?\d+)')
LAST = re.compile(r'/\\\\ last = (.*?)\\n/\\\\ |/\\\\ last = (.*)$')


def walk(subdir, module, cfg, tag, timeout=600):
    """Returns dict(states, edges, labelled_choices, hidden) where hidden is a list of
    (source label, shared successor label) for hidden choices (empty = deterministic)."""
    d = vlib.workdir(tag)
    dot = os.path.join(d, "graph.dot")
    cfgp = os.path.join(d, "walk.cfg")
    open(cfgp, "w").write(cfg)
    import subprocess
    cmd = ["timeout", str(timeout), "tlc", "-workers", "4", "-metadir", os.path.join(d, "meta"), "-cleanup",
           "-noGenerateSpecTE", "-dump", "dot", dot, "-config", cfgp, module + ".tla"]
    p = subprocess.run(cmd, cwd=os.path.join(vlib.SPECS, subdir), stdout=subprocess.PIPE,
                       stderr=subprocess.STDOUT, text=True)
    if "Error:" in p.stdout or not os.path.exists(dot):
        raise vlib.MachineryError("determinism walk: TLC failed\n" + p.stdout[-1500:])
    label = {}
    succ = {}
    nedges = 0
    with open(dot) as f:
        for line in f:
            m = EDGE.match(line)
            if m:
                succ.setdefault(m.group(1), set()).add(m.group(2))
                nedges += 1
                continue
            m = NODE.match(line)
            if m:
                lm = LAST.search(m.group(2))
                label[m.group(1)] = (lm.group(1) or lm.group(2)) if lm else "?"
    hidden = []
    choices = 0
    for s, ts in succ.items():
        seen = {}
        for t in ts:
            lab = label.get(t, "?")
            if lab in seen and seen[lab] != t:
                hidden.append((label.get(s, "?"), lab))
            seen[lab] = t
        if len(ts) > 1:
            choices += 1
    shutil.rmtree(d, ignore_errors=True)
    return {"states": len(label), "edges": nedges, "states_with_choice": choices, "hidden": hidden[:5],
            "hidden_count": len(hidden)}


TOPLINK_CFG = vlib.cfg_text("Spec", dict(
    N=2, Tick=2, GMin=0, GMax=1, LatChoices={3}, MaxChoices=set(), Offsets={0}, RandomOrder=True, Kinds={"dgram", "probe"},
    CtlOps={"partition_oneway", "repair", "hold", "release"}, HostCtlOps={"release"}, AllowManual=True,
    FailModes={True}, MaxMsgs=2, MaxSteps=2, MaxCtl=1, MaxLatCtl=1, RegOrder=vlib.Raw("<- Reg21")))

if __name__ == "__main__":
    import json
    print(json.dumps(walk("toplink", "TopLink", TOPLINK_CFG, "detwalk_toplink"), indent=1))
