#!/bin/bash
# run_mut2.sh <log> <prop:mk:checkpid> ...
log=$1; shift
cd /verif
for pm in "$@"; do
  IFS=: read p m c <<< "$pm"
  bin/mutcheck /tmp/seeds/$p/$m.patch $c > /tmp/seeds/mut_${p}_${m}.out 2>&1
  echo "$p $m via $c v=$(grep -c VIOLATION /tmp/seeds/mut_${p}_${m}.out) $(grep -o 'MUTCHECK exit=[0-9]' /tmp/seeds/mut_${p}_${m}.out)" >> $log
done
