#!/bin/bash
cd /tmp/seeds
v() { echo "=== $*"; ./verify_seed.sh "$@"; }
for k in 7 8; do
v C01 $k turmoil --features=unstable-fs,unstable-io_uring
v C02 $k turmoil
v C03 $k turmoil
v C04 $k turmoil
v C05 $k turmoil
v C06 $k turmoil-net
v C07 $k turmoil --features=unstable-fs,unstable-io_uring
v C08 $k turmoil
v C09 $k turmoil
v C10 $k turmoil-fs
v C11 $k turmoil
v C12 $k turmoil
v C13 $k turmoil-net
v C14 $k turmoil
v C15 $k turmoil
v C16 $k turmoil-net
v C17 $k turmoil-net
v C18 $k turmoil --features=unstable-fs,unstable-io_uring
v C19 $k turmoil-net
done
echo "=== alldone"
