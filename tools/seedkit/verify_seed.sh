#!/bin/bash
# verify_seed.sh <prop> <k> <crate> : confirm a seeded mutant in its scratch worktree
p=$1; k=$2; crate=${3:-turmoil}
wt=/tmp/seeds/wt-$p; out=/tmp/seeds/$p
cd $wt || exit 2
git checkout -q -- . ; git clean -qfd -e target -e Cargo.lock
demo_dst=crates/$crate/tests/zz_seed_demo.rs
mkdir -p crates/$crate/tests; cp $out/m${k}_demo.rs $demo_dst
feat="${4:-}"
[ "$crate" = turmoil ] && [ -z "$feat" ] && feat="--features regex"
echo "--- demo on unchanged code (expect pass)"
cargo test -p $crate --offline $feat --test zz_seed_demo 2>&1 | grep -E "^test result|error(\[|:)" | head -3
git apply $out/m$k.patch || { echo "PATCH DOES NOT APPLY"; exit 1; }
echo "--- demo with the change (expect FAILED)"
cargo test -p $crate --offline $feat --test zz_seed_demo 2>&1 | grep -E "^test result|error(\[|:)" | head -3
rm -f $demo_dst
echo "--- existing suite with the change (expect all ok)"
cargo test -p $crate --offline 2>&1 | grep -E "^test result|error(\[|:)" | sort | uniq -c
git checkout -q -- . ; git clean -qfd -e target -e Cargo.lock
