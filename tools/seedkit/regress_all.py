#!/usr/bin/env python3
"""regress_all.py <log> <streams> [id-prefix...]: run bin/mutcheck for every recorded seeded mutant against the check
named in its meta.json (detected_by: "bin/check Cxx ..."), <streams> at a time; one log line per run."""
import json, os, re, subprocess, sys, threading, queue
ROOT = "/verif"
log, nstreams, prefixes = sys.argv[1], int(sys.argv[2]), sys.argv[3:]
jobs = queue.Queue()
for d in sorted(os.listdir(f"{ROOT}/seeded")):
    mp = f"{ROOT}/seeded/{d}/meta.json"
    if not os.path.exists(mp):
        continue
    if prefixes and not any(d.startswith(p) for p in prefixes):
        continue
    m = json.load(open(mp))
    chk = re.search(r"bin/check (C\d\d)", m["detected_by"]).group(1)
    jobs.put((d, chk))
lock = threading.Lock()
def work():
    while True:
        try:
            d, chk = jobs.get_nowait()
        except queue.Empty:
            return
        p = subprocess.run(["bin/mutcheck", f"seeded/{d}/patch.diff", chk], cwd=ROOT, stdout=subprocess.PIPE,
                           stderr=subprocess.STDOUT, text=True)
        v = sum(1 for l in p.stdout.splitlines() if l.startswith("VIOLATION"))
        rc = re.search(r"MUTCHECK exit=(\d)", p.stdout)
        prop, mk = d.split("-")
        with lock:
            with open(log, "a") as f:
                f.write(f"{prop} {mk} via {chk} v={v} MUTCHECK exit={rc.group(1) if rc else '?'}\n")
        if not rc or rc.group(1) != "1":
            open(f"/tmp/seeds/regress_fail_{d}_{chk}.out", "w").write(p.stdout[-20000:])
ts = [threading.Thread(target=work) for _ in range(nstreams)]
[t.start() for t in ts]; [t.join() for t in ts]
