#!/usr/bin/env python3
# (re)generates /verif/seeded/<prop>-m<k>/ for every seed listed in S
import json,os,shutil,sys
CR={"C06":"turmoil-net","C13":"turmoil-net","C16":"turmoil-net","C17":"turmoil-net","C19":"turmoil-net"}
S = {
 "C01-m1": ("bin/check C01 (quick): DetTrace rejects - the hub host drains its links in HashSet order, receive order differs between runs", None),
 "C01-m2": ("bin/check C01 (quick): DetTrace rejects - select! winners after a bounce differ between runs (runtime re-created without its seed)", None),
 "C02-m1": ("bin/check C02 (quick): MsgTcpPropTrace rejects (Stall: credit returned twice by peek-then-read, the tail of the stream and the FIN are never read)", None),
 "C02-m2": ("bin/check C02 (quick): MsgTcpPropTrace rejects (SpuriousReset: a graceful drop with only the peer's FIN unread sends RST)", None),
 "C03-m1": ("bin/check C03 (quick): random traces rejected by TopLinkPropTrace (NoDeliveryAcrossExplicit); corpus witness also rejected", None),
 "C03-m2": ("bin/check C03 (quick): TLC behaviours diverge on replay and TopLinkPropTrace rejects (a doomed in-flight message is received); random traces too", None),
 "C04-m1": ("bin/check C04 (quick): SimCrash replays (gen_crash_writer_acc) rejected by the PropSpec (PeersUnblocked: acceptor parked in write never unblocked)", "missed at first (only the connector was ever the parked writer); the mirrored workload was added to the model, the Gen configs and the driver"),
 "C04-m2": ("bin/check C04 (quick): twin comparison rejected (Undisturbed: bystander's multicast receipts stop after the crash)", "missed at first (uninvolved hosts had no group traffic); a bystander now shares the multicast group and a fourth host sends to it every step"),
 "C05-m1": ("bin/check C05 (quick): SimRunPropTrace rejects (ClockStep / Consistent: a host that finished on its own is ticked twice)", None),
 "C05-m2": ("bin/check C05 (quick): SimRunPropTrace rejects (Consistent: elapsed stops counting while the host is down)", None),
 "C06-m1": ("bin/check C06 (quick): recorded `simclose` choreography rejected by KTcpPropTrace (BoundedProgress / NoSpuriousAbort)", "missed at first (no crossing closes in the alphabets); crossing-close MC configs and a directed simultaneous-close choreography were added"),
 "C06-m2": ("bin/check C06 (quick): KTcpPropTrace rejects (PrefixInv: the discarded tail of a partially accepted segment is acknowledged)", None),
 "C07-m1": ("bin/check C07 (quick): gen_crash_torn images rejected by FsRefTrace (crash image outside the torn-write permitted set)", "missed at first (block_size was not exercised); FsRef got the torn-write permitted set, FsImpl the transcription of apply_torn_writes, and a torn mode runs each crash history under many fs seeds with block_size 2"),
 "C07-m2": ("bin/check C07 (quick): simreplay of crash behaviours with host software that returns before Sim::crash: post-crash tree rejected by FsRefTrace", "missed at first (the Sim replay kept the host software parked); every crash behaviour now also runs with software that returns Ok"),
 "C08-m1": ("bin/check C08 (quick): random traces rejected (FifoOnRelease); needs >= 3 messages released together", None),
 "C08-m2": ("bin/check C08 (quick): TLC behaviours (release / manual delivery followed by hold in the same controller phase) diverge on replay and TopLinkPropTrace rejects (HeldNotDelivered)", "the PropSpec treated such messages as unspecified until this mutant was read; strengthened with the relClean clause (DESIGN 11.3)"),
 "C09-m1": ("bin/check C09 (quick): random traces rejected by MsgUdpPropTrace (OnlyTargeted: membership outlives the socket)", None),
 "C09-m2": ("bin/check C09 (quick): replays (gen_zero, walks) and random traces rejected (ExactlyOnce: a zero-length datagram is never delivered)", "missed at first (payload length 0 was not in the alphabet); zero-length datagrams added to model, replay and random directions"),
 "C10-m1": ("bin/check C10 (quick): gen_window replays rejected by FsRefTrace (read_at starting beyond a pending truncation returns stale bytes)", "missed at first (read windows started at offset 0 or 2 only); read-back tails at offsets 1-3 and a read-window Gen config were added"),
 "C10-m2": ("bin/check C10 (quick): replays rejected by FsRefTrace (re-created file shows the removed file's bytes) - not attributed to the D7 family because the code no longer does what FsImpl predicts", None),
 "C11-m1": ("bin/check C11 (quick): PropTrace rejects (a panic in a tokio::spawn task is swallowed, run returns Ok)", None),
 "C11-m2": ("bin/check C11 (quick): PropTrace rejects (RunResult / StepResult: the timeout fires one step late)", None),
 "C12-m1": ("bin/check C12 (quick): gen_conn_burst replays rejected (AcceptOrder)", "missed at first (never 3+ requests pending at one listener); burst configs added to MC, Gen and the random driver"),
 "C12-m2": ("bin/check C12 (quick): replays / random traces rejected (Refusals: a connect whose SYN was parked by hold and then cut by a partition hangs instead of being refused)", None),
 "C13-m1": ("bin/check C13 (quick): `lsndrop` choreography with a wildcard listener rejected by KTcpPropTrace (Reclaimed)", "missed at first (listeners were bound to a concrete address only); wildcard listeners added to the harness"),
 "C13-m2": ("bin/check C13 (quick): `simclose` choreography rejected (Reclaimed / BoundedProgress: a socket in Closing never retransmits its FIN)", "missed at first (no crossing closes); see C06-m1"),
 "C14-m1": ("bin/check C14 (quick): replayed TLC behaviours with a latency lowered mid-run arrive late; TopLinkPropTrace rejects (LatencyWindow)", None),
 "C14-m2": ("bin/check C14 (quick): replayed TLC behaviours with two zero-latency sends in one turn arrive reversed; TopLinkPropTrace rejects (FifoEqualLatency)", None),
 "C15-m1": ("bin/check C15 (quick): gen_ports_shared replays rejected (FreshPort: a port shared by accepted streams is handed out while one of them is alive)", "missed at first (accepted streams sharing an ephemeral listener port were not in the alphabet); added to model and Gen"),
 "C15-m2": ("bin/check C15 (quick): random DNS trace rejected (DnsInjective: IPv4 addresses repeat at /24 boundaries)", "missed at first (the quick DNS session registered fewer than 258 distinct names); every session now registers 640 names first"),
 "C16-m1": ("bin/check C16 (quick): gen_caps / gen_caps_acceptor replays rejected (WindowOk: the acceptor sends beyond the window of the handshake ACK)", "missed at first (only the connector wrote first); acceptor-first configs added"),
 "C16-m2": ("bin/check C16 (quick): gen_udp in connected-send mode rejected (UdpOk: oversized datagram on the wire)", "missed at first (only send_to was exercised); connected send / try_send added"),
 "C17-m1": ("bin/check C17 (quick): gen_bind replay divergences judged by KSockPropTrace (BindOracle) + random traces", None),
 "C17-m2": ("bin/check C17 (quick): replay + random traces rejected (DemuxOracle: connected UDP socket reached through the wildcard binding receives from a non-peer)", None),
 "C18-m1": ("bin/check C18 (quick): replays rejected by UringPropTrace (CqeOnce / Delivers: a promoted but undrained completion is dropped when a later op matures)", None),
 "C19-m1": ("bin/check C19 (quick): fixture behaviours / random fixture traces rejected by RulesPropTrace (FifoEqualDeadline across ticks)", None),
 "C19-m2": ("bin/check C19 (quick): gen_prim_chain replays + random traces rejected (ConsultedPrefix / FirstMatch after a guard drop)", None),
 "C20-m1": ("bin/check C20 (quick): replays rejected by BarriersPropTrace (Reported: the earliest-created live barrier must receive the trigger)", None),
 "C20-m2": ("bin/check C20 (quick): replays / random traces rejected (Reported / SuspendHolds: a live barrier silently deregistered)", None),
}
extra = json.load(open('/tmp/seeds/seed_status_extra.json')) if os.path.exists('/tmp/seeds/seed_status_extra.json') else {}
S.update({k: tuple(v) for k, v in extra.items()})
for sid,(det,hist) in S.items():
    prop,mk=sid.split('-'); k=mk[1:]
    src=f"/tmp/seeds/{prop}"; dst=f"/verif/seeded/{sid}"
    if not os.path.exists(f"{src}/m{k}.patch"): print("missing",sid); continue
    os.makedirs(dst,exist_ok=True)
    shutil.copy(f"{src}/m{k}.patch",f"{dst}/patch.diff")
    shutil.copy(f"{src}/m{k}_demo.rs",f"{dst}/demo.rs")
    crate=CR.get(prop,"turmoil")
    meta={"id":sid,"breaks_property":prop,
      "author":"independent sub-agent given only the property text and a scratch worktree of /repo (nothing from /verif)",
      "what_it_needs_to_manifest_and_description_by_author":open(f"{src}/m{k}.md").read(),
      "confirmed_by_lead":{"where":"scratch git worktree of /repo under /tmp/seeds (removed afterwards)",
        "ran":[f"demo copied to crates/<crate>/tests/zz_seed_demo.rs; cargo test -p <crate> --offline [features] --test zz_seed_demo  -> passes on the unchanged code, FAILS with patch.diff applied",
               f"cargo test -p {crate} --offline  (existing suite) with patch.diff applied -> all pass",
               f"bin/mutcheck seeded/{sid}/patch.diff {prop}  -> see detected_by"]},
      "detected_by":det}
    if hist: meta["history"]=hist
    json.dump(meta,open(f"{dst}/meta.json","w"),indent=1)
print(len(S),"seeds recorded")
