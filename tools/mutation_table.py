#!/usr/bin/env python3
"""Rewrites the table between <!-- SEEDS-BEGIN --> and <!-- SEEDS-END --> in DESIGN.md from seeded/*/meta.json."""
import json, os, re
ROOT = os.path.dirname(os.path.dirname(os.path.abspath(__file__)))
summ = json.load(open(os.path.join(ROOT, "tools", "seed_summaries.json")))
rows = []
for d in sorted(os.listdir(os.path.join(ROOT, "seeded"))):
    m = json.load(open(os.path.join(ROOT, "seeded", d, "meta.json")))
    det = m["detected_by"].replace("|", "/")
    hist = m.get("history", "").replace("|", "/")
    rows.append(f"| {d} | {summ.get(d, '')} | {det}" + (f" — *{hist}*" if hist else "") + " |")
table = "| id | change | caught by |\n|----|--------|-----------|\n" + "\n".join(rows)
p = os.path.join(ROOT, "DESIGN.md")
s = open(p).read()
s = re.sub(r"<!-- SEEDS-BEGIN -->.*<!-- SEEDS-END -->", "<!-- SEEDS-BEGIN -->\n" + table + "\n<!-- SEEDS-END -->", s, flags=re.S)
open(p, "w").write(s)
print(len(rows), "rows")
