#!/usr/bin/env python3
"""regression_table.py <log>... : writes notes/regression.md from the log lines of tools/seedkit/run_mut2.sh
(`<prop> <mk> via <check> v=<violation lines> MUTCHECK exit=<rc>`), one row per seeded mutant and check."""
import os, re, sys, time
ROOT = os.path.dirname(os.path.dirname(os.path.abspath(__file__)))
rows = {}
for path in sys.argv[1:]:
    for line in open(path):
        m = re.match(r"(C\d\d) (m\d+) via (C\d\d) v=(\d+)\s+MUTCHECK exit=(\d)", line.strip())
        if m:
            rows[(m.group(1), int(m.group(2)[1:]), m.group(3))] = (int(m.group(4)), int(m.group(5)))
out = ["# Regression of the seeded mutants against the final checks", "",
       f"Generated {time.strftime('%Y-%m-%d %H:%M UTC', time.gmtime())} by `tools/regression_table.py` from the logs of",
       "`bin/mutcheck seeded/<id>/patch.diff <check>` (quick tier), one run per seeded mutant, after the last change to the",
       "checks. `exit 1` = the check printed VIOLATION lines (count in the second column) and exited 1.", "",
       "| mutant | check | VIOLATION lines | exit |", "|---|---|---|---|"]
bad = 0
for (p, k, c), (v, rc) in sorted(rows.items()):
    out.append(f"| {p}-m{k} | {c} | {v} | {rc} |")
    bad += rc != 1
out += ["", f"{len(rows)} runs, {len(rows) - bad} with exit 1, {bad} other."]
open(os.path.join(ROOT, "notes", "regression.md"), "w").write("\n".join(out) + "\n")
print(len(rows), "rows,", bad, "not exit 1")
