#!/usr/bin/env python3
"""Regenerates /verif/MANIFEST.json from tools/manifest_entries.json (one entry per claimed
property) and validates it against the schema. Properties without an entry are listed under
not_applicable with the reason given in tools/not_applicable.json."""
import json, os, subprocess, sys
ROOT = os.path.dirname(os.path.dirname(os.path.abspath(__file__)))
entries = json.load(open(os.path.join(ROOT, "tools", "manifest_entries.json")))
na_reasons = json.load(open(os.path.join(ROOT, "tools", "not_applicable.json")))
props = [json.loads(l)["id"] for l in open(os.path.join(ROOT, "properties.jsonl"))]
TECH = ("TLA+ ImplSpec/PropSpec model-checked with TLC; TLC-generated behaviours replayed on the real code; "
        "recorded traces validated by TLC (trace validation)")
checks = []
for pid in props:
    e = entries.get(pid)
    if not e:
        continue
    checks.append({
        "property_id": pid,
        "quick_cmd": f"bin/check {pid} --tier quick",
        "thorough_cmd": f"bin/check {pid} --tier thorough",
        "evidence_file": f"evidence/{pid}.json",
        "replay_cmd_template": f"bin/check {pid} --replay {{path}}",
        "engine": "tlc",
        "level_claimed": {"category": e.get("category", "model_checking"), "text": e["text"],
                          "design_ref": e.get("design_ref", f"§6 {pid}, §11")},
        "level_note": e["note"],
        "technique": e.get("technique", TECH),
    })
claimed = [c["property_id"] for c in checks]
na = [{"property_id": p, "reason": na_reasons.get(p, "not claimed in this round")} for p in props if p not in claimed]
hooks = json.load(open(os.path.join(ROOT, "tools", "hooks.json")))
m = {
    "version": 1,
    "setup_cmd": "cp /repo/Cargo.lock harness/Cargo.lock && cd harness && cargo build --release --offline",
    "hooks": hooks,
    "engines": [{"name": "tlc", "path": "specs/", "serves_properties": claimed,
                 "kind_free_text": "explicit TLA+ specifications (specs/<subsystem>/: PropSpec, ImplSpec, behaviour generation, "
                                   "trace specs) checked with TLC 1.8; Rust harness (harness/) replays TLC behaviours on the real "
                                   "code and records traces; lib/checks/*.py orchestrate; bin/check is the entry point"}],
    "checks": checks,
    "notes": "bin/check <id> --tier quick|thorough [--replay file]; exit 0 held (KNOWN-FINDING lines for listed open findings), "
             "1 VIOLATION property=<id> replay=<path>, 2 machinery error. VERIF_SEED seeds every random choice. "
             "known_findings.json lists open findings and fixed: entries; corpus/ holds witnesses re-run on every check; "
             "seeded/ holds independently written breaking changes and which check catches them (DESIGN.md §11).",
    "not_applicable": na,
}
json.dump(m, open(os.path.join(ROOT, "MANIFEST.json"), "w"), indent=1, ensure_ascii=False)
code = ("import json,jsonschema;jsonschema.validate(json.load(open('%s/MANIFEST.json')),"
        "json.load(open('/root/.vp/MANIFEST.schema.json')));print('manifest valid:', %d, 'checks')" % (ROOT, len(checks)))
sys.exit(subprocess.run(["python3-vt", "-c", code]).returncode)
