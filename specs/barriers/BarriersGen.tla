---------------------------- MODULE BarriersGen ----------------------------
(* Behaviour generation for spec -> code replay: Barriers plus a history    *)
(* variable holding the predicted event trace (same schema as recorded      *)
(* traces).  Every behaviour with exactly MaxOps test-level operations      *)
(* (build, drop_barrier, wait, drop_handle, trig, poll) that ends between   *)
(* polls is printed as one JSON line.                                       *)
EXTENDS Barriers, Json

CONSTANT MaxOps

VARIABLES hist, nops

IsOp(e) == \/ e.ev \in {"build", "drop_barrier", "wait", "drop_handle", "poll", "prep", "drop_prep"}
           \/ (e.ev = "trig" /\ ~e.unwind)      \* the guard's trigger during unwinding is produced by the code

Done == cur = 0 /\ nops = MaxOps

GenInit == Init /\ hist = <<>> /\ nops = 0
GenNext == /\ ~Done /\ Next
           /\ hist' = Append(hist, last')
           /\ nops' = IF IsOp(last') THEN nops + 1 ELSE nops
GenSpec == GenInit /\ [][GenNext]_<<vars, hist, nops>>

Emit == Done => PrintT(<<"REPLAY", ToJson(hist)>>)
=============================================================================
