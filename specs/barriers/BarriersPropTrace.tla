------------------------- MODULE BarriersPropTrace -------------------------
(* Verdict-level trace validation: the observation events recorded from the *)
(* real code are replayed through the P_* actions of BarriersProp; PropInv  *)
(* is evaluated in every state.                                             *)
EXTENDS BarriersProp, Json, IOUtils, TLC

Rec == ndJsonDeserialize(IOEnv.TRACE)

VARIABLE l
E == Rec[l]
Is(e) == l <= Len(Rec) /\ Rec[l].ev = e /\ l' = l + 1

SetOf(seq) == {seq[i] : i \in 1..Len(seq)}

TInit == PInit /\ l = 1

TNext ==
    \/ Is("reset") /\ P_Reset
    \/ Is("build") /\ P_Build(E.reaction, SetOf(E.cond)) /\ Len(bars) + 1 = E.b
    \/ Is("drop_barrier") /\ P_DropBarrier(E.b)
    \/ Is("wait") /\ P_Wait(E.b, E.res)
    \/ Is("drop_handle") /\ P_DropHandle(E.t)
    \/ Is("trig") /\ P_Trig(E.src, E.v, E.sync, E.unwind) /\ Len(trigs) + 1 = E.t
    \/ Is("ret") /\ P_Ret(E.src, E.prog) /\ open[E.src] = E.t
    \/ Is("panicked") /\ P_Panicked(E.src) /\ open[E.src] = E.t
    \/ Is("poll_end") /\ P_PollEnd(E.src, E.prog)
    \/ Is("poll") /\ UNCHANGED pvars
    \* building / dropping a trigger future is not a trigger: nothing the statement talks about changes
    \/ Is("prep") /\ UNCHANGED pvars
    \/ Is("drop_prep") /\ UNCHANGED pvars

TSpec == TInit /\ [][TNext]_<<pvars, l>>

Accepted ==
    LET d == TLCGet("stats").diameter IN
    IF d - 1 = Len(Rec) THEN TRUE
    ELSE Print(<<"UNMATCHED", d, ToJson(Rec[d])>>, FALSE)
=============================================================================
