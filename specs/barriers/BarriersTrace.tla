--------------------------- MODULE BarriersTrace ---------------------------
(* Fidelity-level trace validation: recorded event traces must be           *)
(* behaviours of the ImplSpec Barriers (event by event, with the logged     *)
(* ids and counters asserted); ImplInv and PropInv are evaluated in every   *)
(* state.                                                                   *)
EXTENDS Barriers, Json, IOUtils

Rec == ndJsonDeserialize(IOEnv.TRACE)

VARIABLE l
E == Rec[l]
Is(e) == l <= Len(Rec) /\ Rec[l].ev = e /\ l' = l + 1

SetOf(seq) == {seq[i] : i \in 1..Len(seq)}

TInit == Init /\ l = 1

TReset ==
    /\ Is("reset") /\ cur = 0 /\ P_Reset
    /\ registry' = <<>> /\ chan' = <<>> /\ one' = <<>> /\ held' = {}
    /\ pc' = [s \in Srcs |-> "idle"] /\ cur' = 0
    /\ guard' = [s \in Srcs |-> NoGuard]
    /\ prepared' = [s \in Srcs |-> NoPrep]
    /\ last' = [ev |-> "init"]

TNext ==
    \/ TReset
    \/ Is("build") /\ Build(E.reaction, SetOf(E.cond)) /\ last'.b = E.b
    \/ Is("drop_barrier") /\ DropBarrier(E.b)
    \/ Is("wait") /\ Wait(E.b) /\ last'.res = E.res
    \/ Is("drop_handle") /\ DropHandle(E.t)
    \/ Is("trig")
                  /\ IF E.unwind THEN UnwindTrigger(E.src) /\ guard[E.src] = E.v
                     ELSE IF E.prepared THEN TriggerPrepared(E.src) /\ prepared[E.src] = E.v
                     ELSE IF E.sync THEN TriggerNoop(E.src, E.v, E.g) ELSE Trigger(E.src, E.v, E.g)
                  /\ last'.t = E.t
    \/ Is("poll") /\ Poll(E.src)
    \/ Is("prep") /\ PrepareTrigger(E.src, E.v)
    \/ Is("drop_prep") /\ DropPrepared(E.src)
    \/ Is("ret") /\ (Return(E.src) \/ UnwindReturn(E.src)) /\ last'.t = E.t /\ last'.prog = E.prog
    \/ Is("panicked") /\ (Panicked(E.src) \/ UnwindPanicked(E.src)) /\ last'.t = E.t
    \/ Is("poll_end") /\ PollEnd(E.src) /\ last'.prog = E.prog

TSpec == TInit /\ [][TNext]_<<vars, l>>

Accepted ==
    LET d == TLCGet("stats").diameter IN
    IF d - 1 = Len(Rec) THEN TRUE
    ELSE Print(<<"UNMATCHED", d, ToJson(Rec[d])>>, FALSE)
=============================================================================
