SPECIFICATION Spec
CONSTANTS
  NSrc = 2
  Reactions = {"Noop", "Suspend", "Panic"}
  Conds = {{1}, {1, 2}, {2, 3}}
  TrigValues = {0, 1, 2, 3}
  SyncModes = {FALSE, TRUE}
  MaxBars = 2
  MaxTrig = 2
INVARIANTS
  PropInv
  ImplInv
VIEW View
CHECK_DEADLOCK FALSE
