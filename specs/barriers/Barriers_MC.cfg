SPECIFICATION Spec
CONSTANTS
  NSrc = 2
  Reactions = {"Noop", "Suspend", "Panic"}
  Conds = {{1}, {1, 2}}
  TrigValues = {0, 1, 2}
  SyncModes = {FALSE, TRUE}
  MaxBars = 2
  MaxTrig = 1
  GuardValues = {}
  Prepare = TRUE
INVARIANTS
  PropInv
  ImplInv
VIEW View
CHECK_DEADLOCK FALSE
