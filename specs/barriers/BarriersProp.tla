---------------------------- MODULE BarriersProp ----------------------------
(***************************************************************************)
(* PropSpec for C20 (turmoil::barriers).                                   *)
(*                                                                         *)
(* Only what the statement talks about:                                    *)
(*   - the calls the test made: Barrier::build (reaction, condition),      *)
(*     dropping a Barrier, Barrier::wait and what it returned, dropping a  *)
(*     Triggered handle;                                                   *)
(*   - what the triggering code ("source") did and saw: it entered         *)
(*     trigger(v) / trigger_noop(v), the call returned (and the source     *)
(*     bumped its progress counter), the call panicked, the source's poll  *)
(*     ended with the counter at some value.                               *)
(* No registry, channels or oneshots.  A condition is the set of values it *)
(* accepts.  Barriers are numbered 1, 2, ... in creation order, triggers   *)
(* 1, 2, ... in the order the sources entered them ("trigger order").      *)
(*                                                                         *)
(* Every P_* action records the observation and adds the name of a clause  *)
(* to `viol` when the observation contradicts that clause; the invariants  *)
(* at the end say `viol` never contains the clause.                        *)
(***************************************************************************)
EXTENDS Naturals, Sequences, FiniteSets

CONSTANTS NSrc       \* number of sources (tasks / hosts that call trigger)

Srcs == 1..NSrc

VARIABLES
    bars,      \* Seq([cond, rx, live])   barriers in creation order
    trigs,     \* Seq([src, v, sync, exp, rx, st, rep, h])  triggers in trigger order
               \*   exp = barrier the statement designates at the instant of the call
               \*         (earliest created among the live matching ones, 0 = none)
               \*   rx  = that barrier's reaction ("None" if exp = 0)
               \*   st  = "open" | "ret" | "panicked"     the call as seen by the source
               \*   rep = a wait has returned this trigger
               \*   h   = "none" | "held" | "dropped"     the Triggered handle
    open,      \* [Srcs -> trigger id of the call the source is inside, 0 = none]
    progress,  \* [Srcs -> progress counter as last observed]
    viol       \* set of clause names contradicted so far

pvars == <<bars, trigs, open, progress, viol>>

PInit ==
    /\ bars = <<>> /\ trigs = <<>>
    /\ open = [s \in Srcs |-> 0]
    /\ progress = [s \in Srcs |-> 0]
    /\ viol = {}

BarIds  == 1..Len(bars)
TrigIds == 1..Len(trigs)

MinOf(S) == CHOOSE x \in S : \A y \in S : x <= y

\* "When several live barriers match one trigger, the earliest-created one
\*  receives it and only that one"
Matching(v) == {b \in BarIds : bars[b].live /\ v \in bars[b].cond}
Earliest(v) == IF Matching(v) = {} THEN 0 ELSE MinOf(Matching(v))
RxOf(b)     == IF b = 0 THEN "None" ELSE bars[b].rx

---------------------------------------------------------------------------
(* Classification of a trigger (by what the statement promises about it) *)

\* Must be handed to a wait on its barrier.  The statement promises reporting
\* for matching triggers; it also says a Panic barrier panics the triggering
\* code, and the documentation of trigger_noop says it panics on a Suspend
\* barrier - whether such a trigger is reported as well is left open here
\* (tolerance: reported at most once, to the designated barrier, or not at all).
Mandatory(t) ==
    /\ trigs[t].exp # 0
    /\ \/ trigs[t].rx = "Noop"
       \/ trigs[t].rx = "Suspend" /\ ~trigs[t].sync

\* The trigger has not been seen by any wait and designates barrier b
PendingFor(b) == {t \in TrigIds : trigs[t].exp = b /\ ~trigs[t].rep}

\* "each trigger whose value matches a live barrier's condition is reported to
\*  that barrier exactly once, in trigger order ... Triggers that match no live
\*  barrier ... are reported nowhere":  a wait on b may only return the oldest
\*  not-yet-reported trigger designated for b (optional ones may be missing),
\*  and may only come back empty-handed when no mandatory one is outstanding.
WaitAllowed(b, res) ==
    IF res = 0
    THEN ~\E t \in PendingFor(b) : Mandatory(t)
    ELSE /\ res \in PendingFor(b)
         /\ ~\E t \in PendingFor(b) : t < res /\ Mandatory(t)

\* "a Suspend barrier keeps the triggering code from proceeding until the test
\*  drops the reported handle".  If the barrier is dropped while the trigger
\*  was never reported there is no handle; the statement is silent -> free.
MustSuspend(t) ==
    /\ trigs[t].rx = "Suspend" /\ ~trigs[t].sync
    /\ trigs[t].h # "dropped"
    /\ ~(~trigs[t].rep /\ ~bars[trigs[t].exp].live)

\* "... and lets it proceed right after" / "a Noop barrier never blocks it" /
\* "Triggers that match no live barrier ... return immediately":
\* the call must have returned by the end of the poll of the source.
MustHaveReturned(t) ==
    \/ trigs[t].rx \in {"None", "Noop"}
    \/ trigs[t].rx = "Suspend" /\ ~trigs[t].sync /\ trigs[t].h = "dropped"

\* "a Panic barrier panics the triggering code" (and the documented panic of
\* trigger_noop on a Suspend barrier); nothing else may panic.
MayPanic(t) == trigs[t].rx = "Panic" \/ (trigs[t].sync /\ trigs[t].rx = "Suspend")

---------------------------------------------------------------------------
(* Observation actions *)

P_Build(rx, cond) ==
    /\ bars' = Append(bars, [cond |-> cond, rx |-> rx, live |-> TRUE])
    /\ UNCHANGED <<trigs, open, progress, viol>>

P_DropBarrier(b) ==
    /\ b \in BarIds /\ bars[b].live
    /\ bars' = [bars EXCEPT ![b].live = FALSE]
    /\ UNCHANGED <<trigs, open, progress, viol>>

\* source s enters trigger(v) (sync = FALSE) or trigger_noop(v) (sync = TRUE);
\* unw = the call is made from a destructor while the source is already unwinding from a panic
P_Trig(s, v, sync, unw) ==
    /\ open[s] = 0
    /\ LET e == Earliest(v) IN
       trigs' = Append(trigs, [src |-> s, v |-> v, sync |-> sync, unw |-> unw, exp |-> e, rx |-> RxOf(e),
                               st |-> "open", rep |-> FALSE, h |-> "none"])
    /\ open' = [open EXCEPT ![s] = Len(trigs) + 1]
    /\ UNCHANGED <<bars, progress, viol>>

\* Barrier::wait polled once on barrier b: res = trigger id returned, 0 = nothing yet
P_Wait(b, res) ==
    /\ b \in BarIds /\ bars[b].live
    /\ res = 0 \/ res \in TrigIds
    /\ trigs' = IF res = 0 THEN trigs
                ELSE [trigs EXCEPT ![res].rep = TRUE,
                                   ![res].h = IF @ = "none" THEN "held" ELSE @]
    /\ viol' = IF WaitAllowed(b, res) THEN viol ELSE viol \cup {"Reported"}
    /\ UNCHANGED <<bars, open, progress>>

P_DropHandle(t) ==
    /\ t \in TrigIds /\ trigs[t].h = "held"
    /\ trigs' = [trigs EXCEPT ![t].h = "dropped"]
    /\ UNCHANGED <<bars, open, progress, viol>>

\* the call source s was inside returned; the source bumped its counter to prog
P_Ret(s, prog) ==
    /\ open[s] # 0
    /\ LET t == open[s] IN
       /\ trigs' = [trigs EXCEPT ![t].st = "ret"]
       /\ viol' = viol \cup (IF MustSuspend(t) THEN {"SuspendHolds"} ELSE {})
                       \cup (IF trigs[t].rx = "Panic" /\ ~trigs[t].unw THEN {"PanicPanics"} ELSE {})
                       \cup (IF prog # progress[s] + 1 THEN {"Counter"} ELSE {})
    /\ open' = [open EXCEPT ![s] = 0]
    /\ progress' = [progress EXCEPT ![s] = prog]
    /\ UNCHANGED bars

\* the call source s was inside panicked
P_Panicked(s) ==
    /\ open[s] # 0
    /\ LET t == open[s] IN
       /\ trigs' = [trigs EXCEPT ![t].st = "panicked"]
       /\ viol' = viol \cup (IF MayPanic(t) THEN {} ELSE {"SpuriousPanic"})
    /\ open' = [open EXCEPT ![s] = 0]
    /\ UNCHANGED <<bars, progress>>

\* a poll of source s ended (it is Pending again) with its counter at prog
P_PollEnd(s, prog) ==
    /\ viol' = viol
         \cup (IF prog # progress[s] THEN {"Counter"} ELSE {})
         \cup (IF open[s] = 0 THEN {}
               ELSE LET t == open[s] IN
                    (IF trigs[t].rx = "Suspend" /\ ~trigs[t].sync /\ trigs[t].h = "dropped"
                        THEN {"ResumesAfterDrop"} ELSE {})
                    \cup (IF trigs[t].rx \in {"None", "Noop"} THEN {"NeverBlocks"} ELSE {})
                    \cup (IF trigs[t].rx = "Panic" THEN {"PanicPanics"} ELSE {}))
    /\ progress' = [progress EXCEPT ![s] = prog]
    /\ UNCHANGED <<bars, trigs, open>>

\* start of a new recorded run (trace validation only)
P_Reset ==
    /\ bars' = <<>> /\ trigs' = <<>>
    /\ open' = [s \in Srcs |-> 0]
    /\ progress' = [s \in Srcs |-> 0]
    /\ viol' = viol

---------------------------------------------------------------------------
(* The property *)

\* "each trigger whose value matches a live barrier's condition is reported to
\*  that barrier exactly once, in trigger order" + "the earliest-created one
\*  receives it and only that one" + "Triggers that match no live barrier -
\*  including after the barrier has been dropped - ... are reported nowhere"
Reported == "Reported" \notin viol

\* "a Suspend barrier keeps the triggering code from proceeding until the test
\*  drops the reported handle"
SuspendHolds == "SuspendHolds" \notin viol

\* "... and lets it proceed right after" (at the source's next poll)
ResumesAfterDrop == "ResumesAfterDrop" \notin viol

\* "a Noop barrier never blocks it" / unmatched triggers "return immediately"
NeverBlocks == "NeverBlocks" \notin viol

\* "a Panic barrier panics the triggering code".  Tolerance: for a trigger issued while the triggering code is
\* already unwinding from a panic (a second panic there is a double panic) the outcome is left open.
PanicPanics == "PanicPanics" \notin viol

\* no other trigger panics (a panicking Noop / unmatched trigger does not
\* "return immediately" / "proceed")
NoSpuriousPanic == "SpuriousPanic" \notin viol

\* the progress counter moves only when a trigger call returns (observation
\* consistency: "does not proceed" is judged on this counter)
CounterConsistent == "Counter" \notin viol

PropInv == /\ Reported /\ SuspendHolds /\ ResumesAfterDrop /\ NeverBlocks
           /\ PanicPanics /\ NoSpuriousPanic /\ CounterConsistent
=============================================================================
