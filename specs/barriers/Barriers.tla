------------------------------ MODULE Barriers ------------------------------
(***************************************************************************)
(* ImplSpec of crates/turmoil/src/barriers.rs.                             *)
(*                                                                         *)
(* State, mirroring the Rust data:                                         *)
(*   registry  = BarrierRepo.barriers: Vec<BarrierState{id, condition,     *)
(*               reaction, to_test}> in insertion order                    *)
(*   chan[b]   = the unbounded mpsc channel of barrier b: Seq([t, waker])  *)
(*               (waker = the message carries Some(oneshot::Sender))       *)
(*   one[t]    = state of the oneshot of trigger t:                        *)
(*               "none" (no oneshot / sync path), "open", "sent" (Noop     *)
(*               pre-fires it; Triggered::drop sends), "closed" (the sender*)
(*               was dropped unsent: Barrier dropped with the message      *)
(*               still queued) - rx.await completes on "sent" and "closed" *)
(*   held      = Triggered handles the test holds: set of trigger ids      *)
(*   pc[s]     = where source s is: "idle" (between trigger calls),        *)
(*               "ready" (inside the call, next poll step returns),        *)
(*               "awaiting" (parked on rx.await), "panicking", "dead"      *)
(*   cur       = source being polled (the test thread runs iff cur = 0)    *)
(*                                                                         *)
(* One action per critical section:                                        *)
(*   Build        Barrier::build            (BarrierRepo::insert)          *)
(*   DropBarrier  Drop for Barrier          (BarrierRepo::drop + receiver  *)
(*                                           and queued wakers dropped)    *)
(*   Trigger      trigger(): lookup of the first matching registry entry,  *)
(*                reaction match, to_test.send    (barriers.rs:151-166)    *)
(*   TriggerNoop  trigger_noop()                  (barriers.rs:179-195)    *)
(*   Poll         the source is polled while parked on rx.await            *)
(*   Return       rx.await completed, the call returns                     *)
(*   Panicked     panic!("Injected panic ...") unwinds out of the poll     *)
(*   PollEnd      the source's poll returns Pending                        *)
(*   Wait         Barrier::wait polled once (from_src.recv)                *)
(*   DropHandle   Drop for Triggered (release.send)                        *)
(* The observation-level ghosts of BarriersProp are driven alongside.      *)
(***************************************************************************)
EXTENDS BarriersProp, TLC

CONSTANTS Reactions,    \* subset of {"Noop", "Suspend", "Panic"}
          Conds,        \* conditions a test may register (sets of values)
          TrigValues,   \* values sources may trigger with (0 = a value of a foreign type)
          SyncModes,    \* subset of BOOLEAN: FALSE = trigger().await, TRUE = trigger_noop()
          MaxBars,      \* bound: barriers built
          MaxTrig,      \* bound: trigger calls per source
          GuardValues   \* values a cleanup guard may trigger with while its source unwinds ({} = no guards)

NoGuard == 99
NoPrep  == 98

CONSTANT Prepare        \* BOOLEAN: sources may build `trigger(v)` futures ahead of time ("prepared triggers")

VARIABLES registry, chan, one, held, pc, cur, guard, prepared, last

ivars == <<registry, chan, one, held, pc, cur, guard, prepared>>
vars  == <<pvars, ivars, last>>

Init ==
    /\ PInit
    /\ registry = <<>>
    /\ chan = <<>>           \* indexed by barrier id (sequence grows with Build)
    /\ one = <<>>            \* indexed by trigger id
    /\ held = {}
    /\ pc = [s \in Srcs |-> "idle"]
    /\ cur = 0
    /\ guard = [s \in Srcs |-> NoGuard]
    /\ prepared = [s \in Srcs |-> NoPrep]     \* value of the trigger future source s has built but not polled
    /\ last = [ev |-> "init"]

NTrigBy(s) == Cardinality({t \in TrigIds : trigs[t].src = s})

\* BarrierRepo::barrier: first entry in Vec order whose condition accepts v
Lookup(v) ==
    LET idx == {k \in 1..Len(registry) : v \in registry[k].cond} IN
    IF idx = {} THEN 0 ELSE registry[MinOf(idx)].id

RegRx(b) == (CHOOSE k \in 1..Len(registry) : registry[k].id = b)

---------------------------------------------------------------------------
(* test-thread actions (cur = 0) *)

Build(rx, cond) ==
    /\ UNCHANGED <<guard, prepared>>
    /\ cur = 0 /\ Len(bars) < MaxBars
    /\ P_Build(rx, cond)
    /\ LET b == Len(bars) + 1 IN
       /\ registry' = Append(registry, [id |-> b, cond |-> cond, rx |-> rx])
       /\ chan' = Append(chan, <<>>)
       /\ last' = [ev |-> "build", b |-> b, reaction |-> rx, cond |-> cond]
    /\ UNCHANGED <<one, held, pc, cur>>

\* Drop for Barrier: unregister; the receiver goes away with every queued
\* message, so a queued Some(sender) is dropped unsent
DropBarrier(b) ==
    /\ UNCHANGED <<guard, prepared>>
    /\ cur = 0
    /\ P_DropBarrier(b)
    /\ registry' = SelectSeq(registry, LAMBDA e : e.id # b)
    /\ one' = [t \in 1..Len(one) |->
                 IF \E k \in 1..Len(chan[b]) : chan[b][k].t = t /\ chan[b][k].waker
                 THEN "closed" ELSE one[t]]
    /\ chan' = [chan EXCEPT ![b] = <<>>]
    /\ last' = [ev |-> "drop_barrier", b |-> b]
    /\ UNCHANGED <<held, pc, cur>>

\* Barrier::wait polled once
Wait(b) ==
    /\ UNCHANGED <<guard, prepared>>
    /\ cur = 0 /\ b \in BarIds /\ bars[b].live
    /\ IF chan[b] = <<>>
       THEN /\ P_Wait(b, 0)
            /\ last' = [ev |-> "wait", b |-> b, res |-> 0]
            /\ UNCHANGED <<chan, held>>
       ELSE LET m == Head(chan[b]) IN
            /\ P_Wait(b, m.t)
            /\ chan' = [chan EXCEPT ![b] = Tail(@)]
            /\ held' = held \cup {m.t}
            /\ last' = [ev |-> "wait", b |-> b, res |-> m.t]
    /\ UNCHANGED <<registry, one, pc, cur>>

\* Drop for Triggered: release.take().send(())
DropHandle(t) ==
    /\ UNCHANGED <<guard, prepared>>
    /\ cur = 0 /\ t \in held
    /\ P_DropHandle(t)
    /\ held' = held \ {t}
    /\ one' = [one EXCEPT ![t] = IF @ = "open" THEN "sent" ELSE @]
    /\ last' = [ev |-> "drop_handle", t |-> t]
    /\ UNCHANGED <<registry, chan, pc, cur>>

---------------------------------------------------------------------------
(* source actions *)

\* source s is polled and calls trigger(v).await
\* pf = the future was built earlier (Prepare) and is polled for the first time now.  `trigger` is an
\* `async fn`: building its future runs nothing, the whole body (lookup, reaction, send) runs at the first poll.
TriggerCore(s, v, g, pf) ==
    /\ guard' = [guard EXCEPT ![s] = g]
    /\ cur = 0 /\ pc[s] = "idle" /\ NTrigBy(s) < MaxTrig
    /\ P_Trig(s, v, FALSE, FALSE)
    /\ LET t == Len(trigs) + 1
           b == Lookup(v)
           rx == IF b = 0 THEN "None" ELSE registry[RegRx(b)].rx IN
       /\ CASE rx = "None" ->
                 /\ one' = Append(one, "none") /\ chan' = chan
                 /\ pc' = [pc EXCEPT ![s] = "ready"]
            [] rx = "Noop" ->
                 /\ one' = Append(one, "sent")
                 /\ chan' = [chan EXCEPT ![b] = Append(@, [t |-> t, waker |-> FALSE])]
                 /\ pc' = [pc EXCEPT ![s] = "ready"]
            [] rx = "Suspend" ->
                 /\ one' = Append(one, "open")
                 /\ chan' = [chan EXCEPT ![b] = Append(@, [t |-> t, waker |-> TRUE])]
                 /\ pc' = [pc EXCEPT ![s] = "awaiting"]
            [] rx = "Panic" ->
                 /\ one' = Append(one, "none") /\ chan' = chan
                 /\ pc' = [pc EXCEPT ![s] = "panicking"]
       /\ last' = [ev |-> "trig", src |-> s, v |-> v, sync |-> FALSE, t |-> t, g |-> g, unwind |-> FALSE, prepared |-> pf]
    /\ cur' = s
    /\ UNCHANGED <<registry, held>>

Trigger(s, v, g) == TriggerCore(s, v, g, FALSE) /\ UNCHANGED prepared

\* source s builds the future `trigger(v)` and keeps it (nothing of trigger's body runs)
PrepareTrigger(s, v) ==
    /\ Prepare /\ cur = 0 /\ pc[s] = "idle" /\ prepared[s] = NoPrep /\ NTrigBy(s) < MaxTrig
    /\ prepared' = [prepared EXCEPT ![s] = v]
    /\ cur' = s
    /\ last' = [ev |-> "prep", src |-> s, v |-> v]
    /\ UNCHANGED <<pvars, registry, chan, one, held, pc, guard>>

\* source s awaits the future it built earlier: this is the trigger call
TriggerPrepared(s) ==
    /\ prepared[s] # NoPrep
    /\ TriggerCore(s, prepared[s], NoGuard, TRUE)
    /\ prepared' = [prepared EXCEPT ![s] = NoPrep]

\* source s drops the future it built without ever polling it: no trigger happened
DropPrepared(s) ==
    /\ cur = 0 /\ pc[s] = "idle" /\ prepared[s] # NoPrep
    /\ prepared' = [prepared EXCEPT ![s] = NoPrep]
    /\ cur' = s
    /\ last' = [ev |-> "drop_prep", src |-> s]
    /\ UNCHANGED <<pvars, registry, chan, one, held, pc, guard>>

\* source s is polled and calls trigger_noop(v)
TriggerNoop(s, v, g) ==
    /\ UNCHANGED prepared
    /\ guard' = [guard EXCEPT ![s] = g]
    /\ cur = 0 /\ pc[s] = "idle" /\ NTrigBy(s) < MaxTrig
    /\ P_Trig(s, v, TRUE, FALSE)
    /\ LET t == Len(trigs) + 1
           b == Lookup(v)
           rx == IF b = 0 THEN "None" ELSE registry[RegRx(b)].rx IN
       /\ one' = Append(one, "none")
       /\ CASE rx = "None" ->
                 /\ chan' = chan /\ pc' = [pc EXCEPT ![s] = "ready"]
            [] rx = "Noop" ->
                 /\ chan' = [chan EXCEPT ![b] = Append(@, [t |-> t, waker |-> FALSE])]
                 /\ pc' = [pc EXCEPT ![s] = "ready"]
            [] rx \in {"Suspend", "Panic"} ->
                 /\ chan' = chan /\ pc' = [pc EXCEPT ![s] = "panicking"]
       /\ last' = [ev |-> "trig", src |-> s, v |-> v, sync |-> TRUE, t |-> t, g |-> g, unwind |-> FALSE, prepared |-> FALSE]
    /\ cur' = s
    /\ UNCHANGED <<registry, held>>

\* source s is polled while parked on rx.await
Poll(s) ==
    /\ UNCHANGED <<guard, prepared>>
    /\ cur = 0 /\ pc[s] = "awaiting"
    /\ cur' = s
    /\ pc' = [pc EXCEPT ![s] = IF one[open[s]] \in {"sent", "closed"} THEN "ready" ELSE @]
    /\ last' = [ev |-> "poll", src |-> s]
    /\ UNCHANGED <<pvars, registry, chan, one, held>>

Return(s) ==
    /\ UNCHANGED <<guard, prepared>>
    /\ cur = s /\ pc[s] = "ready"
    /\ P_Ret(s, progress[s] + 1)
    /\ pc' = [pc EXCEPT ![s] = "idle"]
    /\ last' = [ev |-> "ret", src |-> s, t |-> open[s], prog |-> progress[s] + 1]
    /\ UNCHANGED <<registry, chan, one, held, cur>>

\* the panic leaves the call; if the source holds a cleanup guard its destructor runs next
\* (still inside the poll), otherwise the source is gone
Panicked(s) ==
    /\ cur = s /\ pc[s] = "panicking"
    /\ P_Panicked(s)
    /\ IF guard[s] = NoGuard
       THEN pc' = [pc EXCEPT ![s] = "dead"] /\ cur' = 0
       ELSE pc' = [pc EXCEPT ![s] = "unwinding"] /\ cur' = s
    /\ last' = [ev |-> "panicked", src |-> s, t |-> open[s]]
    /\ UNCHANGED <<registry, chan, one, held, guard, prepared>>

\* Drop of the cleanup guard while the thread is unwinding: trigger_noop(guard value).
\* std::thread::panicking() is true here; the lookup is the same as on any other path.
UnwindTrigger(s) ==
    /\ cur = s /\ pc[s] = "unwinding"
    /\ P_Trig(s, guard[s], TRUE, TRUE)
    /\ LET t == Len(trigs) + 1
           b == Lookup(guard[s])
           rx == IF b = 0 THEN "None" ELSE registry[RegRx(b)].rx IN
       /\ one' = Append(one, "none")
       /\ CASE rx = "None" ->
                 /\ chan' = chan /\ pc' = [pc EXCEPT ![s] = "uready"]
            [] rx = "Noop" ->
                 /\ chan' = [chan EXCEPT ![b] = Append(@, [t |-> t, waker |-> FALSE])]
                 /\ pc' = [pc EXCEPT ![s] = "uready"]
            [] rx \in {"Suspend", "Panic"} ->
                 /\ chan' = chan /\ pc' = [pc EXCEPT ![s] = "upanicking"]
       /\ last' = [ev |-> "trig", src |-> s, v |-> guard[s], sync |-> TRUE, t |-> t, g |-> NoGuard, unwind |-> TRUE, prepared |-> FALSE]
    /\ UNCHANGED <<registry, held, cur, guard, prepared>>

\* the guard's trigger_noop returned (the guard bumps the counter); unwinding ends, the source is gone
UnwindReturn(s) ==
    /\ cur = s /\ pc[s] = "uready"
    /\ P_Ret(s, progress[s] + 1)
    /\ pc' = [pc EXCEPT ![s] = "dead"]
    /\ cur' = 0
    /\ last' = [ev |-> "ret", src |-> s, t |-> open[s], prog |-> progress[s] + 1]
    /\ UNCHANGED <<registry, chan, one, held, guard, prepared>>

\* the guard's trigger_noop panicked itself (caught inside the destructor); the source is gone
UnwindPanicked(s) ==
    /\ cur = s /\ pc[s] = "upanicking"
    /\ P_Panicked(s)
    /\ pc' = [pc EXCEPT ![s] = "dead"]
    /\ cur' = 0
    /\ last' = [ev |-> "panicked", src |-> s, t |-> open[s]]
    /\ UNCHANGED <<registry, chan, one, held, guard, prepared>>

PollEnd(s) ==
    /\ UNCHANGED <<guard, prepared>>
    /\ cur = s /\ pc[s] \in {"idle", "awaiting"}
    /\ P_PollEnd(s, progress[s])
    /\ cur' = 0
    /\ last' = [ev |-> "poll_end", src |-> s, prog |-> progress[s]]
    /\ UNCHANGED <<registry, chan, one, held, pc>>

---------------------------------------------------------------------------
BuildAny       == \E rx \in Reactions, c \in Conds : Build(rx, c)
DropBarrierAny == \E b \in BarIds : DropBarrier(b)
WaitAny        == \E b \in BarIds : Wait(b)
DropHandleAny  == \E t \in TrigIds : DropHandle(t)
Guards         == GuardValues \cup {NoGuard}
TriggerAny     == FALSE \in SyncModes /\ \E s \in Srcs, v \in TrigValues, g \in Guards : Trigger(s, v, g)
TriggerNoopAny == TRUE \in SyncModes /\ \E s \in Srcs, v \in TrigValues, g \in Guards : TriggerNoop(s, v, g)
PrepareAny     == \E s \in Srcs : (\E v \in TrigValues \ {0} : PrepareTrigger(s, v)) \/ TriggerPrepared(s) \/ DropPrepared(s)
UnwindAny      == \E s \in Srcs : UnwindTrigger(s) \/ UnwindReturn(s) \/ UnwindPanicked(s)
PollAny        == \E s \in Srcs : Poll(s)
ReturnAny      == \E s \in Srcs : Return(s)
PanickedAny    == \E s \in Srcs : Panicked(s)
PollEndAny     == \E s \in Srcs : PollEnd(s)

Next ==
    \/ BuildAny \/ DropBarrierAny \/ WaitAny \/ DropHandleAny
    \/ TriggerAny \/ TriggerNoopAny \/ PollAny
    \/ ReturnAny \/ PanickedAny \/ PollEndAny \/ UnwindAny \/ PrepareAny

Spec == Init /\ [][Next]_vars

---------------------------------------------------------------------------
(* Structural invariants of the implementation model *)
TypeOK ==
    /\ cur \in 0..NSrc
    /\ Len(chan) = Len(bars) /\ Len(one) = Len(trigs)
    /\ \A s \in Srcs : pc[s] \in {"idle", "ready", "awaiting", "panicking", "dead", "unwinding", "uready", "upanicking"}
    /\ \A k \in 1..Len(registry) : registry[k].id \in BarIds /\ bars[registry[k].id].live

\* the registry is the live barriers in creation order; the code's lookup
\* designates the barrier the statement designates
RegistryAgrees ==
    /\ \A j, k \in 1..Len(registry) : j < k => registry[j].id < registry[k].id
    /\ {registry[k].id : k \in 1..Len(registry)} = {b \in BarIds : bars[b].live}
    /\ \A v \in TrigValues : Lookup(v) = Earliest(v)

\* an open oneshot has its sender either queued in a live channel or inside a
\* Triggered handle the test holds (nothing else can release the source)
SenderSomewhere ==
    \A t \in TrigIds : one[t] = "open" =>
        \/ t \in held
        \/ \E b \in BarIds : \E k \in 1..Len(chan[b]) : chan[b][k].t = t /\ chan[b][k].waker

\* a source parked on rx.await is inside an async call on a Suspend barrier
ParkedOnlyOnSuspend ==
    \A s \in Srcs : (pc[s] = "awaiting" /\ cur # s) =>
        open[s] # 0 /\ trigs[open[s]].rx = "Suspend" /\ ~trigs[open[s]].sync

ImplInv == TypeOK /\ RegistryAgrees /\ SenderSomewhere /\ ParkedOnlyOnSuspend

View == <<pvars, ivars>>
=============================================================================
