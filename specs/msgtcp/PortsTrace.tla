----------------------------- MODULE PortsTrace -----------------------------
(* Fidelity-level trace validation for C15: the recorded events must be a    *)
(* behaviour of the ImplSpec Ports (same call, same result, and after every  *)
(* call the hook snapshot of the host tables equals the model's tables).     *)
EXTENDS Ports, Json, IOUtils

Rec == ndJsonDeserialize(IOEnv.TRACE)

VARIABLE l
E == Rec[l]
Is(e) == l <= Len(Rec) /\ Rec[l].ev = e /\ l' = l + 1
SetOf(q) == {q[k] : k \in 1..Len(q)}

TInit == Init /\ l = 1

TReset ==
    /\ Is("reset") /\ P_PortsReset
    /\ cursor' = Lo /\ udpB' = {} /\ tcpB' = {}
    /\ ent' = [s \in Slots |-> NoEnt] /\ leaked' = {} /\ names' = <<>> /\ anyl' = {} /\ crashed' = {}
    /\ nops' = 0 /\ nin' = 0 /\ last' = [a |-> "init"]

\* the handle ids are chosen by the harness: the lowest-free-slot rule is not imposed
TBind ==
    /\ Is("bind")
    /\ IF E.proto = "udp" THEN BindUdp(E.s, E.p, E.kind) ELSE BindTcp(E.s, E.p, E.kind)
    /\ last'.res = E.res
TConnect == Is("connect") /\ Connect(E.s, E.how) /\ last'.res = E.res
TAccept  == Is("accept") /\ AcceptIn(E.s, E.l) /\ last'.res = E.res
TTables ==
    /\ Is("tables")
    /\ cursor = E.cur /\ udpB = SetOf(E.udp) /\ tcpB = SetOf(E.tcp) /\ EntPorts = SetOf(E.str)
    /\ UNCHANGED vars

TNext ==
    \/ TReset
    \/ TBind \/ TConnect \/ TAccept
    \/ Is("drop") /\ Drop(E.s)
    \/ Is("drop_half") /\ DropHalf(E.s, E.h)
    \/ Is("crash") /\ Crash
    \/ Is("lookup") /\ Lookup(E.n) /\ last'.res = E.res
    \/ Is("reverse") /\ Reverse(E.k) /\ last'.res = E.res
    \/ Is("literal") /\ Literal(0) /\ E.same
    \/ Is("regex") /\ Regex(SetOf(E.m)) /\ last'.res = E.res
    \/ TTables

TSpec == TInit /\ [][TNext]_<<vars, l>>

Accepted ==
    LET d == TLCGet("stats").diameter IN
    IF d - 1 = Len(Rec) THEN TRUE
    ELSE Print(<<"UNMATCHED", d, ToJson(Rec[d])>>, FALSE)
=============================================================================
