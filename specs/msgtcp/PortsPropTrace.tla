--------------------------- MODULE PortsPropTrace ---------------------------
(* Verdict-level trace validation for C15: the observations recorded from    *)
(* the real code (results of bind / connect / accept, drops, crashes, DNS    *)
(* answers) are replayed through the P_* actions of PortsProp alone; C15Inv  *)
(* is evaluated in every state.  Hook snapshots are skipped.                 *)
EXTENDS PortsProp, Json, IOUtils, TLC

Rec == ndJsonDeserialize(IOEnv.TRACE)

VARIABLE l
E == Rec[l]
Is(e) == l <= Len(Rec) /\ Rec[l].ev = e /\ l' = l + 1
SetOf(q) == {q[k] : k \in 1..Len(q)}

TInit == PPInit /\ l = 1

TNext ==
    \/ Is("reset") /\ P_PortsReset
    \/ Is("bind") /\ P_Bind(E.proto, E.s, E.p, E.res)
    \/ Is("connect") /\ (IF E.how = "hang" THEN P_ConnectPending(E.s, E.res) ELSE P_Connect(E.s, E.res))
    \/ Is("accept") /\ P_Accept(E.s, E.l, E.res)
    \/ Is("drop") /\ P_Drop(E.s)
    \/ Is("drop_half") /\ P_DropHalf(E.s, E.h)
    \/ Is("crash") /\ P_Crash
    \/ Is("lookup") /\ P_Lookup(E.n, E.res)
    \/ Is("reverse") /\ P_Reverse(E.k, E.res)
    \/ Is("literal") /\ P_Literal(E.same)
    \/ Is("regex") /\ P_Regex(SetOf(E.m), E.res)
    \/ Is("tables") /\ UNCHANGED ppvars

TSpec == TInit /\ [][TNext]_<<ppvars, l>>

Accepted ==
    LET d == TLCGet("stats").diameter IN
    IF d - 1 = Len(Rec) THEN TRUE
    ELSE Print(<<"UNMATCHED", d, ToJson(Rec[d])>>, FALSE)
=============================================================================
