----------------------------- MODULE PortsProp -----------------------------
(***************************************************************************)
(* PropSpec for C15: "ports and simulated addresses are never handed out   *)
(* twice while in use".                                                    *)
(*                                                                         *)
(* Only what the statement talks about: the sockets the application holds  *)
(* (slot = the harness' handle id), the local port every bind / connect /  *)
(* accept returned (local_addr), the error kinds, drops and crashes; and   *)
(* for DNS the answers of lookup / reverse_lookup / lookup_many.  No       *)
(* cursor, no tables.  Violated clauses are collected in `bad`.            *)
(*                                                                         *)
(* Used three ways: Ports.tla (ImplSpec) extends it and drives the P_*     *)
(* actions as ghosts; PortsPropTrace.tla replays recorded observations     *)
(* through P_* alone (verdict); PortsTrace.tla replays them through Ports. *)
(***************************************************************************)
EXTENDS Naturals, Integers, Sequences, FiniteSets

CONSTANTS Lo, Hi,        \* the configured ephemeral range Lo..Hi
          MaxSock        \* number of socket handles (slots) the application may hold

Range == Lo..Hi
Slots == 1..MaxSock

\* outcome codes carried in the `port` field of observations
AddrInUse == -1          \* io::ErrorKind::AddrInUse
Exhausted == -2          \* documented panic "ports exhausted"
Failed    == -3          \* connect failed / was cancelled (no socket results)

NoSock == [kind |-> "none", port |-> 0, r |-> FALSE, w |-> FALSE]

VARIABLES
    socks,    \* [Slots -> [kind, port, r, w]]  kind: none | udp | lst | out | in
              \*   port = local_addr().port(); r / w = read / write half (or the socket) still held
    bad,      \* set of violated clause names (empty = property holds so far)
    dns,      \* set of <<name, addr>> pairs observed through lookup (names, addrs are naturals)
    nlook     \* number of DNS observations (bound only)

ppvars == <<socks, bad, dns, nlook>>

PPInit ==
    /\ socks = [s \in Slots |-> NoSock]
    /\ bad = {}
    /\ dns = {}
    /\ nlook = 0

Live(s)   == socks[s].kind # "none"
\* "currently bound by a UDP socket or TCP listener, or used by a live TCP stream"
UdpPorts  == {socks[s].port : s \in {x \in Slots : socks[x].kind = "udp"}}
LstPorts  == {socks[s].port : s \in {x \in Slots : socks[x].kind = "lst"}}
StrPorts  == {socks[s].port : s \in {x \in Slots : socks[x].kind \in {"out", "in", "att"}}}
InUse     == UdpPorts \cup LstPorts \cup StrPorts

Flag(cond, name) == IF cond THEN {} ELSE {name}

---------------------------------------------------------------------------
(* Observation actions.  s = slot, p = requested port (0 = ephemeral),     *)
(* res = port returned (> 0) or one of the outcome codes.                  *)

\* clause FreshPort : an ephemeral port lies in the range and is not in use
\* clause Available : "ports exhausted" only when every port of the range is in use
\*                    (a port is allocatable again after drop / crash)
EphemeralOk(res) ==
    Flag(res > 0 => (res \in Range /\ res \notin InUse), "FreshPort")
    \cup Flag(res = Exhausted => Range \subseteq InUse, "Available")
    \cup Flag(res # AddrInUse /\ res # Failed, "BindOracle")

\* clause BindOracle : explicit bind fails with AddrInUse iff bound in the same protocol
ExplicitOk(p, res, same) ==
    Flag(IF p \in same THEN res = AddrInUse ELSE res = p, "BindOracle")

P_Bind(proto, s, p, res) ==
    /\ ~Live(s)
    /\ LET same == IF proto = "udp" THEN UdpPorts ELSE LstPorts
           kind == IF proto = "udp" THEN "udp" ELSE "lst" IN
       /\ bad' = bad \cup (IF p = 0 THEN EphemeralOk(res) ELSE ExplicitOk(p, res, same))
       /\ socks' = IF res > 0
                   THEN [socks EXCEPT ![s] = [kind |-> kind, port |-> res, r |-> TRUE, w |-> TRUE]]
                   ELSE socks
    /\ UNCHANGED <<dns, nlook>>

\* an outgoing connect: res = local port of the stream on success, Failed when the
\* attempt was refused / had no route / was cancelled (no socket remains), Exhausted.
P_Connect(s, res) ==
    /\ ~Live(s)
    /\ bad' = bad \cup (IF res = Failed THEN {} ELSE EphemeralOk(res))
    /\ socks' = IF res > 0
                THEN [socks EXCEPT ![s] = [kind |-> "out", port |-> res, r |-> TRUE, w |-> TRUE]]
                ELSE socks
    /\ UNCHANGED <<dns, nlook>>

\* an outgoing connect that is still pending (its request waits at a listener that does not accept):
\* it holds the ephemeral port it was assigned (res = source port of its SYN as Sim::links shows it)
\* until the future is dropped or the host crashes
P_ConnectPending(s, res) ==
    /\ ~Live(s)
    /\ bad' = bad \cup EphemeralOk(res)
    /\ socks' = IF res > 0
                THEN [socks EXCEPT ![s] = [kind |-> "att", port |-> res, r |-> TRUE, w |-> TRUE]]
                ELSE socks
    /\ UNCHANGED <<dns, nlook>>

\* an accepted stream on listener slot l; its local port is the listener's
P_Accept(s, l, res) ==
    /\ ~Live(s) /\ socks[l].kind = "lst"
    /\ socks' = [socks EXCEPT ![s] = [kind |-> "in", port |-> res, r |-> TRUE, w |-> TRUE]]
    /\ UNCHANGED <<bad, dns, nlook>>

P_Drop(s) ==
    /\ Live(s)
    /\ socks' = [socks EXCEPT ![s] = NoSock]
    /\ UNCHANGED <<bad, dns, nlook>>

\* one owned half of a stream is dropped; the stream is gone when both are
P_DropHalf(s, h) ==
    /\ socks[s].kind \in {"out", "in"}
    /\ LET n == IF h = "r" THEN [socks[s] EXCEPT !.r = FALSE] ELSE [socks[s] EXCEPT !.w = FALSE] IN
       socks' = [socks EXCEPT ![s] = IF n.r \/ n.w THEN n ELSE NoSock]
    /\ UNCHANGED <<bad, dns, nlook>>

P_Crash ==
    /\ socks' = [s \in Slots |-> NoSock]
    /\ UNCHANGED <<bad, dns, nlook>>

---------------------------------------------------------------------------
(* DNS.  Names and addresses are naturals: a name is an index into the     *)
(* harness' name universe, an address is its offset inside the simulated   *)
(* subnet (192.168.0.0/16 or fe80::/64), -1 if it lies outside.            *)

Names(d)  == {x[1] : x \in d}
Addrs(d)  == {x[2] : x \in d}
AddrOf(d, n) == CHOOSE a \in Addrs(d) : <<n, a>> \in d

\* clause DnsFunction : the same name always maps to the same address
\* clause DnsInjective: different names map to different addresses (inside the subnet)
P_Lookup(n, a) ==
    /\ bad' = bad \cup
         (IF n \in Names(dns) THEN Flag(<<n, a>> \in dns, "DnsFunction")
          ELSE Flag(a \notin Addrs(dns) /\ a >= 0, "DnsInjective"))
    /\ dns' = dns \cup {<<n, a>>}
    /\ nlook' = nlook + 1
    /\ UNCHANGED socks

\* clause DnsReverse : reverse lookup inverts the mapping; found = 0 means None
P_Reverse(a, found) ==
    /\ bad' = bad \cup Flag(IF a \in Addrs(dns) THEN found # 0 /\ <<found, a>> \in dns ELSE found = 0,
                            "DnsReverse")
    /\ nlook' = nlook + 1
    /\ UNCHANGED <<socks, dns>>

\* clause DnsLiteral : a literal address passes through (and registers nothing);
\* same = the harness compared the returned address with the literal it passed
P_Literal(same) ==
    /\ bad' = bad \cup Flag(same, "DnsLiteral")
    /\ nlook' = nlook + 1
    /\ UNCHANGED <<socks, dns>>

\* clause DnsRegex : a regex lookup returns exactly the registered names it matches;
\* match = names of the universe the pattern matches, res = sequence of addresses returned
P_Regex(match, res) ==
    /\ bad' = bad \cup Flag(/\ {res[k] : k \in 1..Len(res)} = {AddrOf(dns, n) : n \in Names(dns) \cap match}
                            /\ Len(res) = Cardinality(Names(dns) \cap match), "DnsRegex")
    /\ nlook' = nlook + 1
    /\ UNCHANGED <<socks, dns>>

\* start of a new recorded run (trace validation only)
P_PortsReset ==
    /\ socks' = [s \in Slots |-> NoSock]
    /\ bad' = bad          \* violations are sticky across runs of one trace file
    /\ dns' = {}
    /\ nlook' = 0

---------------------------------------------------------------------------
(* The property: one invariant per clause of the statement *)

\* "An ephemeral port assigned by binding to port 0 or by an outgoing TCP connect is never equal
\*  to a port currently bound by a UDP socket or TCP listener, or used by a live TCP stream"
FreshPort    == "FreshPort" \notin bad
\* "binding a port that is in use fails with AddrInUse" (per protocol, as the quantifier says)
BindOracle   == "BindOracle" \notin bad
\* "a port becomes available again once its socket is dropped or its host crashes"
Available    == "Available" \notin bad
\* "the same name always maps to the same address"
DnsFunction  == "DnsFunction" \notin bad
\* "different names to different addresses" (distinct addresses in the simulated subnet)
DnsInjective == "DnsInjective" \notin bad
\* "reverse lookup inverts the mapping"
DnsReverse   == "DnsReverse" \notin bad
\* literal addresses pass through; regex lookup returns exactly the matching names
DnsLiteral   == "DnsLiteral" \notin bad
DnsRegex     == "DnsRegex" \notin bad

\* two live sockets of one protocol never share a port, and two live outgoing
\* streams never share a local port (consequence of FreshPort + BindOracle)
NoDoubleUse ==
    \A s, t \in Slots : (s # t /\ Live(s) /\ Live(t) /\ socks[s].port = socks[t].port) =>
        /\ ~(socks[s].kind = socks[t].kind /\ socks[s].kind \in {"udp", "lst", "out"})
        /\ ~({socks[s].kind, socks[t].kind} = {"out", "att"}) /\ ~(socks[s].kind = "att" /\ socks[t].kind = "att")

C15Inv == /\ FreshPort /\ BindOracle /\ Available /\ NoDoubleUse
          /\ DnsFunction /\ DnsInjective /\ DnsReverse /\ DnsLiteral /\ DnsRegex
=============================================================================
