----------------------------- MODULE MsgTcpGen -----------------------------
(* Behaviour generation for spec -> code replay: MsgTcp plus a history       *)
(* variable.  Every entry carries the action with the result TLC predicts,   *)
(* the wire (what Sim::links must show, in queue order) and the number of    *)
(* stream entries per host (what established_tcp_stream_count must report).  *)
(* With EmitAll = TRUE and VIEW GenView: one line per distinct (state, last  *)
(* action); the check replays the leaves of that prefix tree.  With          *)
(* EmitAll = FALSE (used with -simulate): one line per walk of MaxAct steps. *)
EXTENDS MsgTcp, Json

CONSTANT EmitAll
VARIABLE hist

WireOf(w) == [i \in 1..Len(w) |-> [c |-> w[i].c, to |-> w[i].to, kind |-> w[i].kind, seq |-> w[i].seq]]
Entry == [op |-> last', wire |-> WireOf(wire'), cnt |-> [h \in Hosts |-> EntCount(h)']]

GenInit == Init /\ hist = <<>>
GenNext == Next /\ hist' = Append(hist, Entry)
GenSpec == GenInit /\ [][GenNext]_<<vars, hist>>

Done == nact = MaxAct
Emit == ((EmitAll /\ nact > 0) \/ Done) => PrintT(<<"REPLAY", ToJson(hist)>>)
GenView == <<mpvars, mivars, last>>
=============================================================================
