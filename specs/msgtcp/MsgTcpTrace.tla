---------------------------- MODULE MsgTcpTrace ----------------------------
(* Fidelity-level trace validation for C02 / C12: the recorded events        *)
(* (application calls with their results, deliveries of SYN / data / FIN /   *)
(* RST segments in the order the hosts received them, controller calls,      *)
(* per-host stream-entry counts) must be a behaviour of the ImplSpec MsgTcp  *)
(* with the same results; ImplInv and the clause invariants are evaluated    *)
(* in every state.                                                           *)
EXTENDS MsgTcp, Json, IOUtils

Rec == ndJsonDeserialize(IOEnv.TRACE)

VARIABLE l
E == Rec[l]
Is(e) == l <= Len(Rec) /\ Rec[l].ev = e /\ l' = l + 1
SetOf(q) == {q[k] : k \in 1..Len(q)}
Pairs(q) == {<<q[k][1], q[k][2]>> : k \in 1..Len(q)}
Same == UNCHANGED vars

TInit == Init /\ l = 1

TReset ==
    /\ Is("reset") /\ P_MsgReset
    /\ side' = [k \in CS |-> NoSide] /\ cred' = [k \in CS |-> Cap]
    /\ fut' = [c \in Conns |-> "none"] /\ osh' = [c \in Conns |-> "none"]
    /\ lq' = [p \in PortIds |-> NoLq] /\ wire' = <<>> /\ part' = [h \in Hosts |-> "none"]
    /\ cport' = [c \in Conns |-> 0] /\ ecur' = [h \in Hosts |-> 1]
    /\ nact' = 0 /\ nwr' = [k \in CS |-> 0] /\ last' = [a |-> "init"]

\* a delivery names the segment; data segments are matched by payload when no sequence number was recorded
Matches(m) == /\ m.c = E.c /\ m.to = E.to /\ m.kind = E.kind
              /\ (E.kind \in {"data", "fin"} => (IF E.seq > 0 THEN m.seq = E.seq ELSE (E.kind = "data" => m.data = E.data)))
TDeliver ==
    /\ Is("deliver")
    /\ \E i \in 1..Len(wire) :
          /\ Matches(wire[i]) /\ \A j \in 1..(i - 1) : ~Matches(wire[j])
          /\ CASE E.kind = "syn" -> DeliverSyn(i)
               [] E.kind = "rst" -> DeliverRst(i)
               [] OTHER -> DeliverSeg(i)

How(d) == IF <<E.dirs[1][1], E.dirs[1][2]>> \in d /\ Len(E.dirs) = 2 THEN "both"
          ELSE IF E.dirs[1][2] = SH THEN "c2s" ELSE "s2c"
LinkHost == IF E.dirs[1][1] = SH THEN E.dirs[1][2] ELSE E.dirs[1][1]

\* events of a connection the harness could not attribute match no action: drift
OkC == l <= Len(Rec) /\ (("c" \in DOMAIN Rec[l]) => (Rec[l].c \in Conns \/ Rec[l].ev = "accept"))

TBody ==
    \/ TReset
    \/ Is("step") /\ (IF \E c \in Conns : att[c].must /\ ~att[c].late /\ att[c].st = "pending" THEN Tick ELSE Same)
    \/ Is("quiet") /\ (IF quiet THEN Same ELSE Quiet)
    \/ Is("partition") /\ Partition(LinkHost, How(Pairs(E.dirs)))
    \/ Is("repair") /\ (IF part[LinkHost] # "none" THEN Repair(LinkHost)
                         ELSE P_Repair(Pairs(E.dirs)) /\ UNCHANGED <<mivars, last>>)
    \/ Is("syn_arrive") /\ Same
    \/ Is("accept_parked") /\ Same
    \/ Is("bind") /\ Bind(E.p, E.kind) /\ last'.res = E.res
    \/ Is("drop_listener") /\ DropListener(E.p)
    \/ Is("connect") /\ Connect(E.c, E.h, E.dp, IF E.dh = 0 THEN "none" ELSE "srv", E.lo) /\ last'.res = E.res
    \/ Is("poll") /\ Poll(E.c) /\ last'.res = E.res
    \/ Is("cancel") /\ Cancel(E.c)
    \/ Is("accept") /\ Accept(E.p) /\ last'.res = E.res /\ last'.c = E.c
    \/ Is("write") /\ E.len > 0 /\ Write(E.c, E.s, E.len) /\ last'.res = E.res /\ (E.res = "ok" => last'.data = E.data)
    \/ Is("write") /\ E.len = 0 /\ Write0(E.c, E.s, IF E.via = 1 THEN "try" ELSE "poll") /\ last'.res = E.res
    \/ Is("shutdown") /\ Shutdown(E.c, E.s) /\ last'.res = E.res
    \/ Is("read") /\ ReadLike(E.c, E.s, E.n, FALSE) /\ In("read") /\ last'.res = E.res /\ last'.got = E.got
    \/ Is("peek") /\ ReadLike(E.c, E.s, E.n, TRUE) /\ In("peek") /\ last'.res = E.res /\ last'.got = E.got
    \/ Is("drop_half") /\ (IF E.h = "r" THEN DropRead(E.c, E.s) ELSE DropWrite(E.c, E.s))
    \/ Is("drop_stream") /\ DropStream(E.c, E.s)
    \/ Is("count") /\ EntCount(E.h) = E.n /\ Same
    \/ TDeliver
    \/ Is("panic") /\ P_Flag("NoPanic") /\ UNCHANGED <<mivars, last>>
    \/ Is("overdue") /\ P_Overdue(SetOf(E.cs)) /\ UNCHANGED <<mivars, last>>

TNext == OkC /\ TBody

TSpec == TInit /\ [][TNext]_<<vars, l>>

Accepted ==
    LET d == TLCGet("stats").diameter IN
    IF d - 1 = Len(Rec) THEN TRUE
    ELSE Print(<<"UNMATCHED", d, ToJson(Rec[d])>>, FALSE)
=============================================================================
