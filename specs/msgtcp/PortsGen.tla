------------------------------ MODULE PortsGen ------------------------------
(* Behaviour generation for spec -> code replay: Ports plus a history        *)
(* variable.  Every entry carries the result and the post-state tables TLC   *)
(* predicts.  With EmitAll = FALSE one line per complete history (all action *)
(* sequences of length MaxOps); with EmitAll = TRUE and VIEW GenView one     *)
(* line per distinct (state, last action) - the check keeps the leaves of    *)
(* that tree, which covers every reachable state and labelled transition     *)
(* target by a shortest history.                                             *)
EXTENDS Ports, Json

CONSTANT EmitAll
VARIABLE hist

Entry == [op |-> last', cur |-> cursor', udp |-> udpB', tcp |-> tcpB', str |-> EntPorts']

GenInit == Init /\ hist = <<>>
GenNext == Next /\ hist' = Append(hist, Entry)
GenSpec == GenInit /\ [][GenNext]_<<vars, hist>>

Done == nops = MaxOps
Emit == ((EmitAll /\ nops > 0) \/ Done) => PrintT(<<"REPLAY", ToJson(hist)>>)
GenView == <<ppvars, ivars, last>>
=============================================================================
