---------------------------- MODULE MsgTcpProp ----------------------------
(***************************************************************************)
(* PropSpec for turmoil::net message-level TCP:                            *)
(*   C02  intact, ordered byte stream and then EOF                         *)
(*   C12  every connect is paired with exactly one accept, or refused      *)
(*                                                                         *)
(* Only what the statements talk about: the calls the applications made    *)
(* (bind, connect, accept, write, read, peek, shutdown, drops of halves /  *)
(* streams / listeners / connect futures), what they returned, the         *)
(* partition / repair calls of the test, which connection requests the     *)
(* test saw arrive at their destination host, the established-stream       *)
(* counts the API reports, and "quiet" = the test inspected Sim::links     *)
(* after a complete step and nothing was in flight.  No sequence numbers,  *)
(* credits, reorder buffers or table entries.                              *)
(*                                                                         *)
(* Connection attempts are numbered c (the connector's nonce).  Side 1 is  *)
(* the connector's end, side 2 the acceptor's end.  Direction d = the side *)
(* that writes it: bytes of direction d are written by side d and read by  *)
(* side 3 - d.  Violated clauses are collected in `bad`.                   *)
(***************************************************************************)
EXTENDS Naturals, Integers, Sequences, FiniteSets

CONSTANTS MaxConn,     \* connection attempts are numbered 1..MaxConn
          NH,          \* hosts are numbered 1..NH
          PortIds      \* listener ports (small naturals)

Conns == 1..MaxConn
Hosts == 1..NH
Sides == {1, 2}
CS    == Conns \X Sides
HP    == Hosts \X PortIds            \* listener keys <<host, port>>
HH    == {x \in Hosts \X Hosts : x[1] # x[2]}

Other(s) == 3 - s

VARIABLES
    att,       \* [Conns -> attempt record], see NoAtt
    lsn,       \* [HP -> [bound, kind, arr]]  arr = requests that arrived, in arrival order
    addr,      \* [CS -> [local, peer]]  addresses reported by the stream of that end ("" unknown)
    acc,       \* [CS -> Seq(byte)]  bytes accepted by the writes of side s on connection c
    rd,        \* [CS -> Seq(byte)]  bytes returned by the reads of direction s (read by side 3-s)
    eof,       \* [CS -> BOOLEAN]    the reader of direction s saw end-of-file
    wclosed,   \* [CS -> BOOLEAN]    side s shut down or dropped its write half
    hv,        \* [CS -> [ex, r, w]] end exists / read half held / write half held
    aborted,   \* [Conns -> BOOLEAN] an abortive close happened (delivery half waived)
    tainted,   \* [Conns -> BOOLEAN] a partition touched the connection (delivery half waived)
    quiet,     \* BOOLEAN  nothing in flight when last inspected, and nothing sent since
    expl,      \* [HH -> BOOLEAN]  direction explicitly partitioned (changed only by partition / repair calls)
    bad        \* set of violated clause names

mpvars == <<att, lsn, addr, acc, rd, eof, wclosed, hv, aborted, tainted, quiet, expl, bad>>

\* st: none | pending | ok | refused | cancelled;  h -> (dh, dp): source host, destination;
\* must: a refusal case of the statement applies;  late: a full step has passed since then;
\* arrived: the request reached the destination host;  accd: an accept returned a stream for it
NoAtt == [st |-> "none", h |-> 0, dh |-> 0, dp |-> 0, lo |-> FALSE,
          must |-> FALSE, late |-> FALSE, arrived |-> FALSE, accd |-> FALSE]
NoLsn == [bound |-> FALSE, kind |-> "any", arr |-> <<>>]
NoHv  == [ex |-> FALSE, r |-> FALSE, w |-> FALSE]
Held  == [ex |-> TRUE, r |-> TRUE, w |-> TRUE]

MPInit ==
    /\ att = [c \in Conns |-> NoAtt]
    /\ lsn = [k \in HP |-> NoLsn]
    /\ addr = [k \in CS |-> [local |-> "", peer |-> ""]]
    /\ acc = [k \in CS |-> <<>>]
    /\ rd = [k \in CS |-> <<>>]
    /\ eof = [k \in CS |-> FALSE]
    /\ wclosed = [k \in CS |-> FALSE]
    /\ hv = [k \in CS |-> NoHv]
    /\ aborted = [c \in Conns |-> FALSE]
    /\ tainted = [c \in Conns |-> FALSE]
    /\ quiet = FALSE
    /\ expl = [x \in HH |-> FALSE]
    /\ bad = {}

Flag(cond, name) == IF cond THEN {} ELSE {name}

IsPrefix(p, q) == Len(p) <= Len(q) /\ \A i \in 1..Len(p) : p[i] = q[i]
Rest(k) == SubSeq(acc[k], Len(rd[k]) + 1, Len(acc[k]))     \* accepted, not yet read

\* the delivery half is required only for gracefully closed connections on a link no partition touched
Clean(c) == ~aborted[c] /\ ~tainted[c]
\* something is still owed to the reader of direction k
Owed(k) == rd[k] # acc[k] \/ (wclosed[k] /\ ~eof[k])
\* a listener accepted attempt c, but its connector gave up before its connect completed:
\* the accepted stream has no successful connect to be paired with
Orphaned(c) == att[c].st = "cancelled" /\ att[c].accd /\ ~tainted[c]

Explicit(a, b) == a # b /\ a \in Hosts /\ b \in Hosts /\ expl[<<a, b>>]

\* A connector on the listener's own host (by its address or through 127.0.0.1 / ::1) reaches it
\* without a link: the test cannot see the request arrive (nothing shows in Sim::links), so the
\* clauses that need the arrival (refusal case (a), accept order) are not asserted for it.
SameHost(a) == a.h = a.dh

\* does a listener bound with `kind` take a request of this attempt?
\* ("lo" = bound to 127.0.0.1 / ::1: only requests addressed to the loopback address)
Match(kind, a) == kind = "any" \/ a.lo

---------------------------------------------------------------------------
(* Observation actions of the test controller *)

\* a Sim::step completed: refusals that were due before it must be visible at the next poll
P_Step ==
    /\ att' = [c \in Conns |-> IF att[c].must THEN [att[c] EXCEPT !.late = TRUE] ELSE att[c]]
    /\ UNCHANGED <<lsn, addr, acc, rd, eof, wclosed, hv, aborted, tainted, quiet, expl, bad>>

\* Sim::links showed nothing in flight after a complete step
P_Quiet == quiet' = TRUE
           /\ UNCHANGED <<att, lsn, addr, acc, rd, eof, wclosed, hv, aborted, tainted, expl, bad>>

\* partition / partition_oneway: dirs = the directed host pairs <<a, b>> that become explicitly
\* partitioned.  doomed = attempts whose request was still in flight in one of these directions
\* according to Sim::links when the call was made (refusal case (c)).
P_Partition(dirs, doomed) ==
    /\ expl' = [x \in HH |-> expl[x] \/ x \in dirs]
    /\ att' = [c \in Conns |-> IF c \in doomed /\ att[c].st = "pending" /\ ~att[c].must
                               THEN [att[c] EXCEPT !.must = TRUE] ELSE att[c]]
    /\ tainted' = [c \in Conns |-> tainted[c] \/ (att[c].st # "none" /\
                        (<<att[c].h, att[c].dh>> \in dirs \/ <<att[c].dh, att[c].h>> \in dirs))]
    /\ quiet' = FALSE
    /\ UNCHANGED <<lsn, addr, acc, rd, eof, wclosed, hv, aborted, bad>>

P_Repair(dirs) ==
    /\ expl' = [x \in HH |-> expl[x] /\ x \notin dirs]
    /\ UNCHANGED <<att, lsn, addr, acc, rd, eof, wclosed, hv, aborted, tainted, quiet, bad>>

\* the connection request of attempt c was handed to its destination host
P_SynArrive(c) ==
    /\ att[c].st # "none" /\ ~att[c].arrived
    /\ LET a == att[c]  k == <<a.dh, a.dp>>
           taken == k \in HP /\ lsn[k].bound /\ Match(lsn[k].kind, a) IN
       /\ lsn' = IF taken THEN [lsn EXCEPT ![k].arr = Append(@, c)] ELSE lsn
       \* refusal case (a): no matching listener bound when the request reaches the host
       /\ att' = [att EXCEPT ![c] = [@ EXCEPT !.arrived = TRUE, !.must = @ \/ ~taken]]
    /\ UNCHANGED <<addr, acc, rd, eof, wclosed, hv, aborted, tainted, quiet, expl, bad>>

---------------------------------------------------------------------------
(* Listener and connection calls *)

\* TcpListener::bind returned Ok on host h, port p (kind "any" = wildcard, "lo" = localhost)
P_Bind(h, p, kind) ==
    /\ lsn' = [lsn EXCEPT ![<<h, p>>] = [bound |-> TRUE, kind |-> kind, arr |-> <<>>]]
    /\ UNCHANGED <<att, addr, acc, rd, eof, wclosed, hv, aborted, tainted, quiet, expl, bad>>

\* refusal case (b): the listener is dropped while requests are queued
RefuseQueued(k) ==
    [c \in Conns |->
        IF /\ \E i \in 1..Len(lsn[k].arr) : lsn[k].arr[i] = c
           /\ ~att[c].accd /\ att[c].st = "pending" /\ ~att[c].must
        THEN [att[c] EXCEPT !.must = TRUE] ELSE att[c]]

P_DropListener(h, p) ==
    /\ att' = RefuseQueued(<<h, p>>)
    /\ lsn' = [lsn EXCEPT ![<<h, p>>] = NoLsn]
    /\ UNCHANGED <<addr, acc, rd, eof, wclosed, hv, aborted, tainted, quiet, expl, bad>>

\* TcpStream::connect from host h to (dh, dp) was started and polled once.
\* dh = 0: no host owns the address.  lo: addressed to the loopback address.
\* res: "pending" | "refused" | "ok"
P_Connect(c, h, dh, dp, lo, res) ==
    /\ att[c].st = "none"
    /\ LET must0 == dh = 0 \/ Explicit(h, dh)       \* refusal cases (d) and (c, at send time)
       IN
       /\ att' = [att EXCEPT ![c] = [st |-> IF res = "pending" THEN "pending" ELSE IF res = "ok" THEN "ok" ELSE "refused",
                                     h |-> h, dh |-> dh, dp |-> dp, lo |-> lo,
                                     must |-> must0, late |-> FALSE, arrived |-> FALSE, accd |-> FALSE]]
       \* clause OkWithoutAccept: a connect succeeds only if an accept returned a stream for it
       \* clause ErrorKind: a failing connect fails with ConnectionRefused
       \* clause SpuriousRefusal: a connect is refused only in the refusal cases the statement lists
       /\ bad' = bad \cup Flag(res # "ok", "OkWithoutAccept") \cup Flag(res \in {"pending", "refused", "ok"}, "ErrorKind")
                     \cup Flag(res = "refused" => must0, "SpuriousRefusal")
       /\ tainted' = [tainted EXCEPT ![c] = Explicit(h, dh) \/ Explicit(dh, h)]
    /\ quiet' = FALSE
    /\ UNCHANGED <<lsn, addr, acc, rd, eof, wclosed, hv, aborted, expl>>

\* the pending connect future of attempt c was polled again
\* res: "pending" | "refused" | "ok" (then local / peer are the stream's addresses)
P_Poll(c, res, local, peer) ==
    /\ att[c].st = "pending"
    /\ LET a == att[c] IN
       /\ bad' = bad \cup
            (CASE res = "ok" ->
                     Flag(a.accd, "OkWithoutAccept")
                     \* clause Mirror: the accepted stream's local / peer addresses mirror the connector's
                     \cup Flag(a.accd => (addr[<<c, 2>>].local = peer /\ addr[<<c, 2>>].peer = local), "Mirror")
               [] res = "refused" ->
                     \* clause RefusedThoughAccepted: "completes successfully exactly when a listener accepts it"
                     Flag(~a.accd, "RefusedThoughAccepted")
                     \* clause SpuriousRefusal: a request that reached a bound, matching listener which stays
                     \* bound, over a direction that is not partitioned, to an address a host owns, is not refused
                     \cup Flag(a.must \/ SameHost(a), "SpuriousRefusal")
               [] res = "pending" ->
                     \* clause Hang: refused "instead of hanging"; an accepted connect completes
                     Flag(~a.accd /\ ~(a.must /\ a.late), "Hang")
               [] OTHER -> {"ErrorKind"})
       /\ att' = [att EXCEPT ![c].st = IF res = "ok" THEN "ok" ELSE IF res = "pending" THEN @ ELSE "refused"]
       /\ hv' = IF res = "ok" THEN [hv EXCEPT ![<<c, 1>>] = Held] ELSE hv
       /\ addr' = IF res = "ok" THEN [addr EXCEPT ![<<c, 1>>] = [local |-> local, peer |-> peer]] ELSE addr
    /\ UNCHANGED <<lsn, acc, rd, eof, wclosed, aborted, tainted, quiet, expl>>

\* the connect future of attempt c was dropped while pending (timeout): the connector gave up
P_Cancel(c) ==
    /\ att[c].st = "pending"
    /\ att' = [att EXCEPT ![c].st = "cancelled"]
    \* an abandoned attempt is an abortive close: a stream the listener may already have accepted for
    \* it can end with ConnectionReset
    /\ aborted' = [aborted EXCEPT ![c] = TRUE]
    /\ quiet' = FALSE
    /\ UNCHANGED <<lsn, addr, acc, rd, eof, wclosed, hv, tainted, expl, bad>>

Pos(q, c) == CHOOSE i \in 1..Len(q) : q[i] = c
InSeq(q, c) == \E i \in 1..Len(q) : q[i] = c
GaveUp(c) == att[c].st \in {"cancelled", "refused"}

\* accept on listener (h, p) returned a stream; the test attributes it to attempt c by its
\* origin address (= source address of c's request on the wire)
P_Accept(h, p, c, local, peer) ==
    /\ LET q == lsn[<<h, p>>].arr IN
       bad' = bad \cup
            \* clause PhantomAccept: one accepted stream per request that arrived at this listener
            Flag((InSeq(q, c) \/ SameHost(att[c])) /\ ~att[c].accd, "PhantomAccept")
            \* clause AcceptedDead: "a connector that gave up is skipped"
            \cup Flag(~GaveUp(c), "AcceptedDead")
            \* clause AcceptOrder: "requests are accepted in the order they arrived"
            \cup Flag(InSeq(q, c) => \A i \in 1..(Pos(q, c) - 1) : att[q[i]].accd \/ GaveUp(q[i]), "AcceptOrder")
    /\ att' = [att EXCEPT ![c].accd = TRUE]
    /\ hv' = [hv EXCEPT ![<<c, 2>>] = Held]
    /\ addr' = [addr EXCEPT ![<<c, 2>>] = [local |-> local, peer |-> peer]]
    /\ UNCHANGED <<lsn, acc, rd, eof, wclosed, aborted, tainted, quiet, expl>>

\* accept on listener (h, p) was polled and stayed pending
P_AcceptPending(h, p) ==
    /\ LET q == lsn[<<h, p>>].arr IN
       \* clause AcceptHang: a live request that arrived is waiting, yet accept does not return
       bad' = bad \cup Flag(\A i \in 1..Len(q) : att[q[i]].accd \/ GaveUp(q[i]), "AcceptHang")
    /\ UNCHANGED <<att, lsn, addr, acc, rd, eof, wclosed, hv, aborted, tainted, quiet, expl>>

---------------------------------------------------------------------------
(* Stream calls.  k = <<c, s>>: the end of connection c on side s *)

\* a write of side s accepted the bytes `data` (returned their number)
P_Write(c, s, data) ==
    /\ hv[<<c, s>>].w /\ Len(data) > 0
    /\ acc' = [acc EXCEPT ![<<c, s>>] = @ \o data]
    \* data sent to an end whose read half is gone can never be read: abortive
    /\ aborted' = [aborted EXCEPT ![c] = @ \/ (hv[<<c, Other(s)>>].ex /\ ~hv[<<c, Other(s)>>].r)]
    /\ quiet' = FALSE
    /\ UNCHANGED <<att, lsn, addr, rd, eof, wclosed, hv, tainted, expl, bad>>

\* shutdown of the write side returned Ok
P_Shutdown(c, s) ==
    /\ hv[<<c, s>>].w
    /\ wclosed' = [wclosed EXCEPT ![<<c, s>>] = TRUE]
    /\ quiet' = FALSE
    /\ UNCHANGED <<att, lsn, addr, acc, rd, eof, hv, aborted, tainted, expl, bad>>

\* common part of read and peek.  k = direction being read, n = buffer length
ReadFlags(c, k, n, res, got, peek) ==
    CASE res = "data" ->
            Flag(Len(got) <= n /\ Len(got) > 0, "ReadOverrun")
            \* clause Prefix: what is read is a prefix of what was accepted - nothing lost in the
            \* middle, duplicated, reordered or altered (also establishes the connect/accept pairing:
            \* every attempt writes bytes no other attempt writes)
            \cup Flag(IsPrefix(got, Rest(k)), IF peek THEN "PeekFaithful" ELSE "Prefix")
            \cup Flag(~eof[k], "DataAfterEof")
      [] res = "eof" ->
            \* clause EarlyEof: end-of-file only after every accepted byte, and only once the writer closed
            Flag(n > 0 /\ wclosed[k] /\ rd[k] = acc[k], "EarlyEof")
      [] res = "pending" ->
            \* clause Stall: the link is healthy, nothing is in flight, the reader reads, the closes were
            \* graceful - yet accepted bytes (or the end-of-file) do not arrive
            Flag(~(n > 0 /\ quiet /\ Clean(c) /\ Owed(k)), "Stall")
            \* clause Orphan: "each successful connect is matched by exactly one accepted stream": an accepted
            \* stream whose connect never completed does not stay established - once nothing is in flight
            \* its reader has been told (ConnectionReset), it does not wait for ever
            \cup Flag(~(n > 0 /\ quiet /\ k[2] = 1 /\ Orphaned(c)), "Orphan")
      [] res = "reset" ->
            \* clause SpuriousReset: ConnectionReset only after an abortive close (or under partitions)
            Flag(~Clean(c), "SpuriousReset")
      [] res = "zero" -> {}     \* a read with an empty buffer returns 0 and means nothing
      [] OTHER -> {"ErrorKind"} \* no other error kind is part of the contract of read / peek

\* a read (poll_read, one poll) on side s with a buffer of n bytes
\* res: "data" (got) | "eof" | "zero" | "pending" | "reset"
P_Read(c, s, n, res, got) ==
    /\ hv[<<c, s>>].r
    /\ LET k == <<c, Other(s)>> IN
       /\ bad' = bad \cup ReadFlags(c, k, n, res, got, FALSE)
       /\ rd' = IF res = "data" THEN [rd EXCEPT ![k] = @ \o got] ELSE rd
       /\ eof' = IF res = "eof" THEN [eof EXCEPT ![k] = TRUE] ELSE eof
    /\ UNCHANGED <<att, lsn, addr, acc, wclosed, hv, aborted, tainted, quiet, expl>>

\* a peek: same clauses, never advances the stream
P_Peek(c, s, n, res, got) ==
    /\ hv[<<c, s>>].r
    /\ LET k == <<c, Other(s)>> IN
       /\ bad' = bad \cup ReadFlags(c, k, n, res, got, TRUE)
    \* a peek never advances the stream: seeing the end through a peek does not replace the
    \* end-of-file the reads are owed ("every accepted byte is eventually read, followed by end-of-file")
    /\ UNCHANGED <<att, lsn, addr, acc, rd, eof, wclosed, hv, aborted, tainted, quiet, expl>>

\* one half of the stream end <<c, s>> is dropped ("r" or "w"); dropping a TcpStream is "r" then "w"
P_DropHalf(c, s, half) ==
    /\ LET k == <<c, s>>  in == <<c, Other(s)>> IN
       /\ IF half = "r" THEN hv[k].r ELSE hv[k].w
       /\ hv' = [hv EXCEPT ![k] = IF half = "r" THEN [@ EXCEPT !.r = FALSE] ELSE [@ EXCEPT !.w = FALSE]]
       /\ wclosed' = IF half = "w" THEN [wclosed EXCEPT ![k] = TRUE] ELSE wclosed
       \* "an abortive drop with unread data": inbound bytes were accepted and not read
       /\ aborted' = IF half = "r" THEN [aborted EXCEPT ![c] = @ \/ rd[in] # acc[in]] ELSE aborted
    /\ quiet' = FALSE
    /\ UNCHANGED <<att, lsn, addr, acc, rd, eof, tainted, expl, bad>>

\* the whole TcpStream of end <<c, s>> is dropped: its read half, then its write half
P_DropStream(c, s) ==
    /\ LET k == <<c, s>>  in == <<c, Other(s)>> IN
       /\ hv[k].r /\ hv[k].w
       /\ hv' = [hv EXCEPT ![k] = [@ EXCEPT !.r = FALSE, !.w = FALSE]]
       /\ wclosed' = [wclosed EXCEPT ![k] = TRUE]
       /\ aborted' = [aborted EXCEPT ![c] = @ \/ rd[in] # acc[in]]
    /\ quiet' = FALSE
    /\ UNCHANGED <<att, lsn, addr, acc, rd, eof, tainted, expl, bad>>

---------------------------------------------------------------------------
(* established_tcp_stream_count(_on) reported n for host h *)

Present(c, s) == IF s = 1 THEN att[c].st # "none" ELSE att[c].accd
HostOf(c, s)  == IF s = 1 THEN att[c].h ELSE att[c].dh
Gone(k)       == hv[k].ex /\ ~hv[k].r /\ ~hv[k].w
BothDropped(c) == Gone(<<c, 1>>) /\ Gone(<<c, 2>>)
\* (an orphaned accepted stream stops counting once nothing is in flight any more)
CountBound(h) == Cardinality({k \in CS : /\ Present(k[1], k[2]) /\ HostOf(k[1], k[2]) = h /\ ~BothDropped(k[1])
                                          /\ ~(quiet /\ k[2] = 2 /\ Orphaned(k[1]))})

\* clause Reclaimed: "once both ends of a stream have been dropped it no longer counts as
\* established on either host"
P_Count(h, n) ==
    /\ bad' = bad \cup Flag(n <= CountBound(h), "Reclaimed")
    /\ UNCHANGED <<att, lsn, addr, acc, rd, eof, wclosed, hv, aborted, tainted, quiet, expl>>

\* clause Stall, overdue form: every hold was released, more than twice the maximum latency plus six
\* steps have passed, and Sim::links still shows segments of the connections cs in flight.  On a
\* connection no partition touched and that was closed gracefully (if at all) owed bytes may not
\* stay on the link for ever.
P_Overdue(cs) ==
    /\ bad' = bad \cup Flag(~\E c \in cs : c \in Conns /\ Clean(c) /\ (Owed(<<c, 1>>) \/ Owed(<<c, 2>>)), "Stall")
    /\ UNCHANGED <<att, lsn, addr, acc, rd, eof, wclosed, hv, aborted, tainted, quiet, expl>>

\* an observation that no clause permits at all (trace validation only)
P_Flag(name) ==
    /\ bad' = bad \cup {name}
    /\ UNCHANGED <<att, lsn, addr, acc, rd, eof, wclosed, hv, aborted, tainted, quiet, expl>>

\* start of a new recorded run (trace validation only)
P_MsgReset ==
    /\ att' = [c \in Conns |-> NoAtt]
    /\ lsn' = [k \in HP |-> NoLsn]
    /\ addr' = [k \in CS |-> [local |-> "", peer |-> ""]]
    /\ acc' = [k \in CS |-> <<>>] /\ rd' = [k \in CS |-> <<>>]
    /\ eof' = [k \in CS |-> FALSE] /\ wclosed' = [k \in CS |-> FALSE]
    /\ hv' = [k \in CS |-> NoHv]
    /\ aborted' = [c \in Conns |-> FALSE] /\ tainted' = [c \in Conns |-> FALSE]
    /\ quiet' = FALSE
    /\ expl' = [x \in HH |-> FALSE]
    /\ bad' = bad

---------------------------------------------------------------------------
(* The properties, one invariant per clause *)

\* C02
Prefix        == "Prefix" \notin bad
PeekFaithful  == "PeekFaithful" \notin bad
ReadOverrun   == "ReadOverrun" \notin bad
DataAfterEof  == "DataAfterEof" \notin bad
EarlyEof      == "EarlyEof" \notin bad
Stall         == "Stall" \notin bad
SpuriousReset == "SpuriousReset" \notin bad
\* state form of the prefix clause
PrefixInv     == \A k \in CS : IsPrefix(rd[k], acc[k])
EofInv        == \A k \in CS : eof[k] => (rd[k] = acc[k] /\ wclosed[k])

\* C12
OkWithoutAccept       == "OkWithoutAccept" \notin bad
RefusedThoughAccepted == "RefusedThoughAccepted" \notin bad
Hang          == "Hang" \notin bad
SpuriousRefusal == "SpuriousRefusal" \notin bad
AcceptHang    == "AcceptHang" \notin bad
PhantomAccept == "PhantomAccept" \notin bad
AcceptedDead  == "AcceptedDead" \notin bad
AcceptOrder   == "AcceptOrder" \notin bad
Mirror        == "Mirror" \notin bad
Reclaimed     == "Reclaimed" \notin bad
Orphan        == "Orphan" \notin bad
ErrorKind     == "ErrorKind" \notin bad
\* an undocumented panic of the code under test is not a behaviour any clause permits
NoPanic       == "NoPanic" \notin bad
=============================================================================
