------------------------------ MODULE MsgTcp ------------------------------
(***************************************************************************)
(* ImplSpec of turmoil::net message-level TCP                              *)
(*   crates/turmoil/src/host.rs         Tcp, ServerSocket, StreamSocket    *)
(*   crates/turmoil/src/net/tcp/stream.rs    connect, ReadHalf, WriteHalf, *)
(*                                           FlowControl, drops            *)
(*   crates/turmoil/src/net/tcp/listener.rs  bind, accept, drop            *)
(* on top of a held link (top.rs): every message a host sends stays in the *)
(* link's `sent` queue (`wire`) until the test delivers it, in any order.  *)
(*                                                                         *)
(* One action per critical section of the Rust code.  Clients live on      *)
(* hosts 1..NH-1 (or on the server host itself), listeners on host NH.     *)
(* `last` carries the label and the predicted result of every action.      *)
(***************************************************************************)
EXTENDS MsgTcpProp, TLC

CONSTANTS Cap,          \* Builder::tcp_capacity
          FinRoom,      \* extra room of the in-order queue beyond Cap (0 = code before the D1 repair)
          RstOnFin,     \* TRUE = code before the D14 repair: a FIN for an unknown stream / a closed
                        \*        receiver is answered with RST (a FIN carries no data: nothing is lost)
          Pre,          \* TRUE: connection 1 is already established in the initial state
          Alpha,        \* alphabet of this configuration (set of action names)
          DestKinds,    \* subset of {"srv", "none", "unspec"}: connect to the server / to an address nobody
                        \* owns / to the unspecified address 0.0.0.0 or :: (nobody's address either)
          BindKinds,    \* subset of {"any", "lo"}
          WriteLens, ReadSizes, PeekSizes,
          NPorts,       \* size of the ephemeral port range of every host (0 = never wraps: every
                        \* connector gets a port of its own); with a small range a connector re-uses
                        \* the address of an earlier one and segments are matched by address
          MaxWrites,    \* accepted writes per direction
          MaxAct        \* bound on the number of actions

SH == NH                              \* the server host
ChanCap == Cap + FinRoom

VARIABLES
    side,    \* [CS -> SideRec]   the stream entry + the two halves of that end
    cred,    \* [CS -> Nat]       FlowControl credits of direction <<c, d>>
    fut,     \* [Conns -> none | pending | ok | refused | cancelled]  the connect future
    osh,     \* [Conns -> none | open | acked | dead]  the SYN's one-shot acknowledgement channel
    lq,      \* [PortIds -> [bound, kind, q]]  ServerSocket: bind address kind + deque of SYNs
    wire,    \* Seq(message)  the links' `sent` queues (held), in enqueue order
    part,    \* [Hosts -> none | c2s | s2c | both]  explicit partition of the link host <-> server
    cport,   \* [Conns -> Nat]  local (ephemeral) port of the connector, 0 = none yet
    ecur,    \* [Hosts -> Nat]  Host::next_ephemeral_port (only used when NPorts > 0)
    nact, nwr,
    last

mivars == <<side, cred, fut, osh, lq, wire, part, cport, ecur, nact, nwr>>
vars   == <<mpvars, mivars, last>>

\* ent: entry in Tcp::sockets; ref: half-close reference count; nseq: next_send_seq;
\* rseq: recv_seq; rob: reorder buffer; chan: the bounded in-order queue to the reader;
\* rxb: ReadHalf::rx.buffer; closed: ReadHalf::is_closed; shut: WriteHalf::is_shutdown;
\* rxo: the queue's Receiver is alive; wreset: FlowControl::reset of the direction this side
\* writes (set when the entry is torn down by an RST or by reset_stream, never by a graceful close)
NoSide  == [ent |-> FALSE, ref |-> 0, nseq |-> 1, rseq |-> 0, rob |-> {}, chan |-> <<>>,
            rxb |-> <<>>, closed |-> FALSE, shut |-> FALSE, rxo |-> FALSE, wreset |-> FALSE, shutvia |-> "none"]
\* shutvia: which object performed shutdown(): the whole TcpStream or the OwnedWriteHalf of a split
\* stream (the two go through different AsyncWrite impls; kept in the state so that behaviour
\* generation continues after either of them)
NewSide == [NoSide EXCEPT !.ent = TRUE, !.ref = 2, !.rxo = TRUE]
NoLq    == [bound |-> FALSE, kind |-> "any", q |-> <<>>]

\* the k-th byte written by side s of connection c (distinct per connection and direction)
Byte(c, s, k) == 64 * ((c - 1) % 4) + 32 * (s - 1) + ((k - 1) % 31) + 1
Data(c, s, len) == [j \in 1..len |-> Byte(c, s, Len(acc[<<c, s>>]) + j)]

AddrC(c) == "c" \o ToString(c)
AddrS(p) == "s" \o ToString(p)
P0 == CHOOSE p \in PortIds : \A q \in PortIds : p <= q

\* the property-level ghosts of an established connection 1 (host 1 -> server, port P0)
PreGhost ==
    /\ att = [c \in Conns |-> IF c = 1 THEN [st |-> "ok", h |-> 1, dh |-> SH, dp |-> P0, lo |-> FALSE, must |-> FALSE,
                                              late |-> FALSE, arrived |-> TRUE, accd |-> TRUE] ELSE NoAtt]
    /\ lsn = [k \in HP |-> IF k = <<SH, P0>> THEN [bound |-> TRUE, kind |-> "any", arr |-> <<1>>] ELSE NoLsn]
    /\ addr = [k \in CS |-> IF k = <<1, 1>> THEN [local |-> AddrC(1), peer |-> AddrS(P0)]
                            ELSE IF k = <<1, 2>> THEN [local |-> AddrS(P0), peer |-> AddrC(1)]
                            ELSE [local |-> "", peer |-> ""]]
    /\ hv = [k \in CS |-> IF k[1] = 1 THEN Held ELSE NoHv]
    /\ acc = [k \in CS |-> <<>>] /\ rd = [k \in CS |-> <<>>]
    /\ eof = [k \in CS |-> FALSE] /\ wclosed = [k \in CS |-> FALSE]
    /\ aborted = [c \in Conns |-> FALSE] /\ tainted = [c \in Conns |-> FALSE]
    /\ quiet = FALSE /\ expl = [x \in HH |-> FALSE] /\ bad = {}

Init ==
    /\ IF Pre THEN PreGhost ELSE MPInit
    /\ cred = [k \in CS |-> Cap]
    /\ wire = <<>>
    /\ part = [h \in Hosts |-> "none"]
    /\ cport = [c \in Conns |-> IF Pre /\ c = 1 THEN (IF NPorts = 0 THEN 101 ELSE 1) ELSE 0]
    /\ ecur = [h \in Hosts |-> IF Pre /\ h = 1 /\ NPorts > 1 THEN 2 ELSE 1]
    /\ nact = 0 /\ nwr = [k \in CS |-> 0]
    /\ last = [a |-> "init"]
    /\ IF ~Pre
       THEN /\ side = [k \in CS |-> NoSide]
            /\ fut = [c \in Conns |-> "none"] /\ osh = [c \in Conns |-> "none"]
            /\ lq = [p \in PortIds |-> NoLq]
       ELSE /\ side = [k \in CS |-> IF k[1] = 1 THEN NewSide ELSE NoSide]
            /\ fut = [c \in Conns |-> IF c = 1 THEN "ok" ELSE "none"]
            /\ osh = [c \in Conns |-> IF c = 1 THEN "acked" ELSE "none"]
            /\ lq = [p \in PortIds |-> IF p = P0 THEN [bound |-> TRUE, kind |-> "any", q |-> <<>>] ELSE NoLq]

---------------------------------------------------------------------------
(* the wire *)

Msg(c, to, kind, seq, data) == [c |-> c, to |-> to, kind |-> kind, seq |-> seq, data |-> data]

\* is the direction a message of connection c towards side `to` travels in explicitly partitioned?
\* (h = the connector's host; same-host connections never touch a link)
Blocked(h, to) ==
    h # SH /\ (IF to = 2 THEN part[h] \in {"c2s", "both"} ELSE part[h] \in {"s2c", "both"})

\* Link::enqueue on a held link: queued, or dropped when the direction is partitioned
Send(w, h, m) == IF Blocked(h, m.to) THEN w ELSE Append(w, m)

RemoveAt(w, i) == SubSeq(w, 1, i - 1) \o SubSeq(w, i + 1, Len(w))

CHost(c) == att[c].h

\* Host::assign_ephemeral_port of connector host h: next fit from the cursor among the ports no
\* client entry of that host uses; port 0 = "ports exhausted" (documented panic)
PortsInUse(h) == {cport[x] : x \in {y \in Conns : side[<<y, 1>>].ent /\ att[y].h = h}}
NextP(p) == IF p >= NPorts THEN 1 ELSE p + 1
RECURSIVE AllocP(_, _, _)
AllocP(h, p, k) == IF k = 0 THEN [port |-> 0, cur |-> p]
                   ELSE IF p \notin PortsInUse(h) THEN [port |-> p, cur |-> NextP(p)]
                   ELSE AllocP(h, NextP(p), k - 1)
Alloc(h, c) == IF NPorts = 0 THEN [port |-> 100 + c, cur |-> ecur[h]] ELSE AllocP(h, ecur[h], NPorts)

\* Segments are matched by address: the entry (if any) a message of connector c finds at its destination
SameAddr(x, y) == att[x].h = att[y].h /\ cport[x] = cport[y]
Target(m) == {x \in Conns : side[<<x, m.to>>].ent /\ SameAddr(x, m.c)}

Act(lbl) == nact' = nact + 1 /\ last' = lbl
In(a) == a \in Alpha /\ nact < MaxAct

---------------------------------------------------------------------------
(* listener *)

\* TcpListener::bind on the server host
Bind(p, kind) ==
    /\ In("bind") /\ kind \in BindKinds
    /\ IF lq[p].bound
       THEN /\ UNCHANGED <<mpvars, lq>>
            /\ Act([a |-> "bind", p |-> p, kind |-> kind, res |-> "inuse"])
       ELSE /\ lq' = [lq EXCEPT ![p] = [bound |-> TRUE, kind |-> kind, q |-> <<>>]]
            /\ P_Bind(SH, p, kind)
            /\ Act([a |-> "bind", p |-> p, kind |-> kind, res |-> "ok"])
    /\ UNCHANGED <<side, cred, fut, osh, wire, part, nwr, cport, ecur>>

\* drop of the TcpListener: Tcp::unbind discards the queued SYNs (their one-shot senders drop)
DropListener(p) ==
    /\ In("drop_listener") /\ lq[p].bound
    /\ osh' = [c \in Conns |-> IF \E i \in 1..Len(lq[p].q) : lq[p].q[i] = c THEN "dead" ELSE osh[c]]
    /\ lq' = [lq EXCEPT ![p] = NoLq]
    /\ P_DropListener(SH, p)
    /\ Act([a |-> "drop_listener", p |-> p])
    /\ UNCHANGED <<side, cred, fut, wire, part, nwr, cport, ecur>>

\* TcpStream::connect, first poll: assign the port, register the entry, send the SYN, wait.
\* A send that fails (no link) and a refused / cancelled attempt remove the entry again.
Connect(c, h, p, dk, lo) ==
    /\ In("connect") /\ dk \in DestKinds
    /\ fut[c] = "none" /\ \A b \in Conns : b < c => fut[b] # "none"
    /\ Alloc(h, c).port # 0
    /\ cport' = [cport EXCEPT ![c] = Alloc(h, c).port]
    /\ ecur' = [ecur EXCEPT ![h] = Alloc(h, c).cur]
    /\ IF dk \in {"none", "unspec"} \/ Blocked(h, 2)
       THEN \* nothing is sent (Topology::enqueue_message fails) or the SYN is dropped at once:
            \* the future resolves to ConnectionRefused in this very poll
            /\ fut' = [fut EXCEPT ![c] = "refused"]
            /\ osh' = [osh EXCEPT ![c] = "dead"]
            /\ P_Connect(c, h, IF dk \in {"none", "unspec"} THEN 0 ELSE SH, p, lo, "refused")
            /\ Act([a |-> "connect", c |-> c, h |-> h, p |-> p, dk |-> dk, res |-> "refused"])
            /\ UNCHANGED <<side, cred, wire>>
       ELSE /\ side' = [side EXCEPT ![<<c, 1>>] = NewSide]
            /\ cred' = [cred EXCEPT ![<<c, 1>>] = Cap, ![<<c, 2>>] = Cap]
            /\ wire' = Append(wire, Msg(c, 2, "syn", 0, <<>>))
            /\ fut' = [fut EXCEPT ![c] = "pending"]
            /\ osh' = [osh EXCEPT ![c] = "open"]
            /\ P_Connect(c, h, SH, p, lo, "pending")
            /\ Act([a |-> "connect", c |-> c, h |-> h, p |-> p, dk |-> dk, res |-> "pending"])
    /\ UNCHANGED <<lq, part, nwr>>

\* Tcp::receive_from_network(Syn): queued at a matching bound listener, otherwise dropped
\* (dropping the SYN drops its one-shot sender: the connector sees ConnectionRefused)
DeliverSyn(i) ==
    /\ In("deliver") /\ i \in 1..Len(wire) /\ wire[i].kind = "syn"
    /\ LET c == wire[i].c  p == att[c].dp
           taken == lq[p].bound /\ Match(lq[p].kind, att[c]) IN
       /\ (lq[p].bound => Len(lq[p].q) < Cap)            \* beyond: documented panic, outside the statement
       /\ lq' = IF taken THEN [lq EXCEPT ![p].q = Append(@, c)] ELSE lq
       /\ osh' = IF taken THEN osh ELSE [osh EXCEPT ![c] = "dead"]
       /\ wire' = RemoveAt(wire, i)
       /\ P_SynArrive(c)
       /\ Act([a |-> "deliver", c |-> c, to |-> 2, kind |-> "syn", seq |-> 0])
    /\ UNCHANGED <<side, cred, fut, part, nwr, cport, ecur>>

\* TcpListener::accept, one poll: pop SYNs front to back, skip those whose connector is gone
FirstLive(q) == IF \E i \in 1..Len(q) : fut[q[i]] = "pending"
                THEN CHOOSE i \in 1..Len(q) : fut[q[i]] = "pending" /\ \A j \in 1..(i - 1) : fut[q[j]] # "pending"
                ELSE 0
Accept(p) ==
    /\ In("accept") /\ lq[p].bound
    /\ LET q == lq[p].q  i == FirstLive(q) IN
       IF i = 0
       THEN /\ lq' = [lq EXCEPT ![p].q = <<>>]
            /\ P_AcceptPending(SH, p)
            /\ Act([a |-> "accept", p |-> p, res |-> "pending", c |-> 0])
            /\ UNCHANGED <<side, osh>>
       ELSE LET c == q[i] IN
            /\ \A x \in Conns : side[<<x, 2>>].ent => ~SameAddr(x, c)      \* else: documented panic "already connected"
            /\ lq' = [lq EXCEPT ![p].q = SubSeq(q, i + 1, Len(q))]
            /\ osh' = [osh EXCEPT ![c] = "acked"]
            /\ side' = [side EXCEPT ![<<c, 2>>] = NewSide]
            /\ P_Accept(SH, p, c, AddrS(p), AddrC(c))
            /\ Act([a |-> "accept", p |-> p, res |-> "ok", c |-> c])
    /\ UNCHANGED <<cred, fut, wire, part, nwr, cport, ecur>>

\* the pending connect future is polled again
Poll(c) ==
    /\ In("poll") /\ fut[c] = "pending"
    /\ CASE osh[c] = "acked" ->
              /\ fut' = [fut EXCEPT ![c] = "ok"]
              /\ side' = side
              /\ P_Poll(c, "ok", AddrC(c), AddrS(att[c].dp))
              /\ Act([a |-> "poll", c |-> c, res |-> "ok"])
         [] osh[c] = "dead" ->
              /\ fut' = [fut EXCEPT ![c] = "refused"]
              /\ side' = [side EXCEPT ![<<c, 1>>] = NoSide]          \* PendingConnect guard
              /\ P_Poll(c, "refused", "", "")
              /\ Act([a |-> "poll", c |-> c, res |-> "refused"])
         [] OTHER ->
              /\ UNCHANGED <<fut, side>>
              /\ P_Poll(c, "pending", "", "")
              /\ Act([a |-> "poll", c |-> c, res |-> "pending"])
    /\ UNCHANGED <<cred, osh, lq, wire, part, nwr, cport, ecur>>

\* the connect future is dropped while pending (timeout)
Cancel(c) ==
    /\ In("cancel") /\ fut[c] = "pending"
    /\ fut' = [fut EXCEPT ![c] = "cancelled"]
    /\ side' = [side EXCEPT ![<<c, 1>>] = NoSide]                    \* PendingConnect guard: reset_stream ...
    \* ... and an RST to the remote: the listener may already have accepted (the SYN-ACK is in memory)
    /\ wire' = Send(wire, CHost(c), Msg(c, 2, "rst", 0, <<>>))
    /\ P_Cancel(c)
    /\ Act([a |-> "cancel", c |-> c])
    /\ UNCHANGED <<cred, osh, lq, part, nwr, cport, ecur>>

---------------------------------------------------------------------------
(* stream halves *)

\* WriteHalf::poll_write / try_write with a non-empty buffer, one poll
Write(c, s, len) ==
    /\ In("write") /\ hv[<<c, s>>].w /\ len \in WriteLens /\ len > 0 /\ nwr[<<c, s>>] < MaxWrites
    /\ LET k == <<c, s>>  data == Data(c, s, len) IN
       IF side[k].shut \/ side[k].wreset
       THEN \* shut down, or the stream was reset (no credit will ever come back): fail at once
            /\ Act([a |-> "write", c |-> c, s |-> s, data |-> data, res |-> "brokenpipe"])
            /\ UNCHANGED <<mpvars, side, cred, wire, nwr>>
       ELSE IF cred[k] = 0
       THEN /\ Act([a |-> "write", c |-> c, s |-> s, data |-> data, res |-> "wouldblock"])
            /\ UNCHANGED <<mpvars, side, cred, wire, nwr>>
       ELSE IF ~side[k].ent
       THEN \* the credit is taken before the sequence number is asked for
            /\ cred' = [cred EXCEPT ![k] = @ - 1]
            /\ Act([a |-> "write", c |-> c, s |-> s, data |-> data, res |-> "brokenpipe"])
            /\ UNCHANGED <<mpvars, side, wire, nwr>>
       ELSE /\ cred' = [cred EXCEPT ![k] = @ - 1]
            /\ side' = [side EXCEPT ![k].nseq = @ + 1]
            /\ wire' = Send(wire, CHost(c), Msg(c, Other(s), "data", side[k].nseq, data))
            /\ nwr' = [nwr EXCEPT ![k] = @ + 1]
            /\ P_Write(c, s, data)
            /\ Act([a |-> "write", c |-> c, s |-> s, data |-> data, res |-> "ok"])
    /\ UNCHANGED <<fut, osh, lq, part, cport, ecur>>

\* A zero-length write is a no-op: no credit, no sequence number, no segment.
\* via = "try": TcpStream::try_write(&[]) (whole streams only) returns Ok(0) even after shutdown;
\* via = "poll": AsyncWrite::poll_write checks is_shutdown first.
Write0(c, s, via) ==
    /\ In("write") /\ 0 \in WriteLens /\ hv[<<c, s>>].w
    /\ via \in {"try", "poll"} /\ (via = "try" => hv[<<c, s>>].r)
    /\ Act([a |-> "write", c |-> c, s |-> s, data |-> <<>>, via |-> via,
            res |-> IF via = "poll" /\ side[<<c, s>>].shut THEN "brokenpipe" ELSE "ok"])
    /\ UNCHANGED <<mpvars, side, cred, fut, osh, lq, wire, part, nwr, cport, ecur>>

\* WriteHalf::poll_shutdown
Shutdown(c, s) ==
    /\ In("shutdown") /\ hv[<<c, s>>].w
    /\ LET k == <<c, s>> IN
       IF side[k].shut
       THEN /\ Act([a |-> "shutdown", c |-> c, s |-> s, res |-> "notconnected"])
            /\ UNCHANGED <<mpvars, side, wire>>
       ELSE IF ~side[k].ent
       THEN /\ Act([a |-> "shutdown", c |-> c, s |-> s, res |-> "brokenpipe"])
            /\ UNCHANGED <<mpvars, side, wire>>
       ELSE /\ side' = [side EXCEPT ![k].nseq = @ + 1, ![k].shut = TRUE,
                                    ![k].shutvia = IF hv[k].r THEN "whole" ELSE "owned"]
            /\ wire' = Send(wire, CHost(c), Msg(c, Other(s), "fin", side[k].nseq, <<>>))
            /\ P_Shutdown(c, s)
            /\ Act([a |-> "shutdown", c |-> c, s |-> s, res |-> "ok"])
    /\ UNCHANGED <<cred, fut, osh, lq, part, nwr, cport, ecur>>

Take(b, n) == SubSeq(b, 1, IF n < Len(b) THEN n ELSE Len(b))
Drop(b, n) == SubSeq(b, (IF n < Len(b) THEN n ELSE Len(b)) + 1, Len(b))

\* ReadHalf::poll_read_priv, one poll, buffer of n bytes.  peek = ReadHalf::poll_peek
ReadLike(c, s, n, peek) ==
    /\ hv[<<c, s>>].r
    /\ LET k == <<c, s>>  sd == side[k]  nm == IF peek THEN "peek" ELSE "read"
           Obs(res, got) == IF peek THEN P_Peek(c, s, n, res, got) ELSE P_Read(c, s, n, res, got)
           Lbl(res, got) == Act([a |-> nm, c |-> c, s |-> s, n |-> n, res |-> res, got |-> got]) IN
       IF sd.closed \/ n = 0
       THEN /\ Obs(IF n = 0 THEN "zero" ELSE "eof", <<>>) /\ Lbl(IF n = 0 THEN "zero" ELSE "eof", <<>>)
            /\ UNCHANGED <<side, cred>>
       ELSE IF sd.rxb # <<>>
       THEN /\ side' = IF peek THEN side ELSE [side EXCEPT ![k].rxb = Drop(sd.rxb, n)]
            /\ Obs("data", Take(sd.rxb, n)) /\ Lbl("data", Take(sd.rxb, n))
            /\ cred' = cred
       ELSE IF sd.chan # <<>>
       THEN LET g == Head(sd.chan) IN
            IF g.kind = "data"
            THEN \* the credit returns when the segment leaves the queue (also on the peek path)
                 /\ cred' = [cred EXCEPT ![<<c, Other(s)>>] = @ + 1]
                 /\ side' = [side EXCEPT ![k].chan = Tail(sd.chan),
                                         ![k].rxb = IF peek THEN g.data ELSE Drop(g.data, n)]
                 /\ Obs("data", Take(g.data, n)) /\ Lbl("data", Take(g.data, n))
            ELSE /\ side' = [side EXCEPT ![k].chan = Tail(sd.chan), ![k].closed = TRUE]
                 /\ Obs("eof", <<>>) /\ Lbl("eof", <<>>)
                 /\ cred' = cred
       ELSE IF ~sd.ent
       THEN /\ Obs("reset", <<>>) /\ Lbl("reset", <<>>) /\ UNCHANGED <<side, cred>>
       ELSE /\ Obs("pending", <<>>) /\ Lbl("pending", <<>>) /\ UNCHANGED <<side, cred>>
    /\ UNCHANGED <<fut, osh, lq, wire, part, nwr, cport, ecur>>

Read(c, s, n) == In("read") /\ n \in ReadSizes /\ ReadLike(c, s, n, FALSE)
Peek(c, s, n) == In("peek") /\ n \in PeekSizes /\ ReadLike(c, s, n, TRUE)

\* Tcp::close_stream_half on a side record
CloseHalf(sd) == IF ~sd.ent THEN sd
                 ELSE IF sd.ref = 1 THEN [sd EXCEPT !.ent = FALSE, !.ref = 0, !.rob = {}]
                 ELSE [sd EXCEPT !.ref = @ - 1]

\* Drop for ReadHalf: RST + reset_stream if inbound data is unread, else close_stream_half.
\* Returns [sd, rst]
Unread(sd) == ~sd.closed /\ (\/ sd.rxb # <<>>
                             \/ (sd.chan # <<>> /\ Head(sd.chan).kind = "data")
                             \/ (sd.ent /\ \E g \in sd.rob : g.kind = "data"))
DropReadEff(sd) ==
    LET base == [sd EXCEPT !.rxo = FALSE, !.chan = <<>>, !.rxb = <<>>] IN
    IF Unread(sd) THEN [sd |-> [base EXCEPT !.ent = FALSE, !.ref = 0, !.rob = {}, !.wreset = TRUE], rst |-> TRUE]
    ELSE [sd |-> CloseHalf(base), rst |-> FALSE]
\* Drop for WriteHalf: FIN unless already shut down (and the entry still exists), then close_stream_half.
\* Returns [sd, fin (sequence number or 0)]
DropWriteEff(sd) ==
    LET sendfin == ~sd.shut /\ sd.ent
        s1 == IF sendfin THEN [sd EXCEPT !.nseq = @ + 1] ELSE sd IN
    [sd |-> CloseHalf([s1 EXCEPT !.shut = TRUE]), fin |-> IF sendfin THEN sd.nseq ELSE 0]

DropRead(c, s) ==
    /\ In("drop_half") /\ hv[<<c, s>>].r
    /\ LET k == <<c, s>>  e == DropReadEff(side[k]) IN
       /\ side' = [side EXCEPT ![k] = e.sd]
       /\ wire' = IF e.rst THEN Send(wire, CHost(c), Msg(c, Other(s), "rst", 0, <<>>)) ELSE wire
       /\ P_DropHalf(c, s, "r")
       /\ Act([a |-> "drop_half", c |-> c, s |-> s, h |-> "r"])
    /\ UNCHANGED <<cred, fut, osh, lq, part, nwr, cport, ecur>>

DropWrite(c, s) ==
    /\ In("drop_half") /\ hv[<<c, s>>].w
    /\ LET k == <<c, s>>  e == DropWriteEff(side[k]) IN
       /\ side' = [side EXCEPT ![k] = e.sd]
       /\ wire' = IF e.fin > 0 THEN Send(wire, CHost(c), Msg(c, Other(s), "fin", e.fin, <<>>)) ELSE wire
       /\ P_DropHalf(c, s, "w")
       /\ Act([a |-> "drop_half", c |-> c, s |-> s, h |-> "w"])
    /\ UNCHANGED <<cred, fut, osh, lq, part, nwr, cport, ecur>>

\* drop of the whole TcpStream: read half, then write half
DropStream(c, s) ==
    /\ In("drop_stream") /\ hv[<<c, s>>].r /\ hv[<<c, s>>].w
    /\ LET k == <<c, s>>
           e1 == DropReadEff(side[k])
           w1 == IF e1.rst THEN Send(wire, CHost(c), Msg(c, Other(s), "rst", 0, <<>>)) ELSE wire
           e2 == DropWriteEff(e1.sd) IN
       /\ side' = [side EXCEPT ![k] = e2.sd]
       /\ wire' = IF e2.fin > 0 THEN Send(w1, CHost(c), Msg(c, Other(s), "fin", e2.fin, <<>>)) ELSE w1
       /\ P_DropStream(c, s)
       /\ Act([a |-> "drop_stream", c |-> c, s |-> s])
    /\ UNCHANGED <<cred, fut, osh, lq, part, nwr, cport, ecur>>

---------------------------------------------------------------------------
(* delivery of segments: Tcp::receive_from_network + StreamSocket::buffer *)

\* release contiguously into the bounded queue; stop when it is full (nothing re-triggers this
\* except the next delivery) or when the receiver is gone (answer RST)
RECURSIVE Release(_, _, _, _)
Release(rb, rs, ch, open) ==
    IF \E g \in rb : g.seq = rs + 1
    THEN LET g == CHOOSE x \in rb : x.seq = rs + 1 IN
         IF ~open THEN (IF g.kind = "fin" /\ ~RstOnFin
                        THEN [rob |-> rb \ {g}, rseq |-> rs + 1, chan |-> ch, rst |-> FALSE]
                        ELSE [rob |-> rb, rseq |-> rs + 1, chan |-> ch, rst |-> TRUE])
         ELSE IF Len(ch) >= ChanCap THEN [rob |-> rb, rseq |-> rs, chan |-> ch, rst |-> FALSE]
         ELSE Release(rb \ {g}, rs + 1, Append(ch, [kind |-> g.kind, data |-> g.data]), open)
    ELSE [rob |-> rb, rseq |-> rs, chan |-> ch, rst |-> FALSE]

DeliverSeg(i) ==
    /\ In("deliver") /\ i \in 1..Len(wire) /\ wire[i].kind \in {"data", "fin"}
    /\ LET m == wire[i]  T == Target(m)  w0 == RemoveAt(wire, i)
           back == Msg(m.c, Other(m.to), "rst", 0, <<>>) IN
       IF T = {}
       THEN \* segment for an unknown stream: data is answered with RST, a FIN is ignored
            /\ wire' = IF m.kind = "fin" /\ ~RstOnFin THEN w0 ELSE Send(w0, CHost(m.c), back)
            /\ side' = side
       ELSE LET k == <<CHOOSE x \in T : TRUE, m.to>>  sd == side[k]
                r == Release(sd.rob \cup {[seq |-> m.seq, kind |-> m.kind, data |-> m.data]}, sd.rseq, sd.chan, sd.rxo) IN
            /\ side' = [side EXCEPT ![k].rob = r.rob, ![k].rseq = r.rseq, ![k].chan = r.chan]
            /\ wire' = IF r.rst THEN Send(w0, CHost(m.c), back) ELSE w0
    /\ Act([a |-> "deliver", c |-> wire[i].c, to |-> wire[i].to, kind |-> wire[i].kind, seq |-> wire[i].seq])
    /\ UNCHANGED <<mpvars, cred, fut, osh, lq, part, cport, ecur, nwr>>

\* RST: the entry is removed at once (its queue sender goes away)
DeliverRst(i) ==
    /\ In("deliver") /\ i \in 1..Len(wire) /\ wire[i].kind = "rst"
    /\ \A j \in 1..(i - 1) : wire[j] # wire[i]          \* identical RSTs are interchangeable: the oldest goes first
    /\ LET m == wire[i]  T == Target(m) IN
       /\ side' = IF T = {} THEN side
                  ELSE LET k == <<CHOOSE x \in T : TRUE, m.to>> IN
                       [side EXCEPT ![k].ent = FALSE, ![k].ref = 0, ![k].rob = {}, ![k].wreset = TRUE]
       /\ wire' = RemoveAt(wire, i)
    /\ Act([a |-> "deliver", c |-> wire[i].c, to |-> wire[i].to, kind |-> "rst", seq |-> 0])
    /\ UNCHANGED <<mpvars, cred, fut, osh, lq, part, cport, ecur, nwr>>

---------------------------------------------------------------------------
(* the test controller *)

\* messages of the link host h <-> server that travel towards side `to`
OnLink(m, h, tos) == CHost(m.c) = h /\ m.to \in tos

\* Sim::partition(h, server) / partition_oneway: in-flight messages of the cut directions are lost
Partition(h, how) ==
    /\ In("partition") /\ h \in Hosts \ {SH} /\ how \in {"both", "c2s", "s2c"}
    /\ part[h] # "both" /\ part[h] # how
    /\ LET tos == IF how = "both" THEN {1, 2} ELSE IF how = "c2s" THEN {2} ELSE {1}
           lost == {i \in 1..Len(wire) : OnLink(wire[i], h, tos)}
           doomed == {wire[i].c : i \in {j \in lost : wire[j].kind = "syn"}}
           dirs == (IF 2 \in tos THEN {<<h, SH>>} ELSE {}) \cup (IF 1 \in tos THEN {<<SH, h>>} ELSE {}) IN
       /\ wire' = SelectSeq(wire, LAMBDA m : ~OnLink(m, h, tos))
       /\ osh' = [c \in Conns |-> IF c \in doomed THEN "dead" ELSE osh[c]]
       /\ part' = [part EXCEPT ![h] = IF how = "both" \/ @ # "none" THEN "both" ELSE how]
       /\ P_Partition(dirs, doomed)
    /\ Act([a |-> "partition", h |-> h, how |-> how])
    /\ UNCHANGED <<side, cred, fut, lq, nwr, cport, ecur>>

\* Sim::repair(h, server) (followed by hold again: the link stays under manual delivery)
Repair(h) ==
    /\ In("partition") /\ h \in Hosts \ {SH} /\ part[h] # "none"
    /\ part' = [part EXCEPT ![h] = "none"]
    /\ P_Repair({<<h, SH>>, <<SH, h>>})
    /\ Act([a |-> "repair", h |-> h])
    /\ UNCHANGED <<side, cred, fut, osh, lq, wire, nwr, cport, ecur>>

\* Sim::links shows nothing in flight
Quiet ==
    /\ In("quiet") /\ wire = <<>> /\ ~quiet
    /\ P_Quiet
    /\ Act([a |-> "quiet"])
    /\ UNCHANGED <<side, cred, fut, osh, lq, wire, part, nwr, cport, ecur>>

\* a step boundary matters only for refusals that are due
Tick ==
    /\ In("poll") /\ \E c \in Conns : att[c].must /\ ~att[c].late /\ att[c].st = "pending"
    /\ P_Step
    /\ Act([a |-> "tick"])
    /\ UNCHANGED <<side, cred, fut, osh, lq, wire, part, nwr, cport, ecur>>

---------------------------------------------------------------------------
Next ==
    \/ \E p \in PortIds, kind \in BindKinds : Bind(p, kind)
    \/ \E p \in PortIds : DropListener(p)
    \/ \E c \in Conns, h \in Hosts \ {SH}, p \in PortIds, dk \in DestKinds : Connect(c, h, p, dk, FALSE)
    \* nobody's address is nobody's address on the listener's own host too
    \/ \E c \in Conns, p \in PortIds, dk \in DestKinds \cap {"none", "unspec"} : Connect(c, SH, p, dk, FALSE)
    \/ \E i \in 1..(3 * MaxConn + 8) : DeliverSyn(i)
    \/ \E p \in PortIds : Accept(p)
    \/ \E c \in Conns : Poll(c)
    \/ \E c \in Conns : Cancel(c)
    \/ \E c \in Conns, s \in Sides, len \in WriteLens : Write(c, s, len)
    \/ \E c \in Conns, s \in Sides, via \in {"try", "poll"} : Write0(c, s, via)
    \/ \E c \in Conns, s \in Sides : Shutdown(c, s)
    \/ \E c \in Conns, s \in Sides, n \in ReadSizes : Read(c, s, n)
    \/ \E c \in Conns, s \in Sides, n \in PeekSizes : Peek(c, s, n)
    \/ \E c \in Conns, s \in Sides : DropRead(c, s)
    \/ \E c \in Conns, s \in Sides : DropWrite(c, s)
    \/ \E c \in Conns, s \in Sides : DropStream(c, s)
    \/ \E i \in 1..(3 * MaxConn + 8) : DeliverSeg(i)
    \/ \E i \in 1..(3 * MaxConn + 8) : DeliverRst(i)
    \/ \E h \in Hosts, how \in {"both", "c2s", "s2c"} : Partition(h, how)
    \/ \E h \in Hosts : Repair(h)
    \/ Quiet
    \/ Tick

Spec == Init /\ [][Next]_vars

---------------------------------------------------------------------------
(* structural invariants of the implementation model *)

EntCount(h) == Cardinality({k \in CS : side[k].ent /\ (IF k[2] = 1 THEN att[k[1]].h ELSE SH) = h})

\* every data segment that was accepted and not yet taken by the reader holds one credit
\* ("credits + unread data segments = capacity"); lost segments (partition, reset) keep theirs
DataOnWire(k)  == Cardinality({i \in 1..Len(wire) : wire[i].c = k[1] /\ wire[i].to = Other(k[2]) /\ wire[i].kind = "data"})
DataIn(sd)     == Cardinality({g \in sd.rob : g.kind = "data"})
                  + Cardinality({i \in 1..Len(sd.chan) : sd.chan[i].kind = "data"})
CreditInv ==
    \A k \in CS : (side[k].ent \/ fut[k[1]] # "none") =>
        cred[k] + DataOnWire(k) + DataIn(side[<<k[1], Other(k[2])>>]) <= Cap
\* the in-order queue never overflows; data never needs the room reserved for the FIN
ChanInv == \A k \in CS : Len(side[k].chan) <= ChanCap
\* the established-stream count respects the property-level bound
CountInv == \A h \in Hosts : EntCount(h) <= CountBound(h)
\* the FIN is sequenced after all data of its direction
FinLast == \A i \in 1..Len(wire) : wire[i].kind = "fin" =>
              \A j \in 1..Len(wire) : (wire[j].c = wire[i].c /\ wire[j].to = wire[i].to /\ wire[j].kind = "data")
                                        => wire[j].seq < wire[i].seq
\* D1 as a state predicate: a FIN parked behind a full queue with nothing left to re-trigger the release
Dev_FinStuck == \E k \in CS : /\ \E g \in side[k].rob : g.kind = "fin" /\ g.seq = side[k].rseq + 1
                              /\ Len(side[k].chan) >= ChanCap

ImplInv == CreditInv /\ ChanInv /\ CountInv /\ FinLast /\ PrefixInv /\ EofInv

View == <<mpvars, mivars>>
=============================================================================
