------------------------------- MODULE Ports -------------------------------
(***************************************************************************)
(* ImplSpec of turmoil's per-host port allocator and bind tables           *)
(* (crates/turmoil/src/host.rs: Host::assign_ephemeral_port, Udp::bind /   *)
(* unbind, Tcp::bind / unbind / new_stream / close_stream_half /           *)
(* reset_stream; net/tcp/stream.rs TcpStream::connect; net/tcp/listener.rs *)
(* accept) and of the name table (dns.rs, ip.rs).                          *)
(*                                                                         *)
(* One action per public call on the host under test; the sequential       *)
(* library has no interleaving inside a call.  `last` carries the label    *)
(* and the predicted result for behaviour extraction.                      *)
(***************************************************************************)
EXTENDS PortsProp, TLC

CONSTANTS Fixed,        \* explicit ports the application may bind (besides 0)
          Ops,          \* alphabet of this configuration (subset of the op names below)
          BindKindsP,   \* bind addresses in the alphabet: "any" (0.0.0.0 / ::) and / or "lo" (127.0.0.1 / ::1);
                        \* the tables are keyed by port alone, so the kind changes nothing in the model
          MaxOps,       \* bound on the history length
          MaxIn,        \* bound on accepted (incoming) streams
          LeakOnFail,   \* TRUE = the code before the D12 repair: a failed / cancelled
                        \*        connect leaves its (local, remote) entry behind
          NameU,        \* DNS: universe of names (naturals)
          Patterns      \* DNS: regex patterns, each given as the set of names it matches

VARIABLES
    cursor,   \* Host::next_ephemeral_port
    udpB,     \* Udp::binds  (set of ports)
    tcpB,     \* Tcp::binds  (set of ports)
    ent,      \* [Slots -> [port, ref]]  Tcp::sockets entries owned by a stream handle (ref 0 = none)
    leaked,   \* set of local ports of entries no handle refers to any more (D12)
    names,    \* Dns::names in registration order (sequence of names)
    anyl,     \* slots of listeners bound to the wildcard address (a remote peer reaches only those)
    crashed,  \* kinds of the sockets that were live at the last crash (history only: keeps the states
              \* after "crash with a pending connect", "crash with a listener", ... apart, so that
              \* behaviour generation continues after each of them)
    nops, nin,
    last

ivars == <<cursor, udpB, tcpB, ent, leaked, names, anyl, crashed, nops, nin>>
vars  == <<ppvars, ivars, last>>

NoEnt == [port |-> 0, ref |-> 0]

Init ==
    /\ PPInit
    /\ cursor = Lo
    /\ udpB = {} /\ tcpB = {}
    /\ ent = [s \in Slots |-> NoEnt]
    /\ leaked = {}
    /\ names = <<>> /\ anyl = {} /\ crashed = {}
    /\ nops = 0 /\ nin = 0
    /\ last = [a |-> "init"]

\* Tcp::is_port_assigned / Udp::is_port_assigned
EntPorts == {ent[s].port : s \in {x \in Slots : ent[x].ref > 0}} \cup leaked
Assigned(p) == p \in udpB \/ p \in tcpB \/ p \in EntPorts

NextC(c) == IF c = Hi THEN Lo ELSE c + 1

\* Host::assign_ephemeral_port: at most |range| probes starting at the cursor;
\* port = 0 stands for the panic "ports exhausted" (the cursor is back where it was)
RECURSIVE AllocFrom(_, _)
AllocFrom(c, k) ==
    IF k = 0 THEN [port |-> 0, cur |-> c]
    ELSE IF ~Assigned(c) THEN [port |-> c, cur |-> NextC(c)]
    ELSE AllocFrom(NextC(c), k - 1)
Alloc == AllocFrom(cursor, Hi - Lo + 1)

\* the application uses the lowest free handle id (symmetry reduction only)
FreeSlot(s) == ~Live(s) /\ \A t \in Slots : t < s => Live(t)

Step(lbl) == nops' = nops + 1 /\ last' = lbl

---------------------------------------------------------------------------
BindUdp(s, p, kind) ==
    /\ "bind_udp" \in Ops /\ nops < MaxOps /\ FreeSlot(s) /\ kind \in BindKindsP
    /\ IF p = 0
       THEN LET a == Alloc IN
            /\ cursor' = a.cur
            /\ udpB' = IF a.port = 0 THEN udpB ELSE udpB \cup {a.port}
            /\ P_Bind("udp", s, 0, IF a.port = 0 THEN Exhausted ELSE a.port)
            /\ Step([a |-> "bind", proto |-> "udp", kind |-> kind, s |-> s, p |-> 0,
                     res |-> IF a.port = 0 THEN Exhausted ELSE a.port])
       ELSE /\ cursor' = cursor
            /\ udpB' = udpB \cup {p}
            /\ P_Bind("udp", s, p, IF p \in udpB THEN AddrInUse ELSE p)
            /\ Step([a |-> "bind", proto |-> "udp", kind |-> kind, s |-> s, p |-> p,
                     res |-> IF p \in udpB THEN AddrInUse ELSE p])
    /\ UNCHANGED <<tcpB, ent, leaked, names, nin, anyl, crashed>>

BindTcp(s, p, kind) ==
    /\ "bind_tcp" \in Ops /\ nops < MaxOps /\ FreeSlot(s) /\ kind \in BindKindsP
    /\ IF p = 0
       THEN LET a == Alloc IN
            /\ cursor' = a.cur
            /\ tcpB' = IF a.port = 0 THEN tcpB ELSE tcpB \cup {a.port}
            /\ P_Bind("tcp", s, 0, IF a.port = 0 THEN Exhausted ELSE a.port)
            /\ Step([a |-> "bind", proto |-> "tcp", kind |-> kind, s |-> s, p |-> 0,
                     res |-> IF a.port = 0 THEN Exhausted ELSE a.port])
       ELSE /\ cursor' = cursor
            /\ tcpB' = tcpB \cup {p}
            /\ P_Bind("tcp", s, p, IF p \in tcpB THEN AddrInUse ELSE p)
            /\ Step([a |-> "bind", proto |-> "tcp", kind |-> kind, s |-> s, p |-> p,
                     res |-> IF p \in tcpB THEN AddrInUse ELSE p])
    /\ anyl' = IF kind = "any" /\ last'.res > 0 THEN anyl \cup {s} ELSE anyl
    /\ UNCHANGED <<udpB, ent, leaked, names, nin, crashed>>

\* TcpStream::connect.  how = "ok" (a listener accepts), "refused" (nobody listens),
\* "noroute" (no host owns the address: send fails at once), "cancel" (the future is
\* dropped while the SYN is held on the link).  The port is assigned and the
\* (local, remote) entry registered before the SYN is sent.
Connect(s, how) ==
    /\ ("connect_" \o how) \in Ops /\ nops < MaxOps /\ FreeSlot(s)
    /\ LET a == Alloc IN
       /\ cursor' = a.cur
       /\ IF a.port = 0
          THEN /\ UNCHANGED <<ent, leaked>>
               /\ (IF how = "hang" THEN P_ConnectPending(s, Exhausted) ELSE P_Connect(s, Exhausted))
               /\ Step([a |-> "connect", s |-> s, how |-> how, res |-> Exhausted])
          ELSE IF how = "ok"
          THEN /\ ent' = [ent EXCEPT ![s] = [port |-> a.port, ref |-> 2]]
               /\ leaked' = leaked
               /\ P_Connect(s, a.port)
               /\ Step([a |-> "connect", s |-> s, how |-> how, res |-> a.port])
          ELSE IF how = "hang"
          THEN \* the request waits at a listener that never accepts: the entry (and the port) stay
               /\ ent' = [ent EXCEPT ![s] = [port |-> a.port, ref |-> 2]]
               /\ leaked' = leaked
               /\ P_ConnectPending(s, a.port)
               /\ Step([a |-> "connect", s |-> s, how |-> how, res |-> a.port])
          ELSE /\ ent' = ent
               /\ leaked' = IF LeakOnFail THEN leaked \cup {a.port} ELSE leaked
               /\ P_Connect(s, Failed)
               /\ Step([a |-> "connect", s |-> s, how |-> how, res |-> Failed])
    /\ UNCHANGED <<udpB, tcpB, names, nin, anyl, crashed>>

\* TcpListener::accept on listener slot l: the new entry's local port is the listener's
AcceptIn(s, l) ==
    /\ "accept" \in Ops /\ nops < MaxOps /\ nin < MaxIn /\ FreeSlot(s)
    /\ socks[l].kind = "lst" /\ l \in anyl
    /\ ent' = [ent EXCEPT ![s] = [port |-> socks[l].port, ref |-> 2]]
    /\ P_Accept(s, l, socks[l].port)
    /\ nin' = nin + 1
    /\ Step([a |-> "accept", s |-> s, l |-> l, res |-> socks[l].port])
    /\ UNCHANGED <<cursor, udpB, tcpB, leaked, names, anyl, crashed>>

\* drop of a UdpSocket / TcpListener / whole TcpStream (both halves, nothing unread)
Drop(s) ==
    /\ "drop" \in Ops /\ nops < MaxOps /\ Live(s)
    /\ udpB' = IF socks[s].kind = "udp" THEN udpB \ {socks[s].port} ELSE udpB
    /\ tcpB' = IF socks[s].kind = "lst" THEN tcpB \ {socks[s].port} ELSE tcpB
    /\ ent'  = IF socks[s].kind \in {"out", "in", "att"} THEN [ent EXCEPT ![s] = NoEnt] ELSE ent
    /\ P_Drop(s)
    /\ anyl' = anyl \ {s}
    /\ Step([a |-> "drop", s |-> s])
    /\ UNCHANGED <<cursor, leaked, names, nin, crashed>>

\* drop of one owned half: Tcp::close_stream_half
DropHalf(s, h) ==
    /\ "drop_half" \in Ops /\ nops < MaxOps
    /\ socks[s].kind \in {"out", "in"}
    /\ (h = "r" => socks[s].r) /\ (h = "w" => socks[s].w)
    /\ ent' = [ent EXCEPT ![s] = IF @.ref = 1 THEN NoEnt ELSE [@ EXCEPT !.ref = @ - 1]]
    /\ P_DropHalf(s, h)
    /\ Step([a |-> "drop_half", s |-> s, h |-> h])
    /\ UNCHANGED <<cursor, udpB, tcpB, leaked, names, nin, anyl, crashed>>

\* Sim::crash + Sim::bounce: every socket of the host is dropped; the host object
\* (cursor, tables) survives
Crash ==
    /\ "crash" \in Ops /\ nops < MaxOps
    /\ \E s \in Slots : Live(s)
    /\ udpB' = {} /\ tcpB' = {}
    /\ ent' = [s \in Slots |-> NoEnt]
    /\ P_Crash
    /\ anyl' = {}
    /\ crashed' = {socks[s].kind : s \in {x \in Slots : Live(x)}}
    /\ Step([a |-> "crash"])
    /\ UNCHANGED <<cursor, leaked, names, nin>>

---------------------------------------------------------------------------
\* DNS (dns.rs): names get the next address on first sight and keep it
Pos(n) == CHOOSE k \in 1..Len(names) : names[k] = n
Known(n) == \E k \in 1..Len(names) : names[k] = n
AddrOfName(n) == IF Known(n) THEN Pos(n) ELSE Len(names) + 1    \* IpVersionAddrIter starts at 1

Lookup(n) ==
    /\ "lookup" \in Ops /\ nops < MaxOps
    /\ names' = IF Known(n) THEN names ELSE Append(names, n)
    /\ P_Lookup(n, AddrOfName(n))
    /\ Step([a |-> "lookup", n |-> n, res |-> AddrOfName(n)])
    /\ UNCHANGED <<cursor, udpB, tcpB, ent, leaked, nin, anyl, crashed>>

\* reverse lookup of subnet offset k (registered or not)
Reverse(k) ==
    /\ "reverse" \in Ops /\ nops < MaxOps
    /\ P_Reverse(k, IF k \in 1..Len(names) THEN names[k] ELSE 0)
    /\ Step([a |-> "reverse", k |-> k, res |-> IF k \in 1..Len(names) THEN names[k] ELSE 0])
    /\ UNCHANGED <<cursor, udpB, tcpB, ent, leaked, names, nin, anyl, crashed>>

\* lookup of a literal address (inside or outside the subnet): passes through
Literal(k) ==
    /\ "literal" \in Ops /\ nops < MaxOps
    /\ P_Literal(TRUE)
    /\ Step([a |-> "literal", k |-> k])
    /\ UNCHANGED <<cursor, udpB, tcpB, ent, leaked, names, nin, anyl, crashed>>

\* lookup_many(regex): registered names that match, in registration order
RegexRes(m) == LET ks == SelectSeq([k \in 1..Len(names) |-> k], LAMBDA k : names[k] \in m) IN ks
Regex(m) ==
    /\ "regex" \in Ops /\ nops < MaxOps
    /\ P_Regex(m, RegexRes(m))
    /\ Step([a |-> "regex", m |-> m, res |-> RegexRes(m)])
    /\ UNCHANGED <<cursor, udpB, tcpB, ent, leaked, names, nin, anyl, crashed>>

---------------------------------------------------------------------------
Next ==
    \/ \E s \in Slots, p \in Fixed \cup {0}, kind \in BindKindsP : BindUdp(s, p, kind)
    \/ \E s \in Slots, p \in Fixed \cup {0}, kind \in BindKindsP : BindTcp(s, p, kind)
    \/ \E s \in Slots, how \in {"ok", "refused", "noroute", "cancel", "hang"} : Connect(s, how)
    \/ \E s, l \in Slots : AcceptIn(s, l)
    \/ \E s \in Slots : Drop(s)
    \/ \E s \in Slots, h \in {"r", "w"} : DropHalf(s, h)
    \/ Crash
    \/ \E n \in NameU : Lookup(n)
    \* addresses inside the subnet (assigned or not) and addresses the DNS never hands out
    \* (-1 loopback, -2 outside the subnet, -3 the other address family, -4 a neighbouring prefix)
    \/ \E k \in (1..(Cardinality(NameU) + 1)) \cup {-1, -2, -3, -4} : Reverse(k)
    \/ \E k \in {0} : Literal(k)
    \/ \E m \in Patterns : Regex(m)

Spec == Init /\ [][Next]_vars

---------------------------------------------------------------------------
\* structural invariants of the implementation model
ImplInv ==
    /\ cursor \in Range
    \* the handle table of the property level and the tables of the implementation agree
    /\ udpB = UdpPorts /\ tcpB = LstPorts
    /\ \A s \in Slots : (socks[s].kind \in {"out", "in", "att"}) <=> (ent[s].ref > 0)
    /\ \A s \in Slots : ent[s].ref > 0 =>
          /\ ent[s].port = socks[s].port
          /\ ent[s].ref = (IF socks[s].r THEN 1 ELSE 0) + (IF socks[s].w THEN 1 ELSE 0)
    \* after the repair nothing is left behind
    /\ (~LeakOnFail => leaked = {})

View == <<ppvars, ivars>>
=============================================================================
