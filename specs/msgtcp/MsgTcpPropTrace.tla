-------------------------- MODULE MsgTcpPropTrace --------------------------
(* Verdict-level trace validation for C02 / C12: the observations recorded   *)
(* from the real code (results of the applications' calls, the controller's  *)
(* partition / repair calls, request arrivals, Sim::links found empty, the    *)
(* reported stream counts) are replayed through the P_* actions of            *)
(* MsgTcpProp alone; the clause invariants are evaluated in every state.     *)
(* Implementation-level events (deliveries of segments) are skipped.         *)
EXTENDS MsgTcpProp, Json, IOUtils, TLC

Rec == ndJsonDeserialize(IOEnv.TRACE)

VARIABLE l
E == Rec[l]
Is(e) == l <= Len(Rec) /\ Rec[l].ev = e /\ l' = l + 1
SetOf(q) == {q[k] : k \in 1..Len(q)}
Pairs(q) == {<<q[k][1], q[k][2]>> : k \in 1..Len(q)}
Skip == UNCHANGED mpvars

TInit == MPInit /\ l = 1

ReadRes == {"data", "eof", "zero", "pending", "reset"}

\* an event that names a connection the harness could not attribute (c = 0) is not evidence
\* against the code (only an accepted stream nobody asked for is: see "accept")
BadC == l <= Len(Rec) /\ "c" \in DOMAIN Rec[l] /\ Rec[l].c \notin Conns /\ Rec[l].ev # "accept"

TBody ==
    \/ Is("reset") /\ P_MsgReset
    \/ Is("step") /\ P_Step
    \/ Is("quiet") /\ P_Quiet
    \/ Is("partition") /\ P_Partition(Pairs(E.dirs), SetOf(E.doomed))
    \/ Is("repair") /\ P_Repair(Pairs(E.dirs))
    \/ Is("syn_arrive") /\ (IF E.c \in Conns /\ att[E.c].st # "none" /\ ~att[E.c].arrived THEN P_SynArrive(E.c) ELSE Skip)
    \/ Is("bind") /\ (IF E.res = "ok" THEN P_Bind(E.h, E.p, E.kind) ELSE Skip)
    \/ Is("drop_listener") /\ P_DropListener(E.h, E.p)
    \/ Is("connect") /\ P_Connect(E.c, E.h, E.dh, E.dp, E.lo, E.res)
    \/ Is("poll") /\ P_Poll(E.c, E.res, E.local, E.peer)
    \/ Is("cancel") /\ P_Cancel(E.c)
    \/ Is("accept") /\ (IF E.res = "ok"
                        THEN (IF E.c \in Conns THEN P_Accept(E.h, E.p, E.c, E.local, E.peer) ELSE P_Flag("PhantomAccept"))
                        ELSE IF E.res = "pending" THEN P_AcceptPending(E.h, E.p) ELSE P_Flag("ErrorKind"))
    \/ Is("write") /\ (IF E.res = "ok" /\ Len(E.data) > 0 THEN P_Write(E.c, E.s, E.data) ELSE Skip)
    \/ Is("shutdown") /\ (IF E.res = "ok" THEN P_Shutdown(E.c, E.s) ELSE Skip)
    \/ Is("read") /\ (IF E.res = "nohalf" THEN Skip ELSE P_Read(E.c, E.s, E.n, E.res, E.got))
    \/ Is("peek") /\ (IF E.res = "nohalf" THEN Skip ELSE P_Peek(E.c, E.s, E.n, E.res, E.got))
    \/ Is("drop_half") /\ P_DropHalf(E.c, E.s, E.h)
    \/ Is("drop_stream") /\ P_DropStream(E.c, E.s)
    \/ Is("count") /\ P_Count(E.h, E.n)
    \/ Is("deliver") /\ Skip
    \/ Is("accept_parked") /\ P_AcceptPending(E.h, E.p)
    \/ Is("panic") /\ P_Flag("NoPanic")
    \/ Is("overdue") /\ P_Overdue(SetOf(E.cs))

TNext == (BadC /\ l' = l + 1 /\ Skip) \/ (~BadC /\ TBody)

TSpec == TInit /\ [][TNext]_<<mpvars, l>>

Accepted ==
    LET d == TLCGet("stats").diameter IN
    IF d - 1 = Len(Rec) THEN TRUE
    ELSE Print(<<"UNMATCHED", d, ToJson(Rec[d])>>, FALSE)
=============================================================================
