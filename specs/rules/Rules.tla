------------------------------- MODULE Rules -------------------------------
(***************************************************************************)
(* ImplSpec of turmoil-net's rule chain (crates/turmoil-net/src/lib.rs,    *)
(* rule.rs), the loopback fold of Kernel::egress (kernel/mod.rs) and the   *)
(* fixtures' Scheduler (fixture/scheduler.rs, client_server.rs, mod.rs).   *)
(*                                                                         *)
(* One action per critical section of the Rust code:                       *)
(*   InstallPermanent = Net::rule (before Net::enter)                      *)
(*   Enter            = Net::enter                                         *)
(*   InstallEnterGuard= EnterGuard::rule,  InstallFree = turmoil_net::rule *)
(*   DropGuard        = Drop for RuleGuard -> uninstall_rule (shift_remove)*)
(*   Forget           = RuleGuard::forget                                  *)
(*   Emit             = a socket call that queues one packet on the host's *)
(*                      outbound queue (UDP send_to, TCP connect -> SYN)   *)
(*   TickBegin        = Scheduler::tick up to and including egress_all:    *)
(*                      now += dt; deliver the ready prefix of `pending`;  *)
(*                      Fabric::egress_all = Kernel::egress per host in    *)
(*                      insertion order, local destinations fold back      *)
(*   EvalOne          = one iteration of `for pkt in egress.drain(..)`:    *)
(*                      Net::evaluate + route (deliver / schedule / drop)  *)
(*   EvalKernelPkt    = the same for a packet the kernel produced itself   *)
(*                      during egress (TCP segments, ACKs)                 *)
(*   TickEnd, Recv (a receiving task pops its socket), End                 *)
(* With Fixture = FALSE the driver is the scheduler (the harness calls     *)
(* egress_all / evaluate / deliver itself): no clock, no pending queue.    *)
(***************************************************************************)
EXTENDS RulesProp, SequencesExt, TLC

CONSTANTS
    Fixture,      \* BOOLEAN: ClientServer / lo fixture (TRUE) or bare primitives (FALSE)
    NH,           \* hosts 1..NH in insertion order; host h owns receiving socket h
    Emitters,     \* hosts whose software sends
    Kinds,        \* installers in the alphabet: subset of {"permanent","enter_guard","free"}
    Tables,       \* rule verdict tables (sequences indexed by class) rules may be built from
    NC,           \* number of packet classes
    Dsts,         \* receiving sockets that may be addressed (0 = untracked TCP peer)
    Vias,         \* how a host may address a socket: subset of {"ip", "lo"}
    TcpClass,     \* class used by untagged packets (TCP), 0 = none in the alphabet
    MaxOps,       \* bound on install + drop + forget calls
    MaxRules,     \* bound on installs (length of the chain)
    MaxEmit,      \* bound on tagged emissions
    MaxKern,      \* bound on kernel-produced packets
    MaxTicks,     \* bound on scheduler ticks / egress rounds
    Prelude,      \* BOOLEAN: the run starts with rule 1 = all-Pass, installed with
                  \* turmoil_net::rule(..).forget() (the drivers' logging rule under a fixture)
    Reduce        \* BOOLEAN, exhaustive runs only: receivers drain before other tasks act and the
                  \* run ends only at the tick bound (both orders commute; traces use FALSE)

Hosts == 1..NH
Socks == 1..NH

VARIABLES
    entered,  \* Net::enter has been called
    ichain,   \* Net.rules: IndexMap<RuleId, Box<dyn Rule>> as a sequence of [id, table]
    nextId,   \* Net.next_rule_id
    guards,   \* ids whose RuleGuard is alive (not dropped, not forgotten)
    now,      \* Scheduler.now
    pending,  \* Scheduler.pending: Seq([at, seq, tag, sock]) sorted by (at, seq)
    nextSeq,  \* Scheduler.next_seq
    outb,     \* [Hosts -> Seq([tag, cls, sock, via, src])]  Kernel.outbound per host
    eq,       \* Scheduler.egress: packets returned by egress_all, not yet evaluated
    rq,       \* [Socks -> Seq(tag)]  Socket.recv_queue of the receiving sockets
    phase,    \* "app" (tasks run) | "egress" (inside Scheduler::tick) | "done"
    nTag, nOps, nKern, nTicks,
    last      \* label of the action taken

ivars == <<entered, ichain, nextId, guards, now, pending, nextSeq, outb, eq, rq, phase,
           nTag, nOps, nKern, nTicks>>
vars  == <<pvars, ivars, last>>

AllPass == [c \in 1..NC |-> PASS]

Init ==
    /\ fixture = Fixture
    /\ chain = (IF Prelude THEN <<[id |-> 1, table |-> AllPass]>> ELSE <<>>)
    /\ gone = {} /\ forg = (IF Prelude THEN {1} ELSE {})
    /\ pk = <<>> /\ arr = <<>> /\ ended = FALSE /\ endNow = 0
    /\ entered = Fixture             \* the fixtures own their Net and enter it before any task runs
    /\ ichain = chain /\ nextId = (IF Prelude THEN 2 ELSE 1) /\ guards = {}
    /\ now = 0 /\ pending = <<>> /\ nextSeq = 0
    /\ outb = [h \in Hosts |-> <<>>] /\ eq = <<>>
    /\ rq = [s \in Socks |-> <<>>]
    /\ phase = "app"
    /\ nTag = 1 /\ nOps = 0 /\ nKern = 0 /\ nTicks = 0
    /\ last = [a |-> "init"]

---------------------------------------------------------------------------
\* Net::install_rule
AppTurn == ~Reduce \/ (nTicks < MaxTicks /\ \A s \in 1..NH : rq[s] = <<>>)

Install(kind, t) ==
    /\ AppTurn /\ nOps < MaxOps /\ Len(ichain) < MaxRules /\ nextId <= MaxRules
    /\ ichain' = Append(ichain, [id |-> nextId, table |-> t])
    /\ nextId' = nextId + 1
    /\ nOps' = nOps + 1
    /\ P_Install(kind, nextId, t)
    /\ last' = [a |-> "install", kind |-> kind, id |-> nextId, table |-> t]

InstallPermanent(t) ==
    /\ "permanent" \in Kinds /\ ~entered /\ Install("permanent", t)
    /\ UNCHANGED <<entered, guards, now, pending, nextSeq, outb, eq, rq, phase, nTag, nKern, nTicks>>

Enter ==
    /\ ~entered /\ entered' = TRUE
    /\ last' = [a |-> "enter"]
    /\ UNCHANGED <<pvars, ichain, nextId, guards, now, pending, nextSeq, outb, eq, rq, phase,
                   nTag, nOps, nKern, nTicks>>

InstallGuarded(kind, t) ==
    /\ kind \in Kinds /\ entered /\ phase = "app" /\ Install(kind, t)
    /\ guards' = guards \cup {nextId}
    /\ UNCHANGED <<entered, now, pending, nextSeq, outb, eq, rq, phase, nTag, nKern, nTicks>>
InstallEnterGuard(t) == InstallGuarded("enter_guard", t)
InstallFree(t)       == InstallGuarded("free", t)

\* Drop for RuleGuard -> Net::uninstall_rule -> IndexMap::shift_remove
DropGuard(id) ==
    /\ AppTurn /\ phase = "app" /\ id \in guards /\ nOps < MaxOps
    /\ ichain' = SelectSeq(ichain, LAMBDA r : r.id # id)
    /\ guards' = guards \ {id}
    /\ nOps' = nOps + 1
    /\ P_DropGuard(id)
    /\ last' = [a |-> "dropguard", id |-> id]
    /\ UNCHANGED <<entered, nextId, now, pending, nextSeq, outb, eq, rq, phase, nTag, nKern, nTicks>>

\* RuleGuard::forget (mem::forget): nothing happens to the chain
Forget(id) ==
    /\ AppTurn /\ phase = "app" /\ id \in guards /\ nOps < MaxOps
    /\ guards' = guards \ {id}
    /\ nOps' = nOps + 1
    /\ P_Forget(id)
    /\ last' = [a |-> "forget", id |-> id]
    /\ UNCHANGED <<entered, ichain, nextId, now, pending, nextSeq, outb, eq, rq, phase, nTag, nKern, nTicks>>

---------------------------------------------------------------------------
\* A socket call on host h queues one packet: class c, addressed to receiving socket s
\* (s = 0: a TCP SYN to another host, no receiving socket is tracked) via the owning host's
\* address ("ip") or 127.0.0.1 ("lo", own sockets only).
Emit(h, c, s, via) ==
    /\ AppTurn /\ entered /\ phase = "app" /\ h \in Emitters /\ nTag <= MaxEmit
    /\ s \in Dsts /\ via \in Vias /\ (via = "lo" => s = h)
    /\ (s = 0 => c = TcpClass /\ TcpClass # 0) /\ (s # 0 => c # TcpClass)
    /\ outb' = [outb EXCEPT ![h] = Append(@, [tag |-> nTag, cls |-> c, sock |-> s, via |-> via, src |-> h])]
    /\ nTag' = nTag + 1
    /\ last' = [a |-> "emit", tag |-> nTag, h |-> h, cls |-> c, sock |-> s, via |-> via]
    /\ UNCHANGED <<pvars, entered, ichain, nextId, guards, now, pending, nextSeq, eq, rq, phase,
                   nOps, nKern, nTicks>>

\* Kernel::is_local(dst): loopback or one of the host's own addresses
IsLocal(p) == p.sock = p.src

AllDrained == \A s \in Socks : rq[s] = <<>>

\* the receiving task of socket s pops one datagram (tokio instant = scheduler now)
Recv(s) ==
    /\ phase = "app" /\ rq[s] # <<>>
    /\ (Reduce => \A s2 \in 1..(s - 1) : rq[s2] = <<>>)
    /\ rq' = [rq EXCEPT ![s] = Tail(@)]
    /\ P_Arrive(Head(rq[s]), s, now)
    /\ last' = [a |-> "recv", sock |-> s, tag |-> Head(rq[s]), at |-> now]
    /\ UNCHANGED <<entered, ichain, nextId, guards, now, pending, nextSeq, outb, eq, phase,
                   nTag, nOps, nKern, nTicks>>

---------------------------------------------------------------------------
\* Scheduler::tick, first half.
RECURSIVE FlatOut(_)
FlatOut(h) == IF h = 0 THEN <<>> ELSE FlatOut(h - 1) \o outb[h]

RECURSIVE PushAll(_, _, _)
\* append the tags of sequence ps (records with .tag, .sock) to the receive queues
PushAll(q, ps, k) ==
    IF k > Len(ps) THEN q
    ELSE PushAll(IF ps[k].sock = 0 THEN q ELSE [q EXCEPT ![ps[k].sock] = Append(@, ps[k].tag)], ps, k + 1)

TickBegin ==
    /\ entered /\ phase = "app" /\ nTicks < MaxTicks
    /\ AllDrained                        \* run_until(sleep) returns only when every task is parked
    /\ LET now2  == IF Fixture THEN now + Tick ELSE now
           nrdy  == Cardinality({k \in 1..Len(pending) : \A j \in 1..k : pending[j].at <= now2})
           ready == SubSeq(pending, 1, nrdy)
           all   == FlatOut(NH)
           loc   == SelectSeq(all, LAMBDA p : IsLocal(p))
           rem   == SelectSeq(all, LAMBDA p : ~IsLocal(p))
       IN
       /\ now' = now2
       /\ pending' = SubSeq(pending, nrdy + 1, Len(pending))
       /\ rq' = PushAll(PushAll(rq, ready, 1), loc, 1)
       /\ eq' = rem
       /\ last' = [a |-> "tick", now |-> now2]
    /\ outb' = [h \in Hosts |-> <<>>]
    /\ phase' = "egress"
    /\ UNCHANGED <<pvars, entered, ichain, nextId, guards, nextSeq, nTag, nOps, nKern, nTicks>>

\* Net::evaluate on the implementation's chain
IDeciders(c) == {k \in 1..Len(ichain) : ichain[k].table[c] # PASS}
IFirst(c)    == IF IDeciders(c) = {} THEN 0 ELSE CHOOSE k \in IDeciders(c) : \A j \in IDeciders(c) : k <= j
IVerdict(c)  == IF IFirst(c) = 0 THEN PASS ELSE ichain[IFirst(c)].table[c]
IConsulted(c) == [k \in 1..(IF IFirst(c) = 0 THEN Len(ichain) ELSE IFirst(c)) |-> ichain[k].id]

\* Scheduler::schedule: binary-search insertion by (deliver_at, seq)
Less(x, y) == x.at < y.at \/ (x.at = y.at /\ x.seq < y.seq)
Insert(pq, e) ==
    LET n == Cardinality({k \in 1..Len(pq) : Less(pq[k], e)})
    IN  SubSeq(pq, 1, n) \o <<e>> \o SubSeq(pq, n + 1, Len(pq))

\* route one evaluated packet (tag, sock) with verdict v
Route(tag, sock, v) ==
    IF v = DROP THEN
        /\ UNCHANGED <<pending, nextSeq, rq>>
    ELSE IF ~Fixture \/ v = PASS \/ v = 0 THEN
        /\ rq' = IF sock = 0 THEN rq ELSE [rq EXCEPT ![sock] = Append(@, tag)]
        /\ UNCHANGED <<pending, nextSeq>>
    ELSE
        /\ pending' = Insert(pending, [at |-> now + v, seq |-> nextSeq, tag |-> tag, sock |-> sock])
        /\ nextSeq' = nextSeq + 1
        /\ UNCHANGED rq

EvalOne ==
    /\ phase = "egress" /\ eq # <<>>
    /\ LET p == Head(eq)  v == IVerdict(p.cls) IN
       /\ P_Eval(p.tag, p.cls, v, IConsulted(p.cls), now, p.sock, FALSE)
       /\ Route(p.tag, p.sock, v)
       /\ last' = [a |-> "eval", tag |-> p.tag, cls |-> p.cls, decision |-> v,
                   consulted |-> IConsulted(p.cls), at |-> now, sock |-> p.sock]
    /\ eq' = Tail(eq)
    /\ UNCHANGED <<entered, ichain, nextId, guards, now, outb, phase, nTag, nOps, nKern, nTicks>>

\* a packet the kernel produced during egress (TCP segment / ACK / retransmission): untagged,
\* no tracked receiver; it still takes a sequence number when delayed
EvalKernelPkt ==
    /\ Fixture /\ TcpClass # 0 /\ phase = "egress" /\ nKern < MaxKern
    /\ LET v == IVerdict(TcpClass) IN
       /\ P_Eval(0, TcpClass, v, IConsulted(TcpClass), now, 0, FALSE)
       /\ nextSeq' = IF v > 0 THEN nextSeq + 1 ELSE nextSeq
       /\ last' = [a |-> "eval", tag |-> 0, cls |-> TcpClass, decision |-> v,
                   consulted |-> IConsulted(TcpClass), at |-> now, sock |-> 0]
    /\ nKern' = nKern + 1
    /\ UNCHANGED <<entered, ichain, nextId, guards, now, pending, outb, eq, rq, phase, nTag, nOps, nTicks>>

TickEnd ==
    /\ phase = "egress" /\ eq = <<>>
    /\ phase' = "app" /\ nTicks' = nTicks + 1
    /\ last' = [a |-> "tick_end"]
    /\ UNCHANGED <<pvars, entered, ichain, nextId, guards, now, pending, nextSeq, outb, eq, rq,
                   nTag, nOps, nKern>>

\* the client future finished; every receiving task had drained its socket in that iteration
End ==
    /\ Fixture /\ phase = "app" /\ AllDrained /\ (Reduce => nTicks = MaxTicks)
    /\ phase' = "done"
    /\ P_End(now)
    /\ last' = [a |-> "end", now |-> now]
    /\ UNCHANGED <<entered, ichain, nextId, guards, now, pending, nextSeq, outb, eq, rq,
                   nTag, nOps, nKern, nTicks>>

Next ==
    \/ \E t \in Tables : InstallPermanent(t)
    \/ Enter
    \/ \E t \in Tables : InstallEnterGuard(t)
    \/ \E t \in Tables : InstallFree(t)
    \/ \E id \in 1..MaxRules : DropGuard(id)
    \/ \E id \in 1..MaxRules : Forget(id)
    \/ \E h \in Hosts, c \in 1..NC, s \in 0..NH, via \in {"ip", "lo"} : Emit(h, c, s, via)
    \/ \E s \in Socks : Recv(s)
    \/ TickBegin
    \/ EvalOne
    \/ EvalKernelPkt
    \/ TickEnd
    \/ End

Spec == Init /\ [][Next]_vars

---------------------------------------------------------------------------
\* Structural invariants of the implementation model
TypeOK ==
    /\ phase \in {"app", "egress", "done"}
    /\ \A k \in 1..Len(ichain) : ichain[k].id < nextId
    /\ guards \subseteq {ichain[k].id : k \in 1..Len(ichain)}
\* Scheduler.pending stays sorted by (deliver_at, seq)
PendingSorted ==
    \A j, k \in 1..Len(pending) : j < k => Less(pending[j], pending[k])
\* nothing that is due stays in the queue while tasks run
NoDueLeft ==
    phase = "app" => \A k \in 1..Len(pending) : pending[k].at > now
\* insertion order of the IndexMap = installation order (ids increase)
ChainOrdered ==
    \A j, k \in 1..Len(ichain) : j < k => ichain[j].id < ichain[k].id
\* the implementation's chain is the chain the API calls describe
ChainAgrees == ichain = chain

ImplInv == TypeOK /\ PendingSorted /\ NoDueLeft /\ ChainOrdered /\ ChainAgrees

\* View for exhaustive checking: drop the action label
View == <<pvars, ivars>>
=============================================================================
