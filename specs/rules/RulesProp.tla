----------------------------- MODULE RulesProp -----------------------------
(***************************************************************************)
(* PropSpec for C19: turmoil-net rule chains and the fixture scheduler.    *)
(*                                                                         *)
(* Only what the statement talks about:                                    *)
(*   - the rules the test installed through the API, in installation order,*)
(*     which guards it dropped and which it forgot (ghost `chain`, changed *)
(*     only by P_Install / P_DropGuard / P_Forget);                        *)
(*   - for every packet that was shown to the rules: its class, which rule *)
(*     closures logged it (in order), the verdict the chain returned when  *)
(*     that is observable, the instant it was shown (= "it left its host"),*)
(*     whether it was host-local (loopback or the sender's own address);   *)
(*   - under a fixture: which tagged datagrams arrived at which receiving  *)
(*     socket and at which virtual instant, and when the run ended.        *)
(* No IndexMap, no rule ids of the implementation, no pending queue, no    *)
(* sequence numbers.                                                       *)
(*                                                                         *)
(* Time unit: half a millisecond (Tick = 2 units = the fixtures' 1 ms).    *)
(* Verdicts are integers: PASS = -1, DROP = -2, d >= 0 = Deliver(d units). *)
(* A rule's `table` is a sequence indexed by packet class.                 *)
(*                                                                         *)
(* Used three ways: Rules.tla (ImplSpec) extends it and drives the P_*     *)
(* actions as ghosts; RulesPropTrace.tla replays recorded observations     *)
(* through the P_* actions alone (the verdict); RulesTrace.tla replays     *)
(* full traces through Rules.tla (fidelity).                               *)
(***************************************************************************)
EXTENDS Naturals, Integers, Sequences, FiniteSets

CONSTANTS Tick        \* duration of one fixture tick in time units

PASS == -1
DROP == -2
UNK  == -3            \* "the chain's verdict was not observable" (fixture runs)

VARIABLES
    fixture,  \* BOOLEAN: the run is driven by a built-in fixture (timing clauses apply)
    chain,    \* Seq([id, table]): rules installed by API calls, installation order
    gone,     \* set of [id, table]: rules whose guard was dropped (witness bookkeeping)
    forg,     \* set of ids whose guard was forgotten            (witness bookkeeping)
    pk,       \* Seq of records: one per packet shown to the rules, in emission (egress) order
    arr,      \* Seq([tag, sock, at]): arrivals observed by receiving sockets, observation order
    ended,    \* BOOLEAN: the fixture run is over and the receivers had drained
    endNow    \* instant at which it ended

pvars == <<fixture, chain, gone, forg, pk, arr, ended, endNow>>

PInit ==
    /\ fixture \in BOOLEAN
    /\ chain = <<>> /\ gone = {} /\ forg = {}
    /\ pk = <<>> /\ arr = <<>>
    /\ ended = FALSE /\ endNow = 0

---------------------------------------------------------------------------
(* What "first installed rule, in installation order, that returns          *)
(* something other than Pass" means for chain ch and packet class c.        *)

Deciders(ch, c) == {k \in 1..Len(ch) : ch[k].table[c] # PASS}
FirstIdx(ch, c) == IF Deciders(ch, c) = {} THEN 0
                   ELSE CHOOSE k \in Deciders(ch, c) : \A j \in Deciders(ch, c) : k <= j
FirstNonPass(ch, c) == IF FirstIdx(ch, c) = 0 THEN PASS ELSE ch[FirstIdx(ch, c)].table[c]
\* ids of the rules that get to see the packet: everything up to and including the decider
PrefixIds(ch, c) ==
    LET n == IF FirstIdx(ch, c) = 0 THEN Len(ch) ELSE FirstIdx(ch, c)
    IN  [k \in 1..n |-> ch[k].id]

---------------------------------------------------------------------------
(* Observation actions *)

\* kind \in {"permanent", "enter_guard", "free"}: Net::rule / EnterGuard::rule / turmoil_net::rule
P_Install(kind, id, table) ==
    /\ chain' = Append(chain, [id |-> id, table |-> table])
    /\ UNCHANGED <<fixture, gone, forg, pk, arr, ended, endNow>>

\* the RuleGuard of rule id was dropped: the rule is gone, the order of the rest is kept
P_DropGuard(id) ==
    /\ chain' = SelectSeq(chain, LAMBDA r : r.id # id)
    /\ gone' = gone \cup {chain[k] : k \in {j \in 1..Len(chain) : chain[j].id = id}}
    /\ UNCHANGED <<fixture, forg, pk, arr, ended, endNow>>

\* RuleGuard::forget: the rule stays
P_Forget(id) ==
    /\ forg' = forg \cup {id}
    /\ UNCHANGED <<fixture, chain, gone, pk, arr, ended, endNow>>

\* A packet was shown to the rules at instant `at` (it left its host).
\*   tag       unique positive id of a tagged datagram, 0 for untagged packets (TCP segments)
\*   cls       packet class (index into the rules' tables)
\*   decision  verdict returned by the chain (PASS / DROP / d) or UNK when not observable
\*   consulted ids of the rule closures that logged this packet, in order
\*   sock      id of the receiving socket that was bound from the start and logs arrivals, 0 if none
\*   lo        the packet shown was host-local traffic: its destination was a loopback address
\*             or one of the sending host's own addresses (it never leaves its host)
P_Eval(tag, cls, decision, consulted, at, sock, lo) ==
    /\ pk' = Append(pk, [tag |-> tag, cls |-> cls, at |-> at, decision |-> decision,
                         consulted |-> consulted, sock |-> sock, lo |-> lo,
                         want   |-> FirstNonPass(chain, cls),
                         prefix |-> PrefixIds(chain, cls),
                         goneAt |-> gone, forgAt |-> forg])
    /\ UNCHANGED <<fixture, chain, gone, forg, arr, ended, endNow>>

\* receiving socket `sock` returned tagged datagram `tag` to its reader at instant `at`
P_Arrive(tag, sock, at) ==
    /\ arr' = Append(arr, [tag |-> tag, sock |-> sock, at |-> at])
    /\ UNCHANGED <<fixture, chain, gone, forg, pk, ended, endNow>>

\* the fixture run ended at instant `now`; every receiver had been polled at that instant
P_End(now) ==
    /\ ended' = TRUE /\ endNow' = now
    /\ UNCHANGED <<fixture, chain, gone, forg, pk, arr>>

\* start of a new recorded run (trace validation only)
P_Reset(fx) ==
    /\ fixture' = fx
    /\ chain' = <<>> /\ gone' = {} /\ forg' = {}
    /\ pk' = <<>> /\ arr' = <<>>
    /\ ended' = FALSE /\ endNow' = 0

---------------------------------------------------------------------------
(* The properties *)

Evals == 1..Len(pk)
HasEval(tag) == \E i \in Evals : pk[i].tag = tag
EvalIdx(tag) == CHOOSE i \in Evals : pk[i].tag = tag     \* tags > 0 are unique per run
Delay(e) == IF e.want = PASS THEN 0 ELSE e.want            \* all-Pass / empty = zero delay
Arrived(tag) == \E k \in 1..Len(arr) : arr[k].tag = tag

\* "Every non-loopback packet leaving a turmoil-net host is decided by the first installed
\*  rule, in installation order, that returns something other than Pass (no rules or all
\*  Pass means immediate delivery)" - the verdict, where the driver can see it.
FirstMatch ==
    \A i \in Evals : pk[i].decision # UNK => pk[i].decision = pk[i].want

\* The same sentence, seen from the rules: a rule is asked iff every earlier installed rule
\* passed; "a rule stops applying the moment its guard is dropped": a rule that is no longer
\* in `chain` logs nothing (a forgotten guard's rule is still in `chain`).
ConsultedPrefix ==
    \A i \in Evals : pk[i].consulted = pk[i].prefix

\* "Every non-loopback packet LEAVING a turmoil-net host is decided by ... loopback traffic is
\*  never shown to rules": traffic that does not leave its host - addressed to 127.0.0.0/8, ::1
\*  or to one of the sending host's own configured addresses (DESIGN 6 C19: "loopback and
\*  own-address traffic is never shown to any rule"; property mechanism kernel/mod.rs egress
\*  fold-back on is_local) - is never seen by any rule closure.
LoopbackNeverShown ==
    \A i \in Evals : ~pk[i].lo

\* "Under the built-in fixtures a packet given Deliver(d) is delivered no earlier than d
\*  after it left its host and within one tick after that deadline" (all-Pass / empty chain:
\*  "immediate delivery" = the d = 0 case).  Every observed arrival is inside the window.
OnTime ==
    fixture =>
    \A k \in 1..Len(arr) :
        (arr[k].tag > 0 /\ HasEval(arr[k].tag)) =>
            LET e == pk[EvalIdx(arr[k].tag)] IN
            e.want # DROP =>
                /\ arr[k].at >= e.at + Delay(e)
                /\ arr[k].at <= e.at + Delay(e) + Tick

\* "... is delivered ... within one tick after that deadline": it does arrive.  Asserted only
\* for datagrams addressed to a receiver that was bound before the run started, once the run
\* has ended strictly later than the last permitted arrival instant.
Delivered ==
    (fixture /\ ended) =>
    \A i \in Evals :
        (pk[i].tag > 0 /\ pk[i].sock > 0 /\ pk[i].want # DROP
            /\ endNow > pk[i].at + Delay(pk[i]) + Tick)
        => Arrived(pk[i].tag)

\* "packets with equal deadlines keep their emission order": two packets given Deliver(d)
\* whose deadlines (instant they left their host + d) are equal and which go to the same
\* receiving socket are received in the order in which they left (index in pk).
FifoEqualDeadline ==
    fixture =>
    \A j, k \in 1..Len(arr) :
        (j < k /\ arr[j].sock = arr[k].sock /\ arr[j].tag > 0 /\ arr[k].tag > 0
           /\ arr[j].tag # arr[k].tag /\ HasEval(arr[j].tag) /\ HasEval(arr[k].tag)) =>
            LET a == pk[EvalIdx(arr[j].tag)]  b == pk[EvalIdx(arr[k].tag)] IN
            (a.want >= 0 /\ b.want >= 0 /\ a.at + a.want = b.at + b.want)
                => EvalIdx(arr[j].tag) < EvalIdx(arr[k].tag)

\* "a dropped packet is never delivered"
DroppedNeverArrive ==
    fixture =>
    \A k \in 1..Len(arr) :
        (arr[k].tag > 0 /\ HasEval(arr[k].tag)) => pk[EvalIdx(arr[k].tag)].want # DROP

PropInv ==
    /\ FirstMatch /\ ConsultedPrefix /\ LoopbackNeverShown
    /\ OnTime /\ Delivered /\ FifoEqualDeadline /\ DroppedNeverArrive

---------------------------------------------------------------------------
(* Witness predicates (vacuity guards): each must be reachable.  The check *)
(* runs TLC with the negation as an invariant and requires a violation.    *)

\* a rule whose guard was dropped would have decided this packet had it still been installed
W_DroppedWouldDecide ==
    \E i \in Evals : \E g \in pk[i].goneAt :
        /\ g.table[pk[i].cls] # PASS
        /\ \A q \in 1..Len(pk[i].consulted) : g.id # pk[i].consulted[q]
        /\ (IF Len(pk[i].consulted) = 0 THEN TRUE
            ELSE g.id < pk[i].consulted[Len(pk[i].consulted)])
\* a forgotten guard's rule decided a packet
W_ForgottenDecides ==
    \E i \in Evals : Len(pk[i].consulted) > 0
        /\ pk[i].consulted[Len(pk[i].consulted)] \in pk[i].forgAt /\ pk[i].want # PASS
\* a later rule was not asked because an earlier one decided
W_ShortCircuit ==
    \E i \in Evals : pk[i].want # PASS /\ Len(pk[i].consulted) >= 2
\* crossing deadlines: a packet that left later arrived earlier at the same socket
W_Overtake ==
    \E j, k \in 1..Len(arr) :
        /\ j < k /\ arr[j].sock = arr[k].sock /\ arr[j].tag > 0 /\ arr[k].tag > 0
        /\ HasEval(arr[j].tag) /\ HasEval(arr[k].tag)
        /\ EvalIdx(arr[j].tag) > EvalIdx(arr[k].tag)
\* an equal-deadline pair (emitted at different instants) arrived
W_EqualDeadlinePair ==
    \E j, k \in 1..Len(arr) :
        /\ j < k /\ arr[j].sock = arr[k].sock /\ arr[j].tag > 0 /\ arr[k].tag > 0
        /\ HasEval(arr[j].tag) /\ HasEval(arr[k].tag)
        /\ LET a == pk[EvalIdx(arr[j].tag)]  b == pk[EvalIdx(arr[k].tag)] IN
           a.want >= 0 /\ b.want >= 0 /\ a.at + a.want = b.at + b.want /\ a.at # b.at
\* a sub-tick delay was rounded up to the next tick
W_SubTick ==
    \E k \in 1..Len(arr) : arr[k].tag > 0 /\ HasEval(arr[k].tag)
        /\ LET e == pk[EvalIdx(arr[k].tag)] IN e.want > 0 /\ arr[k].at > e.at + e.want
\* the Delivered clause was exercised for a delayed and for a dropped packet
W_DeliveredBinding ==
    fixture /\ ended /\ \E i \in Evals : pk[i].tag > 0 /\ pk[i].sock > 0 /\ pk[i].want > 0
        /\ endNow > pk[i].at + pk[i].want + Tick
W_DropSeen ==
    fixture /\ ended /\ \E i \in Evals : pk[i].tag > 0 /\ pk[i].sock > 0 /\ pk[i].want = DROP

NoW_DroppedWouldDecide == ~W_DroppedWouldDecide
NoW_ForgottenDecides   == ~W_ForgottenDecides
NoW_ShortCircuit       == ~W_ShortCircuit
NoW_Overtake           == ~W_Overtake
NoW_EqualDeadlinePair  == ~W_EqualDeadlinePair
NoW_SubTick            == ~W_SubTick
NoW_DeliveredBinding   == ~W_DeliveredBinding
NoW_DropSeen           == ~W_DropSeen
=============================================================================
