------------------------------ MODULE Rules_MC ------------------------------
(* Exhaustive configurations of Rules: named verdict-table sets (the cfg    *)
(* grammar has no negative numbers / tuples) substituted for `Tables`.      *)
(* Tables are indexed by packet class; -1 = Pass, -2 = Drop, d = Deliver(d) *)
(* in half-millisecond units (Tick = 2): 1 = sub-tick, 2 = one tick,        *)
(* 4 = two ticks.                                                           *)
EXTENDS Rules

\* two classes, delays {0, 1, 2, 4}: every pairing that matters for first match
T_fix_quick == {<<-1, -1>>, <<-1, -2>>, <<2, -1>>, <<0, 4>>, <<1, 2>>, <<4, 0>>}
T_fix_full  == {<<-1, -1>>, <<-1, -2>>, <<-2, -1>>, <<2, -1>>, <<-1, 2>>, <<0, 4>>, <<1, 2>>, <<4, 0>>, <<4, 1>>}
\* three classes, the third is the TCP (untagged) class
T_prim      == {<<-1, -1, -1>>, <<-2, -1, 0>>, <<-1, 2, -2>>, <<0, -2, -1>>, <<-1, -1, 3>>}
T_prim_full == {<<-1, -1, -1>>, <<-2, -1, 0>>, <<-1, 2, -2>>, <<0, -2, -1>>, <<-1, -1, 3>>, <<-1, -2, -1>>, <<5, -1, -1>>}
T_prim_q    == {<<-1, -2, 0>>, <<0, -1, -2>>, <<-2, 3, -1>>}
T_fix_q5    == {<<-1, -2>>, <<2, -1>>, <<0, 4>>, <<1, 2>>, <<4, 0>>}
T_gen_fix   == {<<2, 0>>, <<0, 4>>, <<1, -2>>}
T_gen_prim  == {<<-1, -2, 0>>, <<0, -1, -2>>}
T_chain     == {<<0, -1>>, <<2, -2>>, <<-2, 4>>}
T_kern      == {<<-1, -1, -1>>, <<-1, 2, 1>>, <<4, -1, 0>>, <<-2, 0, -1>>}

(* Vacuity probes: stuttering actions enabled exactly where a witness        *)
(* predicate of RulesProp holds; `-coverage` counts how often each was      *)
(* taken, and the check fails if a required one was never enabled.          *)
WitDroppedWouldDecide == W_DroppedWouldDecide /\ UNCHANGED vars
WitForgottenDecides   == W_ForgottenDecides /\ UNCHANGED vars
WitShortCircuit       == W_ShortCircuit /\ UNCHANGED vars
WitOvertake           == W_Overtake /\ UNCHANGED vars
WitEqualDeadlinePair  == W_EqualDeadlinePair /\ UNCHANGED vars
WitSubTick            == W_SubTick /\ UNCHANGED vars
WitDeliveredBinding   == W_DeliveredBinding /\ UNCHANGED vars
WitDropSeen           == W_DropSeen /\ UNCHANGED vars
\* a local (loopback / own-address) datagram was folded back and received without any eval
WitLocalReceived ==
    /\ \E k \in 1..Len(arr) : arr[k].tag > 0 /\ ~HasEval(arr[k].tag)
    /\ UNCHANGED vars

NextMC ==
    \/ Next
    \/ WitDroppedWouldDecide \/ WitForgottenDecides \/ WitShortCircuit
    \/ WitOvertake \/ WitEqualDeadlinePair \/ WitSubTick
    \/ WitDeliveredBinding \/ WitDropSeen \/ WitLocalReceived

SpecMC == Init /\ [][NextMC]_vars
=============================================================================
