----------------------------- MODULE RulesGen -----------------------------
(* Behaviour generation for spec -> code replay: Rules plus a history       *)
(* variable; every complete behaviour is printed as one JSON line.  The     *)
(* entries are the action labels, which carry what TLC predicts the driver  *)
(* will observe (eval: decision, consulted, at; recv: tag, sock, at).       *)
EXTENDS Rules_MC, Json

VARIABLE hist

Done == \/ phase = "done"
        \/ ~Fixture /\ phase = "app" /\ nTicks = MaxTicks /\ AllDrained

GenInit == Init /\ hist = <<>>
GenNext == ~Done /\ Next /\ hist' = Append(hist, last')
GenSpec == GenInit /\ [][GenNext]_<<vars, hist>>

Emit_ == Done => PrintT(<<"REPLAY", ToJson(hist)>>)
=============================================================================
