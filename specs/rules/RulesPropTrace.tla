--------------------------- MODULE RulesPropTrace ---------------------------
(* Verdict-level trace validation: observation events recorded from the     *)
(* real code are replayed through the P_* actions of RulesProp; the         *)
(* invariants are evaluated in every state.  Implementation-only events     *)
(* (send, tick, tick_end, enter) are skipped.                               *)
EXTENDS RulesProp, Json, IOUtils, TLC

Rec == ndJsonDeserialize(IOEnv.TRACE)

VARIABLE l
E == Rec[l]
Is(e) == l <= Len(Rec) /\ Rec[l].ev = e /\ l' = l + 1

TInit == PInit /\ fixture = FALSE /\ l = 1

TNext ==
    \/ Is("reset") /\ P_Reset(E.fx)
    \/ Is("install") /\ P_Install(E.kind, E.id, E.table)
    \/ Is("dropguard") /\ P_DropGuard(E.id)
    \/ Is("forget") /\ P_Forget(E.id)
    \/ Is("eval") /\ P_Eval(E.tag, E.cls, E.decision, E.consulted, E.at, E.sock, E.lo)
    \/ Is("arrive") /\ P_Arrive(E.tag, E.sock, E.at)
    \/ Is("end") /\ P_End(E.now)
    \/ /\ l <= Len(Rec) /\ Rec[l].ev \in {"send", "tick", "tick_end", "enter"}
       /\ l' = l + 1 /\ UNCHANGED pvars

TSpec == TInit /\ [][TNext]_<<pvars, l>>

Accepted ==
    LET d == TLCGet("stats").diameter IN
    IF d - 1 = Len(Rec) THEN TRUE
    ELSE Print(<<"UNMATCHED", d, ToJson(Rec[d])>>, FALSE)
=============================================================================
