----------------------------- MODULE RulesTrace -----------------------------
(* Fidelity-level trace validation: full event traces recorded from the     *)
(* real code must be behaviours of the ImplSpec Rules; ImplInv and PropInv  *)
(* are evaluated in every state.                                            *)
EXTENDS Rules_MC, Json, IOUtils

Rec == ndJsonDeserialize(IOEnv.TRACE)

VARIABLE l
E == Rec[l]
Is(e) == l <= Len(Rec) /\ Rec[l].ev = e /\ l' = l + 1

TInit == Init /\ l = 1

TReset ==
    /\ Is("reset") /\ E.fx = Fixture /\ P_Reset(E.fx)
    /\ entered' = Fixture
    /\ ichain' = <<>> /\ nextId' = 1 /\ guards' = {}
    /\ now' = 0 /\ pending' = <<>> /\ nextSeq' = 0
    /\ outb' = [h \in Hosts |-> <<>>] /\ eq' = <<>>
    /\ rq' = [s \in Socks |-> <<>>]
    /\ phase' = "app"
    /\ nTag' = 1 /\ nOps' = 0 /\ nKern' = 0 /\ nTicks' = 0
    /\ last' = [a |-> "init"]

TInstall ==
    /\ Is("install")
    /\ CASE E.kind = "permanent"   -> InstallPermanent(E.table)
         [] E.kind = "enter_guard" -> InstallEnterGuard(E.table)
         [] E.kind = "free"        -> InstallFree(E.table)
    /\ last'.id = E.id
    /\ (E.rid # 0 => E.rid = nextId)          \* RuleGuard::id() as the code reports it

TEval ==
    /\ Is("eval")
    /\ IF E.tag > 0 THEN EvalOne ELSE EvalKernelPkt
    /\ last'.tag = E.tag /\ last'.cls = E.cls /\ last'.consulted = E.consulted
    /\ last'.at = E.at /\ last'.sock = E.sock /\ ~E.lo
    /\ (E.decision # UNK => last'.decision = E.decision)

TNext ==
    \/ TReset
    \/ Is("enter") /\ Enter
    \/ TInstall
    \/ Is("dropguard") /\ DropGuard(E.id)
    \/ Is("forget") /\ Forget(E.id)
    \/ Is("send") /\ Emit(E.h, E.cls, E.sock, E.via) /\ last'.tag = E.tag
    \/ Is("tick") /\ TickBegin /\ last'.now = E.now
    \/ TEval
    \/ Is("tick_end") /\ TickEnd
    \/ Is("arrive") /\ Recv(E.sock) /\ last'.tag = E.tag /\ last'.at = E.at
    \/ Is("end") /\ End /\ now = E.now

TSpec == TInit /\ [][TNext]_<<vars, l>>

Accepted ==
    LET d == TLCGet("stats").diameter IN
    IF d - 1 = Len(Rec) THEN TRUE
    ELSE Print(<<"UNMATCHED", d, ToJson(Rec[d])>>, FALSE)
=============================================================================
