----------------------------- MODULE FsImplTrace -----------------------------
(* Fidelity-level trace validation: every recorded call must be the step    *)
(* of the ImplSpec FsImpl (result incl. error kind, read-back view, and the *)
(* state reported by Fs::verif_dump).  A mismatch is printed as DRIFT and   *)
(* the rest of the run is skipped.  The reference runs in lock step; the    *)
(* first point of a run where FsImpl leaves it is printed as DEV together   *)
(* with the Dev_ predicates that hold there (family attribution of what     *)
(* FsRefTrace rejects).                                                     *)
EXTENDS FsImpl, Json, IOUtils

Rec == ndJsonDeserialize(IOEnv.TRACE)

VARIABLES l, tps, skipping, live
tvars == <<l, tps, skipping, live>>
E == Rec[l]

TInit == Init /\ l = 1 /\ tps = <<>> /\ skipping = FALSE /\ live = TRUE

TReset ==
    /\ E.ev = "reset"
    /\ P_Reset
    /\ pf' = [x \in {} |-> <<>>] /\ pd' = {"/"} /\ se' = {"/"} /\ pend' = <<>>
    /\ oh' = [h \in 1..MaxH |-> Null]
    /\ ires' = Ok(0) /\ moved' = {} /\ missed' = {} /\ seen' = {}
    /\ lastop' = [k |-> "init"] /\ div' = "" /\ devs' = {} /\ nops' = 0 /\ ncrash' = 0
    /\ tps' = E.ps /\ skipping' = FALSE /\ live' = TRUE

PfSeq(f) == [k \in 1..Len(SeqOfSet(DOMAIN f)) |-> [p |-> SeqOfSet(DOMAIN f)[k], c |-> f[SeqOfSet(DOMAIN f)[k]]]]
ImplStateNext == [pf |-> PfSeq(pf'), pd |-> SeqOfSet(pd'), se |-> SeqOfSet(se'), pend |-> pend',
                  oh |-> [h \in 1..MaxH |-> IF oh'[h].open THEN oh'[h].p ELSE ""]]
ObsState == [pf |-> E.st.pf, pd |-> E.st.pd, se |-> E.st.se, pend |-> E.st.pend, oh |-> E.st.oh]
BagEq(a, b) == Len(a) = Len(b) /\ \A k \in 1..Len(a) :
                   Cardinality({j \in 1..Len(a) : a[j] = a[k]}) = Cardinality({j \in 1..Len(b) : b[j] = a[k]})
\* remove_dir_all visits the entries in dir_entries order (an IndexMap order the model does not keep): the
\* recorded log order is adopted when it is a permutation of the predicted one
XOf(op) ==
    LET x == IStep(op) IN
    \* torn writes: the tearing choice is read off the recorded persisted files
    IF op.k = "crash" /\ BlockSize > 0 /\ E.hasst
    THEN LET fits == {f \in CrashChoices : PfSeq(CrashS([St EXCEPT !.pf = f]).pf) = E.st.pf}
         IN IF fits = {} THEN x ELSE I_CrashF(op, CHOOSE f \in fits : TRUE)
    ELSE IF op.k = "remove_dir_all" /\ E.hasst /\ BagEq(x.S.pend, E.st.pend) THEN [x EXCEPT !.S.pend = E.st.pend] ELSE x

TOp ==
    /\ E.ev = "op" /\ ~skipping
    /\ IF live THEN DoX(E.op, XOf(E.op))
       ELSE /\ I_DoX(E.op, XOf(E.op)) /\ lastop' = E.op
            /\ UNCHANGED <<rvars, div, devs, nops, ncrash, seen>>
    /\ LET crash == E.op.k = "crash"
           resOk == IF crash THEN E.res.v = ires'.v ELSE SameRes(ires', E.res) /\ ires'.kd = E.res.kd
           viewOk == crash \/ E.view = <<>> \/ E.view = IViewS(StP, tps)
           stOk == ~E.hasst \/ (ObsState = ImplStateNext /\ E.st.extra = 0)
       IN /\ skipping' = ~(resOk /\ viewOk /\ stOk)
          /\ ~(resOk /\ viewOk /\ stOk) =>
                PrintT(<<"DRIFT", E.run, E.i, IF ~resOk THEN "result" ELSE IF ~viewOk THEN "view" ELSE "state", ToJson(E.op),
                         ToJson([res |-> ires', st |-> ImplStateNext])>>)
    /\ live' = (live /\ div' = "" /\ mode' = "ok")
    /\ (live /\ div' # "") => PrintT(<<"DEV", E.run, E.i, div', ToJson(DevSeq(devs'))>>)
    /\ UNCHANGED tps

TSkip == E.ev = "op" /\ skipping /\ UNCHANGED <<vars, tps, skipping, live>>

TNext == l <= Len(Rec) /\ l' = l + 1 /\ (TReset \/ TOp \/ TSkip)
TSpec == TInit /\ [][TNext]_<<vars, tvars>>

Accepted ==
    LET d == TLCGet("stats").diameter IN
    IF d - 1 = Len(Rec) THEN TRUE
    ELSE Print(<<"UNMATCHED", d, ToJson(Rec[d])>>, FALSE)
=============================================================================
