------------------------------- MODULE FsRef -------------------------------
(* PropSpec for C10 / C07: the reference file tree.                          *)
(*                                                                          *)
(* C10 "every filesystem operation returns what a straightforward in-memory *)
(* POSIX file tree would return ... whether or not they have been synced.   *)
(* Sync operations never change anything observable": the current tree is   *)
(* inode based (handles follow renames and survive unlink); every operation *)
(* R_Do(op) computes the one permitted result `rres` and the next tree.     *)
(* The sync operations leave ents/data (everything RView reads) untouched   *)
(* by construction.                                                         *)
(*                                                                          *)
(* C07 "after a crash the filesystem contains exactly the durable image     *)
(* defined by the crate's model": every inode also carries its durable      *)
(* entries `dents` (written by sync_dir of that directory, and the          *)
(* directory's own entry in its parent) and durable bytes `ddata` (written  *)
(* by sync_all / sync_data).  Crash installs them.  Expectations are        *)
(* asserted only for paths all of whose ancestors are durable, and neither  *)
(* for dangling subtrees nor for inodes that end up under two names (hard   *)
(* links are outside the property): after such a crash the reference stops  *)
(* judging (mode "unspec").                                                 *)
(*                                                                          *)
(* Observation values are canonical JSON: sequences, records, strings,      *)
(* integers, booleans; sets of paths are sequences in universe order.       *)
EXTENDS Naturals, Integers, Sequences, FiniteSets, TLC

CONSTANTS MaxH,         \* number of handle slots
          BlockSize,    \* 0: writes are atomic; b > 0: block_size = b -- a crash may leave "block-aligned prefixes of
                        \* [the file's] pending writes"
          SyncKnob      \* TRUE: sync_probability > 0 -- every write / set_len may be followed by a background data
                        \* sync of that file ("a later sync point of the file" is then a permitted crash content)

\* ---------------------------------------------------------------------------
\* path universe: strings for the outside world, name sequences inside
PathTable ==
    [s \in {"/", "/a", "/b", "/c", "/d", "/d/a", "/d/b", "/d/c", "/d/e", "/d/e/a", "/e", "/e/a", "/e/b"} |->
       CASE s = "/"      -> <<>>
         [] s = "/a"     -> <<"a">>
         [] s = "/b"     -> <<"b">>
         [] s = "/c"     -> <<"c">>
         [] s = "/d"     -> <<"d">>
         [] s = "/d/a"   -> <<"d", "a">>
         [] s = "/d/b"   -> <<"d", "b">>
         [] s = "/d/c"   -> <<"d", "c">>
         [] s = "/d/e"   -> <<"d", "e">>
         [] s = "/d/e/a" -> <<"d", "e", "a">>
         [] s = "/e"     -> <<"e">>
         [] s = "/e/a"   -> <<"e", "a">>
         [] s = "/e/b"   -> <<"e", "b">>]
\* universe in lexicographic (byte) order: canonical order of every path list
UniverseSeq == <<"/", "/a", "/b", "/c", "/d", "/d/a", "/d/b", "/d/c", "/d/e", "/d/e/a", "/e", "/e/a", "/e/b">>
Universe == DOMAIN PathTable
Seg(s) == PathTable[s]
Str(q) == CHOOSE s \in Universe : PathTable[s] = q
InUniverse(q) == \E s \in Universe : PathTable[s] = q
ParentSeq(q) == SubSeq(q, 1, Len(q) - 1)
ParentStr(s) == Str(ParentSeq(Seg(s)))        \* s # "/"
IsPrefixOf(a, b) == Len(a) <= Len(b) /\ SubSeq(b, 1, Len(a)) = a
SeqOfSet(S) == SelectSeq(UniverseSeq, LAMBDA s : s \in S)
Min(a, b) == IF a < b THEN a ELSE b
Max(a, b) == IF a > b THEN a ELSE b

\* ---------------------------------------------------------------------------
\* results
Ok(v)  == [ok |-> TRUE, e |-> "", kd |-> "", v |-> v]
KindOf(c) ==            \* std::io::ErrorKind that std::fs returns on Linux for the class
    CASE c = "NotFound" -> "NotFound"
      [] c = "AlreadyExists" -> "AlreadyExists"
      [] c = "NotEmpty" -> "DirectoryNotEmpty"
      [] c = "IsDir" -> "IsADirectory"
      [] c = "NotDir" -> "NotADirectory"
      [] c = "InvalidInput" -> "InvalidInput"
      [] c = "BadAccess" -> "Uncategorized"      \* EBADF
      [] OTHER -> "?"
Err(c) == [ok |-> FALSE, e |-> c, kd |-> KindOf(c), v |-> 0]
ErrK(c, k) == [ok |-> FALSE, e |-> c, kd |-> k, v |-> 0]
\* value-level equality (Ok vs Err, value, error class); the error kind is a separate sub-check
SameRes(a, b) == a.ok = b.ok /\ (IF a.ok THEN a.v = b.v ELSE a.e = b.e)
Null == [open |-> FALSE]

\* ---------------------------------------------------------------------------
VARIABLES
    ino,     \* sequence of inodes [kind, ents, data, dents, ddata]; ino[1] is the root
    hnd,     \* handle slot -> Null | [open, i, cur, rd, wr, app]
    mode,    \* "ok" | "unspec" (after a crash that left a dangling subtree / a doubly linked inode)
    rres     \* result the reference returns for the last operation
rvars == <<ino, hnd, mode, rres>>

Root == 1
NoIno == 0
NoEnts == [n \in {} |-> 0]
\* cands: contents the file had immediately after a write / set_len since its last explicit data sync (kept
\* only under SyncKnob): the contents a background sync may have made durable
\* --- byte helpers ----------------------------------------------------------
Zeros(n) == [k \in 1..n |-> 0]
Resize(d, n) == IF n <= Len(d) THEN SubSeq(d, 1, n) ELSE d \o Zeros(n - Len(d))
WriteBytes(d, off, w) ==
    LET base == Resize(d, Max(Len(d), off + Len(w)))
    IN [k \in 1..Len(base) |-> IF k > off /\ k <= off + Len(w) THEN w[k - off] ELSE base[k]]
ReadBytes(d, off, n) == IF off >= Len(d) THEN <<>> ELSE SubSeq(d, off + 1, Min(Len(d), off + n))

\* pw: the write calls [off, data] since the last data sync of the file, in issue order (kept only under BlockSize)
\* at: the path under which a directory inode was linked last (ghost; locates a dangling subtree after a crash)
NewFile == [kind |-> "file", ents |-> NoEnts, data |-> <<>>, dents |-> NoEnts, ddata |-> <<>>, cands |-> {}, pw |-> <<>>, at |-> ""]
NewDir  == [kind |-> "dir",  ents |-> NoEnts, data |-> <<>>, dents |-> NoEnts, ddata |-> <<>>, cands |-> {}, pw |-> <<>>, at |-> "/"]
NewDirAt(s) == [NewDir EXCEPT !.at = s]
SetData(t, i, d) == [t EXCEPT ![i].data = d, ![i].cands = IF SyncKnob THEN @ \cup {d} ELSE @]
\* a write call: the new contents, and the call itself as a pending write
Wrote(t, i, d, off, w) ==
    [SetData(t, i, d) EXCEPT ![i].pw = IF BlockSize > 0 /\ w # <<>> THEN Append(@, [off |-> off, data |-> w]) ELSE @]
\* torn writes (DESIGN A.5): on top of the base every pending write independently contributes a prefix of k * b
\* bytes (0 <= k <= ceil(len / b), capped at its length), applied in issue order; a pending set_len never tears
RECURSIVE TornSet(_, _, _)
TornSet(pw, k, acc) ==
    IF k > Len(pw) THEN acc
    ELSE LET w == pw[k]
             nb == (Len(w.data) + BlockSize - 1) \div BlockSize
         IN TornSet(pw, k + 1, {IF n = 0 THEN c ELSE WriteBytes(c, w.off, SubSeq(w.data, 1, Min(n * BlockSize, Len(w.data)))) :
                                   <<c, n>> \in acc \X (0..nb)})
Permitted(t, i) == IF BlockSize > 0 THEN TornSet(t[i].pw, 1, {t[i].ddata}) ELSE {t[i].ddata} \cup t[i].cands

RInit ==
    /\ ino = <<NewDir>>
    /\ hnd = [h \in 1..MaxH |-> Null]
    /\ mode = "ok"
    /\ rres = Ok(0)

\* --- tree walking (over an arbitrary inode table t and entry selector) -------
RECURSIVE WalkT(_, _, _)
WalkT(t, i, q) ==
    IF q = <<>> THEN i
    ELSE IF i = NoIno THEN NoIno
    ELSE IF t[i].kind # "dir" \/ Head(q) \notin DOMAIN t[i].ents THEN NoIno
    ELSE WalkT(t, t[i].ents[Head(q)], Tail(q))
LookupT(t, s) == WalkT(t, Root, Seg(s))
Lookup(s) == LookupT(ino, s)
IsDirT(t, s) == LookupT(t, s) # NoIno /\ t[LookupT(t, s)].kind = "dir"
IsFileT(t, s) == LookupT(t, s) # NoIno /\ t[LookupT(t, s)].kind = "file"
IsDir(s) == IsDirT(ino, s)
IsFile(s) == IsFileT(ino, s)
\* error class when the parent of s cannot hold an entry: some proper prefix is a file -> NotDir, else NotFound
RECURSIVE PrefixIsFile(_, _)
PrefixIsFile(q, k) ==    \* some prefix of q of length k..Len(q)-1 resolves to a file
    IF k >= Len(q) THEN FALSE
    ELSE LET i == WalkT(ino, Root, SubSeq(q, 1, k)) IN
         (i # NoIno /\ ino[i].kind = "file") \/ PrefixIsFile(q, k + 1)
ParentErr(s) == IF PrefixIsFile(Seg(s), 1) THEN "NotDir" ELSE "NotFound"
ParentOk(s) == IsDir(ParentStr(s))
LastName(s) == Seg(s)[Len(Seg(s))]
ChildrenT(t, s) ==      \* paths of the universe that are direct children of directory s in table t
    {c \in Universe : c # "/" /\ ParentSeq(Seg(c)) = Seg(s) /\ LookupT(t, c) # NoIno}

\* --- tree updates ----------------------------------------------------------
Link(t, dirI, name, i) == [t EXCEPT ![dirI].ents = [n \in (DOMAIN @) \cup {name} |-> IF n = name THEN i ELSE @[n]]]
Unlink(t, dirI, name) == [t EXCEPT ![dirI].ents = [n \in (DOMAIN @) \ {name} |-> @[n]]]
DLink(t, dirI, name, i) == [t EXCEPT ![dirI].dents = [n \in (DOMAIN @) \cup {name} |-> IF n = name THEN i ELSE @[n]]]

\* ---------------------------------------------------------------------------
\* view: what exists / metadata / read / read_dir report for every path of a list
\* t: the tails of the file read through a fresh handle at the offsets 1..3 (read_at windows that do not
\* start at 0: "read_at at arbitrary offsets")
Tails(d) == [o \in 1..Min(Len(d), 3) |-> SubSeq(d, o + 1, Len(d))]
RInfoT(t, s) ==
    LET i == LookupT(t, s) IN
    IF i = NoIno THEN [k |-> "none", l |-> 0, d |-> <<>>, t |-> <<>>, ed |-> FALSE, e |-> <<>>]
    ELSE IF t[i].kind = "file" THEN [k |-> "file", l |-> Len(t[i].data), d |-> t[i].data, t |-> Tails(t[i].data), ed |-> FALSE, e |-> <<>>]
    ELSE [k |-> "dir", l |-> 0, d |-> <<>>, t |-> <<>>, ed |-> TRUE, e |-> SeqOfSet(ChildrenT(t, s))]
RViewOn(ps) == [k \in 1..Len(ps) |-> RInfoT(ino, ps[k])]

\* ---------------------------------------------------------------------------
\* operations.  op is a record with field k (kind) and the arguments of the kind.
H(op) == hnd[op.h]
HI(op) == hnd[op.h].i
HOpen(op) == op.h \in 1..MaxH /\ hnd[op.h].open

R_Open(op) ==
    LET s == op.p
        tgt == Lookup(s)
        mk == [open |-> TRUE, i |-> 0, cur |-> 0, rd |-> op.rd, wr |-> op.wr \/ op.app, app |-> op.app]
    IN
    /\ op.h \in 1..MaxH /\ ~hnd[op.h].open
    /\ mode' = mode
    /\ IF ~ParentOk(s) THEN
            /\ rres' = Err(ParentErr(s)) /\ UNCHANGED <<ino, hnd>>
       ELSE IF tgt # NoIno THEN
            IF op.cn THEN rres' = Err("AlreadyExists") /\ UNCHANGED <<ino, hnd>>
            ELSE IF ino[tgt].kind = "dir" /\ (op.wr \/ op.app \/ op.cr)
                 THEN rres' = Err("IsDir") /\ UNCHANGED <<ino, hnd>>
            ELSE /\ rres' = Ok(op.h)
                 /\ ino' = IF op.tr /\ op.wr /\ ino[tgt].kind = "file" THEN [ino EXCEPT ![tgt].data = <<>>] ELSE ino
                 /\ hnd' = [hnd EXCEPT ![op.h] = [mk EXCEPT !.i = tgt]]
       ELSE IF op.cr \/ op.cn THEN
            LET n == Len(ino) + 1 IN
            /\ rres' = Ok(op.h)
            /\ ino' = Link(Append(ino, NewFile), Lookup(ParentStr(s)), LastName(s), n)
            /\ hnd' = [hnd EXCEPT ![op.h] = [mk EXCEPT !.i = n]]
       ELSE rres' = Err("NotFound") /\ UNCHANGED <<ino, hnd>>

R_Close(op) ==
    /\ HOpen(op)
    /\ hnd' = [hnd EXCEPT ![op.h] = Null]
    /\ rres' = Ok(0) /\ UNCHANGED <<ino, mode>>

R_WriteAt(op) ==
    /\ HOpen(op) /\ UNCHANGED <<hnd, mode>>
    /\ IF ~H(op).wr THEN rres' = Err("BadAccess") /\ UNCHANGED ino
       ELSE /\ rres' = Ok(Len(op.data))
            /\ ino' = Wrote(ino, HI(op), IF op.data = <<>> THEN ino[HI(op)].data ELSE WriteBytes(ino[HI(op)].data, op.off, op.data),
                            op.off, op.data)

R_ReadAt(op) ==
    /\ HOpen(op) /\ UNCHANGED <<ino, hnd, mode>>
    /\ rres' = IF ~H(op).rd THEN Err("BadAccess")
               ELSE IF ino[HI(op)].kind = "dir" THEN Err("IsDir")
               ELSE Ok(ReadBytes(ino[HI(op)].data, op.off, op.n))

R_Write(op) ==      \* cursor / append write
    /\ HOpen(op) /\ UNCHANGED mode
    /\ IF ~H(op).wr THEN rres' = Err("BadAccess") /\ UNCHANGED <<ino, hnd>>
       ELSE LET off == IF H(op).app THEN Len(ino[HI(op)].data) ELSE H(op).cur IN
            /\ rres' = Ok(Len(op.data))
            /\ ino' = Wrote(ino, HI(op), IF op.data = <<>> THEN ino[HI(op)].data ELSE WriteBytes(ino[HI(op)].data, off, op.data),
                            off, op.data)
            /\ hnd' = [hnd EXCEPT ![op.h].cur = off + Len(op.data)]

R_Read(op) ==       \* cursor read
    /\ HOpen(op) /\ UNCHANGED <<ino, mode>>
    /\ IF ~H(op).rd THEN rres' = Err("BadAccess") /\ UNCHANGED hnd
       ELSE IF ino[HI(op)].kind = "dir" THEN rres' = Err("IsDir") /\ UNCHANGED hnd
       ELSE LET got == ReadBytes(ino[HI(op)].data, H(op).cur, op.n) IN
            /\ rres' = Ok(got)
            /\ hnd' = [hnd EXCEPT ![op.h].cur = @ + Len(got)]

R_Seek(op) ==       \* whence "set" | "end" | "cur", signed offset
    LET base == CASE op.wh = "set" -> 0 [] op.wh = "end" -> Len(ino[HI(op)].data) [] op.wh = "cur" -> H(op).cur
        np == base + op.off
    IN
    /\ HOpen(op) /\ UNCHANGED <<ino, mode>>
    /\ IF np < 0 THEN rres' = Err("InvalidInput") /\ UNCHANGED hnd
       ELSE rres' = Ok(np) /\ hnd' = [hnd EXCEPT ![op.h].cur = np]

R_SetLen(op) ==
    /\ HOpen(op) /\ UNCHANGED <<hnd, mode>>
    /\ IF ~H(op).wr THEN rres' = Err("InvalidInput") /\ UNCHANGED ino      \* ftruncate on O_RDONLY: EINVAL
       ELSE rres' = Ok(0) /\ ino' = SetData(ino, HI(op), Resize(ino[HI(op)].data, op.n))

R_Len(op) ==
    /\ HOpen(op) /\ UNCHANGED <<ino, hnd, mode>>
    /\ rres' = Ok(Len(ino[HI(op)].data))

\* sync_all / sync_data: "its contents are those at its last data sync" -- nothing observable changes (C10)
R_SyncFile(op) ==
    /\ HOpen(op) /\ UNCHANGED <<hnd, mode>>
    /\ rres' = Ok(0)
    /\ ino' = [ino EXCEPT ![HI(op)].ddata = ino[HI(op)].data, ![HI(op)].cands = {}, ![HI(op)].pw = <<>>]

\* sync_dir(p): the entries of p become durable as they are now, and so does p's own entry in its parent
R_SyncDir(op) ==
    LET s == op.p  i == Lookup(s) IN
    /\ UNCHANGED <<hnd, mode>>
    /\ IF i = NoIno THEN rres' = Err(IF s # "/" /\ ~ParentOk(s) THEN ParentErr(s) ELSE "NotFound") /\ UNCHANGED ino
       ELSE IF ino[i].kind # "dir" THEN rres' = Err("NotDir") /\ UNCHANGED ino
       ELSE /\ rres' = Ok(0)
            /\ LET t1 == [ino EXCEPT ![i].dents = ino[i].ents] IN
               ino' = IF s = "/" THEN t1 ELSE DLink(t1, Lookup(ParentStr(s)), LastName(s), i)

R_Rename(op) ==
    LET f == op.p  t == op.q
        src == Lookup(f)  tgt == Lookup(t)
        moved == [Link(Unlink(ino, Lookup(ParentStr(f)), LastName(f)), Lookup(ParentStr(t)), LastName(t), src)
                     EXCEPT ![src].at = IF ino[src].kind = "dir" THEN t ELSE @]
    IN
    /\ UNCHANGED <<hnd, mode>>
    /\ IF src = NoIno THEN rres' = Err(IF ~ParentOk(f) THEN ParentErr(f) ELSE "NotFound") /\ UNCHANGED ino
       ELSE IF ~ParentOk(t) THEN rres' = Err(ParentErr(t)) /\ UNCHANGED ino
       ELSE IF ino[src].kind = "dir" /\ IsPrefixOf(Seg(f), Seg(t)) /\ f # t
            THEN rres' = Err("InvalidInput") /\ UNCHANGED ino        \* a directory into itself
       ELSE IF tgt = NoIno THEN rres' = Ok(0) /\ ino' = moved
       ELSE IF tgt = src THEN rres' = Ok(0) /\ UNCHANGED ino
       ELSE IF ino[src].kind = "file" /\ ino[tgt].kind = "dir" THEN rres' = Err("IsDir") /\ UNCHANGED ino
       ELSE IF ino[src].kind = "dir" /\ ino[tgt].kind = "file" THEN rres' = Err("NotDir") /\ UNCHANGED ino
       ELSE IF ino[tgt].kind = "dir" /\ DOMAIN ino[tgt].ents # {} THEN rres' = Err("NotEmpty") /\ UNCHANGED ino
       ELSE rres' = Ok(0) /\ ino' = moved

R_RemoveFile(op) ==
    LET s == op.p  i == Lookup(s) IN
    /\ UNCHANGED <<hnd, mode>>
    /\ IF i = NoIno THEN rres' = Err(IF ~ParentOk(s) THEN ParentErr(s) ELSE "NotFound") /\ UNCHANGED ino
       ELSE IF ino[i].kind = "dir" THEN rres' = Err("IsDir") /\ UNCHANGED ino
       ELSE rres' = Ok(0) /\ ino' = Unlink(ino, Lookup(ParentStr(s)), LastName(s))

R_CreateDir(op) ==
    LET s == op.p IN
    /\ UNCHANGED <<hnd, mode>>
    /\ IF s = "/" THEN rres' = Err("AlreadyExists") /\ UNCHANGED ino
       ELSE IF ~ParentOk(s) THEN rres' = Err(ParentErr(s)) /\ UNCHANGED ino
       ELSE IF Lookup(s) # NoIno THEN rres' = Err("AlreadyExists") /\ UNCHANGED ino
       ELSE rres' = Ok(0) /\ ino' = Link(Append(ino, NewDirAt(s)), Lookup(ParentStr(s)), LastName(s), Len(ino) + 1)

\* std::fs::create_dir_all: walk the components top down, creating what is missing
RECURSIVE MkAll(_, _, _)
MkAll(t, q, k) ==       \* returns [t, e]: table after creating prefixes k..Len(q) of q, e = "" or error class
    IF k > Len(q) THEN [t |-> t, e |-> ""]
    ELSE LET pre == SubSeq(q, 1, k)
             i == WalkT(t, Root, pre)
         IN IF i # NoIno THEN
                IF t[i].kind = "dir" THEN MkAll(t, q, k + 1)
                ELSE [t |-> t, e |-> IF k = Len(q) THEN "AlreadyExists" ELSE "NotDir"]
            ELSE MkAll(Link(Append(t, NewDirAt(Str(pre))), WalkT(t, Root, SubSeq(q, 1, k - 1)), q[k], Len(t) + 1), q, k + 1)
R_CreateDirAll(op) ==
    LET r == MkAll(ino, Seg(op.p), 1) IN
    /\ UNCHANGED <<hnd, mode>>
    /\ rres' = IF r.e = "" THEN Ok(0) ELSE Err(r.e)
    /\ ino' = r.t            \* directories created before the failing component stay (as in std)

R_RemoveDir(op) ==
    LET s == op.p  i == Lookup(s) IN
    /\ UNCHANGED <<hnd, mode>>
    /\ IF i = NoIno THEN rres' = Err(IF s # "/" /\ ~ParentOk(s) THEN ParentErr(s) ELSE "NotFound") /\ UNCHANGED ino
       ELSE IF ino[i].kind # "dir" THEN rres' = Err("NotDir") /\ UNCHANGED ino
       ELSE IF DOMAIN ino[i].ents # {} THEN rres' = Err("NotEmpty") /\ UNCHANGED ino
       ELSE rres' = Ok(0) /\ ino' = Unlink(ino, Lookup(ParentStr(s)), LastName(s))

R_RemoveDirAll(op) ==
    LET s == op.p  i == Lookup(s) IN
    /\ UNCHANGED <<hnd, mode>>
    /\ IF i = NoIno THEN rres' = Err(IF s # "/" /\ ~ParentOk(s) THEN ParentErr(s) ELSE "NotFound") /\ UNCHANGED ino
       ELSE IF ino[i].kind # "dir" THEN rres' = Err("NotDir") /\ UNCHANGED ino
       ELSE rres' = Ok(0) /\ ino' = Unlink(ino, Lookup(ParentStr(s)), LastName(s))   \* the whole subtree becomes unreachable

R_ReadDir(op) ==
    LET s == op.p  i == Lookup(s) IN
    /\ UNCHANGED <<ino, hnd, mode>>
    /\ rres' = IF i = NoIno THEN Err(IF s # "/" /\ ~ParentOk(s) THEN ParentErr(s) ELSE "NotFound")
               ELSE IF ino[i].kind # "dir" THEN Err("NotDir")
               ELSE Ok(SeqOfSet(ChildrenT(ino, s)))

R_Metadata(op) ==
    LET s == op.p  i == Lookup(s) IN
    /\ UNCHANGED <<ino, hnd, mode>>
    /\ rres' = IF i = NoIno THEN Err(IF s # "/" /\ ~ParentOk(s) THEN ParentErr(s) ELSE "NotFound")
               ELSE Ok([k |-> ino[i].kind, l |-> IF ino[i].kind = "file" THEN Len(ino[i].data) ELSE 0])

R_Exists(op) ==
    /\ UNCHANGED <<ino, hnd, mode>>
    /\ rres' = Ok(Lookup(op.p) # NoIno)

R_ReadFile(op) ==       \* std::fs::read
    LET s == op.p  i == Lookup(s) IN
    /\ UNCHANGED <<ino, hnd, mode>>
    /\ rres' = IF i = NoIno THEN Err(IF ~ParentOk(s) THEN ParentErr(s) ELSE "NotFound")
               ELSE IF ino[i].kind = "dir" THEN Err("IsDir")
               ELSE Ok(ino[i].data)

R_WriteFile(op) ==      \* std::fs::write = create + truncate + write_all
    LET s == op.p  i == Lookup(s) IN
    /\ UNCHANGED <<hnd, mode>>
    /\ IF ~ParentOk(s) THEN rres' = Err(ParentErr(s)) /\ UNCHANGED ino
       ELSE IF i # NoIno /\ ino[i].kind = "dir" THEN rres' = Err("IsDir") /\ UNCHANGED ino
       \* std::fs::write: create + truncate (no background sync there), then one write call unless the data is empty
       ELSE IF i # NoIno THEN rres' = Ok(0) /\ ino' = IF op.data = <<>> THEN [ino EXCEPT ![i].data = <<>>] ELSE Wrote(ino, i, op.data, 0, op.data)
       ELSE /\ rres' = Ok(0)
            /\ LET t1 == Link(Append(ino, NewFile), Lookup(ParentStr(s)), LastName(s), Len(ino) + 1) IN
               ino' = IF op.data = <<>> THEN t1 ELSE Wrote(t1, Len(ino) + 1, op.data, 0, op.data)

\* ---------------------------------------------------------------------------
\* crash
Crashed == [i \in DOMAIN ino |-> [ino[i] EXCEPT !.ents = ino[i].dents, !.data = ino[i].ddata, !.cands = {}, !.pw = <<>>]]
AllNames == {"a", "b", "c", "d", "e"}
Succ(t, i) == IF t[i].kind = "dir" THEN {t[i].ents[n] : n \in DOMAIN t[i].ents} ELSE {}
RECURSIVE ReachSet(_, _, _)
ReachSet(t, frontier, seen) ==
    IF frontier = {} THEN seen
    ELSE LET nxt == UNION {Succ(t, i) : i \in frontier} IN ReachSet(t, nxt \ seen, seen \cup nxt)
Reachable(t) == ReachSet(t, {Root}, {Root})
\* a directory inode that is not reachable after the crash but owns durable entries: a dangling subtree
DanglingSet(t) == {i \in DOMAIN t : i \notin Reachable(t) /\ t[i].kind = "dir" /\ DOMAIN t[i].ents # {}}
Dangling(t) == DanglingSet(t) # {}
\* paths strictly below the place where a dangling directory was linked last: the dangling subtree ("leaves
\* dangling subtrees unspecified") -- a path-keyed implementation may show it again under a re-created name
InDanglingSubtree(t, s) == \E i \in DanglingSet(t) : t[i].at # s /\ IsPrefixOf(Seg(t[i].at), Seg(s))
\* number of (directory, name) links to inode i from reachable directories
LinkCount(t, i) == Cardinality({jn \in Reachable(t) \X AllNames :
                                   t[jn[1]].kind = "dir" /\ jn[2] \in DOMAIN t[jn[1]].ents /\ t[jn[1]].ents[jn[2]] = i})
MultiLinked(t) == {i \in Reachable(t) : LinkCount(t, i) > 1}
\* asserted paths of a list ps after the crash: ancestors are durable directories and neither the path nor an
\* ancestor is a doubly linked inode ("hard links are outside this property")
RECURSIVE ChainOk(_, _, _)
ChainOk(t, q, k) ==      \* every proper prefix of q of length >= k is a singly linked directory
    IF k >= Len(q) THEN TRUE
    ELSE LET i == WalkT(t, Root, SubSeq(q, 1, k)) IN
         i # NoIno /\ t[i].kind = "dir" /\ i \notin MultiLinked(t) /\ ChainOk(t, q, k + 1)
AssertedT(t, s) ==
    /\ ChainOk(t, Seg(s), 1) /\ (LookupT(t, s) = NoIno \/ LookupT(t, s) \notin MultiLinked(t))
    /\ ~InDanglingSubtree(t, s)
Masked == [k |-> "?", l |-> 0, d |-> <<>>, ed |-> FALSE, e |-> <<>>, alt |-> {}]
\* the listing of an asserted directory is asserted only for its asserted children; a file may hold any of the
\* contents the knobs permit: `alt` ("its contents are those at its last data sync", or with background
\* sync "a later sync point of the file")
CrashInfo(t, s) ==
    LET info == RInfoT(t, s)  i == LookupT(t, s) IN
    [k |-> info.k, l |-> info.l, d |-> info.d, ed |-> info.ed, e |-> SelectSeq(info.e, LAMBDA c : AssertedT(t, c)),
     alt |-> IF info.k = "file" THEN Permitted(ino, i) ELSE {}]
CrashImage(ps) == [k \in 1..Len(ps) |-> IF AssertedT(Crashed, ps[k]) THEN CrashInfo(Crashed, ps[k]) ELSE Masked]

\* one entry of an observed image against the reference image
EntryMatches(ps, o, ref, k) ==
    \/ ref[k].k = "?"
    \/ /\ o.k = ref[k].k /\ o.ed = ref[k].ed
       /\ SelectSeq(o.e, LAMBDA c : \A j \in 1..Len(ps) : ps[j] = c => ref[j].k # "?") = ref[k].e
       /\ IF ref[k].k = "file" THEN o.d \in ref[k].alt /\ o.l = Len(o.d) ELSE o.d = <<>> /\ o.l = 0
\* "exactly the durable image": an observed image matches iff it agrees with the reference on every asserted
\* path (entries of a listing that are themselves not asserted are ignored)
ImageMatches(ps, obs, ref) ==
    /\ Len(obs) = Len(ref)
    /\ \A k \in 1..Len(ref) : EntryMatches(ps, obs[k], ref, k)

\* op.ps: the list of paths read back after the crash, op.obs: the image that was read back.  Where the knobs
\* permit several contents the reference continues with the permitted one that was observed.
R_Crash(op) ==
    LET img == CrashImage(op.ps)
        adopt(i) == {k \in 1..Len(op.ps) : /\ k <= Len(op.obs) /\ img[k].k = "file" /\ LookupT(Crashed, op.ps[k]) = i
                                           /\ op.obs[k].k = "file" /\ op.obs[k].d \in img[k].alt}
    IN
    /\ ino' = [i \in DOMAIN ino |->
                  IF adopt(i) = {} THEN Crashed[i]
                  ELSE LET d == op.obs[CHOOSE k \in adopt(i) : TRUE].d IN [Crashed[i] EXCEPT !.data = d, !.ddata = d]]
    /\ hnd' = [h \in 1..MaxH |-> Null]
    /\ mode' = IF Dangling(Crashed) \/ MultiLinked(Crashed) # {} THEN "unspec" ELSE mode
    /\ rres' = Ok(img)

\* ---------------------------------------------------------------------------
R_Do(op) ==
    CASE op.k = "open" -> R_Open(op)
      [] op.k = "close" -> R_Close(op)
      [] op.k = "write_at" -> R_WriteAt(op)
      [] op.k = "read_at" -> R_ReadAt(op)
      [] op.k = "write" -> R_Write(op)
      [] op.k = "read" -> R_Read(op)
      [] op.k = "seek" -> R_Seek(op)
      [] op.k = "set_len" -> R_SetLen(op)
      [] op.k = "len" -> R_Len(op)
      [] op.k \in {"sync_all", "sync_data"} -> R_SyncFile(op)
      [] op.k = "sync_dir" -> R_SyncDir(op)
      [] op.k = "rename" -> R_Rename(op)
      [] op.k = "remove_file" -> R_RemoveFile(op)
      [] op.k = "create_dir" -> R_CreateDir(op)
      [] op.k = "create_dir_all" -> R_CreateDirAll(op)
      [] op.k = "remove_dir" -> R_RemoveDir(op)
      [] op.k = "remove_dir_all" -> R_RemoveDirAll(op)
      [] op.k = "read_dir" -> R_ReadDir(op)
      [] op.k = "metadata" -> R_Metadata(op)
      [] op.k = "exists" -> R_Exists(op)
      [] op.k = "read_file" -> R_ReadFile(op)
      [] op.k = "write_file" -> R_WriteFile(op)
      [] op.k = "crash" -> R_Crash(op)

IsSync(op) == op.k \in {"sync_all", "sync_data", "sync_dir"}

\* ---------------------------------------------------------------------------
\* P_* observation actions (used by the trace specs and, as ghosts, by FsImpl)
\* C10 ViewEq: "every filesystem operation ... returns what a straightforward in-memory POSIX file tree would return"
P_Op(op, res) == mode = "ok" /\ op.k # "crash" /\ R_Do(op) /\ SameRes(rres', res)
\* C10: "reads, lengths, existence checks and directory listings reflect all earlier [operations]": the
\* read-back of every listed path after the operation equals the tree
P_View(ps, view) == mode = "ok" /\ view = RViewOn(ps) /\ UNCHANGED rvars
\* C07 CrashImage: the image read back after the crash equals the durable image on every asserted path
P_Crash(op, image) ==
    /\ mode = "ok" /\ op.k = "crash"
    /\ R_Do([k |-> "crash", ps |-> op.ps, obs |-> image]) /\ ImageMatches(op.ps, image, rres'.v)
\* after a crash that left a dangling subtree or a doubly linked inode nothing more is asserted
P_Unspec == mode = "unspec" /\ UNCHANGED rvars
P_Reset ==
    /\ ino' = <<NewDir>>
    /\ hnd' = [h \in 1..MaxH |-> Null]
    /\ mode' = "ok"
    /\ rres' = Ok(0)

\* ---------------------------------------------------------------------------
\* internal consistency of the reference (checked by TLC on every reachable state)
RefWellformed ==
    /\ ino[Root].kind = "dir"
    /\ \A i \in DOMAIN ino : \A n \in DOMAIN ino[i].ents : ino[i].ents[n] \in DOMAIN ino
    /\ \A i \in DOMAIN ino : \A n \in DOMAIN ino[i].dents : ino[i].dents[n] \in DOMAIN ino
    /\ \A h \in 1..MaxH : hnd[h].open => hnd[h].i \in DOMAIN ino
=============================================================================
