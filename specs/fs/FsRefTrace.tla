----------------------------- MODULE FsRefTrace -----------------------------
(* Verdict-level trace validation for C10 / C07: the calls recorded from    *)
(* the real code (operation, returned value, read-back view) are replayed   *)
(* through the reference FsRef alone.  The walk is linear: the reference    *)
(* always takes its own step; a recorded observation that the reference     *)
(* does not permit is printed as REJECT and the rest of that run is         *)
(* skipped (the reference has lost track of the implementation).            *)
(*   C10 ViewEq     result = RefResult(tree, op), view = tree               *)
(*   C10 SyncInert  the view recorded after a sync equals the one before    *)
(*   C07 CrashImage image after a crash = durable image on asserted paths   *)
EXTENDS FsRef, Json, IOUtils

CONSTANT Judge      \* "c10" | "c07"

Rec == ndJsonDeserialize(IOEnv.TRACE)

VARIABLES l, tps, skipping, pview
tvars == <<l, tps, skipping, pview>>
E == Rec[l]

TInit == RInit /\ l = 1 /\ tps = <<>> /\ skipping = FALSE /\ pview = <<>>

TReset ==
    /\ E.ev = "reset" /\ P_Reset
    /\ tps' = E.ps /\ skipping' = FALSE /\ pview' = <<>>

RefViewNext == [k \in 1..Len(tps) |-> RInfoT(ino', tps[k])]

\* C10: one call
TOpC10 ==
    /\ E.ev = "op" /\ ~skipping /\ mode = "ok" /\ Judge = "c10" /\ E.op.k # "crash"
    /\ R_Do(E.op)
    /\ LET resOk == SameRes(rres', E.res)                                     \* ViewEq (returned value)
           viewOk == E.view = <<>> \/ E.view = RefViewNext                     \* ViewEq (read-back)
           inert == ~IsSync(E.op) \/ E.view = <<>> \/ pview = <<>> \/ E.view = pview   \* SyncInert
           kindOk == rres'.ok \/ E.res.ok \/ rres'.e # E.res.e \/ rres'.kd = E.res.kd
       IN /\ skipping' = ~(resOk /\ viewOk /\ inert)
          /\ (~resOk) => PrintT(<<"REJECT", E.run, E.i, "ViewEq.result", ToJson(E.op), ToJson(E.res), ToJson(rres')>>)
          /\ (resOk /\ ~viewOk) => PrintT(<<"REJECT", E.run, E.i, "ViewEq.view", ToJson(E.op), ToJson(E.view), ToJson(RefViewNext)>>)
          /\ (resOk /\ viewOk /\ ~inert) => PrintT(<<"REJECT", E.run, E.i, "SyncInert", ToJson(E.op), ToJson(E.view), ToJson(pview)>>)
          /\ (resOk /\ ~kindOk) => PrintT(<<"KIND", E.run, E.i, E.op.k, E.res.kd, rres'.kd>>)
    /\ pview' = E.view /\ UNCHANGED tps

\* C07: a call between crashes only moves the reference along; a call the implementation refused is not applied
TOpC07 ==
    /\ E.ev = "op" /\ ~skipping /\ mode = "ok" /\ Judge = "c07" /\ E.op.k # "crash"
    /\ IF E.res.ok THEN R_Do(E.op) ELSE UNCHANGED rvars
    /\ LET lost == E.res.ok /\ ~rres'.ok IN           \* the implementation did what the reference refuses: not judged
       /\ skipping' = lost
       /\ lost => PrintT(<<"LOST", E.run, E.i>>)
    /\ UNCHANGED <<tps, pview>>

\* C07: crash and read-back
TCrash ==
    /\ E.ev = "op" /\ ~skipping /\ mode = "ok" /\ E.op.k = "crash"
    /\ R_Do([k |-> "crash", ps |-> E.op.ps, obs |-> E.res.v])
    /\ LET good == ImageMatches(E.op.ps, E.res.v, rres'.v) IN
       /\ skipping' = ~good
       /\ (~good) => PrintT(<<"REJECT", E.run, E.i, "CrashImage", ToJson(E.op), ToJson(E.res.v), ToJson(rres'.v)>>)
       /\ (mode' = "unspec") => PrintT(<<"UNSPEC", E.run, E.i>>)
    /\ pview' = <<>> /\ UNCHANGED tps

\* nothing is asserted after a rejection (until the next run) or after a crash that left a dangling subtree
TSkip ==
    /\ E.ev = "op" /\ (skipping \/ mode = "unspec")
    /\ UNCHANGED <<rvars, tps, skipping, pview>>

TNext == l <= Len(Rec) /\ l' = l + 1 /\ (TReset \/ TOpC10 \/ TOpC07 \/ TCrash \/ TSkip)
TSpec == TInit /\ [][TNext]_<<rvars, tvars>>

Accepted ==
    LET d == TLCGet("stats").diameter IN
    IF d - 1 = Len(Rec) THEN TRUE
    ELSE Print(<<"UNMATCHED", d, ToJson(Rec[d])>>, FALSE)
=============================================================================
