------------------------------- MODULE FsImpl -------------------------------
(* ImplSpec for C10 / C07: the pending-operation-log algorithm of           *)
(* crates/turmoil-fs/src/lib.rs and the std shim (shim/std/fs/mod.rs),      *)
(* transcribed one to one: persisted maps keyed by path name, the set of    *)
(* durable entries, the pending log, the scan based file_exists /           *)
(* dir_exists / file_len / read_file / resolve_content_path /               *)
(* path_renamed_to, the partitioning syncs, crash.  Every I_* operator      *)
(* names the Rust function it mirrors.  The reference FsRef is driven in    *)
(* lock step as a ghost; `div` records where the two part, `devs` which     *)
(* named deviation (Dev_ predicate) of a recorded finding holds there.      *)
EXTENDS FsRef

CONSTANTS
    OpKinds,        \* operation kinds of the alphabet
    FilePaths,      \* paths used by file operations (strings of the universe)
    DirPaths,       \* paths used by directory operations
    RenFiles,       \* rename(from, to) for from # to in RenFiles
    RenDirs,        \*   ... and in RenDirs
    OpenModes,      \* names of ModeTable
    Bytes,          \* byte alphabet of writes
    WriteLens,      \* lengths of written buffers
    Offsets,        \* offsets of write_at / read_at
    ReadLens,       \* buffer lengths of reads
    SetLens,        \* arguments of set_len
    SeekWh, SeekOffs, SeekNeg,   \* whence, non-negative offsets, magnitudes of negative offsets
    ViewSet,        \* paths read back after every operation
    Judge,          \* "c10": results and views are compared after every operation
                    \* "c07": only crash images are compared; an operation the implementation refuses is
                    \*        not applied to the reference either (the application saw it fail)
    MaxLen,         \* number of operations of a history
    MaxCrash        \* number of crashes in a history

VARIABLES
    pf,      \* persisted_files: path -> content
    pd,      \* persisted_dirs: set of paths
    se,      \* synced_entries: set of paths
    pend,    \* pending: sequence of [t, p, q, n, data]
    oh,      \* open handles + the File fields of the shim: slot -> Null | [open, p, cur, rd, wr, app, stale]
             \*   (stale is a ghost: the name the handle was opened with has since been removed, renamed away
             \*   or renamed onto, so the name no longer denotes the file the handle was opened on)
    ires,    \* result the implementation returns for the last operation
    moved,   \* ghost: <<from, to>> of every successful rename since the last crash (the log forgets flushed ones)
    seen,    \* ghost (judge c07): <<Dev name, path>> pairs that explained a difference of the views on the way
    missed,  \* ghost: names of files for which a data sync left data ops of the same file in the log
    lastop,  \* the last operation
    div,     \* "" | "res" | "view" | "crash": the reference rejected what the implementation does
    devs,    \* names of the Dev_* predicates that held when div was set
    nops, ncrash
ivars == <<pf, pd, se, pend, oh, ires, moved, missed, seen>>
vars == <<rvars, ivars, lastop, div, devs, nops, ncrash>>

VP == SeqOfSet(ViewSet)

\* ---------------------------------------------------------------------------
\* state record S = [pf, pd, se, pend] and the scan based queries of lib.rs
POp(t, p, q, n, data) == [t |-> t, p |-> p, q |-> q, n |-> n, data |-> data]
HasParent(s, d) == s # "/" /\ ParentStr(s) = d          \* p.parent() == Some(d)
Push(S, o) == [S EXCEPT !.pend = Append(@, o)]
FnPut(f, x, v) == [y \in (DOMAIN f) \cup {x} |-> IF y = x THEN v ELSE f[y]]
FnDel(f, x) == [y \in (DOMAIN f) \ {x} |-> f[y]]

\* Fs::file_exists (lib.rs:1524)
RECURSIVE FEx(_, _, _, _)
FEx(S, p, k, acc) ==
    IF k > Len(S.pend) THEN acc
    ELSE LET o == S.pend[k] IN
         FEx(S, p, k + 1,
             CASE o.t = "CreateFile" /\ o.p = p -> TRUE
               [] o.t = "RemoveFile" /\ o.p = p -> FALSE
               [] o.t = "Rename" /\ o.p = p -> FALSE
               [] o.t = "Rename" /\ o.q = p -> TRUE
               [] OTHER -> acc)
FileExists(S, p) == FEx(S, p, 1, p \in DOMAIN S.pf)

\* Fs::dir_exists (lib.rs:1540): renames count only when the source is a *persisted* directory
RECURSIVE DEx(_, _, _, _)
DEx(S, p, k, acc) ==
    IF k > Len(S.pend) THEN acc
    ELSE LET o == S.pend[k] IN
         DEx(S, p, k + 1,
             CASE o.t = "CreateDir" /\ o.p = p -> TRUE
               [] o.t = "RemoveDir" /\ o.p = p -> FALSE
               [] o.t = "Rename" /\ o.p = p /\ o.p \in S.pd -> FALSE
               [] o.t = "Rename" /\ o.q = p /\ o.p \in S.pd -> TRUE
               [] OTHER -> acc)
DirExists(S, p) == DEx(S, p, 1, p \in S.pd)

\* Fs::resolve_persisted_path / resolve_content_path (lib.rs:1483, 1513): walk the renames backwards
RECURSIVE RBack(_, _, _)
RBack(S, cur, k) ==
    IF k = 0 THEN cur
    ELSE LET o == S.pend[k] IN RBack(S, IF o.t = "Rename" /\ o.q = cur THEN o.p ELSE cur, k - 1)
ContentPath(S, p) == RBack(S, p, Len(S.pend))

\* Fs::path_renamed_to (lib.rs:2073): walk the renames forwards
RECURSIVE RFwd(_, _, _)
RFwd(S, cur, k) ==
    IF k > Len(S.pend) THEN cur
    ELSE LET o == S.pend[k] IN RFwd(S, IF o.t = "Rename" /\ o.p = cur THEN o.q ELSE cur, k + 1)
RenamedTo(S, from, to) == RFwd(S, from, 1) = to
Applies(S, o, cp) == o.p = cp \/ RenamedTo(S, o.p, cp)

\* Fs::file_len (lib.rs:1612)
RECURSIVE FLen(_, _, _, _)
FLen(S, cp, k, len) ==
    IF k > Len(S.pend) THEN len
    ELSE LET o == S.pend[k] IN
         FLen(S, cp, k + 1,
              CASE o.t = "Write" /\ Applies(S, o, cp) -> Max(len, o.n + Len(o.data))
                [] o.t = "SetLen" /\ Applies(S, o, cp) -> o.n
                [] OTHER -> len)
FileLen(S, p) ==
    LET cp == ContentPath(S, p) IN FLen(S, cp, 1, IF cp \in DOMAIN S.pf THEN Len(S.pf[cp]) ELSE 0)

\* Fs::read_file (lib.rs:2012) over the whole file: zeros, persisted bytes of the content path, then the
\* pending ops in log order: a Write overlays its bytes, a SetLen zeroes the bytes past the new length
\* (repair of D11); everything clipped to file_len
RECURSIVE Overlay(_, _, _, _)
Overlay(S, cp, k, buf) ==
    IF k > Len(S.pend) THEN buf
    ELSE LET o == S.pend[k] IN
         Overlay(S, cp, k + 1,
                 IF o.t = "Write" /\ Applies(S, o, cp)
                 THEN [j \in 1..Len(buf) |-> IF j > o.n /\ j <= o.n + Len(o.data) THEN o.data[j - o.n] ELSE buf[j]]
                 ELSE IF o.t = "SetLen" /\ Applies(S, o, cp)
                 THEN [j \in 1..Len(buf) |-> IF j > o.n THEN 0 ELSE buf[j]]
                 ELSE buf)
Content(S, p) ==
    LET cp == ContentPath(S, p)
        len == FileLen(S, p)
        per == IF cp \in DOMAIN S.pf THEN S.pf[cp] ELSE <<>>
        base == [j \in 1..len |-> IF j <= Len(per) THEN per[j] ELSE 0]
    IN Overlay(S, cp, 1, base)
ReadFile(S, p, off, n) == ReadBytes(Content(S, p), off, n)

\* Fs::dir_has_children (lib.rs:1700)
DirHasChildren(S, d) ==
    \/ \E f \in DOMAIN S.pf : HasParent(f, d) /\ FileExists(S, f)
    \/ \E x \in S.pd : HasParent(x, d) /\ DirExists(S, x)
    \/ \E k \in 1..Len(S.pend) :
          LET o == S.pend[k] IN
          \/ o.t = "CreateFile" /\ HasParent(o.p, d) /\ FileExists(S, o.p)
          \/ o.t = "CreateDir" /\ HasParent(o.p, d) /\ DirExists(S, o.p)

\* Fs::dir_entries (lib.rs:2417), as a set
DirEntries(S, d) ==
    {f \in DOMAIN S.pf : HasParent(f, d) /\ FileExists(S, f)}
    \cup {x \in S.pd : HasParent(x, d) /\ DirExists(S, x)}
    \cup {S.pend[k].p : k \in {k \in 1..Len(S.pend) :
              LET o == S.pend[k] IN
              \/ o.t = "CreateFile" /\ HasParent(o.p, d) /\ FileExists(S, o.p)
              \/ o.t = "CreateDir" /\ HasParent(o.p, d) /\ DirExists(S, o.p)}}
    \cup {S.pend[k].q : k \in {k \in 1..Len(S.pend) :
              LET o == S.pend[k] IN
              o.t = "Rename" /\ HasParent(o.q, d) /\ (FileExists(S, o.q) \/ DirExists(S, o.q))}}

\* Fs::parent_exists (lib.rs:1744)
ParentExists(S, p) == p = "/" \/ DirExists(S, ParentStr(p))

\* Fs::apply_op_to_persisted (lib.rs:1394)
ApplyP(S, o) ==
    CASE o.t = "CreateFile" -> IF o.p \in DOMAIN S.pf THEN S ELSE [S EXCEPT !.pf = FnPut(@, o.p, <<>>)]
      [] o.t = "CreateDir" -> [S EXCEPT !.pd = @ \cup {o.p}]
      [] o.t = "Write" -> IF o.p \in DOMAIN S.pf THEN [S EXCEPT !.pf[o.p] = WriteBytes(@, o.n, o.data)] ELSE S
      [] o.t = "SetLen" -> IF o.p \in DOMAIN S.pf THEN [S EXCEPT !.pf[o.p] = Resize(@, o.n)] ELSE S
      [] o.t = "Rename" ->
            IF o.p \in DOMAIN S.pf THEN [S EXCEPT !.pf = FnPut(FnDel(@, o.p), o.q, S.pf[o.p])]
            ELSE IF o.p \in S.pd THEN [S EXCEPT !.pd = (@ \ {o.p}) \cup {o.q}]
            ELSE S
      [] o.t = "RemoveFile" -> [S EXCEPT !.pf = FnDel(@, o.p)]
      [] o.t = "RemoveDir" -> [S EXCEPT !.pd = @ \ {o.p}]
RECURSIVE ApplyAll(_, _, _)
ApplyAll(S, ops, k) == IF k > Len(ops) THEN S ELSE ApplyAll(ApplyP(S, ops[k]), ops, k + 1)

IOk(S, v) == [S |-> S, r |-> Ok(v)]
IErr(S, c, kd) == [S |-> S, r |-> ErrK(c, kd)]

\* Fs::sync_file / sync_file_data (lib.rs:1832, 1875): flush the Write/SetLen ops logged under exactly this name
SyncFile(S, path) ==
    IF ~FileExists(S, path) THEN IErr(S, "NotFound", "Other")
    ELSE LET isData(o) == o.t \in {"Write", "SetLen"} /\ o.p = path
             flush == SelectSeq(S.pend, isData)
             keep == SelectSeq(S.pend, LAMBDA o : ~isData(o))
             S1 == [S EXCEPT !.pend = keep, !.pf = IF path \in DOMAIN @ THEN @ ELSE FnPut(@, path, <<>>)]
         IN IOk(ApplyAll(S1, flush, 1), 0)

\* Fs::sync_dir (lib.rs:1923)
SyncDirFlushes(o, path) ==
    \/ o.t = "CreateDir" /\ o.p = path
    \/ o.t \in {"CreateFile", "CreateDir", "RemoveFile", "RemoveDir"} /\ HasParent(o.p, path)
    \/ o.t = "Rename" /\ (HasParent(o.p, path) \/ HasParent(o.q, path))
SyncedAfter(s, o, path) ==      \* synced_entries bookkeeping for one flushed op
    CASE o.t = "CreateFile" /\ HasParent(o.p, path) -> s \cup {o.p}
      [] o.t = "CreateDir" /\ (o.p = path \/ HasParent(o.p, path)) -> s \cup {o.p}
      [] o.t \in {"RemoveFile", "RemoveDir"} /\ HasParent(o.p, path) -> s \ {o.p}
      [] o.t = "Rename" ->
            LET s1 == IF HasParent(o.p, path) THEN s \ {o.p} ELSE s
            IN IF HasParent(o.q, path) THEN s1 \cup {o.q} ELSE s1
      [] OTHER -> s
RECURSIVE SyncDirApply(_, _, _, _)
SyncDirApply(S, ops, k, path) ==
    IF k > Len(ops) THEN S
    ELSE SyncDirApply(ApplyP([S EXCEPT !.se = SyncedAfter(@, ops[k], path)], ops[k]), ops, k + 1, path)
SyncDir(S, path) ==
    IF ~DirExists(S, path) THEN IErr(S, "NotFound", "Other")
    ELSE LET flush == SelectSeq(S.pend, LAMBDA o : SyncDirFlushes(o, path))
             keep == SelectSeq(S.pend, LAMBDA o : ~SyncDirFlushes(o, path))
         IN IOk(SyncDirApply([S EXCEPT !.pend = keep], flush, 1, path), 0)

\* Fs::mkdir_with_mode (lib.rs:1656)
Mkdir(S, p) ==
    IF p # "/" /\ ~DirExists(S, ParentStr(p)) THEN IErr(S, "NotFound", "Other")
    ELSE IF DirExists(S, p) \/ FileExists(S, p) THEN IErr(S, "AlreadyExists", "Other")
    ELSE IOk(Push(S, POp("CreateDir", p, "", 0, <<>>)), 0)

\* Fs::rmdir (lib.rs:1683)
Rmdir(S, p) ==
    IF ~DirExists(S, p) THEN IErr(S, "NotFound", "Other")
    ELSE IF DirHasChildren(S, p) THEN IErr(S, "NotEmpty", "Other")
    ELSE IOk(Push(S, POp("RemoveDir", p, "", 0, <<>>)), 0)

\* Fs::unlink (lib.rs:1753); the error kind is chosen by the caller
Unlink2(S, p, kd) ==
    IF ~FileExists(S, p) THEN IErr(S, "NotFound", kd)
    ELSE IOk(Push(S, POp("RemoveFile", p, "", 0, <<>>)), 0)

\* Fs::rename (lib.rs:1770)
Rename(S, f, t) ==
    LET push == IOk(Push(S, POp("Rename", f, t, 0, <<>>)), 0) IN
    IF ~ParentExists(S, t) THEN IErr(S, "NotFound", "Other")
    ELSE IF FileExists(S, f) THEN (IF DirExists(S, t) THEN IErr(S, "IsDir", "Other") ELSE push)
    ELSE IF DirExists(S, f) THEN
         IF FileExists(S, t) THEN IErr(S, "NotDir", "Other")
         ELSE IF DirExists(S, t) /\ DirHasChildren(S, t) THEN IErr(S, "NotEmpty", "Other")
         ELSE push
    ELSE IErr(S, "NotFound", "Other")

\* shim create_dir_all (shim/std/fs/mod.rs:133): collect missing ancestors bottom up, create top down,
\* skipping whatever exists as a directory or as a file
RECURSIVE ToCreate(_, _)
ToCreate(S, q) ==       \* q: name sequence; returns the sequence of strings to create, top down
    IF q = <<>> \/ DirExists(S, Str(q)) THEN <<>>
    ELSE Append(ToCreate(S, ParentSeq(q)), Str(q))
RECURSIVE MkEach(_, _, _)
MkEach(S, ds, k) ==
    IF k > Len(ds) THEN IOk(S, 0)
    ELSE IF DirExists(S, ds[k]) \/ FileExists(S, ds[k]) THEN MkEach(S, ds, k + 1)
    ELSE LET r == Mkdir(S, ds[k]) IN IF r.r.ok THEN MkEach(r.S, ds, k + 1) ELSE r
CreateDirAll(S, p) == MkEach(S, ToCreate(S, Seg(p)), 1)

\* shim remove_dir_all (shim/std/fs/mod.rs:1734).  The entries are visited in dir_entries order; the
\* alphabet keeps directories at one child so that the order cannot matter for the resulting log.
RECURSIVE RmContents(_, _, _)
RECURSIVE RmEach(_, _, _, _)
RmContents(S, d, fuel) ==
    LET es == SeqOfSet(DirEntries(S, d)) IN RmEach(S, es, 1, fuel)
RmEach(S, es, k, fuel) ==
    IF k > Len(es) THEN IOk(S, 0)
    ELSE LET e == es[k] IN
         IF DirExists(S, e) THEN
              LET r1 == IF fuel = 0 THEN IOk(S, 0) ELSE RmContents(S, e, fuel - 1) IN
              IF ~r1.r.ok THEN r1
              ELSE LET r2 == Rmdir(r1.S, e) IN IF r2.r.ok THEN RmEach(r2.S, es, k + 1, fuel) ELSE r2
         ELSE IF FileExists(S, e) THEN
              LET r == Unlink2(S, e, "Other") IN IF r.r.ok THEN RmEach(r.S, es, k + 1, fuel) ELSE r
         ELSE RmEach(S, es, k + 1, fuel)
RemoveDirAll(S, p) ==
    IF ~DirExists(S, p) THEN IErr(S, "NotFound", "NotFound")
    ELSE LET r == RmContents(S, p, 3) IN IF r.r.ok THEN Rmdir(r.S, p) ELSE r

\* ---------------------------------------------------------------------------
\* view of the implementation: shim metadata / read / read_dir per path
IInfo(S, s) ==
    LET fe == FileExists(S, s)  de == DirExists(S, s) IN
    [k |-> IF fe THEN "file" ELSE IF de THEN "dir" ELSE "none",
     l |-> IF fe THEN FileLen(S, s) ELSE 0,
     d |-> IF fe THEN Content(S, s) ELSE <<>>,
     t |-> IF fe THEN [o \in 1..Min(FileLen(S, s), 3) |-> ReadFile(S, s, o, FileLen(S, s) - o)] ELSE <<>>,
     ed |-> de,
     e |-> IF de THEN SeqOfSet(DirEntries(S, s)) ELSE <<>>]
IViewS(S, ps) == [k \in 1..Len(ps) |-> IInfo(S, ps[k])]

\* ---------------------------------------------------------------------------
\* Named deviations of the recorded findings.  Each is a predicate over a state T of the log (evaluated in
\* the state in which the diverging operation ran and in the state after it) relative to a path p on which
\* the implementation and the reference differ (the paths of the operation / of its handle when the results
\* differ, the read-back paths that differ otherwise).
DataOp(o) == o.t \in {"Write", "SetLen"}
NsKills(o, p) == (o.t = "RemoveFile" /\ o.p = p) \/ (o.t = "Rename" /\ o.p = p)
Near(p, n) == p = n \/ HasParent(n, p)          \* n itself, or p lists n
\* names linked to p by the renames of the log (either direction)
RECURSIVE Chain(_, _, _)
Chain(T, N, fuel) ==
    LET N1 == N \cup {T.pend[k].p : k \in {k \in 1..Len(T.pend) : T.pend[k].t = "Rename" /\ T.pend[k].q \in N}}
                  \cup {T.pend[k].q : k \in {k \in 1..Len(T.pend) : T.pend[k].t = "Rename" /\ T.pend[k].p \in N}}
                  \cup {m[1] : m \in {m \in moved : m[2] \in N}} \cup {m[2] : m \in {m \in moved : m[1] \in N}}
    IN IF fuel = 0 \/ N1 = N THEN N ELSE Chain(T, N1, fuel - 1)
Names(T, p) == Chain(T, {p} \cup {c \in Universe : HasParent(c, p)}, Len(T.pend) + Cardinality(moved))

\* D7: data logged (or persisted) under a name survives the removal / renaming away of that name and is
\* replayed for a file created later under the same name
Dev_RecreateAfterRemove(T, p) ==
    \E j \in 1..Len(T.pend) :
        /\ T.pend[j].t = "CreateFile" /\ T.pend[j].p \in Names(T, p)
        /\ \/ \E i \in 1..(j - 1) : DataOp(T.pend[i]) /\ T.pend[i].p = T.pend[j].p
           \/ \E i \in 1..(j - 1) : NsKills(T.pend[i], T.pend[j].p) /\ T.pend[j].p \in DOMAIN T.pf
\* D8: data ops and renames of one file meet in the log: the view (file_len / read_file: `p == content_path
\* || path_renamed_to(p, content_path)`) and the partitioning syncs relate them by name only
Dev_DataOpUnderOldName(T, p) ==
    LET N == Names(T, p) IN
    /\ \E i \in 1..Len(T.pend) : DataOp(T.pend[i]) /\ T.pend[i].p \in N
    /\ \E j \in 1..Len(T.pend) : T.pend[j].t = "Rename" /\ (T.pend[j].p \in N \/ T.pend[j].q \in N)
\* D10: a rename in the log whose source is a directory (pending or persisted): file_exists treats every
\* Rename{to} as the creation of a regular file, dir_exists follows it only for persisted sources, and the
\* entries below the directory stay keyed by their old path names
DirRename(T, j) ==
    T.pend[j].t = "Rename" /\
    (T.pend[j].p \in T.pd \/ \E i \in 1..(j - 1) : T.pend[i].t = "CreateDir" /\ T.pend[i].p = T.pend[j].p)
Dev_RenamedPendingDir(T, p) ==
    \E j \in 1..Len(T.pend) : DirRename(T, j) /\
        \/ Near(p, T.pend[j].p) \/ Near(p, T.pend[j].q)
        \/ IsPrefixOf(Seg(T.pend[j].p), Seg(p)) \/ IsPrefixOf(Seg(T.pend[j].q), Seg(p))
\* D14: an open handle is resolved through the name it was opened with, and that name no longer denotes
\* the file (unlinked, renamed away, or another file renamed onto it)
Dev_StaleHandleName(T, p) == \E h \in 1..MaxH : oh[h].open /\ oh[h].stale /\ oh[h].p \in Names(T, p)
\* D15: the log holds RemoveDir n and CreateDir n; sync_dir(n) flushes n's own creation but not the removal
\* (which belongs to the parent's entries), so the stale removal then hides the directory
Dev_DirRecreateInLog(T, p) ==
    \E j \in 1..Len(T.pend) : T.pend[j].t = "RemoveDir" /\ Near(p, T.pend[j].p) /\
        \E i \in 1..Len(T.pend) : T.pend[i].t = "CreateDir" /\ T.pend[i].p = T.pend[j].p
\* D16: dir_has_children does not count entries that a pending rename moved into the directory
Dev_RenamedIntoDirNotCounted(T, p) ==
    \E j \in 1..Len(T.pend) : T.pend[j].t = "Rename" /\ T.pend[j].q # "/" /\ ParentStr(T.pend[j].q) # "/" /\
        /\ Near(p, ParentStr(T.pend[j].q)) \/ IsPrefixOf(Seg(ParentStr(T.pend[j].q)), Seg(p))
        /\ \E k \in (j + 1)..Len(T.pend) :          \* ... and the directory was then removed / renamed onto
              \/ T.pend[k].t = "RemoveDir" /\ T.pend[k].p = ParentStr(T.pend[j].q)
              \/ T.pend[k].t = "Rename" /\ T.pend[k].q = ParentStr(T.pend[j].q)
\* D17: a cross-directory rename of a file whose creation is still in the log: sync_dir of one of the two
\* directories flushes the rename without the creation (the file vanishes from the view / is lost by a crash)
Dev_RenameSplitFromCreate(T, p) ==
    LET N == Names(T, p) IN
    \E j \in 1..Len(T.pend) :
        /\ T.pend[j].t = "Rename" /\ (T.pend[j].p \in N \/ T.pend[j].q \in N)
        /\ ParentStr(T.pend[j].p) # ParentStr(T.pend[j].q)
        /\ \E i \in 1..(j - 1) : T.pend[i].t = "CreateFile" /\ T.pend[i].p \in N
\* D9 (C07): sync_file flushes only the data ops logged under the current name of the file; `missed` (ghost)
\* holds the names of files for which a data sync left data ops of the same file in the log
Dev_SyncFileByName(T, p) == \E n \in Names(T, p) : n \in missed

DevNames == <<"Dev_RecreateAfterRemove", "Dev_DataOpUnderOldName", "Dev_RenamedPendingDir",
              "Dev_StaleHandleName", "Dev_DirRecreateInLog", "Dev_RenamedIntoDirNotCounted", "Dev_RenameSplitFromCreate",
              "Dev_SyncFileByName">>
DevHolds(n, T, p) ==
    CASE n = "Dev_RecreateAfterRemove" -> Dev_RecreateAfterRemove(T, p)
      [] n = "Dev_DataOpUnderOldName" -> Dev_DataOpUnderOldName(T, p)
      [] n = "Dev_RenamedPendingDir" -> Dev_RenamedPendingDir(T, p)
      [] n = "Dev_StaleHandleName" -> Dev_StaleHandleName(T, p)
      [] n = "Dev_DirRecreateInLog" -> Dev_DirRecreateInLog(T, p)
      [] n = "Dev_RenamedIntoDirNotCounted" -> Dev_RenamedIntoDirNotCounted(T, p)
      [] n = "Dev_RenameSplitFromCreate" -> Dev_RenameSplitFromCreate(T, p)
      [] n = "Dev_SyncFileByName" -> Dev_SyncFileByName(T, p)
\* deviations that can explain a wrong crash image
CrashDevs == {"Dev_RecreateAfterRemove", "Dev_DataOpUnderOldName", "Dev_RenamedPendingDir", "Dev_StaleHandleName",
              "Dev_DirRecreateInLog", "Dev_RenamedIntoDirNotCounted", "Dev_RenameSplitFromCreate", "Dev_SyncFileByName"}
DevsOf(T, P) == {DevNames[k] : k \in {k \in 1..Len(DevNames) : \E p \in P : DevHolds(DevNames[k], T, p)}}
DevSeq(D) == SelectSeq(DevNames, LAMBDA n : n \in D)

\* ---------------------------------------------------------------------------
\* operations through the std shim.  Each returns [S, oh, r].
St == [pf |-> pf, pd |-> pd, se |-> se, pend |-> pend]
X(S, o, r) == [S |-> S, oh |-> o, r |-> r]
XS(x, o) == [S |-> x.S, oh |-> o, r |-> x.r]
OP(op) == oh[op.h].p

\* OpenOptions::open (shim/std/fs/mod.rs:1265)
I_Open(op) ==
    LET S == St  p == op.p
        fe == FileExists(S, p)
        S1 == IF fe THEN S ELSE Push(S, POp("CreateFile", p, "", 0, <<>>))
        S2 == IF op.tr /\ op.wr THEN Push(S1, POp("SetLen", p, "", 0, <<>>)) ELSE S1
        h == [open |-> TRUE, p |-> p, cur |-> 0, rd |-> op.rd, wr |-> op.wr \/ op.app, app |-> op.app, stale |-> FALSE]
    IN
    IF op.cn /\ fe THEN X(S, oh, ErrK("AlreadyExists", "AlreadyExists"))
    ELSE IF ~fe /\ ~(op.cr \/ op.cn) THEN X(S, oh, ErrK("NotFound", "NotFound"))
    ELSE IF ~fe /\ ~ParentExists(S, p) THEN X(S, oh, ErrK("NotFound", "NotFound"))
    ELSE X(S2, [oh EXCEPT ![op.h] = h], Ok(op.h))

I_Close(op) == X(St, [oh EXCEPT ![op.h] = Null], Ok(0))

\* File::write_at_internal (shim/std/fs/mod.rs:810) + Fs::write_file (lib.rs:2086)
WriteAtS(S, path, off, data) == IF data = <<>> THEN S ELSE Push(S, POp("Write", path, "", off, data))
\* `if sync_prob > 0.0 && ctx.random_bool(sync_prob) { let _ = ctx.fs.sync_file(&path); }`: op.bg is the coin
\* (the harness forces it through the public field Fs::sync_probability = 1.0 / 0.0)
Bg(op, S, path) == IF op.bg THEN SyncFile(S, path).S ELSE S
I_WriteAt(op) ==
    IF ~oh[op.h].wr THEN X(St, oh, ErrK("BadAccess", "PermissionDenied"))
    ELSE X(Bg(op, WriteAtS(St, OP(op), op.off, op.data), OP(op)), oh, Ok(Len(op.data)))

\* File::read_at_internal (shim/std/fs/mod.rs:731)
I_ReadAt(op) ==
    IF ~oh[op.h].rd THEN X(St, oh, ErrK("BadAccess", "PermissionDenied"))
    ELSE X(St, oh, Ok(ReadFile(St, OP(op), op.off, op.n)))

\* impl Write for File (shim/std/fs/mod.rs:900)
I_Write(op) ==
    LET off == IF oh[op.h].app THEN FileLen(St, OP(op)) ELSE oh[op.h].cur IN
    IF ~oh[op.h].wr THEN X(St, oh, ErrK("BadAccess", "PermissionDenied"))
    ELSE X(Bg(op, WriteAtS(St, OP(op), off, op.data), OP(op)), [oh EXCEPT ![op.h].cur = off + Len(op.data)], Ok(Len(op.data)))

\* impl Read for File (shim/std/fs/mod.rs:891)
I_Read(op) ==
    LET got == ReadFile(St, OP(op), oh[op.h].cur, op.n) IN
    IF ~oh[op.h].rd THEN X(St, oh, ErrK("BadAccess", "PermissionDenied"))
    ELSE X(St, [oh EXCEPT ![op.h].cur = @ + Len(got)], Ok(got))

\* impl Seek for File (shim/std/fs/mod.rs:923)
I_Seek(op) ==
    LET base == CASE op.wh = "set" -> 0 [] op.wh = "end" -> FileLen(St, OP(op)) [] op.wh = "cur" -> oh[op.h].cur
        np == base + op.off
    IN IF np < 0 THEN X(St, oh, ErrK("InvalidInput", "InvalidInput"))
       ELSE X(St, [oh EXCEPT ![op.h].cur = np], Ok(np))

\* File::set_len (shim/std/fs/mod.rs:584) + Fs::set_file_len (lib.rs:2098)
I_SetLen(op) ==
    IF ~oh[op.h].wr THEN X(St, oh, ErrK("BadAccess", "PermissionDenied"))
    ELSE X(Bg(op, Push(St, POp("SetLen", OP(op), "", op.n, <<>>)), OP(op)), oh, Ok(0))

\* File::metadata().len() (shim/std/fs/mod.rs:553)
I_Len(op) == X(St, oh, Ok(FileLen(St, OP(op))))

\* File::sync_all / sync_data (shim/std/fs/mod.rs:652, 674)
I_SyncFile(op) == XS(SyncFile(St, OP(op)), oh)

I_ReadDir(op) ==        \* shim read_dir (shim/std/fs/mod.rs:367)
    IF ~DirExists(St, op.p) THEN X(St, oh, ErrK("NotFound", "NotFound"))
    ELSE X(St, oh, Ok(SeqOfSet(DirEntries(St, op.p))))

I_Metadata(op) ==       \* shim metadata (shim/std/fs/mod.rs:300)
    IF FileExists(St, op.p) THEN X(St, oh, Ok([k |-> "file", l |-> FileLen(St, op.p)]))
    ELSE IF DirExists(St, op.p) THEN X(St, oh, Ok([k |-> "dir", l |-> 0]))
    ELSE X(St, oh, ErrK("NotFound", "NotFound"))

I_Exists(op) == X(St, oh, Ok(FileExists(St, op.p) \/ DirExists(St, op.p)))     \* shim exists (:277)

I_ReadFile(op) ==       \* shim read (shim/std/fs/mod.rs:385): File::open + metadata().len() + read_at
    IF ~FileExists(St, op.p) THEN X(St, oh, ErrK("NotFound", "NotFound"))
    ELSE X(St, oh, Ok(Content(St, op.p)))

I_WriteFile(op) ==      \* shim write (shim/std/fs/mod.rs:408): File::create + write_at
    LET S == St  p == op.p
        fe == FileExists(S, p)
        S1 == IF fe THEN S ELSE Push(S, POp("CreateFile", p, "", 0, <<>>))
        S2 == Push(S1, POp("SetLen", p, "", 0, <<>>))
    IN IF ~fe /\ ~ParentExists(S, p) THEN X(S, oh, ErrK("NotFound", "NotFound"))
       ELSE X(IF op.data = <<>> THEN S2 ELSE Bg(op, WriteAtS(S2, p, 0, op.data), p), oh, Ok(0))

\* Fs::crash (lib.rs:1300) without torn writes; the harness drops every File first
CrashS(S) == [pf |-> [x \in (DOMAIN S.pf) \cap S.se |-> S.pf[x]], pd |-> S.pd \cap S.se, se |-> S.se, pend |-> <<>>]
I_CrashF(op, f) ==      \* f: persisted_files after apply_torn_writes
    LET T == CrashS([St EXCEPT !.pf = f]) IN X(T, [h \in 1..MaxH |-> Null], Ok(IViewS(T, op.ps)))
I_Crash(op) == I_CrashF(op, pf)
\* Fs::apply_torn_writes (lib.rs:1332): every pending Write whose path has a durable entry keeps a random number
\* of whole blocks (0 .. ceil(len / block)), applied in log order to the persisted file of that name
RECURSIVE TornPfs(_, _, _)
TornPfs(S, k, fs) ==
    IF k > Len(S.pend) THEN fs
    ELSE LET o == S.pend[k] IN
         IF o.t = "Write" /\ o.p \in S.se /\ o.data # <<>>
         THEN TornPfs(S, k + 1,
                      {IF n = 0 \/ o.p \notin DOMAIN f THEN f
                       ELSE [f EXCEPT ![o.p] = WriteBytes(@, o.n, SubSeq(o.data, 1, Min(n * BlockSize, Len(o.data))))] :
                          <<f, n>> \in fs \X (0..((Len(o.data) + BlockSize - 1) \div BlockSize))})
         ELSE TornPfs(S, k + 1, fs)
CrashChoices == IF BlockSize > 0 THEN TornPfs(St, 1, {pf}) ELSE {pf}

IStep(op) ==
    CASE op.k = "open" -> I_Open(op)
      [] op.k = "close" -> I_Close(op)
      [] op.k = "write_at" -> I_WriteAt(op)
      [] op.k = "read_at" -> I_ReadAt(op)
      [] op.k = "write" -> I_Write(op)
      [] op.k = "read" -> I_Read(op)
      [] op.k = "seek" -> I_Seek(op)
      [] op.k = "set_len" -> I_SetLen(op)
      [] op.k = "len" -> I_Len(op)
      [] op.k \in {"sync_all", "sync_data"} -> I_SyncFile(op)
      [] op.k = "sync_dir" -> XS(SyncDir(St, op.p), oh)
      [] op.k = "rename" -> XS(Rename(St, op.p, op.q), oh)
      [] op.k = "remove_file" -> XS(Unlink2(St, op.p, "NotFound"), oh)
      [] op.k = "create_dir" -> XS(Mkdir(St, op.p), oh)
      [] op.k = "create_dir_all" -> XS(CreateDirAll(St, op.p), oh)
      [] op.k = "remove_dir" -> XS(Rmdir(St, op.p), oh)
      [] op.k = "remove_dir_all" -> XS(RemoveDirAll(St, op.p), oh)
      [] op.k = "read_dir" -> I_ReadDir(op)
      [] op.k = "metadata" -> I_Metadata(op)
      [] op.k = "exists" -> I_Exists(op)
      [] op.k = "read_file" -> I_ReadFile(op)
      [] op.k = "write_file" -> I_WriteFile(op)
      [] op.k = "crash" -> I_Crash(op)

\* names whose binding the operation changed (ghost bookkeeping for `stale`): the new log entries that
\* remove a name, rename it away or rename onto it
Rebound(S, T) ==
    {T.pend[k].p : k \in {k \in (Len(S.pend) + 1)..Len(T.pend) : T.pend[k].t \in {"RemoveFile", "Rename"}}}
    \cup {T.pend[k].q : k \in {k \in (Len(S.pend) + 1)..Len(T.pend) : T.pend[k].t = "Rename"}}
I_DoX(op, x) ==     \* x: the [S, oh, r] record of the operation (IStep(op), or a log-order variant of it)
    LET rb == IF op.k \in {"rename", "remove_file", "remove_dir_all"} /\ x.r.ok THEN Rebound(St, x.S) ELSE {}
    IN
    /\ pf' = x.S.pf /\ pd' = x.S.pd /\ se' = x.S.se /\ pend' = x.S.pend
    /\ oh' = [h \in 1..MaxH |-> IF x.oh[h].open /\ x.oh[h].p \in rb THEN [x.oh[h] EXCEPT !.stale = TRUE] ELSE x.oh[h]]
    /\ ires' = x.r
    /\ moved' = IF op.k = "crash" THEN {} ELSE IF op.k = "rename" /\ x.r.ok THEN moved \cup {<<op.p, op.q>>} ELSE moved
    /\ missed' =
         LET N == IF op.k \in {"sync_all", "sync_data"} /\ x.r.ok THEN Names(St, OP(op))
                  ELSE IF "bg" \in DOMAIN op /\ op.bg /\ x.r.ok THEN Names(St, IF op.k = "write_file" THEN op.p ELSE OP(op))
                  ELSE {} IN
         IF \E k \in 1..Len(x.S.pend) : DataOp(x.S.pend[k]) /\ x.S.pend[k].p \in N THEN missed \cup N
         ELSE IF op.k = "rename" /\ x.r.ok /\ op.p \in missed THEN missed \cup {op.q}
         ELSE IF op.k = "crash" THEN {}
         ELSE missed
I_Do(op) == I_DoX(op, IStep(op))
StP == [pf |-> pf', pd |-> pd', se |-> se', pend |-> pend']

\* ---------------------------------------------------------------------------
Init ==
    /\ RInit
    /\ pf = [x \in {} |-> <<>>] /\ pd = {"/"} /\ se = {"/"} /\ pend = <<>>
    /\ oh = [h \in 1..MaxH |-> Null]
    /\ ires = Ok(0) /\ moved = {} /\ missed = {} /\ seen = {} /\ lastop = [k |-> "init"] /\ div = "" /\ devs = {}
    /\ nops = 0 /\ ncrash = 0

\* one operation through both the reference and the implementation
DoX(op, x) ==
    /\ I_DoX(op, x) /\ lastop' = op
    /\ IF Judge = "c07" /\ ~x.r.ok THEN UNCHANGED rvars
       ELSE IF op.k = "crash" THEN R_Do([k |-> "crash", ps |-> op.ps, obs |-> x.r.v])
       ELSE R_Do(op)
    /\ nops' = nops + 1
    /\ ncrash' = IF op.k = "crash" THEN ncrash + 1 ELSE ncrash
    /\ div' = IF op.k = "crash" THEN (IF ImageMatches(op.ps, ires'.v, rres'.v) THEN "" ELSE "crash")
              ELSE IF Judge = "c07" THEN (IF ires'.ok /\ ~rres'.ok THEN "lost" ELSE "")
              ELSE IF ~SameRes(rres', ires') THEN "res"
              ELSE IF [k \in 1..Len(VP) |-> RInfoT(ino', VP[k])] # IViewS(StP, VP) THEN "view"
              ELSE ""
    /\ LET viewDiff == {VP[k] : k \in {k \in 1..Len(VP) : RInfoT(ino', VP[k]) # IInfo(StP, VP[k])}}
           imgDiff == IF op.k = "crash"
                      THEN {VP[k] : k \in {k \in 1..Len(VP) : ~EntryMatches(op.ps, ires'.v[k], rres'.v, k)}} ELSE {}
           opPaths == (IF "p" \in DOMAIN op THEN {op.p} ELSE {}) \cup (IF "q" \in DOMAIN op THEN {op.q} ELSE {})
                      \cup (IF "h" \in DOMAIN op /\ op.k # "open" THEN {oh[op.h].p} ELSE {})
           P == IF op.k = "crash" THEN imgDiff \cup {ParentStr(q) : q \in imgDiff \ {"/"}} ELSE opPaths \cup viewDiff
           now == DevsOf(St, P) \cup DevsOf(StP, P)
           near == UNION {Names(St, q) : q \in P}
       IN /\ devs' = IF div' = "" THEN {}
                     ELSE IF op.k = "crash" THEN (now \cup {m[1] : m \in {m \in seen : m[2] \in near}}) \cap CrashDevs
                     ELSE now
          /\ seen' = IF op.k = "crash" THEN {}
                     ELSE IF Judge = "c07" /\ (viewDiff # {} \/ ~SameRes(rres', ires'))
                          THEN seen \cup (now \X (viewDiff \cup opPaths))
                     ELSE seen

Do(op) == DoX(op, IStep(op))

\* --- alphabet ----------------------------------------------------------------
ModeNames == {"r", "w", "rw", "wc", "wt", "wct", "wn", "rwc", "rwt", "rwct", "rwn", "a", "ac", "an", "ra", "rac"}
Mode(m) ==
    [rd |-> m \in {"r", "rw", "rwc", "rwt", "rwct", "rwn", "ra", "rac"},
     wr |-> m \in {"w", "rw", "wc", "wt", "wct", "wn", "rwc", "rwt", "rwct", "rwn"},
     app |-> m \in {"a", "ac", "an", "ra", "rac"},
     tr |-> m \in {"wt", "wct", "rwt", "rwct"},
     cr |-> m \in {"wc", "wct", "rwc", "rwct", "ac", "rac"},
     cn |-> m \in {"wn", "rwn", "an"}]
Datas == UNION {[1..n -> Bytes] : n \in WriteLens}
BgSet == IF SyncKnob THEN BOOLEAN ELSE {FALSE}
FreeH == IF \A h \in 1..MaxH : hnd[h].open THEN 0
         ELSE CHOOSE h \in 1..MaxH : ~hnd[h].open /\ \A g \in 1..(h - 1) : hnd[g].open
OpenHs == {h \in 1..MaxH : hnd[h].open /\ oh[h].open}
PathOps(k, ps) == {[k |-> k, p |-> p] : p \in ps}
HandleOps(k) == {[k |-> k, h |-> h] : h \in OpenHs}
AlphaOf(k) ==
    CASE k = "open" ->
            IF FreeH = 0 THEN {}
            ELSE {[k |-> "open", p |-> p, h |-> FreeH, m |-> m, rd |-> Mode(m).rd, wr |-> Mode(m).wr, app |-> Mode(m).app,
                   tr |-> Mode(m).tr, cr |-> Mode(m).cr, cn |-> Mode(m).cn] : p \in FilePaths, m \in OpenModes}
      [] k = "close" -> HandleOps(k)
      [] k = "write_at" -> {[k |-> k, h |-> h, off |-> o, data |-> d, bg |-> b] : h \in {g \in OpenHs : ~hnd[g].app}, o \in Offsets, d \in Datas, b \in BgSet}
      [] k = "read_at" -> {[k |-> k, h |-> h, off |-> o, n |-> n] : h \in OpenHs, o \in Offsets, n \in ReadLens}
      [] k = "write" -> {[k |-> k, h |-> h, data |-> d, bg |-> b] : h \in OpenHs, d \in Datas, b \in BgSet}
      [] k = "read" -> {[k |-> k, h |-> h, n |-> n] : h \in OpenHs, n \in ReadLens}
      [] k = "seek" -> {[k |-> k, h |-> h, wh |-> w, off |-> o] : h \in OpenHs, w \in SeekWh, o \in SeekOffs \cup {0 - n : n \in SeekNeg}}
      [] k = "set_len" -> {[k |-> k, h |-> h, n |-> n, bg |-> b] : h \in {g \in OpenHs : hnd[g].wr}, n \in SetLens, b \in BgSet}
      [] k \in {"len", "sync_all", "sync_data"} -> HandleOps(k)
      [] k \in {"sync_dir", "read_dir"} -> PathOps(k, DirPaths \cup {"/"})
      [] k = "rename" -> {[k |-> k, p |-> ft[1], q |-> ft[2]] :
                              ft \in {x \in (RenFiles \X RenFiles) \cup (RenDirs \X RenDirs) : x[1] # x[2]}}
      [] k \in {"remove_file", "read_file"} -> PathOps(k, FilePaths)
      [] k \in {"create_dir", "create_dir_all", "remove_dir", "remove_dir_all"} -> PathOps(k, DirPaths)
      [] k \in {"metadata", "exists"} -> PathOps(k, FilePaths \cup DirPaths)
      [] k = "write_file" -> {[k |-> k, p |-> p, data |-> d, bg |-> b] : p \in FilePaths, d \in Datas, b \in BgSet}
      [] k = "crash" -> IF ncrash < MaxCrash THEN {[k |-> "crash", ps |-> VP]} ELSE {}

\* one named action per operation kind (TLC's coverage then shows that every kind of the alphabet is taken)
Guard == nops < MaxLen /\ div = "" /\ mode = "ok"
StepOpen == Guard /\ "open" \in OpKinds /\ \E op \in AlphaOf("open") : Do(op)
StepClose == Guard /\ "close" \in OpKinds /\ \E op \in AlphaOf("close") : Do(op)
StepWriteAt == Guard /\ "write_at" \in OpKinds /\ \E op \in AlphaOf("write_at") : Do(op)
StepReadAt == Guard /\ "read_at" \in OpKinds /\ \E op \in AlphaOf("read_at") : Do(op)
StepWrite == Guard /\ "write" \in OpKinds /\ \E op \in AlphaOf("write") : Do(op)
StepRead == Guard /\ "read" \in OpKinds /\ \E op \in AlphaOf("read") : Do(op)
StepSeek == Guard /\ "seek" \in OpKinds /\ \E op \in AlphaOf("seek") : Do(op)
StepSetLen == Guard /\ "set_len" \in OpKinds /\ \E op \in AlphaOf("set_len") : Do(op)
StepLen == Guard /\ "len" \in OpKinds /\ \E op \in AlphaOf("len") : Do(op)
StepSyncAll == Guard /\ "sync_all" \in OpKinds /\ \E op \in AlphaOf("sync_all") : Do(op)
StepSyncData == Guard /\ "sync_data" \in OpKinds /\ \E op \in AlphaOf("sync_data") : Do(op)
StepSyncDir == Guard /\ "sync_dir" \in OpKinds /\ \E op \in AlphaOf("sync_dir") : Do(op)
StepRename == Guard /\ "rename" \in OpKinds /\ \E op \in AlphaOf("rename") : Do(op)
StepRemoveFile == Guard /\ "remove_file" \in OpKinds /\ \E op \in AlphaOf("remove_file") : Do(op)
StepCreateDir == Guard /\ "create_dir" \in OpKinds /\ \E op \in AlphaOf("create_dir") : Do(op)
StepCreateDirAll == Guard /\ "create_dir_all" \in OpKinds /\ \E op \in AlphaOf("create_dir_all") : Do(op)
StepRemoveDir == Guard /\ "remove_dir" \in OpKinds /\ \E op \in AlphaOf("remove_dir") : Do(op)
StepRemoveDirAll == Guard /\ "remove_dir_all" \in OpKinds /\ \E op \in AlphaOf("remove_dir_all") : Do(op)
StepReadDir == Guard /\ "read_dir" \in OpKinds /\ \E op \in AlphaOf("read_dir") : Do(op)
StepMetadata == Guard /\ "metadata" \in OpKinds /\ \E op \in AlphaOf("metadata") : Do(op)
StepExists == Guard /\ "exists" \in OpKinds /\ \E op \in AlphaOf("exists") : Do(op)
StepReadFile == Guard /\ "read_file" \in OpKinds /\ \E op \in AlphaOf("read_file") : Do(op)
StepWriteFile == Guard /\ "write_file" \in OpKinds /\ \E op \in AlphaOf("write_file") : Do(op)
StepCrash == Guard /\ "crash" \in OpKinds /\ \E op \in AlphaOf("crash") : \E f \in CrashChoices : DoX(op, I_CrashF(op, f))
Next ==
    \/ StepOpen \/ StepClose \/ StepWriteAt \/ StepReadAt \/ StepWrite \/ StepRead \/ StepSeek \/ StepSetLen
    \/ StepLen \/ StepSyncAll \/ StepSyncData \/ StepSyncDir \/ StepRename \/ StepRemoveFile \/ StepCreateDir
    \/ StepCreateDirAll \/ StepRemoveDir \/ StepRemoveDirAll \/ StepReadDir \/ StepMetadata \/ StepExists
    \/ StepReadFile \/ StepWriteFile \/ StepCrash
Spec == Init /\ [][Next]_vars
\* joint state without the bookkeeping of the last step
MCView == <<ino, hnd, mode, pf, pd, se, pend, oh, moved, missed, seen, div, devs, ncrash, nops>>

\* ---------------------------------------------------------------------------
\* design level
\* every point where the transcribed algorithm leaves the reference is attributed to a recorded deviation
DivergenceExplained == div \notin {"", "lost"} => devs # {}      \* "lost" (judge c07): the run is simply not judged any further
\* C10 SyncInert for the reference, by construction: "sync operations ... never change anything observable"
SyncInert == [][IsSync(lastop') => [k \in 1..Len(VP) |-> RInfoT(ino', VP[k])] = RViewOn(VP)]_vars
\* lock step bookkeeping of handles
ImplInv == div = "" => \A h \in 1..MaxH : hnd[h].open = oh[h].open
\* witnesses (their violation is expected: shortest history that reaches the deviation)
NoDiv == div = ""
NoDev(n) == ~(div # "" /\ n \in devs)
NoRecreate == NoDev("Dev_RecreateAfterRemove")
NoOldName == NoDev("Dev_DataOpUnderOldName")
NoPendingDirRename == NoDev("Dev_RenamedPendingDir")
NoStaleHandle == NoDev("Dev_StaleHandleName")
NoDirRecreate == NoDev("Dev_DirRecreateInLog")
NoRenamedInto == NoDev("Dev_RenamedIntoDirNotCounted")
NoSyncByName == NoDev("Dev_SyncFileByName")
NoRenameSplit == NoDev("Dev_RenameSplitFromCreate")
NoCrashDiv == div # "crash"
=============================================================================
