------------------------------- MODULE FsGen -------------------------------
(* Behaviour generation for the spec -> code replay: FsImpl (with the       *)
(* reference FsRef in lock step) plus a history variable.  One JSON line    *)
(* per emitted behaviour: the operations with the result the reference      *)
(* permits, and for the last operation everything TLC predicts (reference   *)
(* result and view, implementation result, view and state, divergence and   *)
(* the Dev_ predicates that hold).  With EmitMode "edges" and the VIEW      *)
(* GenView every transition of the joint state graph within the bound is    *)
(* emitted once behind one shortest path (transition cover); without VIEW   *)
(* every history up to MaxLen is emitted.                                   *)
EXTENDS FsImpl, Json

CONSTANT EmitMode       \* "edges" | "leaves" | "div" | "kind" (only the kind of every transition: action coverage)

VARIABLE hist

PfSeq(f) == [k \in 1..Len(SeqOfSet(DOMAIN f)) |-> [p |-> SeqOfSet(DOMAIN f)[k], c |-> f[SeqOfSet(DOMAIN f)[k]]]]
ImplState == [pf |-> PfSeq(pf'), pd |-> SeqOfSet(pd'), se |-> SeqOfSet(se'), pend |-> pend',
              oh |-> [h \in 1..MaxH |-> IF oh'[h].open THEN oh'[h].p ELSE ""]]
RefViewP == [k \in 1..Len(VP) |-> RInfoT(ino', VP[k])]
ImplViewP == IViewS(StP, VP)
Full ==
    [op |-> lastop', rr |-> rres', ri |-> ires', dv |-> div', devs |-> DevSeq(devs'),
     vr |-> IF lastop'.k = "crash" THEN <<>> ELSE RefViewP,
     vi |-> IF lastop'.k = "crash" \/ RefViewP = ImplViewP THEN <<>> ELSE ImplViewP,
     st |-> ImplState, unspec |-> mode' = "unspec"]
Brief == [op |-> lastop', rr |-> rres']

GenInit == Init /\ hist = <<>>
Emits ==
    CASE EmitMode = "edges" -> TRUE
      [] EmitMode = "leaves" -> nops' = MaxLen \/ div' # "" \/ mode' # "ok"
      [] EmitMode = "div" -> div' # ""
      [] EmitMode = "kind" -> FALSE
GenNext ==
    /\ Next
    /\ hist' = Append(hist, Brief)
    /\ Emits => PrintT(<<"REPLAY", ToJson([h |-> hist, last |-> Full])>>)
    /\ (EmitMode = "kind") => PrintT(<<"TAKEN", lastop'.k, div'>>)
GenSpec == GenInit /\ [][GenNext]_<<vars, hist>>

\* joint state without the bookkeeping of the last step: one representative history per state
GenView == <<ino, hnd, mode, pf, pd, se, pend, oh, moved, missed, seen, div, ncrash, nops>>
=============================================================================
