------------------------------- MODULE MsgUdp -------------------------------
(***************************************************************************)
(* ImplSpec of turmoil's message-level UDP (crates/turmoil/src/net/udp.rs, *)
(* the Udp part of host.rs, the multicast table of world.rs).              *)
(*                                                                         *)
(* One action per critical section of the Rust code:                       *)
(*   Bind / BindEph   UdpSocket::bind (verify interface, assign ephemeral  *)
(*                    port, Udp::bind)                                     *)
(*   DropSock         Drop for UdpSocket (leave_all ; Udp::unbind)         *)
(*   Connect          UdpSocket::connect (Udp::connect)                    *)
(*   Join / Leave     join_multicast_v4/v6, leave_multicast_v4/v6          *)
(*   SetBc / SetMl    set_broadcast, set_multicast_loop_v4/v6              *)
(*   Send             UdpSocket::send - the routing match: broadcast /     *)
(*                    multicast / same-host loopback / remote link         *)
(*   Deliver          Host::receive_from_network for a copy that came over *)
(*                    a link (Topology::deliver_messages); any order       *)
(*   LoDeliver        the task spawned by send_loopback, one tick later    *)
(*   Recv / Readable  Rx::try_recv_from, Rx::readable                      *)
(* The link layer underneath (latency, hold, partitions) is TopLink; here  *)
(* a link copy is simply in flight until it is delivered, in any order.    *)
(* The property-level ghosts of MsgUdpProp are driven alongside.           *)
(***************************************************************************)
EXTENDS MsgUdpProp, TLC

CONSTANTS
    FixedPorts,   \* ports the application may bind explicitly
    EphLo, EphHi, \* Builder::ephemeral_ports range (EphLo > every fixed port)
    Groups,       \* multicast groups
    Lens,         \* payload lengths (0, or >= 2)
    Bufs,         \* receive buffer lengths (>= 1)
    BindKinds,    \* subset of {"any", "lo"}
    DstPorts,     \* ports that sends and connect() may address
    DstKinds,     \* subset of {"host", "none", "lo", "bcast", "mc"}
    Ops,          \* action alphabet: subset of {"bind","bindeph","drop","connect","join","leave",
                  \*                            "setbc","setml","send","recv","readable"}
    PreBind,      \* sockets bound before the run: codes 100*h + 10*p + (1 = any, 2 = lo)
    Grouped,      \* TRUE: replayable schedule (see Sched below); FALSE: free interleaving
    MaxSend, MaxSock, MaxCtl, MaxRecv

VARIABLES
    bd,      \* [Hosts -> [Ports -> bind]]   Udp::binds of every host (+ the socket's Rx)
    grp,     \* set of <<g, p, h>>           World::multicast_groups: (group, port) -> member hosts
    net,     \* set of <<id, t, p>>          copies queued on links (Link::sent / deliverable)
    lob,     \* [Hosts -> Seq(<<id, p, dk>>)] loopback tasks spawned by send_loopback, in spawn order
    eph,     \* [Hosts -> port]              Host::next_ephemeral_port
    flushing,\* Grouped only: the loopback batch of this host is being handed over (0 = none)
    nctl, nrecv, \* bounds only
    last     \* label of the action that led here (behaviour extraction)

ivars == <<bd, grp, net, lob, eph, flushing, nctl>>
vars  == <<pvars, ivars, nrecv, last>>

EphPorts == EphLo..EphHi
Ports == FixedPorts \cup EphPorts
NoBind == [sid |-> 0, kind |-> "any", peer |-> NoAddr, bc |-> FALSE, ml |-> TRUE, q |-> <<>>, rxb |-> <<>>]
Bound(h, p) == bd[h][p].sid # 0

PreH(c) == c \div 100
PreP(c) == (c \div 10) % 10
PreK(c) == IF c % 10 = 1 THEN "any" ELSE "lo"
\* pre-bound sockets get socket ids in increasing code order
RECURSIVE PreSeq(_)
PreSeq(S) == IF S = {} THEN <<>>
             ELSE LET c == CHOOSE c \in S : \A d \in S : c <= d IN <<c>> \o PreSeq(S \ {c})
PreList == PreSeq(PreBind)
PreSid(h, p) == IF \E i \in 1..Len(PreList) : PreH(PreList[i]) = h /\ PreP(PreList[i]) = p
                THEN CHOOSE i \in 1..Len(PreList) : PreH(PreList[i]) = h /\ PreP(PreList[i]) = p
                ELSE 0

Init ==
    /\ socks = [i \in 1..Len(PreList) |->
                  [h |-> PreH(PreList[i]), p |-> PreP(PreList[i]), kind |-> PreK(PreList[i]),
                   alive |-> TRUE, peer |-> NoAddr, bc |-> FALSE, ml |-> TRUE, grp |-> {}]]
    /\ sends = <<>> /\ arrd = {}
    /\ pm = [i \in 1..Len(PreList) |-> {}] /\ py = [i \in 1..Len(PreList) |-> {}]
    /\ rbuf = [i \in 1..Len(PreList) |-> FALSE]
    /\ got = {} /\ viol = {}
    /\ bd = [h \in Hosts |-> [p \in Ports |->
                IF PreSid(h, p) # 0
                THEN [NoBind EXCEPT !.sid = PreSid(h, p), !.kind = PreK(PreList[PreSid(h, p)])]
                ELSE NoBind]]
    /\ grp = {} /\ net = {} /\ lob = [h \in Hosts |-> <<>>]
    /\ eph = [h \in Hosts |-> EphLo]
    /\ flushing = 0 /\ nctl = 0 /\ nrecv = 0
    /\ last = [a |-> "init"]

---------------------------------------------------------------------------
\* Schedule.  In a replay every action is one Sim::step; a loopback copy is
\* handed over by a task one tick after the send, i.e. after everything its
\* host does in the turn of the send and before anything that happens in a
\* later step.  Grouped = TRUE keeps exactly those interleavings: while a host
\* has loopback copies pending only that host acts (same turn), then the
\* whole batch is handed over.  Grouped = FALSE (exhaustive check, recorded
\* traces) allows every interleaving.
Busy == {h \in Hosts : lob[h] # <<>>}
HostMay(h) == ~Grouped \/ (Busy \subseteq {h} /\ flushing = 0)
NetMay == ~Grouped \/ Busy = {}

---------------------------------------------------------------------------
\* UdpSocket::bind with an explicit port
Bind(h, kind, p) ==
    /\ "bind" \in Ops /\ HostMay(h) /\ Len(socks) < MaxSock
    /\ kind \in BindKinds /\ p \in FixedPorts
    /\ IF Bound(h, p)
       THEN /\ nctl < MaxCtl /\ nctl' = nctl + 1          \* AddrInUse, nothing changes
            /\ last' = [a |-> "bind", h |-> h, kind |-> kind, p |-> p, res |-> "inuse", sid |-> 0]
            /\ UNCHANGED <<pvars, bd, grp, net, lob, eph, flushing, nrecv>>
       ELSE /\ bd' = [bd EXCEPT ![h][p] = [NoBind EXCEPT !.sid = Len(socks) + 1, !.kind = kind]]
            /\ P_Bind(h, p, kind)
            /\ last' = [a |-> "bind", h |-> h, kind |-> kind, p |-> p, res |-> "ok", sid |-> Len(socks) + 1]
            /\ UNCHANGED <<grp, net, lob, eph, flushing, nctl, nrecv>>

\* Host::assign_ephemeral_port: scan from the cursor, wrap at the end of the
\* range, skip assigned ports, leave the cursor behind the port returned.
EphSucc(p) == IF p = EphHi THEN EphLo ELSE p + 1
RECURSIVE EphScan(_, _, _)
EphScan(h, p, n) == IF n = 0 THEN 0 ELSE IF ~Bound(h, p) THEN p ELSE EphScan(h, EphSucc(p), n - 1)

BindEph(h, kind) ==
    /\ "bindeph" \in Ops /\ HostMay(h) /\ Len(socks) < MaxSock /\ kind \in BindKinds
    /\ LET p == EphScan(h, eph[h], EphHi - EphLo + 1) IN
       /\ p # 0                                  \* (exhaustion is a documented panic; not explored)
       /\ eph' = [eph EXCEPT ![h] = EphSucc(p)]
       /\ bd' = [bd EXCEPT ![h][p] = [NoBind EXCEPT !.sid = Len(socks) + 1, !.kind = kind]]
       /\ P_Bind(h, p, kind)
       /\ last' = [a |-> "bindeph", h |-> h, kind |-> kind, p |-> p, res |-> "ok", sid |-> Len(socks) + 1]
    /\ UNCHANGED <<grp, net, lob, flushing, nctl, nrecv>>

\* Drop for UdpSocket: leave_all(destination_address) ; unbind
DropSock(h, p) ==
    /\ "drop" \in Ops /\ HostMay(h) /\ Bound(h, p) /\ nctl < MaxCtl
    /\ grp' = {m \in grp : ~(m[2] = p /\ m[3] = h)}
    /\ bd' = [bd EXCEPT ![h][p] = NoBind]
    /\ P_Drop(bd[h][p].sid)
    /\ nctl' = nctl + 1
    /\ last' = [a |-> "drop", h |-> h, p |-> p, sid |-> bd[h][p].sid]
    /\ UNCHANGED <<net, lob, eph, flushing, nrecv>>

Connect(h, p, peer) ==
    /\ "connect" \in Ops /\ HostMay(h) /\ Bound(h, p) /\ nctl < MaxCtl
    /\ ~AddrEq(bd[h][p].peer, peer)
    /\ bd' = [bd EXCEPT ![h][p].peer = peer]
    /\ P_Connect(bd[h][p].sid, peer)
    /\ nctl' = nctl + 1
    /\ last' = [a |-> "connect", h |-> h, p |-> p, sid |-> bd[h][p].sid, peer |-> peer]
    /\ UNCHANGED <<grp, net, lob, eph, flushing, nrecv>>

\* join_multicast: the member is (host address, local port), whatever the bind address
Join(h, p, g) ==
    /\ "join" \in Ops /\ HostMay(h) /\ Bound(h, p) /\ nctl < MaxCtl
    /\ grp' = grp \cup {<<g, p, h>>}
    /\ P_Join(bd[h][p].sid, g, "ok")
    /\ nctl' = nctl + 1
    /\ last' = [a |-> "join", h |-> h, p |-> p, sid |-> bd[h][p].sid, g |-> g, res |-> "ok"]
    /\ UNCHANGED <<bd, net, lob, eph, flushing, nrecv>>

\* leave_multicast: AddrNotAvailable unless a member
Leave(h, p, g) ==
    /\ "leave" \in Ops /\ HostMay(h) /\ Bound(h, p) /\ nctl < MaxCtl
    /\ LET res == IF <<g, p, h>> \in grp THEN "ok" ELSE "err" IN
       /\ grp' = grp \ {<<g, p, h>>}
       /\ P_Leave(bd[h][p].sid, g, res)
       /\ last' = [a |-> "leave", h |-> h, p |-> p, sid |-> bd[h][p].sid, g |-> g, res |-> res]
    /\ nctl' = nctl + 1
    /\ UNCHANGED <<bd, net, lob, eph, flushing, nrecv>>

SetBc(h, p, on) ==
    /\ "setbc" \in Ops /\ HostMay(h) /\ Bound(h, p) /\ nctl < MaxCtl /\ bd[h][p].bc # on
    /\ bd' = [bd EXCEPT ![h][p].bc = on]
    /\ P_SetBc(bd[h][p].sid, on)
    /\ nctl' = nctl + 1
    /\ last' = [a |-> "setbc", h |-> h, p |-> p, sid |-> bd[h][p].sid, on |-> on]
    /\ UNCHANGED <<grp, net, lob, eph, flushing, nrecv>>

SetMl(h, p, on) ==
    /\ "setml" \in Ops /\ HostMay(h) /\ Bound(h, p) /\ nctl < MaxCtl /\ bd[h][p].ml # on
    /\ bd' = [bd EXCEPT ![h][p].ml = on]
    /\ P_SetMl(bd[h][p].sid, on)
    /\ nctl' = nctl + 1
    /\ last' = [a |-> "setml", h |-> h, p |-> p, sid |-> bd[h][p].sid, on |-> on]
    /\ UNCHANGED <<grp, net, lob, eph, flushing, nrecv>>

---------------------------------------------------------------------------
\* UdpSocket::send.  src = local_addr; loopback destination => src ip = dst ip;
\* unspecified src ip => host address.  Then the match on the destination:
\*   broadcast (option of the *sending* port): every host with the port
\*       assigned; the own host through send_loopback, the others through the link;
\*   multicast: every member address of (group, port); a member on the own host
\*       through send_loopback iff the multicast-loop option of the bind at the
\*       *destination* port is on, the others through the link;
\*   is_same(src, dst) (loopback destination or equal ip): send_loopback;
\*   otherwise the link.
\* World::send_message fails with ConnectionRefused when no link joins the two
\* ips - in particular for every packet whose source ip is the loopback address.
\* try_for_each stops at the first error.
SrcKind(h, p, dst) == IF dst.k = "lo" \/ bd[h][p].kind = "lo" THEN "lo" ELSE "host"

BcastTargets(dst) == {t \in Hosts : Bound(t, dst.p)}
McastTargets(dst) == {t \in Hosts : <<dst.g, dst.p, t>> \in grp}

\* result of the routing: [res, nets (set of <<t, p>>), los (Seq of <<p, dk>>)]
Route(h, p, dst) ==
    LET sk == SrcKind(h, p, dst) IN
    CASE dst.k = "bcast" ->
            IF ~bd[h][p].bc THEN [res |-> "err", nets |-> {}, los |-> <<>>]
            ELSE IF sk = "lo"
                 THEN [res |-> IF BcastTargets(dst) = {} THEN "ok" ELSE "err", nets |-> {}, los |-> <<>>]
                 ELSE [res |-> "ok",
                       nets |-> {<<t, dst.p>> : t \in BcastTargets(dst) \ {h}},
                       los |-> IF h \in BcastTargets(dst) THEN << <<dst.p, "host">> >> ELSE <<>>]
      [] dst.k = "mc" ->
            IF sk = "lo"
            THEN [res |-> IF McastTargets(dst) = {} THEN "ok" ELSE "err", nets |-> {}, los |-> <<>>]
            ELSE [res |-> "ok",
                  nets |-> {<<t, dst.p>> : t \in McastTargets(dst) \ {h}},
                  los |-> IF h \in McastTargets(dst) /\ bd[h][dst.p].ml
                          THEN << <<dst.p, "host">> >> ELSE <<>>]
      [] dst.k = "lo" -> [res |-> "ok", nets |-> {}, los |-> << <<dst.p, "lo">> >>]
      [] dst.k = "host" ->
            IF sk = "host" /\ dst.h = h THEN [res |-> "ok", nets |-> {}, los |-> << <<dst.p, "host">> >>]
            ELSE IF sk = "lo" \/ dst.h \notin Hosts THEN [res |-> "err", nets |-> {}, los |-> <<>>]
            ELSE [res |-> "ok", nets |-> {<<dst.h, dst.p>>}, los |-> <<>>]

DstOk(dst) ==
    /\ dst.p \in DstPorts
    /\ \/ dst.k = "host" /\ "host" \in DstKinds /\ dst.h \in Hosts /\ dst.g = 0
       \/ dst.k = "host" /\ "none" \in DstKinds /\ dst.h = 0 /\ dst.g = 0
       \/ dst.k = "lo" /\ "lo" \in DstKinds /\ dst.h = 0 /\ dst.g = 0
       \/ dst.k = "bcast" /\ "bcast" \in DstKinds /\ dst.h = 0 /\ dst.g = 0
       \/ dst.k = "mc" /\ "mc" \in DstKinds /\ dst.h = 0 /\ dst.g \in Groups

\* A zero-length datagram cannot carry an id.  So that the drivers can tell which
\* one a link holds / a host is handed (by its source port), the alphabet keeps at
\* most one zero-length datagram per source port in flight (any host).  Several may
\* still wait in one receive queue.
ZeroFree(q) ==
    /\ \A c \in net : ~(sends[c[1]].len = 0 /\ sends[c[1]].o.p = q)
    /\ \A t \in Hosts : \A i \in 1..Len(lob[t]) :
           ~(sends[lob[t][i][1]].len = 0 /\ sends[lob[t][i][1]].o.p = q)

Send(h, p, dst, len) ==
    /\ "send" \in Ops /\ HostMay(h) /\ Bound(h, p) /\ Len(sends) < MaxSend
    /\ DstOk(dst) /\ len \in Lens
    /\ (len = 0 => ZeroFree(p))
    /\ LET r  == Route(h, p, dst)
           id == Len(sends) + 1
       IN
       /\ net' = net \cup {<<id, c[1], c[2]>> : c \in r.nets}
       /\ lob' = [lob EXCEPT ![h] = @ \o [i \in 1..Len(r.los) |-> <<id, r.los[i][1], r.los[i][2]>>]]
       /\ P_Send(bd[h][p].sid, dst, len, r.res)
       /\ last' = [a |-> "send", h |-> h, p |-> p, sid |-> bd[h][p].sid, dst |-> dst, len |-> len,
                   id |-> id, res |-> r.res,
                   nets |-> {<<c[1], c[2]>> : c \in r.nets}, nlo |-> Len(r.los)]
    /\ UNCHANGED <<bd, grp, eph, flushing, nctl, nrecv>>

---------------------------------------------------------------------------
\* Udp::receive_from_network at host t for datagram id addressed to (dk, p)
Accepts(t, id, p, dk) ==
    LET b == bd[t][p] IN
    /\ b.sid # 0
    /\ (b.peer.k = "none" \/ AddrEq(b.peer, sends[id].o))     \* connect filter: matches(target, src)
    /\ (b.kind = "any" \/ dk = "lo")                           \* matches(bind_addr, dst)
    /\ Len(b.q) < Cap                                          \* try_send: Full
Why(t, id, p, dk) ==
    LET b == bd[t][p] IN
    IF b.sid = 0 THEN "unbound"
    ELSE IF ~(b.peer.k = "none" \/ AddrEq(b.peer, sends[id].o)) THEN "peer"
    ELSE IF ~(b.kind = "any" \/ dk = "lo") THEN "kind"
    ELSE IF Len(b.q) >= Cap THEN "full" ELSE "ok"
QAfter(t, id, p, dk) ==
    IF Accepts(t, id, p, dk) THEN [bd EXCEPT ![t][p].q = Append(@, id)] ELSE bd

\* a copy that travelled over a link is handed to its host (any order)
Deliver(id, t, p) ==
    /\ NetMay /\ <<id, t, p>> \in net
    /\ net' = net \ {<<id, t, p>>}
    /\ bd' = QAfter(t, id, p, "host")
    /\ P_Arrive(id, t, p, "host")
    /\ last' = [a |-> "deliver", id |-> id, h |-> t, p |-> p, dk |-> "host",
                why |-> Why(t, id, p, "host"), cls |-> ArriveClass(id, t, p, "host")]
    /\ UNCHANGED <<grp, lob, eph, flushing, nctl, nrecv>>

\* the oldest loopback task of host h fires
LoDeliver(h) ==
    /\ lob[h] # <<>>
    /\ (Grouped => flushing \in {0, h})
    /\ LET c == Head(lob[h]) IN
       /\ lob' = [lob EXCEPT ![h] = Tail(@)]
       /\ bd' = QAfter(h, c[1], c[2], c[3])
       /\ P_Arrive(c[1], h, c[2], c[3])
       /\ flushing' = IF Grouped /\ Tail(lob[h]) # <<>> THEN h ELSE 0
       /\ last' = [a |-> "lodeliver", id |-> c[1], h |-> h, p |-> c[2], dk |-> c[3],
                   why |-> Why(h, c[1], c[2], c[3]), cls |-> ArriveClass(c[1], h, c[2], c[3])]
    /\ UNCHANGED <<grp, net, eph, nctl, nrecv>>

---------------------------------------------------------------------------
\* Rx::try_recv_from behind recv_from (after readable) / try_recv_from
Recv(h, p, buf) ==
    /\ "recv" \in Ops /\ HostMay(h) /\ Bound(h, p) /\ buf \in Bufs /\ nrecv < MaxRecv
    /\ LET b  == bd[h][p]
           id == IF b.rxb # <<>> THEN b.rxb[1] ELSE IF b.q # <<>> THEN Head(b.q) ELSE 0
           n  == IF id = 0 THEN 0 ELSE Min(buf, sends[id].len)
           res == IF id = 0 THEN [k |-> "empty", len |-> 0, o |-> NoAddr, data |-> <<>>]
                  ELSE [k |-> "data", len |-> n, o |-> sends[id].o, data |-> Payload(id, sends[id].sid, n)]
       IN
       /\ bd' = IF b.rxb # <<>> THEN [bd EXCEPT ![h][p].rxb = <<>>]
                ELSE IF b.q # <<>> THEN [bd EXCEPT ![h][p].q = Tail(@)] ELSE bd
       /\ P_Recv(b.sid, buf, res)
       /\ last' = [a |-> "recv", h |-> h, p |-> p, sid |-> b.sid, buf |-> buf, res |-> res]
    /\ nrecv' = nrecv + 1
    /\ UNCHANGED <<grp, net, lob, eph, flushing, nctl>>

\* Rx::readable polled once
Readable(h, p) ==
    /\ "readable" \in Ops /\ HostMay(h) /\ Bound(h, p) /\ nrecv < MaxRecv
    /\ LET b == bd[h][p]
           res == IF b.rxb # <<>> \/ b.q # <<>> THEN "ok" ELSE "pending"
       IN
       /\ bd' = IF b.rxb = <<>> /\ b.q # <<>>
                THEN [bd EXCEPT ![h][p].rxb = <<Head(b.q)>>, ![h][p].q = Tail(b.q)] ELSE bd
       /\ P_Readable(b.sid, res)
       /\ last' = [a |-> "readable", h |-> h, p |-> p, sid |-> b.sid, res |-> res]
    /\ nrecv' = nrecv + 1
    /\ UNCHANGED <<grp, net, lob, eph, flushing, nctl>>

---------------------------------------------------------------------------
PeerChoices(h) ==
    {[k |-> "host", h |-> t, p |-> q] : t \in Hosts, q \in DstPorts}
        \cup {[k |-> "lo", h |-> h, p |-> q] : q \in DstPorts}
DstChoices ==
    {[k |-> "host", h |-> t, g |-> 0, p |-> q] : t \in 0..N, q \in DstPorts}
        \cup {[k |-> kk, h |-> 0, g |-> 0, p |-> q] : kk \in {"lo", "bcast"}, q \in DstPorts}
        \cup {[k |-> "mc", h |-> 0, g |-> g, p |-> q] : g \in Groups, q \in DstPorts}

\* The disjuncts of Next are split by case so that TLC's coverage report shows
\* that every routing class, every delivery outcome and every kind of receive
\* was exercised (vacuity guard of the check).
RouteClass(h, p, dst) ==
    LET r == Route(h, p, dst) IN
    IF r.res = "err" THEN "refused"
    ELSE IF dst.k = "bcast" THEN "bcast"
    ELSE IF dst.k = "mc" THEN (IF r.los # <<>> THEN "mcloop"
                               ELSE IF r.nets # {} /\ h \in McastTargets(dst) THEN "mcskip"   \* local member skipped (loop off),
                               ELSE IF r.nets # {} THEN "mcnet" ELSE "mcnone")                 \* the other members still served
    ELSE IF dst.k = "lo" THEN "loop"
    ELSE IF r.los # <<>> THEN "self" ELSE "remote"
SendBcast(h, p, dst, len)   == dst.k = "bcast" /\ "send" \in Ops /\ Bound(h, p) /\ DstOk(dst) /\ RouteClass(h, p, dst) = "bcast"   /\ Send(h, p, dst, len)
SendMcNet(h, p, dst, len)   == dst.k = "mc" /\ "send" \in Ops /\ Bound(h, p) /\ DstOk(dst) /\ RouteClass(h, p, dst) = "mcnet"   /\ Send(h, p, dst, len)
SendMcSkip(h, p, dst, len)  == dst.k = "mc" /\ "send" \in Ops /\ Bound(h, p) /\ DstOk(dst) /\ RouteClass(h, p, dst) = "mcskip"  /\ Send(h, p, dst, len)
SendMcLoop(h, p, dst, len)  == dst.k = "mc" /\ "send" \in Ops /\ Bound(h, p) /\ DstOk(dst) /\ RouteClass(h, p, dst) = "mcloop"  /\ Send(h, p, dst, len)
SendMcNone(h, p, dst, len)  == dst.k = "mc" /\ "send" \in Ops /\ Bound(h, p) /\ DstOk(dst) /\ RouteClass(h, p, dst) = "mcnone"  /\ Send(h, p, dst, len)
SendLoop(h, p, dst, len)    == dst.k = "lo" /\ "send" \in Ops /\ Bound(h, p) /\ DstOk(dst) /\ RouteClass(h, p, dst) = "loop"    /\ Send(h, p, dst, len)
SendSelf(h, p, dst, len)    == dst.k = "host" /\ "send" \in Ops /\ Bound(h, p) /\ DstOk(dst) /\ RouteClass(h, p, dst) = "self"    /\ Send(h, p, dst, len)
SendRemote(h, p, dst, len)  == dst.k = "host" /\ "send" \in Ops /\ Bound(h, p) /\ DstOk(dst) /\ RouteClass(h, p, dst) = "remote"  /\ Send(h, p, dst, len)
SendRefused(h, p, dst, len) == "send" \in Ops /\ Bound(h, p) /\ DstOk(dst) /\ RouteClass(h, p, dst) = "refused" /\ Send(h, p, dst, len)

\* delivery outcome: the statement is silent ("may"), else by what the host did
Outcome(t, id, p, dk) ==
    IF ArriveClass(id, t, p, dk) = "may" THEN "silent" ELSE Why(t, id, p, dk)
DeliverQueued(id, t, p) == <<id, t, p>> \in net /\ Outcome(t, id, p, "host") = "ok" /\ Deliver(id, t, p)
DeliverFull(id, t, p) == <<id, t, p>> \in net /\ Outcome(t, id, p, "host") = "full" /\ Deliver(id, t, p)
DeliverPeer(id, t, p) == <<id, t, p>> \in net /\ Outcome(t, id, p, "host") = "peer" /\ Deliver(id, t, p)
DeliverKind(id, t, p) == <<id, t, p>> \in net /\ Outcome(t, id, p, "host") = "kind" /\ Deliver(id, t, p)
DeliverUnbound(id, t, p) == <<id, t, p>> \in net /\ Outcome(t, id, p, "host") = "unbound" /\ Deliver(id, t, p)
DeliverSilent(id, t, p) == <<id, t, p>> \in net /\ Outcome(t, id, p, "host") = "silent" /\ Deliver(id, t, p)
LoOutcome(h) == Outcome(h, Head(lob[h])[1], Head(lob[h])[2], Head(lob[h])[3])
LoDeliverQueued(h)   == lob[h] # <<>> /\ LoOutcome(h) = "ok" /\ LoDeliver(h)
LoDeliverDropped(h)  == lob[h] # <<>> /\ LoOutcome(h) \in {"full", "peer", "kind", "unbound"} /\ LoDeliver(h)
LoDeliverSilent(h)   == lob[h] # <<>> /\ LoOutcome(h) = "silent" /\ LoDeliver(h)

RecvKind(h, p, buf) ==
    LET b == bd[h][p] IN
    IF b.rxb # <<>> THEN "buffered"
    ELSE IF b.q = <<>> THEN "empty"
    ELSE IF sends[Head(b.q)].len = 0 THEN "zero"
    ELSE IF buf < sends[Head(b.q)].len THEN "cut" ELSE "whole"
RecvWhole(h, p, buf)    == Bound(h, p) /\ RecvKind(h, p, buf) = "whole"    /\ Recv(h, p, buf)
RecvCut(h, p, buf)      == Bound(h, p) /\ RecvKind(h, p, buf) = "cut"      /\ Recv(h, p, buf)
RecvZero(h, p, buf)     == Bound(h, p) /\ RecvKind(h, p, buf) = "zero"     /\ Recv(h, p, buf)
RecvBuffered(h, p, buf) == Bound(h, p) /\ RecvKind(h, p, buf) = "buffered" /\ Recv(h, p, buf)
\* (an empty receive that leaves every variable unchanged is a stuttering step:
\* skipped in the exhaustive check, kept in replayable behaviours)
RecvEmpty(h, p, buf)    == Bound(h, p) /\ RecvKind(h, p, buf) = "empty" /\ (Grouped \/ py[bd[h][p].sid] # {})
                           /\ Recv(h, p, buf)

ReadableOk(h, p)      == Bound(h, p) /\ (bd[h][p].rxb # <<>> \/ bd[h][p].q # <<>>) /\ Readable(h, p)
ReadablePending(h, p) == Bound(h, p) /\ bd[h][p].rxb = <<>> /\ bd[h][p].q = <<>> /\ Grouped /\ Readable(h, p)

IsMember(h, p) == \E g \in Groups : <<g, p, h>> \in grp
DropMember(h, p) == Bound(h, p) /\ IsMember(h, p) /\ DropSock(h, p)
DropLoaded(h, p) == Bound(h, p) /\ ~IsMember(h, p) /\ (bd[h][p].q # <<>> \/ bd[h][p].rxb # <<>>) /\ DropSock(h, p)
DropPlain(h, p)  == Bound(h, p) /\ ~IsMember(h, p) /\ bd[h][p].q = <<>> /\ bd[h][p].rxb = <<>> /\ DropSock(h, p)
BindOk(h, k, p)    == ~Bound(h, p) /\ Bind(h, k, p)
BindInUse(h, k, p) == Bound(h, p) /\ Bind(h, k, p)
LeaveOk(h, p, g)  == <<g, p, h>> \in grp /\ Leave(h, p, g)
LeaveErr(h, p, g) == <<g, p, h>> \notin grp /\ Leave(h, p, g)

Next ==
    \/ \E h \in Hosts, k \in BindKinds, p \in FixedPorts : BindOk(h, k, p)
    \/ \E h \in Hosts, k \in BindKinds, p \in FixedPorts : BindInUse(h, k, p)
    \/ \E h \in Hosts, k \in BindKinds : BindEph(h, k)
    \/ \E h \in Hosts, p \in Ports : DropMember(h, p)
    \/ \E h \in Hosts, p \in Ports : DropLoaded(h, p)
    \/ \E h \in Hosts, p \in Ports : DropPlain(h, p)
    \/ \E h \in Hosts, p \in Ports : \E peer \in PeerChoices(h) : Connect(h, p, peer)
    \/ \E h \in Hosts, p \in Ports, g \in Groups : Join(h, p, g)
    \/ \E h \in Hosts, p \in Ports, g \in Groups : LeaveOk(h, p, g)
    \/ \E h \in Hosts, p \in Ports, g \in Groups : LeaveErr(h, p, g)
    \/ \E h \in Hosts, p \in Ports, on \in BOOLEAN : SetBc(h, p, on)
    \/ \E h \in Hosts, p \in Ports, on \in BOOLEAN : SetMl(h, p, on)
    \/ \E h \in Hosts, p \in Ports, len \in Lens : \E dst \in DstChoices : SendBcast(h, p, dst, len)
    \/ \E h \in Hosts, p \in Ports, len \in Lens : \E dst \in DstChoices : SendMcNet(h, p, dst, len)
    \/ \E h \in Hosts, p \in Ports, len \in Lens : \E dst \in DstChoices : SendMcSkip(h, p, dst, len)
    \/ \E h \in Hosts, p \in Ports, len \in Lens : \E dst \in DstChoices : SendMcLoop(h, p, dst, len)
    \/ \E h \in Hosts, p \in Ports, len \in Lens : \E dst \in DstChoices : SendMcNone(h, p, dst, len)
    \/ \E h \in Hosts, p \in Ports, len \in Lens : \E dst \in DstChoices : SendLoop(h, p, dst, len)
    \/ \E h \in Hosts, p \in Ports, len \in Lens : \E dst \in DstChoices : SendSelf(h, p, dst, len)
    \/ \E h \in Hosts, p \in Ports, len \in Lens : \E dst \in DstChoices : SendRemote(h, p, dst, len)
    \/ \E h \in Hosts, p \in Ports, len \in Lens : \E dst \in DstChoices : SendRefused(h, p, dst, len)
    \/ \E id \in 1..MaxSend, t \in Hosts, p \in Ports : DeliverQueued(id, t, p)
    \/ \E id \in 1..MaxSend, t \in Hosts, p \in Ports : DeliverFull(id, t, p)
    \/ \E id \in 1..MaxSend, t \in Hosts, p \in Ports : DeliverPeer(id, t, p)
    \/ \E id \in 1..MaxSend, t \in Hosts, p \in Ports : DeliverKind(id, t, p)
    \/ \E id \in 1..MaxSend, t \in Hosts, p \in Ports : DeliverUnbound(id, t, p)
    \/ \E id \in 1..MaxSend, t \in Hosts, p \in Ports : DeliverSilent(id, t, p)
    \/ \E h \in Hosts : LoDeliverQueued(h)
    \/ \E h \in Hosts : LoDeliverDropped(h)
    \/ \E h \in Hosts : LoDeliverSilent(h)
    \/ \E h \in Hosts, p \in Ports, buf \in Bufs : RecvWhole(h, p, buf)
    \/ \E h \in Hosts, p \in Ports, buf \in Bufs : RecvCut(h, p, buf)
    \/ \E h \in Hosts, p \in Ports, buf \in Bufs : RecvZero(h, p, buf)
    \/ \E h \in Hosts, p \in Ports, buf \in Bufs : RecvBuffered(h, p, buf)
    \/ \E h \in Hosts, p \in Ports, buf \in Bufs : RecvEmpty(h, p, buf)
    \/ \E h \in Hosts, p \in Ports : ReadableOk(h, p)
    \/ \E h \in Hosts, p \in Ports : ReadablePending(h, p)

Spec == Init /\ [][Next]_vars

---------------------------------------------------------------------------
(* Implementation-level invariants *)

QIds(b) == {b.q[i] : i \in 1..Len(b.q)} \cup {b.rxb[i] : i \in 1..Len(b.rxb)}

TypeOK ==
    /\ \A h \in Hosts, p \in Ports :
         LET b == bd[h][p] IN
         /\ b.sid \in 0..Len(socks) /\ Len(b.q) <= Cap /\ Len(b.rxb) <= 1
         /\ b.sid # 0 => /\ socks[b.sid].alive /\ socks[b.sid].h = h /\ socks[b.sid].p = p
                         /\ socks[b.sid].kind = b.kind /\ socks[b.sid].bc = b.bc /\ socks[b.sid].ml = b.ml
                         /\ AddrEq(socks[b.sid].peer, b.peer)
    /\ \A s \in Live : bd[socks[s].h][socks[s].p].sid = s
    /\ \A h \in Hosts : eph[h] \in EphPorts
\* the multicast table only ever holds addresses of live sockets that joined
GroupsMatch ==
    grp = UNION {{<<g, socks[s].p, socks[s].h>> : g \in socks[s].grp} : s \in Live}
\* what is queued at a socket is what the statement requires to be there,
\* plus at most what it leaves open.  Zero-length datagrams from one origin are
\* interchangeable (the PropSpec discharges them by count), so they are
\* compared by count per origin.
QSeq(b) == b.rxb \o b.q
ZCount(S, o) == Cardinality({id \in S : sends[id].len = 0 /\ AddrEq(sends[id].o, o)})
ZQCount(b, o) == Cardinality({i \in 1..Len(QSeq(b)) :
                     sends[QSeq(b)[i]].len = 0 /\ AddrEq(sends[QSeq(b)[i]].o, o)})
NZ(S) == {id \in S : sends[id].len # 0}
QueueMatches ==
    \A s \in Live :
        LET b == bd[socks[s].h][socks[s].p] IN
        /\ NZ(pm[s]) \subseteq NZ(QIds(b)) /\ NZ(QIds(b)) \subseteq NZ(pm[s] \cup py[s])
        /\ \A id \in (QIds(b) \cup pm[s] \cup py[s]) \ NZ(QIds(b) \cup pm[s] \cup py[s]) :
               LET o == sends[id].o IN
               /\ ZCount(pm[s], o) <= ZQCount(b, o)
               /\ ZQCount(b, o) <= ZCount(pm[s] \cup py[s], o)
        /\ rbuf[s] = (b.rxb # <<>>)
\* every required copy is in flight or has arrived (nothing is lost on the way)
NothingLost ==
    \A id \in Ids : \A c \in sends[id].cm :
        \/ <<id, c[1], c[2], c[3]>> \in arrd
        \/ c[3] = "host" /\ <<id, c[1], c[2]>> \in net
        \/ \E i \in 1..Len(lob[c[1]]) : lob[c[1]][i] = <<id, c[2], c[3]>>
\* nothing arrives that the statement does not expect to travel
NothingExtra ==
    /\ \A c \in net : <<c[2], c[3], "host">> \in (sends[c[1]].cm \cup sends[c[1]].cy)
    /\ \A h \in Hosts : \A i \in 1..Len(lob[h]) :
           <<h, lob[h][i][2], lob[h][i][3]>> \in (sends[lob[h][i][1]].cm \cup sends[lob[h][i][1]].cy)

ImplInv == TypeOK /\ GroupsMatch /\ QueueMatches /\ NothingLost /\ NothingExtra

View == <<pvars, ivars>>
=============================================================================
