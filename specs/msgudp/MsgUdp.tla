------------------------------- MODULE MsgUdp -------------------------------
(***************************************************************************)
(* ImplSpec of turmoil's message-level UDP (crates/turmoil/src/net/udp.rs, *)
(* the Udp part of host.rs, the multicast table of world.rs).              *)
(*                                                                         *)
(* One action per critical section of the Rust code:                       *)
(*   Bind / BindEph   UdpSocket::bind (verify interface, assign ephemeral  *)
(*                    port, Udp::bind)                                     *)
(*   DropSock         Drop for UdpSocket (leave_all ; Udp::unbind)         *)
(*   Connect          UdpSocket::connect (Udp::connect)                    *)
(*   Join / Leave     join_multicast_v4/v6, leave_multicast_v4/v6          *)
(*   SetBc / SetMl    set_broadcast, set_multicast_loop_v4/v6              *)
(*   Send             UdpSocket::send - the routing match: broadcast /     *)
(*                    multicast / same-host loopback / remote link         *)
(*   Deliver          Host::receive_from_network for a copy that came over *)
(*                    a link (Topology::deliver_messages); any order       *)
(*   LoDeliver        the task spawned by send_loopback, one tick later    *)
(*   Recv / Readable  Rx::try_recv_from, Rx::readable                      *)
(* The link layer underneath (latency, hold, partitions) is TopLink; here  *)
(* a link copy is simply in flight until it is delivered, in any order.    *)
(* The property-level ghosts of MsgUdpProp are driven alongside.           *)
(***************************************************************************)
EXTENDS MsgUdpProp, TLC

CONSTANTS
    FixedPorts,   \* ports the application may bind explicitly
    EphLo, EphHi, \* Builder::ephemeral_ports range (EphLo > every fixed port)
    Groups,       \* multicast groups
    Lens,         \* payload lengths (>= 2)
    Bufs,         \* receive buffer lengths (>= 1)
    BindKinds,    \* subset of {"any", "lo"}
    DstKinds,     \* subset of {"host", "none", "lo", "bcast", "mc"}
    Ops,          \* action alphabet: subset of {"bind","bindeph","drop","connect","join","leave",
                  \*                            "setbc","setml","send","recv","readable"}
    PreBind,      \* sockets bound before the run: codes 100*h + 10*p + (1 = any, 2 = lo)
    Grouped,      \* TRUE: replayable schedule (see Sched below); FALSE: free interleaving
    MaxSend, MaxSock, MaxCtl, MaxRecv

VARIABLES
    bd,      \* [Hosts -> [Ports -> bind]]   Udp::binds of every host (+ the socket's Rx)
    grp,     \* set of <<g, p, h>>           World::multicast_groups: (group, port) -> member hosts
    net,     \* set of <<id, t, p>>          copies queued on links (Link::sent / deliverable)
    lob,     \* [Hosts -> Seq(<<id, p, dk>>)] loopback tasks spawned by send_loopback, in spawn order
    eph,     \* [Hosts -> port]              Host::next_ephemeral_port
    flushing,\* Grouped only: the loopback batch of this host is being handed over (0 = none)
    nctl, nrecv, \* bounds only
    last     \* label of the action that led here (behaviour extraction)

ivars == <<bd, grp, net, lob, eph, flushing, nctl>>
vars  == <<pvars, ivars, nrecv, last>>

EphPorts == EphLo..EphHi
Ports == FixedPorts \cup EphPorts
NoBind == [sid |-> 0, kind |-> "any", peer |-> NoAddr, bc |-> FALSE, ml |-> TRUE, q |-> <<>>, rxb |-> <<>>]
Bound(h, p) == bd[h][p].sid # 0

PreH(c) == c \div 100
PreP(c) == (c \div 10) % 10
PreK(c) == IF c % 10 = 1 THEN "any" ELSE "lo"
\* pre-bound sockets get socket ids in increasing code order
RECURSIVE PreSeq(_)
PreSeq(S) == IF S = {} THEN <<>>
             ELSE LET c == CHOOSE c \in S : \A d \in S : c <= d IN <<c>> \o PreSeq(S \ {c})
PreList == PreSeq(PreBind)
PreSid(h, p) == IF \E i \in 1..Len(PreList) : PreH(PreList[i]) = h /\ PreP(PreList[i]) = p
                THEN CHOOSE i \in 1..Len(PreList) : PreH(PreList[i]) = h /\ PreP(PreList[i]) = p
                ELSE 0

Init ==
    /\ socks = [i \in 1..Len(PreList) |->
                  [h |-> PreH(PreList[i]), p |-> PreP(PreList[i]), kind |-> PreK(PreList[i]),
                   alive |-> TRUE, peer |-> NoAddr, bc |-> FALSE, ml |-> TRUE, grp |-> {}]]
    /\ sends = <<>> /\ arrd = {}
    /\ pm = [i \in 1..Len(PreList) |-> {}] /\ py = [i \in 1..Len(PreList) |-> {}]
    /\ rbuf = [i \in 1..Len(PreList) |-> FALSE]
    /\ got = {} /\ viol = {}
    /\ bd = [h \in Hosts |-> [p \in Ports |->
                IF PreSid(h, p) # 0
                THEN [NoBind EXCEPT !.sid = PreSid(h, p), !.kind = PreK(PreList[PreSid(h, p)])]
                ELSE NoBind]]
    /\ grp = {} /\ net = {} /\ lob = [h \in Hosts |-> <<>>]
    /\ eph = [h \in Hosts |-> EphLo]
    /\ flushing = 0 /\ nctl = 0 /\ nrecv = 0
    /\ last = [a |-> "init"]

---------------------------------------------------------------------------
\* Schedule.  In a replay every action is one Sim::step; a loopback copy is
\* handed over by a task one tick after the send, i.e. after everything its
\* host does in the turn of the send and before anything that happens in a
\* later step.  Grouped = TRUE keeps exactly those interleavings: while a host
\* has loopback copies pending only that host acts (same turn), then the
\* whole batch is handed over.  Grouped = FALSE (exhaustive check, recorded
\* traces) allows every interleaving.
Busy == {h \in Hosts : lob[h] # <<>>}
HostMay(h) == ~Grouped \/ (Busy \subseteq {h} /\ flushing = 0)
NetMay == ~Grouped \/ Busy = {}

---------------------------------------------------------------------------
\* UdpSocket::bind with an explicit port
Bind(h, kind, p) ==
    /\ "bind" \in Ops /\ HostMay(h) /\ Len(socks) < MaxSock
    /\ kind \in BindKinds /\ p \in FixedPorts
    /\ IF Bound(h, p)
       THEN /\ nctl < MaxCtl /\ nctl' = nctl + 1          \* AddrInUse, nothing changes
            /\ last' = [a |-> "bind", h |-> h, kind |-> kind, p |-> p, res |-> "inuse", sid |-> 0]
            /\ UNCHANGED <<pvars, bd, grp, net, lob, eph, flushing, nrecv>>
       ELSE /\ bd' = [bd EXCEPT ![h][p] = [NoBind EXCEPT !.sid = Len(socks) + 1, !.kind = kind]]
            /\ P_Bind(h, p, kind)
            /\ last' = [a |-> "bind", h |-> h, kind |-> kind, p |-> p, res |-> "ok", sid |-> Len(socks) + 1]
            /\ UNCHANGED <<grp, net, lob, eph, flushing, nctl, nrecv>>

\* Host::assign_ephemeral_port: scan from the cursor, wrap at the end of the
\* range, skip assigned ports, leave the cursor behind the port returned.
EphSucc(p) == IF p = EphHi THEN EphLo ELSE p + 1
RECURSIVE EphScan(_, _, _)
EphScan(h, p, n) == IF n = 0 THEN 0 ELSE IF ~Bound(h, p) THEN p ELSE EphScan(h, EphSucc(p), n - 1)

BindEph(h, kind) ==
    /\ "bindeph" \in Ops /\ HostMay(h) /\ Len(socks) < MaxSock /\ kind \in BindKinds
    /\ LET p == EphScan(h, eph[h], EphHi - EphLo + 1) IN
       /\ p # 0                                  \* (exhaustion is a documented panic; not explored)
       /\ eph' = [eph EXCEPT ![h] = EphSucc(p)]
       /\ bd' = [bd EXCEPT ![h][p] = [NoBind EXCEPT !.sid = Len(socks) + 1, !.kind = kind]]
       /\ P_Bind(h, p, kind)
       /\ last' = [a |-> "bindeph", h |-> h, kind |-> kind, p |-> p, res |-> "ok", sid |-> Len(socks) + 1]
    /\ UNCHANGED <<grp, net, lob, flushing, nctl, nrecv>>

\* Drop for UdpSocket: leave_all(destination_address) ; unbind
DropSock(h, p) ==
    /\ "drop" \in Ops /\ HostMay(h) /\ Bound(h, p) /\ nctl < MaxCtl
    /\ grp' = {m \in grp : ~(m[2] = p /\ m[3] = h)}
    /\ bd' = [bd EXCEPT ![h][p] = NoBind]
    /\ P_Drop(bd[h][p].sid)
    /\ nctl' = nctl + 1
    /\ last' = [a |-> "drop", h |-> h, p |-> p, sid |-> bd[h][p].sid]
    /\ UNCHANGED <<net, lob, eph, flushing, nrecv>>

Connect(h, p, peer) ==
    /\ "connect" \in Ops /\ HostMay(h) /\ Bound(h, p) /\ nctl < MaxCtl
    /\ ~AddrEq(bd[h][p].peer, peer)
    /\ bd' = [bd EXCEPT ![h][p].peer = peer]
    /\ P_Connect(bd[h][p].sid, peer)
    /\ nctl' = nctl + 1
    /\ last' = [a |-> "connect", h |-> h, p |-> p, sid |-> bd[h][p].sid, peer |-> peer]
    /\ UNCHANGED <<grp, net, lob, eph, flushing, nrecv>>

\* join_multicast: the member is (host address, local port), whatever the bind address
Join(h, p, g) ==
    /\ "join" \in Ops /\ HostMay(h) /\ Bound(h, p) /\ nctl < MaxCtl
    /\ grp' = grp \cup {<<g, p, h>>}
    /\ P_Join(bd[h][p].sid, g, "ok")
    /\ nctl' = nctl + 1
    /\ last' = [a |-> "join", h |-> h, p |-> p, sid |-> bd[h][p].sid, g |-> g, res |-> "ok"]
    /\ UNCHANGED <<bd, net, lob, eph, flushing, nrecv>>

\* leave_multicast: AddrNotAvailable unless a member
Leave(h, p, g) ==
    /\ "leave" \in Ops /\ HostMay(h) /\ Bound(h, p) /\ nctl < MaxCtl
    /\ LET res == IF <<g, p, h>> \in grp THEN "ok" ELSE "err" IN
       /\ grp' = grp \ {<<g, p, h>>}
       /\ P_Leave(bd[h][p].sid, g, res)
       /\ last' = [a |-> "leave", h |-> h, p |-> p, sid |-> bd[h][p].sid, g |-> g, res |-> res]
    /\ nctl' = nctl + 1
    /\ UNCHANGED <<bd, net, lob, eph, flushing, nrecv>>

SetBc(h, p, on) ==
    /\ "setbc" \in Ops /\ HostMay(h) /\ Bound(h, p) /\ nctl < MaxCtl /\ bd[h][p].bc # on
    /\ bd' = [bd EXCEPT ![h][p].bc = on]
    /\ P_SetBc(bd[h][p].sid, on)
    /\ nctl' = nctl + 1
    /\ last' = [a |-> "setbc", h |-> h, p |-> p, sid |-> bd[h][p].sid, on |-> on]
    /\ UNCHANGED <<grp, net, lob, eph, flushing, nrecv>>

SetMl(h, p, on) ==
    /\ "setml" \in Ops /\ HostMay(h) /\ Bound(h, p) /\ nctl < MaxCtl /\ bd[h][p].ml # on
    /\ bd' = [bd EXCEPT ![h][p].ml = on]
    /\ P_SetMl(bd[h][p].sid, on)
    /\ nctl' = nctl + 1
    /\ last' = [a |-> "setml", h |-> h, p |-> p, sid |-> bd[h][p].sid, on |-> on]
    /\ UNCHANGED <<grp, net, lob, eph, flushing, nrecv>>

---------------------------------------------------------------------------
\* UdpSocket::send.  src = local_addr; loopback destination => src ip = dst ip;
\* unspecified src ip => host address.  Then the match on the destination:
\*   broadcast (option of the *sending* port): every host with the port
\*       assigned; the own host through send_loopback, the others through the link;
\*   multicast: every member address of (group, port); a member on the own host
\*       through send_loopback iff the multicast-loop option of the bind at the
\*       *destination* port is on, the others through the link;
\*   is_same(src, dst) (loopback destination or equal ip): send_loopback;
\*   otherwise the link.
\* World::send_message fails with ConnectionRefused when no link joins the two
\* ips - in particular for every packet whose source ip is the loopback address.
\* try_for_each stops at the first error.
SrcKind(h, p, dst) == IF dst.k = "lo" \/ bd[h][p].kind = "lo" THEN "lo" ELSE "host"

BcastTargets(dst) == {t \in Hosts : Bound(t, dst.p)}
McastTargets(dst) == {t \in Hosts : <<dst.g, dst.p, t>> \in grp}

\* result of the routing: [res, nets (set of <<t, p>>), los (Seq of <<p, dk>>)]
Route(h, p, dst) ==
    LET sk == SrcKind(h, p, dst) IN
    CASE dst.k = "bcast" ->
            IF ~bd[h][p].bc THEN [res |-> "err", nets |-> {}, los |-> <<>>]
            ELSE IF sk = "lo"
                 THEN [res |-> IF BcastTargets(dst) = {} THEN "ok" ELSE "err", nets |-> {}, los |-> <<>>]
                 ELSE [res |-> "ok",
                       nets |-> {<<t, dst.p>> : t \in BcastTargets(dst) \ {h}},
                       los |-> IF h \in BcastTargets(dst) THEN << <<dst.p, "host">> >> ELSE <<>>]
      [] dst.k = "mc" ->
            IF sk = "lo"
            THEN [res |-> IF McastTargets(dst) = {} THEN "ok" ELSE "err", nets |-> {}, los |-> <<>>]
            ELSE [res |-> "ok",
                  nets |-> {<<t, dst.p>> : t \in McastTargets(dst) \ {h}},
                  los |-> IF h \in McastTargets(dst) /\ bd[h][dst.p].ml
                          THEN << <<dst.p, "host">> >> ELSE <<>>]
      [] dst.k = "lo" -> [res |-> "ok", nets |-> {}, los |-> << <<dst.p, "lo">> >>]
      [] dst.k = "host" ->
            IF sk = "host" /\ dst.h = h THEN [res |-> "ok", nets |-> {}, los |-> << <<dst.p, "host">> >>]
            ELSE IF sk = "lo" \/ dst.h \notin Hosts THEN [res |-> "err", nets |-> {}, los |-> <<>>]
            ELSE [res |-> "ok", nets |-> {<<dst.h, dst.p>>}, los |-> <<>>]

DstOk(dst) ==
    /\ dst.p \in Ports
    /\ \/ dst.k = "host" /\ "host" \in DstKinds /\ dst.h \in Hosts /\ dst.g = 0
       \/ dst.k = "host" /\ "none" \in DstKinds /\ dst.h = 0 /\ dst.g = 0
       \/ dst.k = "lo" /\ "lo" \in DstKinds /\ dst.h = 0 /\ dst.g = 0
       \/ dst.k = "bcast" /\ "bcast" \in DstKinds /\ dst.h = 0 /\ dst.g = 0
       \/ dst.k = "mc" /\ "mc" \in DstKinds /\ dst.h = 0 /\ dst.g \in Groups

Send(h, p, dst, len) ==
    /\ "send" \in Ops /\ HostMay(h) /\ Bound(h, p) /\ Len(sends) < MaxSend
    /\ DstOk(dst) /\ len \in Lens
    /\ LET r  == Route(h, p, dst)
           id == Len(sends) + 1
       IN
       /\ net' = net \cup {<<id, c[1], c[2]>> : c \in r.nets}
       /\ lob' = [lob EXCEPT ![h] = @ \o [i \in 1..Len(r.los) |-> <<id, r.los[i][1], r.los[i][2]>>]]
       /\ P_Send(bd[h][p].sid, dst, len, r.res)
       /\ last' = [a |-> "send", h |-> h, p |-> p, sid |-> bd[h][p].sid, dst |-> dst, len |-> len,
                   id |-> id, res |-> r.res,
                   nets |-> {<<c[1], c[2]>> : c \in r.nets}, nlo |-> Len(r.los)]
    /\ UNCHANGED <<bd, grp, eph, flushing, nctl, nrecv>>

---------------------------------------------------------------------------
\* Udp::receive_from_network at host t for datagram id addressed to (dk, p)
Accepts(t, id, p, dk) ==
    LET b == bd[t][p] IN
    /\ b.sid # 0
    /\ (b.peer.k = "none" \/ AddrEq(b.peer, sends[id].o))     \* connect filter: matches(target, src)
    /\ (b.kind = "any" \/ dk = "lo")                           \* matches(bind_addr, dst)
    /\ Len(b.q) < Cap                                          \* try_send: Full
QAfter(t, id, p, dk) ==
    IF Accepts(t, id, p, dk) THEN [bd EXCEPT ![t][p].q = Append(@, id)] ELSE bd

\* a copy that travelled over a link is handed to its host (any order)
Deliver(id, t, p) ==
    /\ NetMay /\ <<id, t, p>> \in net
    /\ net' = net \ {<<id, t, p>>}
    /\ bd' = QAfter(t, id, p, "host")
    /\ P_Arrive(id, t, p, "host")
    /\ last' = [a |-> "deliver", id |-> id, h |-> t, p |-> p, dk |-> "host",
                acc |-> Accepts(t, id, p, "host")]
    /\ UNCHANGED <<grp, lob, eph, flushing, nctl, nrecv>>

\* the oldest loopback task of host h fires
LoDeliver(h) ==
    /\ lob[h] # <<>>
    /\ (Grouped => flushing \in {0, h})
    /\ LET c == Head(lob[h]) IN
       /\ lob' = [lob EXCEPT ![h] = Tail(@)]
       /\ bd' = QAfter(h, c[1], c[2], c[3])
       /\ P_Arrive(c[1], h, c[2], c[3])
       /\ flushing' = IF Grouped /\ Tail(lob[h]) # <<>> THEN h ELSE 0
       /\ last' = [a |-> "lodeliver", id |-> c[1], h |-> h, p |-> c[2], dk |-> c[3],
                   acc |-> Accepts(h, c[1], c[2], c[3])]
    /\ UNCHANGED <<grp, net, eph, nctl, nrecv>>

---------------------------------------------------------------------------
\* Rx::try_recv_from behind recv_from (after readable) / try_recv_from
Recv(h, p, buf) ==
    /\ "recv" \in Ops /\ HostMay(h) /\ Bound(h, p) /\ buf \in Bufs /\ nrecv < MaxRecv
    /\ LET b  == bd[h][p]
           id == IF b.rxb # <<>> THEN b.rxb[1] ELSE IF b.q # <<>> THEN Head(b.q) ELSE 0
           n  == IF id = 0 THEN 0 ELSE Min(buf, sends[id].len)
           res == IF id = 0 THEN [k |-> "empty", len |-> 0, o |-> NoAddr, data |-> <<>>]
                  ELSE [k |-> "data", len |-> n, o |-> sends[id].o, data |-> Payload(id, sends[id].sid, n)]
       IN
       /\ bd' = IF b.rxb # <<>> THEN [bd EXCEPT ![h][p].rxb = <<>>]
                ELSE IF b.q # <<>> THEN [bd EXCEPT ![h][p].q = Tail(@)] ELSE bd
       /\ P_Recv(b.sid, buf, res)
       /\ last' = [a |-> "recv", h |-> h, p |-> p, sid |-> b.sid, buf |-> buf, res |-> res]
    /\ nrecv' = nrecv + 1
    /\ UNCHANGED <<grp, net, lob, eph, flushing, nctl>>

\* Rx::readable polled once
Readable(h, p) ==
    /\ "readable" \in Ops /\ HostMay(h) /\ Bound(h, p) /\ nrecv < MaxRecv
    /\ LET b == bd[h][p]
           res == IF b.rxb # <<>> \/ b.q # <<>> THEN "ok" ELSE "pending"
       IN
       /\ bd' = IF b.rxb = <<>> /\ b.q # <<>>
                THEN [bd EXCEPT ![h][p].rxb = <<Head(b.q)>>, ![h][p].q = Tail(b.q)] ELSE bd
       /\ P_Readable(b.sid, res)
       /\ last' = [a |-> "readable", h |-> h, p |-> p, sid |-> b.sid, res |-> res]
    /\ nrecv' = nrecv + 1
    /\ UNCHANGED <<grp, net, lob, eph, flushing, nctl>>

---------------------------------------------------------------------------
PeerChoices(h) ==
    {[k |-> "host", h |-> t, p |-> q] : t \in Hosts, q \in Ports}
        \cup {[k |-> "lo", h |-> h, p |-> q] : q \in Ports}
DstChoices ==
    {[k |-> "host", h |-> t, g |-> 0, p |-> q] : t \in 0..N, q \in Ports}
        \cup {[k |-> kk, h |-> 0, g |-> 0, p |-> q] : kk \in {"lo", "bcast"}, q \in Ports}
        \cup {[k |-> "mc", h |-> 0, g |-> g, p |-> q] : g \in Groups, q \in Ports}

Next ==
    \/ \E h \in Hosts, k \in BindKinds, p \in FixedPorts : Bind(h, k, p)
    \/ \E h \in Hosts, k \in BindKinds : BindEph(h, k)
    \/ \E h \in Hosts, p \in Ports : DropSock(h, p)
    \/ \E h \in Hosts, p \in Ports : \E peer \in PeerChoices(h) : Connect(h, p, peer)
    \/ \E h \in Hosts, p \in Ports, g \in Groups : Join(h, p, g)
    \/ \E h \in Hosts, p \in Ports, g \in Groups : Leave(h, p, g)
    \/ \E h \in Hosts, p \in Ports, on \in BOOLEAN : SetBc(h, p, on)
    \/ \E h \in Hosts, p \in Ports, on \in BOOLEAN : SetMl(h, p, on)
    \/ \E h \in Hosts, p \in Ports, len \in Lens : \E dst \in DstChoices : Send(h, p, dst, len)
    \/ \E c \in net : Deliver(c[1], c[2], c[3])
    \/ \E h \in Hosts : LoDeliver(h)
    \/ \E h \in Hosts, p \in Ports, buf \in Bufs : Recv(h, p, buf)
    \/ \E h \in Hosts, p \in Ports : Readable(h, p)

Spec == Init /\ [][Next]_vars

---------------------------------------------------------------------------
(* Implementation-level invariants *)

QIds(b) == {b.q[i] : i \in 1..Len(b.q)} \cup {b.rxb[i] : i \in 1..Len(b.rxb)}

TypeOK ==
    /\ \A h \in Hosts, p \in Ports :
         LET b == bd[h][p] IN
         /\ b.sid \in 0..Len(socks) /\ Len(b.q) <= Cap /\ Len(b.rxb) <= 1
         /\ b.sid # 0 => /\ socks[b.sid].alive /\ socks[b.sid].h = h /\ socks[b.sid].p = p
                         /\ socks[b.sid].kind = b.kind /\ socks[b.sid].bc = b.bc /\ socks[b.sid].ml = b.ml
                         /\ AddrEq(socks[b.sid].peer, b.peer)
    /\ \A s \in Live : bd[socks[s].h][socks[s].p].sid = s
    /\ \A h \in Hosts : eph[h] \in EphPorts
\* the multicast table only ever holds addresses of live sockets that joined
GroupsMatch ==
    grp = {<<g, socks[s].p, socks[s].h>> : s \in Live, g \in Groups} \cap
          {m \in Groups \X Ports \X Hosts : \E s \in Live : socks[s].h = m[3] /\ socks[s].p = m[2] /\ m[1] \in socks[s].grp}
\* what is queued at a socket is what the statement requires to be there,
\* plus at most what it leaves open
QueueMatches ==
    \A s \in Live :
        LET b == bd[socks[s].h][socks[s].p] IN
        /\ pm[s] \subseteq QIds(b) /\ QIds(b) \subseteq (pm[s] \cup py[s])
        /\ rbuf[s] = (b.rxb # <<>>)
\* every required copy is in flight or has arrived (nothing is lost on the way)
NothingLost ==
    \A id \in Ids : \A c \in sends[id].cm :
        \/ <<id, c[1], c[2], c[3]>> \in arrd
        \/ c[3] = "host" /\ <<id, c[1], c[2]>> \in net
        \/ \E i \in 1..Len(lob[c[1]]) : lob[c[1]][i] = <<id, c[2], c[3]>>
\* nothing arrives that the statement does not expect to travel
NothingExtra ==
    /\ \A c \in net : <<c[2], c[3], "host">> \in (sends[c[1]].cm \cup sends[c[1]].cy)
    /\ \A h \in Hosts : \A i \in 1..Len(lob[h]) :
           <<h, lob[h][i][2], lob[h][i][3]>> \in (sends[lob[h][i][1]].cm \cup sends[lob[h][i][1]].cy)

ImplInv == TypeOK /\ GroupsMatch /\ QueueMatches /\ NothingLost /\ NothingExtra

\* vacuity witnesses (expected to be violated: TLC must find such states)
W_MayPending  == \A s \in Sids : py[s] = {}
W_Overflow    == \A id \in Ids : \A c \in sends[id].cm :
                    (<<id, c[1], c[2], c[3]>> \in arrd /\ \E s \in LiveAt(c[1], c[2]) : s \in sends[id].e0)
                        => \E s \in Sids : <<id, s>> \in got \/ id \in pm[s] \cup py[s]
W_Rebound     == \A id \in Ids : \A s \in Sids : id \in py[s] => s <= sends[id].ns

View == <<pvars, ivars>>
=============================================================================
