----------------------------- MODULE MsgUdpProp -----------------------------
(***************************************************************************)
(* PropSpec for C09: turmoil::net UDP delivers datagrams whole, to the     *)
(* right sockets, at most once.                                            *)
(*                                                                         *)
(* Only what the statement talks about:                                    *)
(*   - the socket calls the application made and what they returned        *)
(*     (bind / drop / connect / join / leave / set_broadcast /             *)
(*     set_multicast_loop / send_to / recv_from / try_recv_from /          *)
(*     readable),                                                          *)
(*   - the instant a copy of a datagram reaches a host (`arrive`: the      *)
(*     moment the statement's "bound port", "connected-peer filter" and    *)
(*     "receive capacity" refer to), taken from the public API only: a     *)
(*     copy that travels over a link is seen in Sim::links (SentRef::pair, *)
(*     protocol) between steps and has reached its host in the step after  *)
(*     which it is gone, before that host runs; a copy for the sender's    *)
(*     own host (loopback address, own address, own-host member / bound    *)
(*     port) is handed over one tick after the send (turmoil::elapsed()    *)
(*     of the send, send_loopback's documented delay).                     *)
(* No bind tables, queues, link queues or loopback tasks.                  *)
(*                                                                         *)
(* Three-valued targeting.  For every (send, socket) the spec decides      *)
(*   must  - the statement requires exactly one receive,                   *)
(*   may   - the statement is silent (something about the target changed   *)
(*           while the datagram was in flight: socket bound / re-bound,    *)
(*           peer filter changed, membership changed, sender and receiver  *)
(*           disagree on the multicast-loop option, loopback-sourced       *)
(*           datagram to a public address, send_to returned an error,      *)
(*           capacity not decidable because of earlier `may` datagrams),   *)
(*   no    - the statement forbids a receive.                              *)
(* A receive of a `no` datagram, a second receive, an altered payload or   *)
(* a wrong origin, and an empty receive while a `must` datagram is         *)
(* outstanding are violations; both outcomes are accepted for `may`.       *)
(*                                                                         *)
(* Used three ways: MsgUdp.tla (ImplSpec) drives the P_* actions as        *)
(* ghosts; MsgUdpPropTrace.tla replays recorded observations through them  *)
(* (the verdict); MsgUdpTrace.tla replays full traces through MsgUdp.      *)
(***************************************************************************)
EXTENDS Naturals, Sequences, FiniteSets

CONSTANTS N,      \* number of hosts, 1..N in registration order
          Cap     \* Builder::udp_capacity

Hosts == 1..N

\* Addresses.  Socket address as seen on the wire / by connect():
\*   [k |-> "host", h |-> host, p |-> port]   the public address of host h
\*   [k |-> "lo",   h |-> host, p |-> port]   127.0.0.1 / ::1 (h = the host it is local to)
\*   [k |-> "none", h |-> 0, p |-> 0]         no address (not connected)
\* Destination of a send: [k, h, g, p], k in {"host", "lo", "bcast", "mc"};
\*   h = host for "host" (0 = an address no host owns), g = group for "mc".
NoAddr == [k |-> "none", h |-> 0, p |-> 0]
AddrEq(a, b) == a.k = b.k /\ a.p = b.p /\ (a.k = "host" => a.h = b.h)

VARIABLES
    socks,   \* Seq of [h, p, kind, alive, peer, bc, ml, grp]; index = socket id (bind order)
    sends,   \* Seq of send records; index = datagram id (send order)
    arrd,    \* set of <<id, t, p, dk>>: copies that reached host t (dst port p, dst ip kind dk)
    pm,      \* Seq (per socket) of sets of ids: arrived, queued for certain, not yet received
    py,      \* Seq (per socket) of sets of ids: arrived, possibly queued (statement silent)
    rbuf,    \* Seq (per socket) of BOOLEAN: readable() has buffered a datagram
    got,     \* set of <<id, sid>> received so far
    viol     \* set of violated clause names (stays {} on conforming observations)

pvars == <<socks, sends, arrd, pm, py, rbuf, got, viol>>

Min(a, b) == IF a < b THEN a ELSE b
Sids == 1..Len(socks)
Ids  == 1..Len(sends)
Live == {s \in Sids : socks[s].alive}
LiveAt(t, p) == {s \in Live : socks[s].h = t /\ socks[s].p = p}

\* A socket bound to the wildcard address accepts any destination address of
\* its host; a socket bound to localhost only the loopback address.
KindOk(s, dk) == socks[s].kind = "any" \/ dk = "lo"
\* connected-peer filter
PeerOk(s, o) == socks[s].peer.k = "none" \/ AddrEq(socks[s].peer, o)

\* The address a receiver must see as origin: the sender's port, and the
\* sender's public address - or the loopback address when the datagram was
\* sent to it or the sender is bound to it.
Origin(sid, dst) ==
    [k |-> IF dst.k = "lo" \/ socks[sid].kind = "lo" THEN "lo" ELSE "host",
     h |-> socks[sid].h, p |-> socks[sid].p]

\* Payload convention of the drivers: byte 1 = datagram id, byte 2 = sender
\* socket id, byte i = i (a datagram of length 0 is empty).
Payload(id, sid, n) == [i \in 1..n |-> IF i = 1 THEN id ELSE IF i = 2 THEN sid ELSE i]

\* The copies <<t, p, dk>> a send produces, by destination class:
\*   unicast  - the addressed host (if any host owns the address) and port;
\*   loopback - the sender's own host;
\*   broadcast- every host with that port bound, if the sender enabled it;
\*   multicast- the hosts of the current members of (group, port).
Copies(sid, dst) ==
    CASE dst.k = "host"  -> IF dst.h \in Hosts THEN {<<dst.h, dst.p, "host">>} ELSE {}
      [] dst.k = "lo"    -> {<<socks[sid].h, dst.p, "lo">>}
      [] dst.k = "bcast" -> IF socks[sid].bc
                            THEN {<<t, dst.p, "host">> : t \in {t \in Hosts : LiveAt(t, dst.p) # {}}}
                            ELSE {}
      [] dst.k = "mc"    -> {<<t, dst.p, "host">> :
                               t \in {t \in Hosts : \E r \in LiveAt(t, dst.p) : dst.g \in socks[r].grp}}

\* multicast to a member on the sender's own host: governed by the
\* multicast-loop option; the statement does not say whose, so it is required
\* when both sockets have it on and forbidden when both have it off.
LoopBoth(sid, c)    == \A r \in LiveAt(c[1], c[2]) : socks[sid].ml /\ socks[r].ml
LoopNeither(sid, c) == \A r \in LiveAt(c[1], c[2]) : ~socks[sid].ml /\ ~socks[r].ml
IsLoopCopy(sid, dst, c) == dst.k = "mc" /\ c[1] = socks[sid].h

MustCopy(sid, dst, res, c) ==
    /\ res = "ok"
    /\ ~(Origin(sid, dst).k = "lo" /\ c[3] = "host")   \* loopback-sourced to a public address: silent
    /\ (IsLoopCopy(sid, dst, c) => LoopBoth(sid, c))
NoCopy(sid, dst, c) == IsLoopCopy(sid, dst, c) /\ LoopNeither(sid, c)

PInit ==
    /\ socks = <<>> /\ sends = <<>> /\ arrd = {}
    /\ pm = <<>> /\ py = <<>> /\ rbuf = <<>>
    /\ got = {} /\ viol = {}

---------------------------------------------------------------------------
(* Observation actions *)

P_Bind(h, p, kind) ==
    /\ socks' = Append(socks, [h |-> h, p |-> p, kind |-> kind, alive |-> TRUE, peer |-> NoAddr,
                               bc |-> FALSE, ml |-> TRUE, grp |-> {}])
    /\ pm' = Append(pm, {}) /\ py' = Append(py, {}) /\ rbuf' = Append(rbuf, FALSE)
    /\ UNCHANGED <<sends, arrd, got, viol>>

P_Drop(sid) ==
    /\ socks' = [socks EXCEPT ![sid].alive = FALSE, ![sid].grp = {}]
    /\ pm' = [pm EXCEPT ![sid] = {}] /\ py' = [py EXCEPT ![sid] = {}]
    /\ rbuf' = [rbuf EXCEPT ![sid] = FALSE]
    /\ UNCHANGED <<sends, arrd, got, viol>>

P_Connect(sid, peer) ==
    /\ socks' = [socks EXCEPT ![sid].peer = peer]
    /\ UNCHANGED <<sends, arrd, pm, py, rbuf, got, viol>>

P_Join(sid, g, res) ==
    /\ socks' = IF res = "ok" THEN [socks EXCEPT ![sid].grp = @ \cup {g}] ELSE socks
    /\ UNCHANGED <<sends, arrd, pm, py, rbuf, got, viol>>

P_Leave(sid, g, res) ==
    /\ socks' = IF res = "ok" THEN [socks EXCEPT ![sid].grp = @ \ {g}] ELSE socks
    /\ UNCHANGED <<sends, arrd, pm, py, rbuf, got, viol>>

P_SetBc(sid, on) ==
    /\ socks' = [socks EXCEPT ![sid].bc = on]
    /\ UNCHANGED <<sends, arrd, pm, py, rbuf, got, viol>>

P_SetMl(sid, on) ==
    /\ socks' = [socks EXCEPT ![sid].ml = on]
    /\ UNCHANGED <<sends, arrd, pm, py, rbuf, got, viol>>

\* send_to / try_send_to of len bytes from socket sid to dst returned res ("ok" / "err")
P_Send(sid, dst, len, res) ==
    LET o   == Origin(sid, dst)
        cps == {c \in Copies(sid, dst) : ~NoCopy(sid, dst, c)}
        cm  == {c \in cps : MustCopy(sid, dst, res, c)}
        \* sockets bound (with a fitting bind address) where a copy goes, and of
        \* those the ones whose peer filter / whose membership admits it now
        a0  == {r \in Live : \E c \in cps : c[1] = socks[r].h /\ c[2] = socks[r].p /\ KindOk(r, c[3])}
        p0  == {r \in a0 : PeerOk(r, o)}
        g0  == {r \in a0 : dst.k = "mc" => dst.g \in socks[r].grp}
    IN
    /\ sends' = Append(sends, [sid |-> sid, o |-> o, dst |-> dst, len |-> len, res |-> res,
                               cm |-> cm, cy |-> cps \ cm, p0 |-> p0, g0 |-> g0, e0 |-> p0 \cap g0,
                               ns |-> Len(socks)])
    /\ UNCHANGED <<socks, arrd, pm, py, rbuf, got, viol>>

\* A copy of datagram id reached host t addressed to port p, destination ip kind dk.
\* The statement's delivery-time conditions are evaluated here:
\*   "dup" / "stray" - this copy arrived before / was never targeted at (t, p): ignored
\*   "unbound"       - no socket bound to the port: vanishes
\*   "no"            - bind address or peer filter (or membership) excludes it: vanishes
\*   "over"          - beyond the receive capacity for certain: vanishes
\*   "must"          - targeted when sent and now, room for certain: must be received
\*   "may"           - the statement is silent
ArriveSock(t, p) == CHOOSE s \in LiveAt(t, p) : \A r \in LiveAt(t, p) : r <= s
ArriveClass(id, t, p, dk) ==
    LET c == <<t, p, dk>>
        m == sends[id]
    IN
    IF <<id, t, p, dk>> \in arrd THEN "dup"
    ELSE IF c \notin (m.cm \cup m.cy) THEN "stray"
    ELSE IF LiveAt(t, p) = {} THEN "unbound"
    ELSE LET s   == ArriveSock(t, p)
             old == s <= m.ns                      \* the socket existed when the datagram was sent
             \* each condition is judged on its own: required only if it holds when the
             \* datagram is sent and when it arrives, excluded only if it holds at neither
             \* instant (the bind address of a socket never changes; membership is not
             \* asked of a socket bound after the send at an address that was targeted)
             isMc    == m.dst.k = "mc"
             peer1   == PeerOk(s, m.o)
             mem1    == m.dst.g \in socks[s].grp
             peerAll == peer1 /\ s \in m.p0
             peerAny == peer1 \/ s \in m.p0
             memAll  == ~isMc \/ (mem1 /\ s \in m.g0)
             memAny  == ~isMc \/ mem1 \/ s \in m.g0 \/ ~old
             cls == IF ~KindOk(s, dk) \/ ~peerAny \/ ~memAny THEN "no"
                    ELSE IF old /\ peerAll /\ memAll /\ c \in m.cm THEN "must" ELSE "may"
             \* occupancy of the receive queue: readable() *may* have moved one
             \* datagram out of it (the documentation allows false positives)
             b     == IF rbuf[s] THEN 1 ELSE 0
             occLo == IF Cardinality(pm[s]) >= b THEN Cardinality(pm[s]) - b ELSE 0
             occHi == Cardinality(pm[s]) + Cardinality(py[s])
         IN
         IF cls = "no" THEN "no"
         ELSE IF occLo >= Cap THEN "over"
         ELSE IF cls = "must" /\ occHi < Cap THEN "must" ELSE "may"

\* amb = TRUE: the drivers could not order this hand-over against other events
\* that touch the same socket (another copy handed to it in the same step, or a
\* call on the socket at the very instant of a loopback hand-over): whatever
\* the classification would be, the statement's conditions cannot be evaluated
\* at a definite instant, so the datagram is optional for a socket bound there.
\* (An ambiguous hand-over is reported at the earliest and again at the latest
\* position it can have had; the second report re-opens the option unless the
\* socket has received the datagram in between.)
P_ArriveA(id, t, p, dk, amb) ==
    LET c0  == ArriveClass(id, t, p, dk)
        cls == IF ~amb THEN c0
               ELSE IF c0 \in {"must", "over", "no", "may"} THEN "may"
               ELSE IF c0 = "dup" /\ LiveAt(t, p) # {} /\ <<id, ArriveSock(t, p)>> \notin got THEN "may"
               ELSE c0
    IN
    /\ arrd' = arrd \cup {<<id, t, p, dk>>}
    /\ pm' = IF cls = "must" THEN [pm EXCEPT ![ArriveSock(t, p)] = @ \cup {id}] ELSE pm
    /\ py' = IF cls = "may"  THEN [py EXCEPT ![ArriveSock(t, p)] = @ \cup {id}] ELSE py
    /\ UNCHANGED <<socks, sends, rbuf, got, viol>>

P_Arrive(id, t, p, dk) == P_ArriveA(id, t, p, dk, FALSE)

\* recv_from (polled once) / try_recv_from with a buffer of buf bytes (>= 1) returned
\* res = [k |-> "empty"] or [k |-> "data", len, o, data].
\* A datagram of length >= 1 is identified by its first byte.  A zero-length
\* datagram carries nothing: it is matched to an outstanding zero-length
\* datagram from the reported origin at this socket; all of those are
\* indistinguishable for every later observation, so one is discharged -
\* a required one first (that choice never turns a conforming run into a
\* rejected one: it is a counting argument on must / may datagrams).
ZeroCands(sid, o) ==
    {id \in pm[sid] \cup py[sid] : sends[id].len = 0 /\ AddrEq(sends[id].o, o)}
ZeroPick(sid, o) ==
    LET C == ZeroCands(sid, o)
        M == C \cap pm[sid]
        S == IF M # {} THEN M ELSE C
    IN CHOOSE id \in S : \A j \in S : id <= j

P_Recv(sid, buf, res) ==
    IF res.k = "empty"
    THEN /\ viol' = viol \cup (IF pm[sid] # {} THEN {"ExactlyOnce"} ELSE {})
         /\ py' = [py EXCEPT ![sid] = {}]
         /\ rbuf' = [rbuf EXCEPT ![sid] = FALSE]
         /\ UNCHANGED <<socks, sends, arrd, pm, got>>
    ELSE IF res.len = 0 /\ res.data = <<>>
    THEN IF ZeroCands(sid, res.o) = {}
         THEN /\ viol' = viol \cup {"OnlyTargeted"}        \* no zero-length datagram from there is outstanding
              /\ rbuf' = [rbuf EXCEPT ![sid] = FALSE]
              /\ UNCHANGED <<socks, sends, arrd, pm, py, got>>
         ELSE LET id == ZeroPick(sid, res.o) IN
              /\ pm' = [pm EXCEPT ![sid] = @ \ {id}] /\ py' = [py EXCEPT ![sid] = @ \ {id}]
              /\ got' = got \cup {<<id, sid>>}
              /\ rbuf' = [rbuf EXCEPT ![sid] = FALSE]
              /\ UNCHANGED <<socks, sends, arrd, viol>>
    ELSE LET id    == IF Len(res.data) >= 1 THEN res.data[1] ELSE 0
             known == id \in Ids
             v1 == IF ~known THEN {"OnlyTargeted"}
                   ELSE IF <<id, sid>> \in got THEN {"AtMostOnce"}
                   ELSE IF id \notin (pm[sid] \cup py[sid]) THEN {"OnlyTargeted"} ELSE {}
             v2 == IF known /\ res.len = Min(buf, sends[id].len)
                         /\ res.data = Payload(id, sends[id].sid, res.len)
                   THEN {} ELSE {"PayloadIntact"}
             v3 == IF known /\ AddrEq(res.o, sends[id].o) THEN {} ELSE {"OriginIsSender"}
         IN
         /\ viol' = viol \cup v1 \cup v2 \cup v3
         /\ pm' = [pm EXCEPT ![sid] = @ \ {id}] /\ py' = [py EXCEPT ![sid] = @ \ {id}]
         /\ got' = got \cup {<<id, sid>>}
         /\ rbuf' = [rbuf EXCEPT ![sid] = FALSE]
         /\ UNCHANGED <<socks, sends, arrd>>

\* readable() polled once returned res ("ok" / "pending")
P_Readable(sid, res) ==
    /\ IF res = "ok"
       THEN /\ rbuf' = [rbuf EXCEPT ![sid] = (pm[sid] \cup py[sid]) # {}]
            /\ viol' = viol
       ELSE /\ viol' = viol \cup (IF pm[sid] # {} THEN {"ExactlyOnce"} ELSE {})
            /\ rbuf' = rbuf
    /\ UNCHANGED <<socks, sends, arrd, pm, py, got>>

\* The driver states that every link is healthy and drained and every pending
\* loopback hand-over has happened: every required copy must have arrived.
P_Quiesce ==
    /\ viol' = viol \cup
         (IF \A id \in Ids : \A c \in sends[id].cm : <<id, c[1], c[2], c[3]>> \in arrd
          THEN {} ELSE {"ExactlyOnce"})
    /\ UNCHANGED <<socks, sends, arrd, pm, py, rbuf, got>>

P_Reset ==
    /\ socks' = <<>> /\ sends' = <<>> /\ arrd' = {}
    /\ pm' = <<>> /\ py' = <<>> /\ rbuf' = <<>>
    /\ got' = {} /\ viol' = {}

---------------------------------------------------------------------------
(* The clauses of C09 *)

\* "Every datagram a socket receives was sent ... to an address that targets
\* the receiver" (host + bound port, wildcard vs localhost bind, connected-peer
\* filter; broadcast only when enabled and to hosts with the port bound;
\* multicast only to members) - and only datagrams that exist.
OnlyTargeted   == "OnlyTargeted" \notin viol
\* "Each send produces at most one receive per destination socket"
AtMostOnce     == "AtMostOnce" \notin viol
\* "carries the sender's payload unaltered, cut only to the receive buffer length"
PayloadIntact  == "PayloadIntact" \notin viol
\* "was sent by the reported source socket"
OriginIsSender == "OriginIsSender" \notin viol
\* "on healthy links within the receive capacity exactly one; datagrams to
\* unbound ports, to non-members or beyond the capacity are dropped without
\* disturbing any other datagram"
ExactlyOnce    == "ExactlyOnce" \notin viol

PropInv == OnlyTargeted /\ AtMostOnce /\ PayloadIntact /\ OriginIsSender /\ ExactlyOnce
=============================================================================
