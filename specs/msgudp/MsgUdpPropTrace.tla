-------------------------- MODULE MsgUdpPropTrace --------------------------
(* Verdict-level trace validation: observation events recorded from the     *)
(* real code are replayed through the P_* actions of MsgUdpProp; the        *)
(* clauses of C09 are evaluated in every state.  Implementation-only        *)
(* events are skipped.                                                      *)
EXTENDS MsgUdpProp, Json, IOUtils, TLC

Rec == ndJsonDeserialize(IOEnv.TRACE)

VARIABLE l
E == Rec[l]
Is(e) == l <= Len(Rec) /\ Rec[l].ev = e /\ l' = l + 1

TInit == PInit /\ l = 1

TNext ==
    \/ Is("reset") /\ P_Reset
    \/ Is("bind") /\ (IF E.res = "ok" THEN P_Bind(E.h, E.p, E.kind) /\ Len(socks) + 1 = E.sid
                                      ELSE UNCHANGED pvars)
    \/ Is("drop") /\ P_Drop(E.sid)
    \/ Is("connect") /\ P_Connect(E.sid, E.peer)
    \/ Is("join") /\ P_Join(E.sid, E.g, E.res)
    \/ Is("leave") /\ P_Leave(E.sid, E.g, E.res)
    \/ Is("setbc") /\ P_SetBc(E.sid, E.on)
    \/ Is("setml") /\ P_SetMl(E.sid, E.on)
    \/ Is("send") /\ P_Send(E.sid, E.dst, E.len, E.res) /\ Len(sends) + 1 = E.id
    \/ Is("arrive") /\ (IF E.id \in Ids THEN P_ArriveA(E.id, E.h, E.p, E.dk, E.amb) ELSE UNCHANGED pvars)
    \/ Is("recv") /\ P_Recv(E.sid, E.buf, E.res)
    \/ Is("readable") /\ P_Readable(E.sid, E.res)
    \/ Is("quiesce") /\ P_Quiesce
    \/ /\ l <= Len(Rec) /\ Rec[l].ev \in {"step", "links", "tables", "tarrive"}
       /\ l' = l + 1 /\ UNCHANGED pvars

TSpec == TInit /\ [][TNext]_<<pvars, l>>

Accepted ==
    LET d == TLCGet("stats").diameter IN
    IF d - 1 = Len(Rec) THEN TRUE
    ELSE Print(<<"UNMATCHED", d, ToJson(Rec[d])>>, FALSE)
=============================================================================
