---------------------------- MODULE MsgUdpTrace ----------------------------
(* Fidelity-level trace validation: full event traces recorded from the     *)
(* real code (results of the socket calls, the copies turmoil put on links  *)
(* and its `Delivered` events - both from turmoil's tracing output, so a    *)
(* renamed event costs fidelity (drift), never a verdict -, the verif-hooks  *)
(* table snapshot) must be                                                  *)
(* behaviours of the ImplSpec MsgUdp (free interleaving); ImplInv and the   *)
(* clauses of C09 are evaluated in every state.                             *)
EXTENDS MsgUdp, Json, IOUtils

Rec == ndJsonDeserialize(IOEnv.TRACE)

VARIABLE l
E == Rec[l]
Is(e) == l <= Len(Rec) /\ Rec[l].ev = e /\ l' = l + 1

TInit == Init /\ l = 1

TReset ==
    /\ Is("reset") /\ P_Reset
    /\ bd' = [h \in Hosts |-> [p \in Ports |-> NoBind]]
    /\ grp' = {} /\ net' = {} /\ lob' = [h \in Hosts |-> <<>>]
    /\ eph' = [h \in Hosts |-> EphLo]
    /\ flushing' = 0 /\ nctl' = 0 /\ nrecv' = 0
    /\ last' = [a |-> "init"]

SeqToSet(s) == {s[i] : i \in 1..Len(s)}

TBind ==
    /\ Is("bind")
    /\ IF E.eph THEN BindEph(E.h, E.kind) ELSE Bind(E.h, E.kind, E.p)
    /\ last'.res = E.res /\ last'.sid = E.sid /\ (E.res = "ok" => last'.p = E.p)

TSend ==
    /\ Is("send") /\ Bound(E.h, E.p) /\ bd[E.h][E.p].sid = E.sid
    /\ Send(E.h, E.p, E.dst, E.len)
    /\ last'.id = E.id /\ last'.res = E.res
    /\ last'.nets = {<<x[1], x[2]>> : x \in SeqToSet(E.nets)} /\ Len(E.nets) = Cardinality(last'.nets)

TArrive ==
    /\ Is("tarrive")
    /\ IF E.via = "lo"
       THEN LoDeliver(E.h) /\ last'.id = E.id /\ last'.p = E.p /\ last'.dk = E.dk
       ELSE Deliver(E.id, E.h, E.p) /\ E.dk = "host"

TRecv ==
    /\ Is("recv") /\ Bound(E.h, E.p) /\ bd[E.h][E.p].sid = E.sid
    /\ Recv(E.h, E.p, E.buf)
    /\ last'.res.k = E.res.k /\ last'.res.len = E.res.len /\ last'.res.data = E.res.data
    /\ (E.res.k = "data" => AddrEq(last'.res.o, E.res.o))

TTables ==
    /\ Is("tables")
    /\ \A h \in Hosts : SeqToSet(E.udp[h]) = {p \in Ports : Bound(h, p)}
                        /\ E.mm[h] = Cardinality({m \in grp : m[3] = h})
    /\ UNCHANGED vars

TLinks ==
    /\ Is("links")
    /\ {<<x[1], x[2], x[3]>> : x \in SeqToSet(E.net)} = net
    /\ UNCHANGED vars

TNext ==
    \/ TReset
    \/ TBind
    \/ Is("drop") /\ DropSock(E.h, E.p) /\ last'.sid = E.sid
    \/ Is("connect") /\ Bound(E.h, E.p) /\ bd[E.h][E.p].sid = E.sid
          /\ (IF AddrEq(bd[E.h][E.p].peer, E.peer) THEN UNCHANGED vars ELSE Connect(E.h, E.p, E.peer))
    \/ Is("join") /\ Join(E.h, E.p, E.g) /\ last'.sid = E.sid /\ last'.res = E.res
    \/ Is("leave") /\ Leave(E.h, E.p, E.g) /\ last'.sid = E.sid /\ last'.res = E.res
    \/ Is("setbc") /\ Bound(E.h, E.p) /\ bd[E.h][E.p].sid = E.sid /\ E.back = E.on
          /\ (IF bd[E.h][E.p].bc = E.on THEN UNCHANGED vars ELSE SetBc(E.h, E.p, E.on))
    \/ Is("setml") /\ Bound(E.h, E.p) /\ bd[E.h][E.p].sid = E.sid /\ E.back = E.on
          /\ (IF bd[E.h][E.p].ml = E.on THEN UNCHANGED vars ELSE SetMl(E.h, E.p, E.on))
    \/ TSend
    \/ TArrive
    \/ TRecv
    \/ Is("readable") /\ Readable(E.h, E.p) /\ last'.sid = E.sid /\ last'.res = E.res
    \/ Is("quiesce") /\ net = {} /\ Busy = {} /\ P_Quiesce
          /\ UNCHANGED <<ivars, nrecv, last>>
    \/ TTables
    \/ TLinks
    \/ Is("step") /\ UNCHANGED vars
    \/ Is("arrive") /\ UNCHANGED vars      \* (verdict-level hand-over events, see MsgUdpPropTrace)

TSpec == TInit /\ [][TNext]_<<vars, l>>

Accepted ==
    LET d == TLCGet("stats").diameter IN
    IF d - 1 = Len(Rec) THEN TRUE
    ELSE Print(<<"UNMATCHED", d, ToJson(Rec[d])>>, FALSE)
=============================================================================
