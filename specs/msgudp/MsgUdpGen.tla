----------------------------- MODULE MsgUdpGen -----------------------------
(* Behaviour generation for spec -> code replay: MsgUdp plus a history      *)
(* variable.  Every entry is the label of the action taken (arguments and   *)
(* the result TLC predicts for the call) extended with the implementation   *)
(* state the harness can observe after it: copies in flight on the links,   *)
(* bound ports and multicast memberships per host.  A complete behaviour    *)
(* (MaxLen actions, loopback hand-overs finished) is printed as one JSON    *)
(* line together with the sockets bound beforehand and the final queue      *)
(* contents.  Used exhaustively (small alphabets) and with -simulate.       *)
EXTENDS MsgUdp, Json

CONSTANT MaxLen

VARIABLE hist

Done == Len(hist) >= MaxLen /\ Busy = {}

Entry ==
    last' @@ [net   |-> net',
              binds |-> [h \in Hosts |-> {p \in Ports : bd'[h][p].sid # 0}],
              mm    |-> [h \in Hosts |-> Cardinality({m \in grp' : m[3] = h})]]

Pre == [i \in 1..Len(PreList) |-> [h |-> PreH(PreList[i]), p |-> PreP(PreList[i]), kind |-> PreK(PreList[i])]]

Fin == [queues |-> [s \in 1..Len(socks) |->
                      [alive |-> socks[s].alive, h |-> socks[s].h, p |-> socks[s].p,
                       \* what a drain of the socket must return, in order: the datagram id, or
                       \* 1000 + origin port for a zero-length datagram (it carries no id)
                       ids |-> IF socks[s].alive
                               THEN LET qs == bd[socks[s].h][socks[s].p].rxb \o bd[socks[s].h][socks[s].p].q
                                    IN [i \in 1..Len(qs) |-> IF sends[qs[i]].len = 0
                                                              THEN 1000 + sends[qs[i]].o.p ELSE qs[i]]
                               ELSE <<>>]]]

GenInit == Init /\ hist = <<>>
GenNext == /\ ~Done /\ Next
           /\ (Len(hist) >= MaxLen => last'.a = "lodeliver")
           /\ hist' = Append(hist, Entry)
GenSpec == GenInit /\ [][GenNext]_<<vars, hist>>

Emit == Done => PrintT(<<"REPLAY", ToJson([pre |-> Pre, beh |-> hist, fin |-> Fin])>>)
=============================================================================
