------------------------------ MODULE KTcpGen ------------------------------
(* Behaviour generation for the spec -> code direction: KTcp plus a history  *)
(* variable.  Every behaviour of exactly Len(Prefix) + Depth actions is      *)
(* printed as one JSON line; each entry carries the action label (with the   *)
(* result TLC predicts for the call / the packets it predicts on the wire)   *)
(* and the predicted observation: netstat rows, table counts, TCB scalars,   *)
(* ages of the packets in flight.                                            *)
EXTENDS KTcp, Json

CONSTANT Depth

VARIABLE hist

Entry == [l |-> last', obs |-> ObsOf(ks'), dump |-> DumpOf(ks'),
          ages |-> [i \in 1..Len(wire') |-> wire'[i].age]]

Done == Len(hist) = Len(Prefix) + Depth

GenInit == Init /\ hist = <<>>
GenNext == ~Done /\ Next /\ hist' = Append(hist, Entry)
GenSpec == GenInit /\ [][GenNext]_<<vars, hist>>

EmitBeh == Done => PrintT(<<"REPLAY", ToJson(hist)>>)

\* counterexample extraction: cfg ALIAS HistAlias prints the history of every state
HistAlias == [h |-> ToJson(hist), bad |-> {f \in DOMAIN ok : ~ok[f]}]
=============================================================================
