-------------------------------- MODULE KTcp --------------------------------
(***************************************************************************)
(* ImplSpec of the turmoil-net TCP stack (crates/turmoil-net/src/kernel/    *)
(* tcp.rs, socket.rs, mod.rs; shim TcpStream / TcpListener), written in     *)
(* functional style: a per-host kernel is one record, the critical sections *)
(* of the Rust code are operators from kernel to kernel:                    *)
(*   DeliverK        = tcp::deliver (handle_on_connection / accept_syn /    *)
(*                     emit_rst, handle_established)                        *)
(*   CheckRetx, SegmentAll, ReapClosed, EgressK = Kernel::egress            *)
(*   OnClose         = tcp::on_close + Kernel::close                        *)
(*   KConnect, KAccept, KWrite, KRead, KShutdown = the poll_* syscalls      *)
(* Two hosts: 1 = connector, 2 = acceptor (one listener on port LPort).     *)
(* The harness is the wire: EgressAll, Deliver(i), DropPk(i).               *)
(* Sequence numbers are relative to ISN 0; ports are small naturals (the    *)
(* c-th connect attempt gets client port c from the rotating allocator).    *)
(* The observation-level ghosts of KTcpProp are driven alongside.           *)
(***************************************************************************)
EXTENDS KTcpProp, SequencesExt, TLC

CONSTANTS WriteSizes, ReadSizes,   \* sizes the application may pass to try_write / try_read
          MaxBytes,                \* bytes written per direction (bound)
          MaxAge,                  \* the wire keeps a packet at most this many egress rounds
          MaxDrops,                \* the wire drops at most this many packets
          Ops,                     \* application operations in the alphabet of this configuration
          Start,                   \* "fresh" | "est": forced action prefix (see Prefix)
          Writers, Readers,        \* sides that write / read in exhaustive exploration
          UdpSizes,                \* payload sizes for the UDP probe
          Legacy                   \* subset of {"D3", "D5", "D13"}: model the code as it was before the fix: commits

LPort  == 100         \* the listener's port (the harness subtracts a constant)
BigWnd == 65535       \* DEFAULT_WINDOW advertised on SYN / SYN-ACK

VARIABLES
    ks,      \* <<kernel of host 1, kernel of host 2>>
    wire,    \* sequence of [p, age]: packets in flight, in emission order
    cl,      \* [Ports -> [st, fd]]  connector-side handles: connect futures / streams
    sv,      \* [Ports -> [st, fd]]  acceptor-side stream handles, by client port
    lh,      \* [st: "none" | "up" | "down", fd]  the listener handle
    pfx,     \* position in the forced prefix
    zw,      \* ghost (known-finding family D4): a call blocked in a quiescent state during a zero-window
             \* stall, a sender's retransmit budget was charged while the peer advertised a zero
             \* window, or a full receiver discarded in-order data
    rwd,     \* ghost (known-finding family KT1): a cumulative ACK for bytes that were sent before a
             \* go-back-N rewind (ack - snd_una > snd_nxt - snd_una) was discarded as invalid
    last     \* label of the action taken + what it returned (behaviour extraction)

ivars == <<ks, wire, cl, sv, lh, pfx, zw, rwd>>
vars  == <<pvars, ivars, last>>

---------------------------------------------------------------------------
(* Small helpers *)

Min3(a, b, c) == Min2(a, Min2(b, c))
Sat(a) == IF a < 0 THEN 0 ELSE a
AdvWnd(len) == Min2(Sat(RecvCap - len), 65535)           \* advertised_window
OpenStates == {"Established", "FinWait1", "FinWait2", "CloseWait", "Closing", "LastAck"}
TxStates   == {"Established", "CloseWait", "FinWait1", "Closing", "LastAck"}
HsStates   == {"SynSent", "SynReceived"}

NewKernel(h) == [h |-> h, socks |-> <<>>, nfd |-> 1, port |-> 1, out |-> <<>>]

BaseSock == [fd |-> 0, lp |-> 0, rp |-> 0, lis |-> FALSE, st |-> "SynSent", nxt |-> 1, una |-> 1,
             wnd |-> BigWnd, rnxt |-> 0, sb |-> <<>>, rb |-> <<>>, wrc |-> FALSE, pfin |-> FALSE,
             fseq |-> -1, rst |-> FALSE, tmo |-> FALSE, esa |-> 0, rtx |-> 0, fdc |-> FALSE,
             ready |-> <<>>]

Idx(k, fd) == LET S == {i \in 1..Len(k.socks) : k.socks[i].fd = fd} IN IF S = {} THEN 0 ELSE CHOOSE i \in S : TRUE
\* SocketTable::find_connection: the 4-tuple index (kept in step with the table by remove)
ConnIdx(k, lp, rp) ==
    LET S == {i \in 1..Len(k.socks) : ~k.socks[i].lis /\ k.socks[i].lp = lp /\ k.socks[i].rp = rp}
    IN IF S = {} THEN 0 ELSE CHOOSE i \in S : TRUE
ListenIdx(k, lp) ==
    LET S == {i \in 1..Len(k.socks) : k.socks[i].lis /\ k.socks[i].lp = lp}
    IN IF S = {} THEN 0 ELSE CHOOSE i \in S : TRUE

Emit(k, p) == [k EXCEPT !.out = Append(@, p)]
RemoveFd(k, fd) == [k EXCEPT !.socks = SelectSeq(@, LAMBDA s : s.fd # fd)]

Pk(k, s, seq, ack, fl, win, data) ==
    [src |-> k.h, dst |-> 3 - k.h, sp |-> s.lp, dp |-> s.rp, seq |-> seq, ack |-> ack,
     fl |-> fl, win |-> win, data |-> data]
\* the pure ACK every path emits: seq = snd_nxt, ack = rcv_nxt, current window
AckPk(k, s) == Pk(k, s, s.nxt, s.rnxt, "A", AdvWnd(Len(s.rb)), <<>>)

---------------------------------------------------------------------------
(* abort_with: state Closed, reset / timed_out, buffers cleared.            *)
(* fix: (D5) an aborted child that is still SynReceived was never handed to *)
(* accept and has no owner: it is removed from the table right away.        *)
AbortAt(k, i, why) ==
    LET s == k.socks[i]
        s2 == [s EXCEPT !.st = "Closed", !.rst = (@ \/ why = "reset"), !.tmo = (@ \/ why = "timedout"),
                        !.sb = <<>>, !.rb = <<>>]
    IN IF s.st = "SynReceived" /\ "D5" \notin Legacy
       THEN RemoveFd(k, s.fd)
       ELSE [k EXCEPT !.socks[i] = s2]

(* emit_rst *)
EmitRst(k, p) ==
    LET seglen == Len(p.data) + (IF Has(p, "S") THEN 1 ELSE 0) + (IF Has(p, "F") THEN 1 ELSE 0)
        base == [src |-> k.h, dst |-> 3 - k.h, sp |-> p.dp, dp |-> p.sp, win |-> 0, data |-> <<>>]
    IN IF Has(p, "A")
       THEN Emit(k, base @@ [seq |-> p.ack, ack |-> 0, fl |-> "R"])
       ELSE Emit(k, base @@ [seq |-> 0, ack |-> p.seq + seglen, fl |-> "AR"])

(* accept_syn *)
AcceptSyn(k, li, p) ==
    LET l == k.socks[li]
        inflight == Cardinality({i \in 1..Len(k.socks) :
                        ~k.socks[i].lis /\ k.socks[i].lp = p.dp /\ k.socks[i].st = "SynReceived"})
        child == [BaseSock EXCEPT !.fd = k.nfd, !.lp = p.dp, !.rp = p.sp, !.st = "SynReceived",
                                  !.wnd = p.win, !.rnxt = p.seq + 1]
    IN IF inflight + Len(l.ready) >= Backlog THEN k
       ELSE Emit([k EXCEPT !.socks = Append(@, child), !.nfd = @ + 1],
                 Pk(k, child, 0, p.seq + 1, "SA", BigWnd, <<>>))

(* handle_established *)
HandleEst(k, i, p) ==
    LET s == k.socks[i]
        isAck == Has(p, "A")
        acked == p.ack - s.una
        infl  == s.nxt - s.una
        good  == isAck /\ acked > 0 /\ acked <= infl
        finAcked == good /\ s.fseq # -1 /\ p.ack = s.fseq + 1
        dbytes == IF finAcked THEN acked - 1 ELSE acked
        s1 == IF good
              THEN [s EXCEPT !.sb = SubSeq(@, dbytes + 1, Len(@)), !.una = p.ack, !.esa = 0, !.rtx = 0,
                             !.st = IF finAcked
                                    THEN (CASE @ = "FinWait1" -> "FinWait2"
                                            [] @ = "Closing" -> "Closed"
                                            [] @ = "LastAck" -> "Closed"
                                            [] OTHER -> @)
                                    ELSE @]
              ELSE s
        s2 == IF isAck THEN [s1 EXCEPT !.wnd = p.win] ELSE s1
        plen == Len(p.data)
        room == Sat(RecvCap - Len(s2.rb))
        n == IF plen > 0 /\ p.seq = s2.rnxt /\ ~s2.pfin THEN Min2(plen, room) ELSE 0
        s3 == IF n > 0 THEN [s2 EXCEPT !.rb = @ \o SubSeq(p.data, 1, n), !.rnxt = @ + n] ELSE s2
        finHere == Has(p, "F") /\ ~s3.pfin /\ p.seq + plen = s3.rnxt
        s4 == IF finHere
              THEN [s3 EXCEPT !.pfin = TRUE, !.rnxt = @ + 1,
                              !.st = CASE @ = "Established" -> "CloseWait"
                                       [] @ = "FinWait1" -> "Closing"
                                       [] @ = "FinWait2" -> "Closed"
                                       [] OTHER -> @]
              ELSE s3
        \* fix: (D3) every segment that occupies sequence space is answered with an
        \* ACK, also when it is a duplicate / out of order / does not fit
        occupies == plen > 0 \/ Has(p, "F") \/ Has(p, "S")
        sendAck == n > 0 \/ finHere \/ (occupies /\ "D3" \notin Legacy)
        k1 == [k EXCEPT !.socks[i] = s4]
    IN IF sendAck THEN Emit(k1, AckPk(k1, s4)) ELSE k1

\* fix: (D13) the retransmit counters that ran for the SYN / SYN-ACK are reset
\* when the handshake completes; before, the first data / FIN segment inherited them
HsDone(s) == IF "D13" \in Legacy THEN s ELSE [s EXCEPT !.esa = 0, !.rtx = 0]

(* handle_on_connection *)
HandleOnConn(k, i, p) ==
    LET s == k.socks[i] IN
    IF Has(p, "R") THEN AbortAt(k, i, "reset")
    ELSE IF s.st = "SynSent" /\ Has(p, "S") /\ Has(p, "A")
    THEN LET s2 == HsDone([s EXCEPT !.st = "Established", !.rnxt = p.seq + 1, !.wnd = p.win]) IN
         Emit([k EXCEPT !.socks[i] = s2], Pk(k, s2, s2.nxt, s2.rnxt, "A", AdvWnd(0), <<>>))
    ELSE IF s.st = "SynReceived" /\ Has(p, "A") /\ ~Has(p, "S")
    THEN IF p.ack # s.nxt THEN k
         ELSE LET k1 == [k EXCEPT !.socks[i] = HsDone([s EXCEPT !.st = "Established", !.wnd = p.win])]
                  li == ListenIdx(k1, s.lp)
              IN IF li = 0 THEN k1 ELSE [k1 EXCEPT !.socks[li].ready = Append(@, s.fd)]
    ELSE IF s.st \in OpenStates THEN HandleEst(k, i, p)
    ELSE IF s.st = "Closed" /\ "D3" \notin Legacy /\ ~s.rst /\ ~s.tmo /\ Has(p, "F") /\ s.pfin
    \* fix: (D3) a retransmitted FIN reaching a TCB that closed cleanly is re-ACKed
    \* (the job TIME_WAIT does), otherwise the peer exhausts its budget in LAST_ACK
    THEN Emit(k, AckPk(k, s))
    ELSE k

(* tcp::deliver *)
DeliverK(k, p) ==
    IF Has(p, "U") THEN k        \* UDP probe: no socket bound at that port, dropped
    ELSE LET i == ConnIdx(k, p.dp, p.sp) IN
         IF i # 0 THEN HandleOnConn(k, i, p)
         ELSE IF Has(p, "S") /\ ~Has(p, "A")
         THEN LET li == ListenIdx(k, p.dp) IN IF li # 0 THEN AcceptSyn(k, li, p) ELSE EmitRst(k, p)
         ELSE IF ~Has(p, "R") THEN EmitRst(k, p) ELSE k

---------------------------------------------------------------------------
(* check_retx *)
RetxCand(s) == ~s.lis /\ (s.st \in HsStates \/ (s.st \in TxStates /\ s.una # s.nxt))
Cr1(s) ==
    IF ~RetxCand(s) THEN [s |-> s, act |-> "none"]
    ELSE IF s.esa + 1 < RetxT THEN [s |-> [s EXCEPT !.esa = @ + 1], act |-> "none"]
    ELSE IF s.rtx >= RetxMax THEN [s |-> [s EXCEPT !.esa = @ + 1], act |-> "abort"]
    ELSE IF s.st \in HsStates THEN [s |-> [s EXCEPT !.esa = 0, !.rtx = @ + 1], act |-> "hs"]
    ELSE [s |-> [s EXCEPT !.esa = 0, !.rtx = @ + 1, !.nxt = s.una], act |-> "none"]

\* emit_handshake
HsPk(k, s) == IF s.st = "SynSent" THEN Pk(k, s, s.una - 1, 0, "S", BigWnd, <<>>)
              ELSE Pk(k, s, s.una - 1, s.rnxt, "SA", BigWnd, <<>>)

RECURSIVE AbortFds(_, _)
AbortFds(k, fds) == IF fds = <<>> THEN k
                    ELSE LET i == Idx(k, Head(fds)) IN
                         AbortFds(IF i = 0 THEN k ELSE AbortAt(k, i, "timedout"), Tail(fds))

CheckRetx(k) ==
    LET r == [i \in 1..Len(k.socks) |-> Cr1(k.socks[i])]
        socks1 == [i \in 1..Len(k.socks) |-> r[i].s]
        hs == SelectSeq([i \in 1..Len(k.socks) |-> i], LAMBDA i : r[i].act = "hs")
        ab == SelectSeq([i \in 1..Len(k.socks) |-> i], LAMBDA i : r[i].act = "abort")
        k1 == [k EXCEPT !.socks = socks1,
                        !.out = @ \o [j \in 1..Len(hs) |-> HsPk(k, socks1[hs[j]])]]
    IN AbortFds(k1, [j \in 1..Len(ab) |-> socks1[ab[j]].fd])

(* segment_one: returns [s, pk] *)
RECURSIVE SegOne(_, _, _)
SegOne(k, s, acc) ==
    LET infl == s.nxt - s.una
        unsent == Sat(Len(s.sb) - infl)
        wr == Sat(s.wnd - infl)
        finp == s.fseq # -1 /\ s.nxt = s.fseq
    IN IF unsent > 0 /\ wr > 0
       THEN LET n == Min3(unsent, Mss, wr) IN
            SegOne(k, [s EXCEPT !.nxt = @ + n],
                   Append(acc, Pk(k, s, s.nxt, s.rnxt, "AP", AdvWnd(Len(s.rb)), SubSeq(s.sb, infl + 1, infl + n))))
       ELSE IF finp /\ wr > 0
       THEN SegOne(k, [s EXCEPT !.nxt = @ + 1],
                   Append(acc, Pk(k, s, s.nxt, s.rnxt, "AF", AdvWnd(Len(s.rb)), <<>>)))
       ELSE [s |-> s, pk |-> acc]

SegCand(s) == /\ ~s.lis /\ s.st \in TxStates
              /\ (Len(s.sb) > s.nxt - s.una \/ (s.fseq # -1 /\ s.nxt = s.fseq))

RECURSIVE SegFrom(_, _)
SegFrom(k, i) ==
    IF i > Len(k.socks) THEN k
    ELSE IF SegCand(k.socks[i])
         THEN LET r == SegOne(k, k.socks[i], <<>>) IN
              SegFrom([k EXCEPT !.socks[i] = r.s, !.out = @ \o r.pk], i + 1)
         ELSE SegFrom(k, i + 1)
SegmentAll(k) == SegFrom(k, 1)

(* reap_closed *)
ReapClosed(k) == [k EXCEPT !.socks = SelectSeq(@, LAMBDA s : ~(s.fdc /\ (s.st = "Closed" \/ s.rst)))]

(* Kernel::egress.  Every packet leaves the host (no loopback traffic in    *)
(* this model), so the segment/drain loop runs once.                        *)
EgressK(k) ==
    LET k2 == SegmentAll(CheckRetx(k)) IN
    [k |-> ReapClosed([k2 EXCEPT !.out = <<>>]), pk |-> k2.out]

---------------------------------------------------------------------------
(* on_close + Kernel::close *)
RECURSIVE RstChildren(_, _)
RstChildren(k, fds) ==
    IF fds = <<>> THEN k
    ELSE LET i == Idx(k, Head(fds)) IN
         IF i = 0 THEN RstChildren(k, Tail(fds))
         ELSE LET s == k.socks[i] IN
              RstChildren(RemoveFd(Emit(k, Pk(k, s, s.nxt, s.rnxt, "AR", 0, <<>>)), s.fd), Tail(fds))

OnClose(k, fd) ==
    LET i == Idx(k, fd) IN
    IF i = 0 THEN k
    ELSE LET s == k.socks[i] IN
    IF s.lis
    THEN LET more == SelectSeq([j \in 1..Len(k.socks) |-> k.socks[j].fd],
                        LAMBDA f : LET c == k.socks[Idx(k, f)] IN
                                   ~c.lis /\ c.st = "SynReceived" /\ c.lp = s.lp /\ ~InSeq(f, s.ready))
         IN RemoveFd(RstChildren(k, s.ready \o more), fd)
    ELSE IF ~s.rst /\ ~s.tmo /\ s.st \notin {"Closed", "SynSent", "SynReceived"}
    THEN IF s.rb # <<>>
         THEN RemoveFd(Emit(k, Pk(k, s, s.nxt, s.rnxt, "AR", 0, <<>>)), fd)
         ELSE [k EXCEPT !.socks[i] =
                 IF s.wrc THEN [s EXCEPT !.fdc = TRUE]
                 ELSE [s EXCEPT !.fdc = TRUE, !.fseq = s.una + Len(s.sb), !.wrc = TRUE,
                                !.st = CASE @ = "Established" -> "FinWait1"
                                         [] @ = "CloseWait" -> "LastAck"
                                         [] OTHER -> @]]
    ELSE RemoveFd(k, fd)

(* Kernel::open + first poll_connect: auto_bind takes the allocator's next port *)
KConnect(k) ==
    LET s == [BaseSock EXCEPT !.fd = k.nfd, !.lp = k.port, !.rp = LPort] IN
    Emit([k EXCEPT !.socks = Append(@, s), !.nfd = @ + 1, !.port = @ + 1],
         Pk(k, s, 0, 0, "S", BigWnd, <<>>))

(* later polls of the connect future: [res, k]; an error drops the FdGuard  *)
PollConnect(k, fd) ==
    LET s == k.socks[Idx(k, fd)] IN
    IF s.st = "Established" THEN [res |-> "ok", k |-> k]
    ELSE IF s.st \in HsStates THEN [res |-> "pending", k |-> k]
    ELSE [res |-> IF s.tmo THEN "timedout" ELSE "refused", k |-> OnClose(k, fd)]

KListen(k) ==
    [k EXCEPT !.socks = Append(@, [BaseSock EXCEPT !.fd = k.nfd, !.lp = LPort, !.lis = TRUE, !.st = "Listen"]),
              !.nfd = @ + 1]

AbortErr(s) == IF s.rst THEN "reset" ELSE IF s.tmo THEN "timedout" ELSE "none"

(* poll_send: [res, k, n] *)
KWrite(k, fd, data) ==
    LET i == Idx(k, fd)  s == k.socks[i]  space == Sat(SendCap - Len(s.sb))  n == Min2(Len(data), space) IN
    IF AbortErr(s) # "none" THEN [res |-> AbortErr(s), k |-> k, n |-> 0]
    ELSE IF s.wrc THEN [res |-> "brokenpipe", k |-> k, n |-> 0]
    ELSE IF s.st \notin {"Established", "CloseWait"} THEN [res |-> "notconnected", k |-> k, n |-> 0]
    ELSE IF space = 0 THEN [res |-> "wouldblock", k |-> k, n |-> 0]
    ELSE [res |-> "ok", k |-> [k EXCEPT !.socks[i].sb = @ \o SubSeq(data, 1, n)], n |-> n]

(* poll_recv: [res, k, bytes] *)
KRead(k, fd, n) ==
    LET i == Idx(k, fd)  s == k.socks[i] IN
    IF AbortErr(s) # "none" THEN [res |-> AbortErr(s), k |-> k, bytes |-> <<>>]
    ELSE IF s.rb = <<>>
    THEN IF s.pfin THEN [res |-> "eof", k |-> k, bytes |-> <<>>]
         ELSE IF s.st \notin {"Established", "FinWait1", "FinWait2", "CloseWait"}
         THEN [res |-> "notconnected", k |-> k, bytes |-> <<>>]
         ELSE [res |-> "wouldblock", k |-> k, bytes |-> <<>>]
    ELSE LET m == Min2(Len(s.rb), n)
             s2 == [s EXCEPT !.rb = SubSeq(@, m + 1, Len(@))]
             k1 == [k EXCEPT !.socks[i] = s2]
         IN [res |-> "data", bytes |-> SubSeq(s.rb, 1, m),
             \* window update only when the read freed at least half the cap
             k |-> IF m >= RecvCap \div 2 THEN Emit(k1, AckPk(k1, s2)) ELSE k1]

(* poll_shutdown_write: [res, k] *)
KShutdown(k, fd) ==
    LET i == Idx(k, fd)  s == k.socks[i] IN
    IF AbortErr(s) # "none" THEN [res |-> AbortErr(s), k |-> k]
    ELSE IF s.wrc THEN [res |-> "ok", k |-> k]
    ELSE [res |-> "ok",
          k |-> [k EXCEPT !.socks[i] = [s EXCEPT !.fseq = s.una + Len(s.sb), !.wrc = TRUE,
                                                 !.st = CASE @ = "Established" -> "FinWait1"
                                                          [] @ = "CloseWait" -> "LastAck"
                                                          [] OTHER -> @]]]

---------------------------------------------------------------------------
(* What the harness observes after every action *)

NetRows(k) == LET ss == SelectSeq(k.socks, LAMBDA s : ~s.lis /\ s.st # "Closed") IN
              [i \in 1..Len(ss) |-> [h |-> k.h, lp |-> ss[i].lp, rp |-> ss[i].rp,
                                     sq |-> Len(ss[i].sb), rq |-> Len(ss[i].rb)]]
Counts(k) == [s |-> Len(k.socks), b |-> Len(k.socks),
              c |-> Len(SelectSeq(k.socks, LAMBDA s : ~s.lis))]
ObsOf(kk) == [q |-> NetRows(kk[1]) \o NetRows(kk[2]),
              lq |-> LET li == ListenIdx(kk[2], LPort) IN IF li = 0 THEN -1 ELSE Len(kk[2].socks[li].ready),
              t |-> <<Counts(kk[1]), Counts(kk[2])>>]

\* TCB scalars compared field by field in the replay direction (verif_dump)
Scal(s) == [fd |-> s.fd, lp |-> s.lp, rp |-> s.rp, st |-> s.st, una |-> s.una, nxt |-> s.nxt,
            wnd |-> s.wnd, rnxt |-> s.rnxt, sq |-> Len(s.sb), rq |-> Len(s.rb), wrc |-> s.wrc,
            pfin |-> s.pfin, fseq |-> s.fseq, rst |-> s.rst, tmo |-> s.tmo, esa |-> s.esa,
            rtx |-> s.rtx, fdc |-> s.fdc, ready |-> s.ready]
DumpOf(kk) == [h \in 1..2 |-> [i \in 1..Len(kk[h].socks) |-> Scal(kk[h].socks[i])]]

---------------------------------------------------------------------------
Init ==
    /\ PInit
    /\ ks = <<NewKernel(1), NewKernel(2)>>
    /\ wire = <<>>
    /\ cl = [c \in Ports |-> [st |-> "none", fd |-> 0]]
    /\ sv = [c \in Ports |-> [st |-> "none", fd |-> 0]]
    /\ lh = [st |-> "none", fd |-> 0]
    /\ pfx = 1
    /\ zw = FALSE
    /\ rwd = FALSE
    /\ last = [a |-> "init"]

\* After Deliver / Egress the harness polls every pending connect future, in
\* attempt order.  A future that would complete is polled before anything else
\* happens (action Poll); until then every other action is disabled.
Resolvable(c) == /\ cl[c].st = "pending"
                 /\ PollConnect(ks[1], cl[c].fd).res # "pending"
NoneResolvable == \A c \in Ports : ~Resolvable(c)

---------------------------------------------------------------------------
(* Actions.  `last` carries the label and the predicted observation.        *)

Listen ==
    /\ "listen" \in Ops /\ lh.st = "none"
    /\ LET k2 == KListen(ks[2]) IN
       /\ ks' = [ks EXCEPT ![2] = k2]
       /\ lh' = [st |-> "up", fd |-> ks[2].nfd]
       /\ P_Listen(LPort, ObsOf(ks'))
    /\ last' = [a |-> "listen", port |-> LPort]
    /\ UNCHANGED <<wire, cl, sv, zw, rwd>>

DropListener ==
    /\ "droplistener" \in Ops /\ lh.st = "up"
    /\ ks' = [ks EXCEPT ![2] = OnClose(ks[2], lh.fd)]
    /\ lh' = [lh EXCEPT !.st = "down"]
    /\ P_DropListener(ObsOf(ks'))
    /\ last' = [a |-> "droplistener"]
    /\ UNCHANGED <<wire, cl, sv, zw, rwd>>

Connect(c) ==
    /\ "connect" \in Ops /\ c = natt + 1 /\ c \in Ports
    /\ ks' = [ks EXCEPT ![1] = KConnect(ks[1])]
    /\ cl' = [cl EXCEPT ![c] = [st |-> "pending", fd |-> ks[1].nfd]]
    /\ P_ConnectStart(c, ObsOf(ks'))
    /\ last' = [a |-> "connect", c |-> c]
    /\ UNCHANGED <<wire, sv, lh, zw, rwd>>

Cancel(c) ==
    /\ "cancel" \in Ops /\ c \in Ports /\ cl[c].st = "pending"
    /\ ks' = [ks EXCEPT ![1] = OnClose(ks[1], cl[c].fd)]
    /\ cl' = [cl EXCEPT ![c].st = "cancelled"]
    /\ P_Cancel(c, ObsOf(ks'))
    /\ last' = [a |-> "cancel", c |-> c]
    /\ UNCHANGED <<wire, sv, lh, zw, rwd>>

Accept ==
    /\ "accept" \in Ops /\ lh.st = "up"
    /\ LET li == Idx(ks[2], lh.fd)  l == ks[2].socks[li] IN
       /\ l.ready # <<>>
       /\ LET fd == Head(l.ready)  ch == ks[2].socks[Idx(ks[2], fd)] IN
          /\ ks' = [ks EXCEPT ![2].socks[li].ready = Tail(@)]
          /\ sv' = [sv EXCEPT ![ch.rp] = [st |-> "held", fd |-> fd]]
          /\ P_Accept(ch.rp, ch.lp, ObsOf(ks'))
          /\ last' = [a |-> "accept", pp |-> ch.rp, lp |-> ch.lp]
    /\ UNCHANGED <<wire, cl, lh, zw, rwd>>

\* known-finding family D4 (a): a sender has bytes (or its FIN) to send, nothing in flight, and a
\* closed window; the receiver will not advertise again (reads below cap/2) and there is no probe.
\* A call that blocks in a quiescent state while this holds is attributed to the family (ghost zw).
ZeroWindowSender(s) == /\ ~s.lis /\ s.st \in TxStates
                       /\ s.nxt = s.una /\ (Len(s.sb) > 0 \/ (s.fseq # -1 /\ s.nxt = s.fseq))
                       /\ s.wnd = 0
StallNow == \E h \in 1..2 : \E i \in 1..Len(ks[h].socks) : ZeroWindowSender(ks[h].socks[i])

Handle(e) == IF e[2] = "c" THEN cl[e[1]] ELSE sv[e[1]]
HostOf(e) == IF e[2] = "c" THEN 1 ELSE 2
ByteVal(e, i) == (IF e[2] = "c" THEN 0 ELSE 100) + ((i - 1) % 90) + 1

Write(e, data) ==
    /\ "write" \in Ops /\ e \in EPs /\ Handle(e).st = "held"
    /\ LET h == HostOf(e)  r == KWrite(ks[h], Handle(e).fd, data) IN
       /\ ks' = [ks EXCEPT ![h] = r.k]
       /\ P_Write(e, data, r.res, r.n, ObsOf(ks'))
       /\ zw' = (zw \/ (r.res = "wouldblock" /\ Quiescent /\ StallNow))
       /\ last' = [a |-> "write", p |-> e[1], side |-> e[2], data |-> data, res |-> r.res, n |-> r.n]
    /\ UNCHANGED <<wire, cl, sv, lh, rwd>>

WriteMC(e, n) ==
    /\ ep[e].nw + n <= MaxBytes
    /\ Write(e, [i \in 1..n |-> ByteVal(e, ep[e].nw + i)])

Read(e, n) ==
    /\ "read" \in Ops /\ e \in EPs /\ Handle(e).st = "held"
    /\ LET h == HostOf(e)  r == KRead(ks[h], Handle(e).fd, n) IN
       /\ ks' = [ks EXCEPT ![h] = r.k]
       /\ P_Read(e, n, r.res, r.bytes, ObsOf(ks'))
       /\ zw' = (zw \/ (r.res = "wouldblock" /\ Quiescent /\ StallNow))
       /\ last' = [a |-> "read", p |-> e[1], side |-> e[2], n |-> n, res |-> r.res, bytes |-> r.bytes]
    /\ UNCHANGED <<wire, cl, sv, lh, rwd>>

\* exhaustive exploration: a read that would block changes nothing; it is only
\* interesting (and only taken) in a quiescent state, where the PropSpec judges it
ReadMC(e, n) ==
    /\ Handle(e).st = "held"
    /\ LET s == ks[HostOf(e)].socks[Idx(ks[HostOf(e)], Handle(e).fd)] IN
       (s.rb = <<>> /\ ~s.pfin /\ AbortErr(s) = "none") => (Quiescent /\ n = CHOOSE m \in ReadSizes : TRUE)
    /\ Read(e, n)

Shutdown(e) ==
    /\ "shutdown" \in Ops /\ e \in EPs /\ Handle(e).st = "held"
    /\ LET h == HostOf(e)  r == KShutdown(ks[h], Handle(e).fd) IN
       /\ ks' = [ks EXCEPT ![h] = r.k]
       /\ P_Shutdown(e, r.res, ObsOf(ks'))
       /\ last' = [a |-> "shutdown", p |-> e[1], side |-> e[2], res |-> r.res]
    /\ UNCHANGED <<wire, cl, sv, lh, zw, rwd>>

ShutdownMC(e) == ep[e].wfin = "open" /\ Shutdown(e)

Close(e) ==
    /\ "close" \in Ops /\ e \in EPs /\ Handle(e).st = "held"
    /\ LET h == HostOf(e) IN ks' = [ks EXCEPT ![h] = OnClose(ks[h], Handle(e).fd)]
    /\ IF e[2] = "c" THEN cl' = [cl EXCEPT ![e[1]].st = "dropped"] /\ sv' = sv
                     ELSE sv' = [sv EXCEPT ![e[1]].st = "dropped"] /\ cl' = cl
    /\ P_Close(e, ObsOf(ks'))
    /\ last' = [a |-> "close", p |-> e[1], side |-> e[2]]
    /\ UNCHANGED <<wire, lh, zw, rwd>>

\* lo_*: the socket is bound to 127.0.0.1 instead of the host's address; the datagram still
\* crosses the link, so the limit is that of the destination path, not loopback_mtu
UdpModes == {"sendto", "send", "lo_sendto", "lo_send"}

\* A UDP socket on host 1 sends n bytes to an unbound port of host 2, either with
\* send_to (mode "sendto") or connected: connect + try_send (mode "send").  Both end in
\* udp::send_to, which rejects payloads above MTU - IP header - 8 with EMSGSIZE.
Udp(n, mode) ==
    /\ "udp" \in Ops /\ mode \in UdpModes
    /\ LET tooBig == n > UdpMax
           p == [src |-> 1, dst |-> 2, sp |-> 0, dp |-> 0, seq |-> 0, ack |-> 0, fl |-> "U", win |-> 0,
                 data |-> [i \in 1..n |-> 0]]
           k1 == [ks[1] EXCEPT !.nfd = @ + 1]      \* the socket is bound, used once and dropped
       IN /\ ks' = [ks EXCEPT ![1] = IF tooBig THEN k1 ELSE Emit(k1, p)]
          /\ P_Udp(n, IF tooBig THEN "err" ELSE "ok", IF tooBig THEN 0 ELSE 1, ObsOf(ks'))
          /\ last' = [a |-> "udp", n |-> n, mode |-> mode, res |-> IF tooBig THEN "err" ELSE "ok"]
    /\ UNCHANGED <<wire, cl, sv, lh, zw, rwd>>
\* exhaustive exploration: at most two probes, before any connect
UdpMC(n, mode) == ks[1].nfd <= 2 /\ natt = 0 /\ Udp(n, mode)

MaxAgeOf(w) == IF w = <<>> THEN 0 ELSE
               CHOOSE a \in {w[i].age : i \in 1..Len(w)} : \A i \in 1..Len(w) : w[i].age <= a

\* known-finding family D4: check_retx charged the retransmit budget of a data sender
\* (an attempt, or the abort itself) while the peer - alive but full - advertised a zero
\* window; there is no persist state that would exempt zero-window probes from the budget
ZwAbortIn(k0, k1) ==
    \E i \in 1..Len(k0.socks) : \E j \in 1..Len(k1.socks) :
        /\ k0.socks[i].fd = k1.socks[j].fd
        /\ k0.socks[i].st \in TxStates /\ k0.socks[i].wnd = 0
        /\ \/ ~k0.socks[i].tmo /\ k1.socks[j].tmo
           \/ k1.socks[j].rtx > k0.socks[i].rtx

\* ... or a receiver discarded in-order data because its buffer was full: the sender
\* overran a window that closed (stale advertisement after reordering) and every such
\* discard costs it one attempt
ZwDiscard(k, p) ==
    /\ ~Has(p, "U") /\ ~Has(p, "R") /\ Len(p.data) > 0
    /\ LET i == ConnIdx(k, p.dp, p.sp) IN
       /\ i # 0
       /\ LET s == k.socks[i] IN
          s.st \in OpenStates /\ p.seq = s.rnxt /\ ~s.pfin /\ Len(s.rb) >= RecvCap

\* known-finding family KT1: check_retx rewinds snd_nxt to snd_una and segment_one re-sends only
\* what the window allows; an ACK that covers bytes sent before the rewind then has
\* acked > snd_nxt - snd_una and handle_established drops it as invalid (there is no SND.MAX)
AckBeyondRewind(k, p) ==
    /\ ~Has(p, "U") /\ ~Has(p, "R") /\ Has(p, "A")
    /\ LET i == ConnIdx(k, p.dp, p.sp) IN
       /\ i # 0
       /\ LET s == k.socks[i] IN
          /\ s.st \in OpenStates
          /\ p.ack - s.una > s.nxt - s.una
          /\ p.ack - s.una <= Len(s.sb) + (IF s.fseq # -1 THEN 1 ELSE 0)

\* EnterGuard::egress_all: host 1 then host 2; packets already in flight age by one round
EgressAll ==
    /\ \A i \in 1..Len(wire) : wire[i].age < MaxAge
    /\ LET r1 == EgressK(ks[1])  r2 == EgressK(ks[2])
           pk == r1.pk \o r2.pk
           w2 == [i \in 1..Len(wire) |-> [wire[i] EXCEPT !.age = @ + 1]]
                 \o [i \in 1..Len(pk) |-> [p |-> pk[i], age |-> 0]]
       IN /\ wire' = w2
          /\ ks' = <<r1.k, r2.k>>
          /\ P_Egress(pk, Len(w2), MaxAgeOf(w2), ObsOf(ks'))
          /\ zw' = (zw \/ ZwAbortIn(ks[1], r1.k) \/ ZwAbortIn(ks[2], r2.k))
          /\ last' = [a |-> "egress", pk |-> pk]
    /\ UNCHANGED <<cl, sv, lh, rwd>>

Deliver(i) ==
    /\ i \in 1..Len(wire)
    /\ LET p == wire[i].p IN
       /\ wire' = [j \in 1..(Len(wire) - 1) |-> IF j < i THEN wire[j] ELSE wire[j + 1]]
       /\ ks' = [ks EXCEPT ![p.dst] = DeliverK(ks[p.dst], p)]
       /\ P_Deliver(p, wire[i].age, ObsOf(ks'))
       /\ zw' = (zw \/ ZwDiscard(ks[p.dst], p))
       /\ rwd' = (rwd \/ AckBeyondRewind(ks[p.dst], p))
       /\ last' = [a |-> "deliver", i |-> i, p |-> p]
    /\ UNCHANGED <<cl, sv, lh>>

\* the harness polls connect future c and it completes
Poll(c) ==
    /\ c \in Ports /\ Resolvable(c) /\ \A x \in 1..(c - 1) : ~Resolvable(x)
    /\ LET r == PollConnect(ks[1], cl[c].fd)
           s == ks[1].socks[Idx(ks[1], cl[c].fd)]
           lp == IF r.res = "ok" THEN s.lp ELSE 0
           pp == IF r.res = "ok" THEN s.rp ELSE 0
       IN /\ ks' = [ks EXCEPT ![1] = r.k]
          /\ cl' = [cl EXCEPT ![c].st = IF r.res = "ok" THEN "held" ELSE "err"]
          /\ P_ConnectDone(c, r.res, lp, pp, ObsOf(ks'))
          /\ last' = [a |-> "poll", c |-> c, res |-> r.res, lp |-> lp, pp |-> pp]
    /\ UNCHANGED <<wire, sv, lh, zw, rwd>>

DropPk(i) ==
    /\ i \in 1..Len(wire) /\ drops < MaxDrops
    /\ wire' = [j \in 1..(Len(wire) - 1) |-> IF j < i THEN wire[j] ELSE wire[j + 1]]
    /\ P_Drop(wire[i].p, ObsOf(ks))
    /\ last' = [a |-> "drop", i |-> i, p |-> wire[i].p]
    /\ UNCHANGED <<ks, cl, sv, lh, zw, rwd>>

---------------------------------------------------------------------------
\* Forced prefix: the canonical handshake of attempt 1 (SYN, SYN-ACK and ACK are
\* delivered at once; segments retransmitted because retx_threshold <= 2 stay in flight), so that configurations about the data phase start from an
\* established, accepted connection.
PfxEst == << [a |-> "listen"], [a |-> "connect"], [a |-> "egress"], [a |-> "deliver", fl |-> "S"],
             [a |-> "egress"], [a |-> "deliver", fl |-> "SA"], [a |-> "poll"], [a |-> "egress"],
             [a |-> "deliver", fl |-> "A"], [a |-> "accept"] >>
\* with retx_threshold <= 2 the SYN is retransmitted before the SYN-ACK arrives; the stray
\* copy is delivered (and ignored by the handshaking child) so that the wire can move on
PfxEst2 == << [a |-> "listen"], [a |-> "connect"], [a |-> "egress"], [a |-> "deliver", fl |-> "S"],
              [a |-> "egress"], [a |-> "deliver", fl |-> "SA"], [a |-> "poll"], [a |-> "deliver", fl |-> "S"],
              [a |-> "egress"], [a |-> "deliver", fl |-> "A"], [a |-> "accept"] >>
Prefix == IF Start = "est" THEN (IF RetxT <= 2 THEN PfxEst2 ELSE PfxEst)
          ELSE IF Start = "listen" THEN << [a |-> "listen"] >> ELSE <<>>

\* the forced prefix, conjoined to every action
Pf == IF pfx <= Len(Prefix)
      THEN /\ last'.a = Prefix[pfx].a
           /\ (last'.a = "deliver" =>            \* the first packet in flight with these flags
                 /\ wire[last'.i].p.fl = Prefix[pfx].fl
                 /\ \A j \in 1..(last'.i - 1) : wire[j].p.fl # Prefix[pfx].fl)
           /\ pfx' = pfx + 1
      ELSE pfx' = pfx
NR == NoneResolvable

\* Next is a flat disjunction of named actions (TLC's coverage names them)
APoll         == \E c \in Ports : Poll(c) /\ Pf
AListen       == NR /\ Listen /\ Pf
ADropListener == NR /\ DropListener /\ Pf
AConnect      == NR /\ (\E c \in Ports : Connect(c)) /\ Pf
ACancel       == NR /\ (\E c \in Ports : Cancel(c)) /\ Pf
AAccept       == NR /\ Accept /\ Pf
AWrite        == NR /\ (\E e \in Ports \X Writers, n \in WriteSizes : WriteMC(e, n)) /\ Pf
ARead         == NR /\ (\E e \in Ports \X Readers, n \in ReadSizes : ReadMC(e, n)) /\ Pf
AShutdown     == NR /\ (\E e \in Ports \X Writers : ShutdownMC(e)) /\ Pf
AClose        == NR /\ (\E e \in EPs : Close(e)) /\ Pf
AUdp          == NR /\ (\E n \in UdpSizes, m \in UdpModes : UdpMC(n, m)) /\ Pf
AEgress       == NR /\ EgressAll /\ Pf
ADeliver      == NR /\ (\E i \in 1..Len(wire) : Deliver(i)) /\ Pf
ADrop         == NR /\ (\E i \in 1..Len(wire) : DropPk(i)) /\ Pf

Next == \/ APoll \/ AListen \/ ADropListener \/ AConnect \/ ACancel \/ AAccept \/ AWrite \/ ARead
        \/ AShutdown \/ AClose \/ AUdp \/ AEgress \/ ADeliver \/ ADrop

Spec == Init /\ [][Next]_vars

---------------------------------------------------------------------------
(* Known-finding families: state predicates over the ImplSpec (DESIGN 7.2) *)

Dev_ZeroWindowStall == StallNow
Dev_ZeroWindowAbort == zw
ProgressOrKnown == ok.prog \/ Dev_ZeroWindowAbort
AbortOrKnown    == ok.abort \/ Dev_ZeroWindowAbort
\* with the second recorded family (only used while known_findings.json lists KT1)
Dev_AckBeyondRewind == rwd
ProgressOrKnown2 == ok.prog \/ zw \/ rwd
AbortOrKnown2    == ok.abort \/ zw \/ rwd

---------------------------------------------------------------------------
(* Structural invariants of the implementation model *)
TypeOK ==
    /\ \A h \in 1..2 : \A i \in 1..Len(ks[h].socks) :
          LET s == ks[h].socks[i] IN
          /\ s.una <= s.nxt
          /\ Len(s.sb) <= SendCap /\ Len(s.rb) <= RecvCap
          /\ s.esa <= RetxT /\ s.rtx <= RetxMax
    /\ \A i \in 1..Len(wire) : wire[i].age <= MaxAge
ImplInv == TypeOK

View == <<pvars, ivars>>

\* compact error traces (cfg: ALIAS Brief)
Br(s) == <<s.fd, s.st, s.una, s.nxt, s.wnd, s.rnxt, Len(s.sb), Len(s.rb), s.esa, s.rtx,
           IF s.fdc THEN "fdc" ELSE "", IF s.rst THEN "rst" ELSE "", IF s.tmo THEN "tmo" ELSE "", s.ready>>
BrP(w) == <<w.p.src, w.p.fl, w.p.seq, w.p.ack, w.p.win, Len(w.p.data), w.age>>
BrL == IF last.a = "egress" THEN <<"egress", Len(last.pk)>>
       ELSE IF last.a = "deliver" THEN <<"deliver", last.i>> ELSE last
Brief == [last |-> BrL,
          h1 |-> [i \in 1..Len(ks[1].socks) |-> Br(ks[1].socks[i])],
          h2 |-> [i \in 1..Len(ks[2].socks) |-> Br(ks[2].socks[i])],
          out |-> <<Len(ks[1].out), Len(ks[2].out)>>,
          wire |-> [i \in 1..Len(wire) |-> BrP(wire[i])],
          g |-> <<idle, premOk, drops>>,
          bad |-> {f \in DOMAIN ok : ~ok[f]}]
=============================================================================
