--------------------------- MODULE KTcpPropTrace ---------------------------
(* Verdict-level trace validation: the observation events recorded from the  *)
(* real stack are replayed through the P_* actions of KTcpProp alone; the    *)
(* PropSpec invariants are evaluated in every state.                         *)
EXTENDS KTcpProp, Json, IOUtils, TLC

Rec == ndJsonDeserialize(IOEnv.TRACE)

VARIABLE l
E == Rec[l]
Is(e) == l <= Len(Rec) /\ Rec[l].ev = e /\ l' = l + 1

TInit == PInit /\ l = 1

TNext ==
    \/ Is("reset") /\ P_Reset
    \/ Is("listen") /\ P_Listen(E.port, E.obs)
    \/ Is("droplistener") /\ P_DropListener(E.obs)
    \/ Is("connect") /\ P_ConnectStart(E.c, E.obs)
    \/ Is("poll") /\ P_ConnectDone(E.c, E.res, E.lp, E.pp, E.obs)
    \/ Is("cancel") /\ P_Cancel(E.c, E.obs)
    \/ Is("accept") /\ P_Accept(E.pp, E.lp, E.obs)
    \* a vectored write offers the concatenation of its slices (E.data)
    \/ Is("write") /\ P_Write(<<E.p, E.side>>, E.data, E.res, E.n, E.obs)
    \/ Is("read") /\ P_Read(<<E.p, E.side>>, E.n, E.res, E.bytes, E.obs)
    \/ Is("shutdown") /\ P_Shutdown(<<E.p, E.side>>, E.res, E.obs)
    \/ Is("close") /\ P_Close(<<E.p, E.side>>, E.obs)
    \/ Is("udp") /\ P_Udp(E.n, E.res, E.npk, E.obs)
    \/ Is("egress") /\ P_Egress(E.pk, E.wlen, E.maxage, E.obs)
    \/ Is("deliver") /\ P_Deliver(E.p, E.age, E.obs)
    \/ Is("drop") /\ P_Drop(E.p, E.obs)
    \/ Is("apark") /\ P_APark(E.a)
    \/ Is("aunpark") /\ P_AUnpark(E.a)
    \/ Is("wakes") /\ P_Wakes(E.woken, E.lq)

TSpec == TInit /\ [][TNext]_<<pvars, l>>

Accepted ==
    LET d == TLCGet("stats").diameter IN
    IF d - 1 = Len(Rec) THEN TRUE
    ELSE Print(<<"UNMATCHED", d, ToJson(Rec[d])>>, FALSE)
=============================================================================
