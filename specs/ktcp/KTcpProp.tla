------------------------------ MODULE KTcpProp ------------------------------
(***************************************************************************)
(* PropSpec for the turmoil-net byte-level TCP stack: C06 (byte stream      *)
(* under drops / delays / reordering), C16 (caps, MSS, peer window) and C13 *)
(* (connect / accept / refuse, reclamation of table entries).               *)
(*                                                                         *)
(* Only observations: what the application calls returned (connect, accept,*)
(* try_write, try_read, shutdown, drop), the packets the harness saw        *)
(* between egress_all and deliver (it is the wire: it knows what it         *)
(* delivered, dropped and how long it kept a packet), netstat queue depths  *)
(* and the three per-host table counts.  No sequence-number bookkeeping of  *)
(* the implementation, no TCP states.                                       *)
(*                                                                         *)
(* Endpoints are named <<p, side>>: p = the client port of the connection   *)
(* as reported by local_addr / peer_addr (the harness subtracts a constant),*)
(* side = "c" (connector) or "s" (acceptor).                               *)
(***************************************************************************)
EXTENDS Naturals, Integers, Sequences, FiniteSets

CONSTANTS MaxP,      \* number of connect attempts / client ports that can appear
          Mss,       \* MTU - IP header - 20
          SendCap, RecvCap, Backlog,
          RetxT, RetxMax,      \* retx_threshold, retx_max of the KernelConfig
          PremD, PremAge,      \* premise of the liveness half: <= PremD drops, every packet kept <= PremAge rounds
          UdpMax               \* MTU - IP header - 8

\* "bounded number of ticks" of C13 and the K of C06: every retransmit budget has run out
R == RetxT * (RetxMax + 1) + 2

\* The liveness half is only claimed when no legitimate retransmit exhaustion
\* can occur: a transmission and its answer each spend at most PremAge rounds
\* on the wire (+1 round each to leave the host), PremD of the RetxMax + 1
\* transmissions may be lost, and one threshold of slack covers counters that
\* were already running when the segment was first sent.
PremiseSane == /\ PremD <= RetxMax
               /\ (PremD + 1) * RetxT + 2 * PremAge + 2 <= (RetxMax + 1) * RetxT

Sides == {"c", "s"}
Ports == 1..MaxP
EPs   == Ports \X Sides
Peer(e) == <<e[1], IF e[2] = "c" THEN "s" ELSE "c">>

VARIABLES
    lsn,      \* [st: "none" | "up" | "down", port]  the listener handle
    att,      \* [Ports -> attempt record]  connect attempts in start order
    natt,     \* number of attempts started
    ep,       \* [EPs -> endpoint record]
    synSeen,  \* client ports from which a SYN was seen on the wire
    accd,     \* sequence of client ports returned by accept
    flow,     \* [EPs -> [ackd, lwnd]] highest ack / last window delivered to the sender e
    drops,    \* packets dropped by the wire so far
    premOk,   \* the premise of the liveness half still holds
    apark,    \* accept futures that are parked (polled Pending, not dropped, not completed), by id
    idle,     \* consecutive egress rounds that emitted nothing with an empty wire (saturates at R)
    ok        \* record of verdict flags, one per clause family

pvars == <<lsn, att, natt, ep, synSeen, accd, flow, drops, premOk, apark, idle, ok>>

\* gone: the attempt ended without a stream (cancelled / refused / timed out) and the wire has been
\* quiescent since, so whatever it left at the listener has run out of retransmits and is gone
NoAtt == [st |-> "none", port |-> 0, sawUp |-> FALSE, sawDown |-> FALSE, full |-> FALSE, gone |-> FALSE]
\* pend = bytes this endpoint wrote (accepted by try_write) that its peer has not read yet,
\* nw = how many it wrote in all.  Bytes are retired from pend as the peer reads them, so
\* "the bytes read are a prefix of the bytes written" is checked read by read (ok.prefix).
NoEp  == [h |-> "none", pend |-> <<>>, nw |-> 0, eof |-> FALSE, wfin |-> "open"]
OkAll == [wake |-> TRUE, prefix |-> TRUE, caps |-> TRUE, mss |-> TRUE, wnd |-> TRUE, udp |-> TRUE, accept |-> TRUE,
          conn |-> TRUE, abort |-> TRUE, prog |-> TRUE, cpend |-> TRUE, offer |-> TRUE, tab |-> TRUE]

PInit ==
    /\ lsn = [st |-> "none", port |-> 0]
    /\ att = [c \in Ports |-> NoAtt]
    /\ natt = 0
    /\ ep = [e \in EPs |-> NoEp]
    /\ synSeen = {}
    /\ accd = <<>>
    /\ flow = [e \in EPs |-> [ackd |-> 1, lwnd |-> -1]]
    /\ drops = 0
    /\ premOk = TRUE
    /\ apark = {}
    /\ idle = 0
    /\ ok = OkAll

IsPre(s, t) == Len(s) <= Len(t) /\ SubSeq(t, 1, Len(s)) = s
Min2(a, b) == IF a < b THEN a ELSE b
Max2(a, b) == IF a > b THEN a ELSE b
InSeq(x, s) == \E i \in 1..Len(s) : s[i] = x

Quiescent == idle >= R

---------------------------------------------------------------------------
(* Observations attached to every event.                                   *)
(* obs = [q  |-> sequence of [h, lp, rp, sq, rq]  netstat rows of TCP sockets *)
(*               that carry a connection (h = 1 connector host, 2 acceptor), *)
(*        lq |-> netstat Recv-Q of the listener (accept queue depth), -1 if  *)
(*               no listener row,                                           *)
(*        t  |-> <<[s, b, c], [s, b, c]>> hook counts per host: sockets,     *)
(*               binding-index entries, connection-index entries]           *)

\* C16: "never queues more unsent-plus-unacknowledged bytes than its send
\* buffer cap nor more unread bytes than its receive buffer cap"
CapsIn(obs) == \A i \in 1..Len(obs.q) : obs.q[i].sq <= SendCap /\ obs.q[i].rq <= RecvCap

\* netstat row of endpoint e, if any
RowsOf(obs, e) == {i \in 1..Len(obs.q) :
                      IF e[2] = "c" THEN obs.q[i].h = 1 /\ obs.q[i].lp = e[1]
                                    ELSE obs.q[i].h = 2 /\ obs.q[i].rp = e[1]}

LiveConn  == Cardinality({c \in Ports : att[c].st = "pending"})
Held(s)   == Cardinality({p \in Ports : ep[<<p, s>>].h = "held"})
\* a dropped endpoint may legitimately linger (FIN_WAIT2 ...) while its peer
\* is still owned by an application (held stream, or an un-accepted child of
\* a live listener)
PeerOwned(e) == \/ ep[Peer(e)].h = "held"
                \/ e[2] = "c" /\ ep[Peer(e)].h = "none" /\ lsn.st = "up"
MayLinger(s) == Cardinality({p \in Ports : ep[<<p, s>>].h = "dropped" /\ PeerOwned(<<p, s>>)})

\* C13 reclamation: "once both applications have closed / dropped their
\* handles (or the connect was cancelled, or the listener dropped) and the
\* wire has been empty for retx_threshold*(retx_max+1)+2 egress rounds, the
\* hook counts of sockets, bindings and connection-index entries on both
\* hosts equal those of the live handles only" - claimed, as the quantifier
\* says, for packets "dropped within the retransmit budget" (premOk; a lost
\* RST is outside it).  Un-accepted children are
\* owned by the listener handle and are counted by its netstat Recv-Q.
TablesIn(obs) ==
    LET live1 == LiveConn + Held("c")
        lis   == IF lsn.st = "up" THEN 1 ELSE 0
        rq    == IF lsn.st = "up" /\ obs.lq >= 0 THEN obs.lq ELSE 0
        live2 == lis + Held("s") + rq
        t1 == obs.t[1]  t2 == obs.t[2]
    IN /\ t1.s >= live1 /\ t1.s <= live1 + MayLinger("c")
       /\ t1.b = t1.s /\ t1.c = t1.s
       /\ t2.s >= live2 /\ t2.s <= live2 + MayLinger("s")
       /\ t2.b = t2.s /\ t2.c = t2.s - lis

SetOk(f, v) == ok' = [ok EXCEPT ![f] = @ /\ v]

---------------------------------------------------------------------------
(* Observation actions.  Every one takes the obs record of its event.      *)

\* TcpListener::bind returned Ok with this local port
P_Listen(port, obs) ==
    /\ lsn' = [st |-> "up", port |-> port]
    /\ att' = [c \in Ports |-> IF att[c].st = "pending" THEN [att[c] EXCEPT !.sawUp = TRUE] ELSE att[c]]
    /\ idle' = 0
    /\ ok' = [ok EXCEPT !.caps = @ /\ CapsIn(obs)]
    /\ UNCHANGED <<natt, ep, synSeen, accd, flow, drops, premOk, apark>>

P_DropListener(obs) ==
    /\ lsn' = [lsn EXCEPT !.st = "down"]
    /\ att' = [c \in Ports |-> IF att[c].st = "pending" THEN [att[c] EXCEPT !.sawDown = TRUE] ELSE att[c]]
    /\ idle' = 0
    /\ ok' = [ok EXCEPT !.caps = @ /\ CapsIn(obs)]
    /\ UNCHANGED <<natt, ep, synSeen, accd, flow, drops, premOk, apark>>

\* attempts that may occupy the listener's backlog: started and not (yet) accepted
Unaccepted(c) == att[c].st # "none" /\ ~att[c].gone /\ (att[c].port = 0 \/ ~InSeq(att[c].port, accd))

\* TcpStream::connect started (first poll done); c = index of the attempt
P_ConnectStart(c, obs) ==
    /\ c = natt + 1 /\ c \in Ports
    /\ natt' = c
    /\ LET others == Cardinality({x \in Ports : Unaccepted(x)}) IN
       att' = [x \in Ports |->
                 IF x = c THEN [st |-> "pending", port |-> 0, sawUp |-> lsn.st = "up",
                                sawDown |-> lsn.st # "up", full |-> others >= Backlog, gone |-> FALSE]
                 ELSE IF att[x].st = "pending" /\ others >= Backlog THEN [att[x] EXCEPT !.full = TRUE]
                 ELSE att[x]]
    /\ idle' = 0
    /\ ok' = [ok EXCEPT !.caps = @ /\ CapsIn(obs)]
    /\ UNCHANGED <<lsn, ep, synSeen, accd, flow, drops, premOk, apark>>

\* the connect future completed.  res = "ok" | "refused" | "timedout";
\* lp / pp = local_addr / peer_addr ports of the stream (0 on error).
\* C13: "ends in exactly one of Ok / ConnectionRefused / TimedOut";
\*  Ok       - a matching listener existed during the attempt, the stream's peer
\*             is the listener's address and its own port sent a SYN;
\*  Refused  - only if at some time of the attempt nothing listened (or the
\*             listener was dropped);
\*  TimedOut - only if losses exceeded the budget or the backlog was full.
P_ConnectDone(c, res, lp, pp, obs) ==
    /\ c \in Ports /\ att[c].st = "pending"
    /\ att' = [att EXCEPT ![c].st = res, ![c].port = IF res = "ok" THEN lp ELSE 0]
    /\ ep' = IF res = "ok" /\ lp \in Ports THEN [ep EXCEPT ![<<lp, "c">>].h = "held"] ELSE ep
    /\ ok' = [ok EXCEPT
          !.caps = @ /\ CapsIn(obs),
          !.conn = @ /\ res \in {"ok", "refused", "timedout"}
                     /\ (res = "ok" => /\ att[c].sawUp /\ lp \in synSeen /\ pp = lsn.port
                                       /\ lp \in Ports /\ ep[<<lp, "c">>].h = "none")
                     /\ (res = "refused" => att[c].sawDown)
                     /\ (res = "timedout" => ~premOk \/ att[c].full)]
    /\ UNCHANGED <<lsn, natt, synSeen, accd, flow, drops, premOk, idle, apark>>

\* the connect future was dropped while pending
P_Cancel(c, obs) ==
    /\ c \in Ports /\ att[c].st = "pending"
    /\ att' = [att EXCEPT ![c].st = "cancelled"]
    /\ idle' = 0
    /\ ok' = [ok EXCEPT !.caps = @ /\ CapsIn(obs)]
    /\ UNCHANGED <<lsn, natt, ep, synSeen, accd, flow, drops, premOk, apark>>

\* accept returned a stream: pp = port of the reported peer address, lp = the
\* stream's local port.  C13: "accept hands out each established connection
\* exactly once with matching local and peer addresses".
P_Accept(pp, lp, obs) ==
    /\ accd' = Append(accd, pp)
    /\ ep' = IF pp \in Ports THEN [ep EXCEPT ![<<pp, "s">>].h = "held"] ELSE ep
    /\ idle' = 0
    /\ ok' = [ok EXCEPT
          !.caps = @ /\ CapsIn(obs),
          !.accept = @ /\ pp \in synSeen /\ ~InSeq(pp, accd) /\ lp = lsn.port /\ lsn.st = "up"]
    /\ UNCHANGED <<lsn, att, natt, synSeen, flow, drops, premOk, apark>>

\* a reset is the application's own doing when the peer application no longer
\* holds its stream, or never got one because the listener went away
AppCausedReset(e) ==
    \/ ep[Peer(e)].h = "dropped"
    \/ e[2] = "s" /\ ep[Peer(e)].h # "held"
    \/ e[2] = "c" /\ ep[Peer(e)].h = "none" /\ lsn.st # "up"

\* C06: "the connection is not aborted" under the premise
AbortOk(e, res) ==
    /\ (res = "timedout" => ~premOk)
    /\ (res = "reset" => ~premOk \/ AppCausedReset(e))

PeerClosed(e) == ep[Peer(e)].wfin = "shut" \/ ep[Peer(e)].h = "dropped"

\* try_write(data) on endpoint e returned res = "ok" (k = number of bytes
\* accepted) | "wouldblock" | "reset" | "timedout" | "brokenpipe" | other error (k = 0)
P_Write(e, data, res, k, obs) ==
    /\ e \in EPs /\ ep[e].h = "held"
    /\ (res # "ok" => k = 0)
    /\ /\ ep' = [ep EXCEPT ![e].pend = @ \o SubSeq(data, 1, Min2(k, Len(data))),
                             ![e].nw = @ + Min2(k, Len(data))]
       /\ idle' = IF res = "wouldblock" THEN idle ELSE 0
       /\ ok' = [ok EXCEPT
             !.caps = @ /\ CapsIn(obs) /\ k <= Len(data),
             !.abort = @ /\ AbortOk(e, res),
             \* C06 "neither side is left waiting forever": a writer blocked in a
             \* quiescent state is waiting for its reader, who has bytes to take
             !.prog = @ /\ ((Quiescent /\ premOk /\ res = "wouldblock") =>
                               \E i \in RowsOf(obs, Peer(e)) : obs.q[i].rq > 0)]
    /\ UNCHANGED <<lsn, att, natt, synSeen, accd, flow, drops, premOk, apark>>

\* try_read(buf of n bytes) returned res = "data" (with bytes) | "eof" |
\* "wouldblock" | error (bytes = <<>>)
P_Read(e, n, res, bytes, obs) ==
    /\ e \in EPs /\ ep[e].h = "held"
    /\ (res # "data" => bytes = <<>>)
    /\ LET q == ep[Peer(e)].pend
           good == IsPre(bytes, q)
           unread == q # <<>>
       IN
       /\ ep' = [ep EXCEPT ![Peer(e)].pend = IF good THEN SubSeq(q, Len(bytes) + 1, Len(q)) ELSE q,
                            ![e].eof = @ \/ res = "eof"]
       /\ idle' = IF res = "wouldblock" THEN idle ELSE 0
       /\ ok' = [ok EXCEPT
             !.caps = @ /\ CapsIn(obs) /\ Len(bytes) <= n,
             \* C06 safety half: what a read returns is the next bytes the peer wrote, in order, unaltered
             !.prefix = @ /\ good,
             !.abort = @ /\ AbortOk(e, res),
             \* C06 "every written byte and then end-of-file is delivered ... and
             \* neither side is left waiting forever"
             !.prog = @ /\ ((Quiescent /\ premOk /\ res = "wouldblock") =>
                               ~unread /\ ~PeerClosed(e))]
    /\ UNCHANGED <<lsn, att, natt, synSeen, accd, flow, drops, premOk, apark>>

P_Shutdown(e, res, obs) ==
    /\ e \in EPs /\ ep[e].h = "held"
    /\ ep' = IF res = "ok" THEN [ep EXCEPT ![e].wfin = "shut"] ELSE ep
    /\ idle' = 0
    /\ ok' = [ok EXCEPT !.caps = @ /\ CapsIn(obs), !.abort = @ /\ AbortOk(e, res)]
    /\ UNCHANGED <<lsn, att, natt, synSeen, accd, flow, drops, premOk, apark>>

\* the stream handle was dropped
P_Close(e, obs) ==
    /\ e \in EPs /\ ep[e].h = "held"
    /\ ep' = [ep EXCEPT ![e].h = "dropped"]
    /\ idle' = 0
    /\ ok' = [ok EXCEPT !.caps = @ /\ CapsIn(obs)]
    /\ UNCHANGED <<lsn, att, natt, synSeen, accd, flow, drops, premOk, apark>>

\* UdpSocket::send_to with an n-byte payload: res = "ok" | "err"; npk = packets it produced.
\* C16: "UDP payloads larger than the MTU allows are rejected with an error instead of being sent"
P_Udp(n, res, npk, obs) ==
    /\ idle' = 0
    /\ ok' = [ok EXCEPT !.caps = @ /\ CapsIn(obs),
                        !.udp = @ /\ (n > UdpMax => res = "err" /\ npk = 0)]
    /\ UNCHANGED <<lsn, att, natt, ep, synSeen, accd, flow, drops, premOk, apark>>

\* An accept future (id a) was polled, returned Pending and stays alive: its waker is parked
\* at the listener.
P_APark(a) ==
    /\ apark' = apark \cup {a}
    /\ UNCHANGED <<lsn, att, natt, ep, synSeen, accd, flow, drops, premOk, idle, ok>>

\* Accept future a is no longer parked: it was dropped, or it completed (an accept event follows).
P_AUnpark(a) ==
    /\ apark' = apark \ {a}
    /\ UNCHANGED <<lsn, att, natt, ep, synSeen, accd, flow, drops, premOk, idle, ok>>

\* Sampled after an egress round: woken = ids of accept futures whose waker has been invoked,
\* lq = netstat Recv-Q of the listener.  C13 "accept hands out each established connection" /
\* C06 "neither side is left waiting forever": once the wire is quiescent, a connection that
\* waits in the accept queue while a live accept future is parked has woken such a future.
P_Wakes(woken, lq) ==
    /\ ok' = [ok EXCEPT !.wake = @ /\ ((Quiescent /\ lq > 0 /\ apark # {}) =>
                                          \E a \in apark : InSeq(a, woken))]
    /\ UNCHANGED <<lsn, att, natt, ep, synSeen, accd, flow, drops, premOk, apark, idle>>

---------------------------------------------------------------------------
(* The wire.  A packet is [src, dst, sp, dp, seq, ack, fl, win, data] with  *)
(* sequence numbers relative to the SYN of its flow, fl a string over       *)
(* S A F R P U.                                                             *)

Has(p, c) == \E i \in 1..Len(p.fl) : SubSeq(p.fl, i, i) = c
\* the endpoint that sent / receives a TCP packet (host 1 = connector side)
SenderEp(p)   == IF p.src = 1 THEN <<p.sp, "c">> ELSE <<p.dp, "s">>
ReceiverEp(p) == IF p.dst = 1 THEN <<p.dp, "c">> ELSE <<p.sp, "s">>
IsTcp(p) == ~Has(p, "U")

\* C16 at emission: payload <= MSS, and "never has more bytes in flight than
\* the window its peer last advertised" (the window of the last segment the
\* wire handed to the sender, measured from the highest ack it was handed)
EmitOkMss(p) == IsTcp(p) => Len(p.data) <= Mss
EmitOkWnd(p) ==
    (IsTcp(p) /\ Len(p.data) > 0 /\ SenderEp(p)[1] \in Ports) =>
        p.seq + Len(p.data) - flow[SenderEp(p)].ackd <= flow[SenderEp(p)].lwnd

\* one egress_all round: pk = packets it produced, wlen = packets in flight
\* after the round, maxage = oldest age in flight (rounds)
P_Egress(pk, wlen, maxage, obs) ==
    /\ LET quiet == Len(pk) = 0 /\ wlen = 0
           idle2 == IF quiet THEN Min2(idle + 1, R) ELSE 0
       IN
       /\ idle' = idle2
       /\ premOk' = (premOk /\ maxage <= PremAge)
       /\ synSeen' = synSeen \cup {pk[i].sp : i \in {j \in 1..Len(pk) : IsTcp(pk[j]) /\ pk[j].src = 1 /\ Has(pk[j], "S")}}
       /\ ok' = [ok EXCEPT
             !.caps = @ /\ CapsIn(obs),
             !.mss = @ /\ \A i \in 1..Len(pk) : EmitOkMss(pk[i]),
             \* C16: no UDP datagram above the limit ever reaches the wire
             !.udp = @ /\ \A i \in 1..Len(pk) : (~IsTcp(pk[i]) => Len(pk[i].data) <= UdpMax),
             !.wnd = @ /\ \A i \in 1..Len(pk) : EmitOkWnd(pk[i]),
             \* C13: no connect is still pending once everything has run out
             !.cpend = @ /\ (idle2 >= R => \A c \in Ports : att[c].st # "pending"),
             \* C13: "accept hands out each established connection exactly once": once everything
             \* has settled (premise), every connect that returned Ok while the listener stayed up
             \* and that accept has not returned yet is waiting in the accept queue
             !.offer = @ /\ ((idle2 >= R /\ premOk' /\ lsn.st = "up") =>
                                Cardinality({c \in Ports : att[c].st = "ok" /\ ~att[c].sawDown
                                                            /\ ~InSeq(att[c].port, accd)}) <= obs.lq),
             !.tab = @ /\ ((idle2 >= R /\ premOk') => TablesIn(obs))]
       \* C13 "cancelling a pending connect must not let stale state swallow later connections":
       \* once the wire has been quiescent, an attempt that ended without a stream no longer
       \* occupies backlog room
       /\ att' = IF idle2 >= R
                 THEN [c \in Ports |-> IF att[c].st \in {"cancelled", "refused", "timedout"}
                                       THEN [att[c] EXCEPT !.gone = TRUE] ELSE att[c]]
                 ELSE att
    /\ UNCHANGED <<lsn, natt, ep, accd, flow, drops, apark>>

\* the wire hands packet p (kept for `age` rounds) to its destination host
P_Deliver(p, age, obs) ==
    /\ flow' = IF IsTcp(p) /\ ~Has(p, "R") /\ ReceiverEp(p)[1] \in Ports
               THEN LET e == ReceiverEp(p) IN
                    [flow EXCEPT ![e] =
                        [ackd |-> IF Has(p, "A") THEN Max2(@.ackd, p.ack) ELSE @.ackd,
                         lwnd |-> IF Has(p, "A") \/ @.lwnd = -1 THEN p.win ELSE @.lwnd]]
               ELSE flow
    /\ idle' = 0
    /\ premOk' = (premOk /\ age <= PremAge)
    \* C13 "has backlog room": the accept queue (netstat Recv-Q of the listener) never
    \* holds more established connections than the backlog
    /\ ok' = [ok EXCEPT !.caps = @ /\ CapsIn(obs), !.accept = @ /\ obs.lq <= Backlog]
    /\ UNCHANGED <<lsn, att, natt, ep, synSeen, accd, drops, apark>>

P_Drop(p, obs) ==
    /\ drops' = drops + 1
    \* "fewer than the retransmit budget of any single segment": an RST is never
    \* retransmitted, so losing one is outside the premise of the liveness half
    /\ premOk' = (premOk /\ drops + 1 <= PremD /\ ~(IsTcp(p) /\ Has(p, "R")))
    /\ idle' = 0
    /\ ok' = [ok EXCEPT !.caps = @ /\ CapsIn(obs)]
    /\ UNCHANGED <<lsn, att, natt, ep, synSeen, accd, flow, apark>>

\* start of a new recorded run (trace validation only)
P_Reset ==
    /\ lsn' = [st |-> "none", port |-> 0]
    /\ att' = [c \in Ports |-> NoAtt]
    /\ natt' = 0
    /\ ep' = [e \in EPs |-> NoEp]
    /\ synSeen' = {}
    /\ accd' = <<>>
    /\ flow' = [e \in EPs |-> [ackd |-> 1, lwnd |-> -1]]
    /\ drops' = 0
    /\ premOk' = TRUE
    /\ apark' = {}
    /\ idle' = 0
    /\ ok' = ok

---------------------------------------------------------------------------
(* The properties *)

\* C06 safety half: "the bytes read are always a prefix of the bytes written,
\* in order and unaltered, under every combination of drops, delays, reordering"
PrefixInv == ok.prefix
\* C06: "when the retransmit budget is exhausted the failure surfaces as an
\* error, never as silent loss": end-of-file is only ever reported after every
\* accepted byte, and only once the writer closed
EofOnlyAtEnd == \A e \in EPs : ep[e].eof => (ep[Peer(e)].pend = <<>> /\ PeerClosed(e))
\* C06 liveness half (only under the premise)
NoSpuriousAbort == ok.abort
BoundedProgress == ok.prog
\* C16
CapsOk   == ok.caps
MssOk    == ok.mss
WindowOk == ok.wnd
UdpOk    == ok.udp
\* C13
AcceptOnce  == ok.accept
ConnectRule == ok.conn
Reclaimed   == ok.tab
\* C13: "a connect ends in exactly one of Ok / Refused / TimedOut": none is still
\* pending once every retransmit budget has run out
ConnectCompletes == ok.cpend
AcceptOffered    == ok.offer
AcceptWoken      == ok.wake

C06Safety == PrefixInv /\ EofOnlyAtEnd
C06Inv == PrefixInv /\ EofOnlyAtEnd /\ NoSpuriousAbort /\ BoundedProgress
C16Inv == CapsOk /\ MssOk /\ WindowOk /\ UdpOk
C13Inv == AcceptOnce /\ ConnectRule /\ Reclaimed /\ ConnectCompletes /\ AcceptOffered /\ AcceptWoken
=============================================================================
