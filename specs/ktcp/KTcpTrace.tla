----------------------------- MODULE KTcpTrace -----------------------------
(* Fidelity-level trace validation: every recorded event must be the ImplSpec *)
(* action with the same label, with the result, the packets, the netstat     *)
(* rows, the table counts and the TCB scalars that KTcp predicts.            *)
EXTENDS KTcp, Json, IOUtils

Rec == ndJsonDeserialize(IOEnv.TRACE)

VARIABLE l
E == Rec[l]
Is(e) == l <= Len(Rec) /\ Rec[l].ev = e /\ l' = l + 1

\* the post-state the model predicts equals what the harness saw
Same == ObsOf(ks') = E.obs /\ DumpOf(ks') = E.dump

TInit == Init /\ l = 1

TReset ==
    /\ Is("reset") /\ P_Reset
    /\ ks' = <<NewKernel(1), NewKernel(2)>>
    /\ wire' = <<>>
    /\ cl' = [c \in Ports |-> [st |-> "none", fd |-> 0]]
    /\ sv' = [c \in Ports |-> [st |-> "none", fd |-> 0]]
    /\ lh' = [st |-> "none", fd |-> 0]
    /\ zw' = FALSE
    /\ rwd' = FALSE
    /\ last' = [a |-> "init"]

TAct ==
    \/ Is("listen") /\ Listen
    \/ Is("droplistener") /\ DropListener
    \/ Is("connect") /\ Connect(E.c)
    \/ Is("poll") /\ Poll(E.c) /\ last'.res = E.res /\ last'.lp = E.lp /\ last'.pp = E.pp
    \/ Is("cancel") /\ Cancel(E.c)
    \/ Is("accept") /\ Accept /\ last'.pp = E.pp /\ last'.lp = E.lp
    \* write_vectored on the current shim is AsyncWrite's default: the first non-empty slice only
    \/ Is("write") /\ Write(<<E.p, E.side>>, IF "first" \in DOMAIN E THEN E.first ELSE E.data)
                   /\ last'.res = E.res /\ last'.n = E.n
    \/ Is("read") /\ Read(<<E.p, E.side>>, E.n) /\ last'.res = E.res /\ last'.bytes = E.bytes
    \/ Is("shutdown") /\ Shutdown(<<E.p, E.side>>) /\ last'.res = E.res
    \/ Is("close") /\ Close(<<E.p, E.side>>)
    \/ Is("udp") /\ Udp(E.n, E.mode) /\ last'.res = E.res
    \/ Is("egress") /\ EgressAll /\ last'.pk = E.pk
    \/ Is("deliver") /\ Deliver(E.i) /\ last'.p = E.p
    \/ Is("drop") /\ DropPk(E.i)

\* waker observations have no counterpart in the ImplSpec (it has no wakers): ghosts only
TGhost == /\ \/ Is("apark") /\ P_APark(E.a)
             \/ Is("aunpark") /\ P_AUnpark(E.a)
             \/ Is("wakes") /\ P_Wakes(E.woken, E.lq)
          /\ UNCHANGED <<ks, wire, cl, sv, lh, zw, rwd, last>>

TNext == /\ pfx' = pfx
         /\ \/ TReset
            \/ TAct /\ Same
            \/ TGhost

TSpec == TInit /\ [][TNext]_<<vars, l>>

\* a stall the PropSpec rejects is attributed to a recorded family only if the
\* code did exactly what the model of the defective algorithm does (this trace
\* is accepted) and the family predicate holds where the PropSpec objects
StallOnlyKnown == ProgressOrKnown
AbortOnlyKnown == AbortOrKnown

Accepted ==
    LET d == TLCGet("stats").diameter IN
    IF d - 1 = Len(Rec) THEN TRUE
    ELSE Print(<<"UNMATCHED", d, ToJson(Rec[d])>>, FALSE)
=============================================================================
