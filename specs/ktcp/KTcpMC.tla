------------------------------- MODULE KTcpMC -------------------------------
(* Exhaustive checking of KTcp; the only addition is an ALIAS that prints the *)
(* action label of every state of a counterexample as JSON, so that the       *)
(* counterexample can be executed on the real stack as a behaviour.           *)
EXTENDS KTcp, Json

LabelJson == [lbl |-> ToJson(last), bad |-> {f \in DOMAIN ok : ~ok[f]}]
=============================================================================
