------------------------------ MODULE DetTrace ------------------------------
(***************************************************************************)
(* C01: two simulations built from the same builder settings and running   *)
(* the same programs produce identical observable executions - inside one  *)
(* process and in a fresh process.                                         *)
(*                                                                         *)
(* Determinism is a hyperproperty of the code; the specification is the    *)
(* comparator: four complete traces of the same scenario (A, B recorded in *)
(* one process, C, D each in a fresh OS process) are consumed in lock      *)
(* step.  Position l advances on all four at once, and the step is enabled *)
(* only if the four records at l are equal.  Acceptance (POSTCONDITION) =  *)
(* everything was consumed and the four traces have equal lengths.  On     *)
(* rejection the first diverging position and the four records found there *)
(* are printed.                                                            *)
(*                                                                         *)
(* A record is a flat JSON object whose values are strings: a tracing event of  *)
(* target "turmoil" (message, src, dst, protocol, ...), a program-level    *)
(* observation with the observing host's virtual timestamps, a controller  *)
(* action, a Sim::step / Sim::run result with Sim::elapsed, or a           *)
(* `scenario` separator (several scenarios may be concatenated).           *)
(***************************************************************************)
EXTENDS Naturals, Sequences, Json, IOUtils, TLC

A == ndJsonDeserialize(IOEnv.TRACE_A)
B == ndJsonDeserialize(IOEnv.TRACE_B)
C == ndJsonDeserialize(IOEnv.TRACE_C)
D == ndJsonDeserialize(IOEnv.TRACE_D)

VARIABLE l      \* next position, the same in all four traces

Init == l = 1

InAll(k) == k <= Len(A) /\ k <= Len(B) /\ k <= Len(C) /\ k <= Len(D)

\* Records are flat: functions from field paths to strings (the driver writes
\* `{"v":{"res":8}}` as `{"v.res":"8"}`), so equality compares strings only.
SameRec(x, y) == DOMAIN x = DOMAIN y /\ x = y

\* "produce identical observable executions": same record at the same position
SameAt(k) == SameRec(A[k], B[k]) /\ SameRec(A[k], C[k]) /\ SameRec(A[k], D[k])

Step == InAll(l) /\ SameAt(l) /\ l' = l + 1

Spec == Init /\ [][Step]_l

EqualLengths == Len(A) = Len(B) /\ Len(A) = Len(C) /\ Len(A) = Len(D)

RecAt(T, k) == IF k <= Len(T) THEN ToJson(T[k]) ELSE "<end of trace>"

Accepted ==
    LET d == TLCGet("stats").diameter IN      \* = number of records consumed + 1
    IF d - 1 = Len(A) /\ EqualLengths THEN TRUE
    ELSE /\ PrintT(<<"DIVERGE", d, RecAt(A, d), RecAt(B, d), RecAt(C, d), RecAt(D, d)>>)
         /\ Print(<<"UNMATCHED", d, RecAt(A, d)>>, FALSE)
=============================================================================
