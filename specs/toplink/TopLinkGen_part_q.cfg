SPECIFICATION GenSpec
CONSTANTS
  N = 2
  Tick = 2
  GMin = 1
  GMax = 1
  LatChoices = {0, 3}
  MaxChoices = {}
  Offsets = {0}
  RandomOrder = FALSE
  CtlOps = {"partition", "partition_oneway", "repair", "repair_oneway"}
  HostCtlOps = {"partition_oneway"}
  AllowManual = FALSE
  FailModes = {FALSE}
  MaxMsgs = 2
  MaxSteps = 3
  MaxCtl = 2
  MaxLatCtl = 1
INVARIANTS
  Emit
  C03Inv
CHECK_DEADLOCK FALSE
