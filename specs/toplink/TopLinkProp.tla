---------------------------- MODULE TopLinkProp ----------------------------
(***************************************************************************)
(* PropSpec for the turmoil link layer: C03 (explicit partitions), C08     *)
(* (hold / release / manual delivery) and C14 (latency window, order).     *)
(*                                                                         *)
(* Only what the statements talk about: the partition / repair / hold /    *)
(* release calls the test made, the messages that were sent (with the      *)
(* virtual instant, the latency configuration in force and - when the      *)
(* verification hook is on - the sampled latency), and what each host      *)
(* received and when.  No link states, queues or maturity bookkeeping.     *)
(*                                                                         *)
(* The module is used three ways:                                          *)
(*   - TopLink.tla (the ImplSpec) extends it and drives the P_* actions    *)
(*     as ghosts, so TLC checks "ImplSpec => these invariants";            *)
(*   - TopLinkPropTrace.tla replays observation events recorded from the   *)
(*     real code through the P_* actions alone (the verdict);              *)
(*   - TopLinkTrace.tla replays full event traces through TopLink.         *)
(***************************************************************************)
EXTENDS Naturals, Integers, Sequences, FiniteSets

CONSTANTS N,        \* number of hosts, identified 1..N in address order
          Tick      \* tick duration in ms

Hosts  == 1..N
Dirs   == {d \in Hosts \X Hosts : d[1] # d[2]}
PairOf(a, b) == IF a < b THEN <<a, b>> ELSE <<b, a>>
Pairs  == {d \in Dirs : d[1] < d[2]}

VARIABLES
    pstep,     \* number of Sim::step calls begun so far (link clock = pstep * Tick)
    explicit,  \* [Dirs -> BOOLEAN]  changed only by partition / repair calls
    heldDir,   \* [Dirs -> BOOLEAN]  changed by hold / release (and cleared by partition / repair)
    failOn,    \* BOOLEAN: random link failure configured (fail_rate > 0)
    msgs,      \* sequence of message records, index = message id (issued in send order)
    rcvd,      \* [Hosts -> Seq([id, at, step])]  application-level receipts
    linksOk    \* result of the last Sim::links comparison (TRUE unless a snapshot disagreed)

pvars == <<pstep, explicit, heldDir, failOn, msgs, rcvd, linksOk>>

NetNow == pstep * Tick

CeilDiv(a, b) == (a + b - 1) \div b

PInit ==
    /\ pstep = 0
    /\ explicit = [d \in Dirs |-> FALSE]
    /\ heldDir = [d \in Dirs |-> FALSE]
    /\ failOn \in BOOLEAN
    /\ msgs = <<>>
    /\ rcvd = [h \in Hosts |-> <<>>]
    /\ linksOk = TRUE

Ids == 1..Len(msgs)

ReceivedIds == UNION {{rcvd[h][k].id : k \in 1..Len(rcvd[h])} : h \in Hosts}

\* Latency to reason with: the sampled one when known, otherwise unknown (-1).
KnownLat(m) == m.lat >= 0

\* "In flight" in the sense of the statements: sent, latency not yet elapsed on
\* the link clock.  Only decidable when the latency is known.
DeliverAt(m)  == m.sendNet + m.lat
InFlightByTime(m) == KnownLat(m) /\ DeliverAt(m) > NetNow

---------------------------------------------------------------------------
(* Observation actions *)

P_Step == /\ pstep' = pstep + 1
          /\ UNCHANGED <<explicit, heldDir, failOn, msgs, rcvd, linksOk>>

\* A send by host src to host dst at host instant t.  lat = sampled latency
\* (ms) or -1 when unknown / not sampled (held or dropped at send).
\* A send on a link is the one moment (besides a step) at which the link hands
\* over messages whose latency has elapsed: messages released earlier in this
\* step can no longer be assumed to be still queued on the link.
Touched(src, dst) ==
    [i \in Ids |->
        IF PairOf(msgs[i].src, msgs[i].dst) = PairOf(src, dst) /\ msgs[i].relClean
        THEN [msgs[i] EXCEPT !.relClean = FALSE] ELSE msgs[i]]
\* kind: "dgram" = a datagram handed to the receiving application, in arrival order;
\*       "probe" = a TCP segment for a stream its receiver has already dropped: the receiving host
\*                 answers it itself (no application sees it; its arrival shows only through the answer);
\*       "rst"   = that answer, sent by the host itself at the start of its turn (off = 0); its arrival
\*                 shows as the reset of the sender's stream, not as an item in an ordered queue.
P_SendK(src, dst, t, lat, cmin, cmax, kind) ==
    /\ msgs' = Append(Touched(src, dst),
          [src |-> src, dst |-> dst, kind |-> kind, sendTime |-> t, sendStep |-> pstep,
           sendNet |-> NetNow, lat |-> lat, cfgMin |-> cmin, cfgMax |-> cmax,
           explAtSend |-> explicit[<<src, dst>>],
           heldAtSend |-> heldDir[<<src, dst>>],
           heldEver   |-> heldDir[<<src, dst>>],
           doomed |-> FALSE, relStep |-> 0, relAmbig |-> FALSE, relClean |-> FALSE, unspec |-> FALSE,
           failAtSend |-> failOn])
    /\ UNCHANGED <<pstep, explicit, heldDir, failOn, rcvd, linksOk>>
P_Send(src, dst, t, lat, cmin, cmax) == P_SendK(src, dst, t, lat, cmin, cmax, "dgram")

P_Recv(id, h, at) ==
    /\ rcvd' = [rcvd EXCEPT ![h] = Append(@, [id |-> id, at |-> at, step |-> pstep])]
    /\ UNCHANGED <<pstep, explicit, heldDir, failOn, msgs, linksOk>>

\* Does message i travel in one of the directions ds and is it still pending
\* (not received)?
Pending(i)      == i \notin ReceivedIds
InDirs(i, ds)   == <<msgs[i].src, msgs[i].dst>> \in ds

\* partition-type call hitting directions ds: in-flight messages are doomed;
\* messages that were ever held are outside C03's alphabet -> unspecified.
DoomIn(ds) ==
    [i \in Ids |->
        IF InDirs(i, ds) /\ Pending(i) /\ ~msgs[i].explAtSend
        THEN IF msgs[i].heldEver
             THEN [msgs[i] EXCEPT !.unspec = TRUE]
             ELSE IF InFlightByTime(msgs[i]) THEN [msgs[i] EXCEPT !.doomed = TRUE]
             ELSE IF KnownLat(msgs[i]) THEN msgs[i]
             ELSE [msgs[i] EXCEPT !.unspec = TRUE]
        ELSE msgs[i]]

\* repair-type call on a held direction: held messages stay parked (Sim::repair
\* "without releasing any held messages"); outside both alphabets -> unspecified.
UnspecHeldIn(ds) ==
    [i \in Ids |->
        IF InDirs(i, ds) /\ Pending(i) /\ msgs[i].heldEver
        THEN [msgs[i] EXCEPT !.unspec = TRUE] ELSE msgs[i]]

BothDirs(a, b) == {<<a, b>>, <<b, a>>}

\* by = "ctl" (Sim handle, between steps) or "host" (free function from host code)
P_Ctl(op, a, b, by) ==
    /\ UNCHANGED <<pstep, failOn, rcvd, linksOk>>
    /\ CASE op = "partition" ->
              /\ explicit' = [d \in Dirs |-> IF d \in BothDirs(a, b) THEN TRUE ELSE explicit[d]]
              /\ heldDir'  = [d \in Dirs |-> IF d \in BothDirs(a, b) THEN FALSE ELSE heldDir[d]]
              /\ msgs' = DoomIn(BothDirs(a, b))
         [] op = "partition_oneway" ->
              /\ explicit' = [explicit EXCEPT ![<<a, b>>] = TRUE]
              /\ heldDir'  = [heldDir EXCEPT ![<<a, b>>] = FALSE]
              /\ msgs' = DoomIn({<<a, b>>})
         [] op = "repair" ->
              \* Sim::repair on a held link makes it healthy "without releasing any held
              \* messages" (new sends flow, the parked ones wait for release): nothing
              \* changes for the messages already held.
              /\ explicit' = [d \in Dirs |-> IF d \in BothDirs(a, b) THEN FALSE ELSE explicit[d]]
              /\ heldDir'  = [d \in Dirs |-> IF d \in BothDirs(a, b) THEN FALSE ELSE heldDir[d]]
              /\ msgs' = msgs
         [] op = "repair_oneway" ->
              /\ explicit' = [explicit EXCEPT ![<<a, b>>] = FALSE]
              /\ heldDir'  = [heldDir EXCEPT ![<<a, b>>] = FALSE]
              /\ msgs' = UnspecHeldIn({<<a, b>>})
         [] op = "hold" ->
              \* both directions become held; messages in flight become held;
              \* messages released in this very step may or may not be caught
              \* again (depends on whether the link was touched in between).
              /\ heldDir' = [d \in Dirs |-> IF d \in BothDirs(a, b) THEN TRUE ELSE heldDir[d]]
              /\ explicit' = explicit
              /\ msgs' = [i \in Ids |->
                   IF InDirs(i, BothDirs(a, b)) /\ Pending(i)
                   THEN IF msgs[i].heldEver
                        THEN IF msgs[i].relStep = 0 THEN msgs[i]
                             ELSE IF msgs[i].relStep = pstep
                                  THEN IF msgs[i].relClean
                                       \* released, and nothing happened on the link since:
                                       \* still in flight, so the new hold catches it again
                                       THEN [msgs[i] EXCEPT !.relStep = 0, !.relClean = FALSE, !.relAmbig = FALSE]
                                       ELSE [msgs[i] EXCEPT !.unspec = TRUE]
                                  ELSE msgs[i]
                        ELSE IF msgs[i].explAtSend \/ msgs[i].doomed THEN msgs[i]
                        ELSE IF InFlightByTime(msgs[i]) THEN [msgs[i] EXCEPT !.heldEver = TRUE]
                        ELSE IF KnownLat(msgs[i]) THEN msgs[i]
                        ELSE [msgs[i] EXCEPT !.unspec = TRUE]
                   ELSE msgs[i]]
         [] op = "release" ->
              /\ heldDir' = [d \in Dirs |-> IF d \in BothDirs(a, b) THEN FALSE ELSE heldDir[d]]
              /\ explicit' = explicit
              /\ msgs' = [i \in Ids |->
                   IF InDirs(i, BothDirs(a, b)) /\ Pending(i) /\ msgs[i].heldEver /\ msgs[i].relStep = 0
                   THEN [msgs[i] EXCEPT !.relStep = pstep, !.relAmbig = (by = "host"), !.relClean = TRUE]
                   ELSE msgs[i]]

\* SentRef::deliver on message id (only possible from the Sim handle).
P_ManualDeliver(id) ==
    /\ msgs' = [msgs EXCEPT ![id] =
                   IF @.heldEver
                   THEN IF @.relStep = 0 THEN [@ EXCEPT !.relStep = pstep, !.relClean = TRUE] ELSE @
                   ELSE \* forcing a message that was merely in flight: arrives early
                        [@ EXCEPT !.heldEver = TRUE, !.relStep = pstep, !.relClean = TRUE]]
    /\ UNCHANGED <<pstep, explicit, heldDir, failOn, rcvd, linksOk>>

\* What Sim::links must show for pair p when inspected between steps.
ExpectedInFlight(p) ==
    {i \in Ids :
        /\ PairOf(msgs[i].src, msgs[i].dst) = p
        /\ Pending(i) /\ ~msgs[i].explAtSend /\ ~msgs[i].doomed
        /\ \/ msgs[i].heldEver /\ (msgs[i].relStep = 0 \/ msgs[i].relStep = pstep)
           \/ ~msgs[i].heldEver /\ InFlightByTime(msgs[i])}

LinksDecidable(p) ==
    /\ ~failOn
    /\ \A i \in Ids : PairOf(msgs[i].src, msgs[i].dst) = p /\ Pending(i) =>
           /\ ~msgs[i].unspec /\ ~msgs[i].relAmbig /\ ~msgs[i].failAtSend
           /\ (msgs[i].heldEver \/ msgs[i].explAtSend \/ KnownLat(msgs[i]))

\* snap = what Sim::links showed between steps: a sequence of [a, b, ids]
PairLinksOk(p, ids) ==
    LinksDecidable(p) =>
        /\ {ids[k] : k \in 1..Len(ids)} = ExpectedInFlight(p)
        /\ \A j, k \in 1..Len(ids) : j < k => ids[j] < ids[k]
P_Links(snap) ==
    /\ linksOk' = (linksOk /\ \A k \in 1..Len(snap) :
                                 PairLinksOk(PairOf(snap[k].a, snap[k].b), snap[k].ids))
    /\ UNCHANGED <<pstep, explicit, heldDir, failOn, msgs, rcvd>>

\* Start of a new recorded run (trace validation only)
P_Reset(f) ==
    /\ pstep' = 0
    /\ explicit' = [d \in Dirs |-> FALSE]
    /\ heldDir' = [d \in Dirs |-> FALSE]
    /\ failOn' = f
    /\ msgs' = <<>>
    /\ rcvd' = [h \in Hosts |-> <<>>]
    /\ linksOk' = TRUE

---------------------------------------------------------------------------
(* The properties.  R(h,k) is the k-th receipt of host h. *)

R(h, k) == rcvd[h][k]
M(h, k) == msgs[rcvd[h][k].id]
SameDirection(i, j) == msgs[i].src = msgs[j].src /\ msgs[i].dst = msgs[j].dst

\* every receipt is of a message that exists and was addressed to this host
Wellformed == \A h \in Hosts : \A k \in 1..Len(rcvd[h]) :
                 R(h, k).id \in Ids /\ M(h, k).dst = h

\* C03 (never-delivered half; every fail / repair rate)
NoDeliveryAcrossExplicit ==
    \A h \in Hosts : \A k \in 1..Len(rcvd[h]) :
        ~M(h, k).explAtSend /\ ~M(h, k).doomed

\* C03 (keeps-flowing half) and C14 (every message on a healthy link is delivered):
\* only with fail_rate = 0.
\* The statement bounds the delay by the configured maximum plus one tick (not by the
\* sampled latency): a message sent in step s is received by the end of step
\* s + ceil(max / Tick) + 1.
MustArriveBy(m) == m.sendStep + CeilDiv(m.cfgMax, Tick) + 1
FlowsWhenNotPartitioned ==
    \A i \in Ids :
        LET m == msgs[i] IN
        (~m.failAtSend /\ ~failOn /\ ~m.explAtSend /\ ~m.doomed /\ ~m.heldEver /\ ~m.unspec
            /\ m.kind # "probe"      \* no application observes the arrival of a probe
            /\ pstep > MustArriveBy(m))
        => i \in ReceivedIds

\* C08
AtMostOnce ==
    \A h \in Hosts : \A j, k \in 1..Len(rcvd[h]) : j # k => R(h, j).id # R(h, k).id
OnlyOneHost ==
    \A g, h \in Hosts : g # h =>
        {rcvd[g][k].id : k \in 1..Len(rcvd[g])} \cap {rcvd[h][k].id : k \in 1..Len(rcvd[h])} = {}

HeldNotDelivered ==
    \A h \in Hosts : \A k \in 1..Len(rcvd[h]) :
        (M(h, k).heldEver /\ ~M(h, k).unspec)
            => (M(h, k).relStep # 0 /\ R(h, k).step >= M(h, k).relStep)

ReleasedArrive ==
    \A i \in Ids :
        LET m == msgs[i] IN
        (m.heldEver /\ m.relStep # 0 /\ ~m.unspec /\ ~m.doomed /\ ~m.explAtSend
            /\ ~m.failAtSend /\ ~failOn /\ m.kind # "probe"
            \* the statement sets no deadline for a released message; allow a full
            \* latency window after the release before calling it lost
            /\ pstep > m.relStep + CeilDiv(m.cfgMax, Tick) + 2)
        => i \in ReceivedIds

FifoOnRelease ==
    \A h \in Hosts : \A j, k \in 1..Len(rcvd[h]) :
        (j < k /\ SameDirection(R(h, j).id, R(h, k).id)
             /\ M(h, j).heldEver /\ M(h, k).heldEver
             /\ M(h, j).kind = "dgram" /\ M(h, k).kind = "dgram"    \* arrival order observable
             /\ ~M(h, j).unspec /\ ~M(h, k).unspec
             /\ M(h, j).relStep = M(h, k).relStep)
        => R(h, j).id < R(h, k).id

LinksShowInFlight == linksOk

\* C14
LatencyWindow ==
    \A h \in Hosts : \A k \in 1..Len(rcvd[h]) :
        (~M(h, k).heldEver)
        => /\ R(h, k).at - M(h, k).sendTime >= M(h, k).cfgMin - Tick
           /\ R(h, k).at - M(h, k).sendTime <= M(h, k).cfgMax + Tick
SampleWithinConfig ==
    \A i \in Ids : KnownLat(msgs[i]) => msgs[i].lat >= msgs[i].cfgMin /\ msgs[i].lat <= msgs[i].cfgMax

EqualLatency(m1, m2) ==
    \/ KnownLat(m1) /\ KnownLat(m2) /\ m1.lat = m2.lat
    \/ m1.cfgMin = m1.cfgMax /\ m2.cfgMin = m2.cfgMax /\ m1.cfgMin = m2.cfgMin
FifoEqualLatency ==
    \A h \in Hosts : \A j, k \in 1..Len(rcvd[h]) :
        (j < k /\ SameDirection(R(h, j).id, R(h, k).id)
             /\ ~M(h, j).heldEver /\ ~M(h, k).heldEver
             /\ M(h, j).kind = "dgram" /\ M(h, k).kind = "dgram"
             /\ EqualLatency(M(h, j), M(h, k)))
        => R(h, j).id < R(h, k).id

PropInv ==
    /\ Wellformed
    /\ NoDeliveryAcrossExplicit
    /\ FlowsWhenNotPartitioned
    /\ AtMostOnce /\ OnlyOneHost
    /\ HeldNotDelivered /\ ReleasedArrive /\ FifoOnRelease /\ LinksShowInFlight
    /\ LatencyWindow /\ SampleWithinConfig /\ FifoEqualLatency

C03Inv == Wellformed /\ NoDeliveryAcrossExplicit /\ FlowsWhenNotPartitioned
C08Inv == Wellformed /\ AtMostOnce /\ OnlyOneHost /\ HeldNotDelivered /\ ReleasedArrive
            /\ FifoOnRelease /\ LinksShowInFlight /\ FlowsWhenNotPartitioned
C14Inv == Wellformed /\ LatencyWindow /\ SampleWithinConfig /\ FifoEqualLatency
            /\ FlowsWhenNotPartitioned
=============================================================================
