---------------------------- MODULE TopLinkGen ----------------------------
(* Behaviour generation for spec -> code replay: TopLink plus a history     *)
(* variable; every complete behaviour (MaxSteps steps) is printed as one    *)
(* JSON line.  step_end entries carry the observation TLC predicts.         *)
EXTENDS TopLink, Json

VARIABLE hist

Done == pstep = MaxSteps /\ phase = "ctl" /\ last.a = "step_end"

Entry ==
    IF last'.a = "step_end"
    THEN [a |-> "step_end", step |-> pstep',
          rcvd |-> rcvd', links |-> [k \in 1..Len(LinkSeq) |->
                         [k2 \in 1..Len(sent'[LinkSeq[k]]) |-> sent'[LinkSeq[k]][k2].id]]]
    ELSE last'

GenInit == Init /\ hist = <<>>
GenNext == ~Done /\ Next /\ hist' = Append(hist, Entry)
GenSpec == GenInit /\ [][GenNext]_<<vars, hist>>

Emit == Done => PrintT(<<"REPLAY", ToJson(hist)>>)
=============================================================================
