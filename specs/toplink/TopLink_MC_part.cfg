SPECIFICATION Spec
CONSTANTS
  N = 2
  Tick = 2
  GMin = 0
  GMax = 3
  LatChoices = {}
  MaxChoices = {}
  Offsets = {0}
  RandomOrder = FALSE
  CtlOps = {"partition", "partition_oneway", "repair", "repair_oneway"}
  HostCtlOps = {"partition_oneway", "repair"}
  AllowManual = FALSE
  MaxMsgs = 3
  MaxSteps = 4
  MaxCtl = 3
INVARIANTS
  C03Inv
  C14Inv
  ImplInv
VIEW View
CHECK_DEADLOCK FALSE
