---------------------------- MODULE TopLinkTrace ----------------------------
(* Fidelity-level trace validation: full event traces recorded from the     *)
(* real code (application observations + turmoil's tracing events + the     *)
(* guarded hooks) must be behaviours of the ImplSpec TopLink; ImplInv and   *)
(* PropInv are evaluated in every state.                                    *)
EXTENDS TopLink, Json, IOUtils

Rec == ndJsonDeserialize(IOEnv.TRACE)

VARIABLE l
E == Rec[l]
Is(e) == l <= Len(Rec) /\ Rec[l].ev = e /\ l' = l + 1

TInit == Init /\ failOn = FALSE /\ l = 1

TReset ==
    /\ Is("reset") /\ P_Reset(E.fail)
    /\ phase' = "ctl" /\ todo' = {} /\ cur' = 0
    /\ lstate' = [d \in Dirs |-> "Healthy"]
    /\ gmax' = GMax
    /\ lover' = [p \in Pairs |-> <<>>]
    /\ sent' = [p \in Pairs |-> <<>>]
    /\ dlv' = [p \in Pairs |-> [h \in Hosts |-> <<>>]]
    /\ pend' = <<>>
    /\ nctl' = 0 /\ nlat' = 0
    /\ last' = [a |-> "init"]

KindOf(e) == IF "kind" \in DOMAIN e THEN e.kind ELSE "dgram"
TSend ==
    /\ Is("send") /\ cur = E.src
    /\ LET lat == IF E.lat >= 0 THEN E.lat ELSE EffMin(PairOf(E.src, E.dst)) IN
       \E cr \in BOOLEAN :
         IF KindOf(E) = "rst"
         THEN ReplySend(E.cf, cr, lat) /\ last'.dst = E.dst
         ELSE HostSend(E.dst, E.off, E.cf, cr, lat, KindOf(E))
    /\ last'.id = E.id /\ last'.outcome = E.outcome
    /\ last'.sab = E.sab /\ last'.sba = E.sba
    /\ msgs'[E.id].sendTime = E.t
    /\ msgs'[E.id].cfgMin = E.cmin /\ msgs'[E.id].cfgMax = E.cmax

TRecv ==   \* application-level receipt: must already be in the model's rcvd
    /\ Is("recv")
    /\ \E k \in 1..Len(rcvd[E.h]) : rcvd[E.h][k].id = E.id /\ rcvd[E.h][k].at = E.at
    /\ UNCHANGED vars

TLinks ==
    /\ Is("links") /\ phase = "ctl"
    /\ \A k \in 1..Len(E.pairs) :
          LET p == PairOf(E.pairs[k].a, E.pairs[k].b) IN
          E.pairs[k].ids = [j \in 1..Len(sent[p]) |-> sent[p][j].id]
    /\ Len(E.pairs) = Cardinality(Pairs)
    /\ P_Links(E.pairs)
    /\ last' = [a |-> "links"]
    /\ UNCHANGED ivars

TSetLat ==
    /\ Is("setlat")
    /\ LET p == PairOf(E.a, E.b) IN
       CASE E.kind = "link" -> SetLinkLatency(p, E.v)
         [] E.kind = "linkmax" -> SetLinkMaxLatency(p, E.v)
         [] E.kind = "max" -> SetMaxLatency(E.v)

TNext ==
    \/ TReset
    \/ Is("step") /\ StepBegin
    \/ Is("turn") /\ TurnBegin(E.h) /\ last'.got = E.got
    \/ Is("step_end") /\ StepEnd
    \/ TSend
    \/ TRecv
    \/ Is("ctl") /\ Ctl(E.op, E.a, E.b) /\ By = E.by
    \/ Is("manual") /\ ManualDeliver(PairOf(E.a, E.b), E.k) /\ last'.id = E.id
    \/ TLinks
    \/ TSetLat

TSpec == TInit /\ [][TNext]_<<vars, l>>

Accepted ==
    LET d == TLCGet("stats").diameter IN
    IF d - 1 = Len(Rec) THEN TRUE
    ELSE Print(<<"UNMATCHED", d, ToJson(Rec[d])>>, FALSE)
=============================================================================
