------------------------- MODULE TopLinkPropTrace -------------------------
(* Verdict-level trace validation: observation events recorded from the     *)
(* real code are replayed through the P_* actions of TopLinkProp; PropInv   *)
(* is evaluated in every state.  Implementation-only events are skipped.    *)
EXTENDS TopLinkProp, Json, IOUtils, TLC

Rec == ndJsonDeserialize(IOEnv.TRACE)

VARIABLE l
E == Rec[l]
Is(e) == l <= Len(Rec) /\ Rec[l].ev = e /\ l' = l + 1

TInit == PInit /\ failOn = FALSE /\ l = 1

TNext ==
    \/ Is("reset") /\ P_Reset(E.fail)
    \/ Is("step") /\ P_Step
    \/ Is("send") /\ P_SendK(E.src, E.dst, E.t, E.lat, E.cmin, E.cmax,
                            IF "kind" \in DOMAIN E THEN E.kind ELSE "dgram") /\ Len(msgs) + 1 = E.id
    \/ Is("recv") /\ P_Recv(E.id, E.h, E.at)
    \/ Is("ctl") /\ P_Ctl(E.op, E.a, E.b, E.by)
    \/ Is("manual") /\ P_ManualDeliver(E.id)
    \/ Is("links") /\ P_Links(E.pairs)
    \/ /\ l <= Len(Rec) /\ Rec[l].ev \in {"turn", "step_end", "setlat"}
       /\ l' = l + 1 /\ UNCHANGED pvars

TSpec == TInit /\ [][TNext]_<<pvars, l>>

Accepted ==
    LET d == TLCGet("stats").diameter IN
    IF d - 1 = Len(Rec) THEN TRUE
    ELSE Print(<<"UNMATCHED", d, ToJson(Rec[d])>>, FALSE)
=============================================================================
