------------------------------ MODULE TopLink ------------------------------
(***************************************************************************)
(* ImplSpec of turmoil's link layer (crates/turmoil/src/top.rs) and the    *)
(* part of the step loop (sim.rs:418-528) that moves messages.             *)
(*                                                                         *)
(* One action per critical section of the Rust code:                       *)
(*   StepBegin   = Topology::tick_by (clock += Tick, process_deliverables  *)
(*                 on every link) + choice of the host order               *)
(*   TurnBegin   = Topology::deliver_messages for the next host            *)
(*   HostSend    = Link::enqueue_message = rand_partition_or_repair ;      *)
(*                 enqueue ; process_deliverables                          *)
(*   ReplySend   = the enqueue_message that Link::deliver_messages makes   *)
(*                 for a segment the receiving host refused (TCP RST)      *)
(*   Ctl         = hold / release / partition / partition_oneway / repair  *)
(*                 / repair_oneway, from the Sim handle or from host code  *)
(*   ManualDeliver = SentRef::deliver,  SetLat* = latency setters          *)
(*   StepEnd                                                               *)
(* The property-level ghosts of TopLinkProp are driven alongside.          *)
(***************************************************************************)
EXTENDS TopLinkProp, SequencesExt, TLC

CONSTANTS GMin, GMax,     \* global min / max message latency (ms) from the Builder
          LatChoices,     \* values the controller may pass to set_link_latency
          MaxChoices,     \* values for set_link_max_message_latency / set_max_message_latency
          Offsets,        \* in-step instants (ms, < Tick) at which host code may send
          RandomOrder,    \* Builder::enable_random_order
          CtlOps,         \* control operations in the alphabet of this configuration
          HostCtlOps,     \* the subset that host code may issue during its turn
          AllowManual,    \* SentRef::deliver in the alphabet
          FailModes,      \* subset of BOOLEAN: fail_rate > 0 configured or not
          Kinds,          \* what host code may send: subset of {"dgram", "probe"} (a probe is a TCP data
                          \* segment for a stream the receiving host has already dropped: the host
                          \* answers it with an RST when it is delivered)
          RegOrder,       \* the hosts in registration order (hosts are numbered in ADDRESS order; the
                          \* two orders differ when addresses were looked up before registration)
          MaxMsgs, MaxSteps, MaxCtl, MaxLatCtl

VARIABLES
    phase,    \* "ctl" (between steps, the test thread runs) or "turn"
    todo,     \* set of hosts that still get a turn in this step
    cur,      \* host whose software is running, 0 if none
    lstate,   \* [Dirs -> {"Healthy","Explicit","Rand","Hold"}]   Link::state_a_b / state_b_a
    gmax,     \* global max latency (Topology::config)
    lover,    \* [Pairs -> <<>> or [min, max]]   Link::config.latency
    sent,     \* [Pairs -> Seq([id, src, dst, st])]  st = deliver-after instant, -1 = Hold
    dlv,      \* [Pairs -> [Hosts -> Seq(id)]]      Link::deliverable
    pend,     \* probes handed to `cur` at the start of its turn that it has not answered yet
    nctl,     \* number of control calls made (bound only)
    nlat,     \* number of latency setter calls made (bound only)
    last      \* label of the action that led here (for behaviour extraction)

ivars == <<phase, todo, cur, lstate, gmax, lover, sent, dlv, pend, nctl, nlat>>
vars  == <<pvars, ivars, last>>

\* registration orders usable from a configuration file (RegOrder <- RegXYZ)
Reg12 == <<1, 2>>          Reg21 == <<2, 1>>
Reg123 == <<1, 2, 3>>      Reg231 == <<2, 3, 1>>      Reg321 == <<3, 2, 1>>
Reg1234 == <<1, 2, 3, 4>>  Reg3142 == <<3, 1, 4, 2>>

\* links in registration order: the k-th registered host creates its links to the hosts
\* registered before it, in their registration order (World::register)
RegPos(h) == CHOOSE i \in 1..N : RegOrder[i] = h
Later(p)   == IF RegPos(p[1]) > RegPos(p[2]) THEN RegPos(p[1]) ELSE RegPos(p[2])
Earlier(p) == IF RegPos(p[1]) > RegPos(p[2]) THEN RegPos(p[2]) ELSE RegPos(p[1])
LinkLess(p, q) == Later(p) < Later(q) \/ (Later(p) = Later(q) /\ Earlier(p) < Earlier(q))
LinkSeq == SetToSortSeq(Pairs, LinkLess)

EffMin(p) == IF lover[p] = <<>> THEN GMin ELSE lover[p].min
EffMax(p) == IF lover[p] = <<>> THEN gmax ELSE lover[p].max

Init ==
    /\ PInit /\ failOn \in FailModes
    /\ phase = "ctl" /\ todo = {} /\ cur = 0
    /\ lstate = [d \in Dirs |-> "Healthy"]
    /\ gmax = GMax
    /\ lover = [p \in Pairs |-> <<>>]
    /\ sent = [p \in Pairs |-> <<>>]
    /\ dlv = [p \in Pairs |-> [h \in Hosts |-> <<>>]]
    /\ pend = <<>>
    /\ nctl = 0 /\ nlat = 0
    /\ last = [a |-> "init"]

---------------------------------------------------------------------------
\* Link::process_deliverables on one link at link-clock `now`
IsMature(e, now) == e.st >= 0 /\ e.st <= now
PDsent(s, now) == SelectSeq(s, LAMBDA e : ~IsMature(e, now))
PDdlv(s, d, now) ==
    [h \in Hosts |-> d[h] \o
        LET ms == SelectSeq(s, LAMBDA e : IsMature(e, now) /\ e.dst = h)
        IN  [k \in 1..Len(ms) |-> ms[k].id]]

StepBegin ==
    /\ phase = "ctl" /\ pstep < MaxSteps
    /\ P_Step
    /\ LET now == (pstep + 1) * Tick IN
       /\ sent' = [p \in Pairs |-> PDsent(sent[p], now)]
       /\ dlv'  = [p \in Pairs |-> PDdlv(sent[p], dlv[p], now)]
    /\ phase' = "turn" /\ cur' = 0 /\ todo' = Hosts
    /\ last' = [a |-> "step_begin"]
    /\ UNCHANGED <<lstate, gmax, lover, pend, nctl, nlat>>

\* Topology::deliver_messages(dst = h): every link with h, in registration order
RECURSIVE Drained(_, _)
Drained(h, k) ==   \* ids handed to h from the first k links of LinkSeq
    IF k = 0 THEN <<>>
    ELSE Drained(h, k - 1) \o (IF h \in {LinkSeq[k][1], LinkSeq[k][2]} THEN dlv[LinkSeq[k]][h] ELSE <<>>)

\* The hosts run in registration order (Sim::rts is an IndexMap filled by Sim::host), or in an order shuffled with the world
\* rng (Builder::enable_random_order): any remaining host may be next.
\* Link::deliver_messages hands every deliverable message to the host; a segment the host refuses
\* (a probe) is answered on the spot, link by link, before the host's software runs: ReplySend.
TurnBegin(h) ==
    /\ phase = "turn" /\ h \in todo /\ pend = <<>>
    /\ (RandomOrder \/ \A g \in todo : RegPos(h) <= RegPos(g))
    /\ LET got == Drained(h, Len(LinkSeq))
           at == (pstep - 1) * Tick
       IN /\ cur' = h /\ todo' = todo \ {h}
          /\ dlv' = [p \in Pairs |-> [dlv[p] EXCEPT ![h] = <<>>]]
          /\ pend' = SelectSeq(got, LAMBDA i : msgs[i].kind = "probe")
          /\ rcvd' = [rcvd EXCEPT ![h] = @ \o [k \in 1..Len(got) |->
                                   [id |-> got[k], at |-> at, step |-> pstep]]]
          /\ last' = [a |-> "turn", h |-> h, got |-> got]
    /\ UNCHANGED <<pstep, explicit, heldDir, failOn, msgs, linksOk,
                   phase, lstate, gmax, lover, sent, nctl, nlat>>

StepEnd ==
    /\ phase = "turn" /\ todo = {} /\ pend = <<>>
    /\ phase' = "ctl" /\ cur' = 0
    /\ last' = [a |-> "step_end"]
    /\ UNCHANGED <<pvars, todo, lstate, gmax, lover, sent, dlv, pend, nctl, nlat>>

---------------------------------------------------------------------------
\* Link::release on (lstate, sent[p]) at link-clock now
ReleasedSent(s, now) == [k \in 1..Len(s) |-> IF s[k].st = -1 THEN [s[k] EXCEPT !.st = now] ELSE s[k]]

\* Link::rand_partition_or_repair.  cf / cr are the two coin flips
\* (rand_partition / rand_repair); each direction is judged on its own state:
\* only Healthy directions fail (their queued messages are lost), only
\* RandPartition directions are repaired.
RandStates(p, cf, cr) ==
    LET ab == lstate[<<p[1], p[2]>>]  ba == lstate[<<p[2], p[1]>>] IN
    IF cf /\ (ab = "Healthy" \/ ba = "Healthy")
    THEN <<IF ab = "Healthy" THEN "Rand" ELSE ab, IF ba = "Healthy" THEN "Rand" ELSE ba>>
    ELSE IF cr /\ (ab = "Rand" \/ ba = "Rand")
    THEN <<IF ab = "Rand" THEN "Healthy" ELSE ab, IF ba = "Rand" THEN "Healthy" ELSE ba>>
    ELSE <<ab, ba>>
RandSent(p, cf) ==
    LET ab == lstate[<<p[1], p[2]>>]  ba == lstate[<<p[2], p[1]>>] IN
    IF cf /\ (ab = "Healthy" \/ ba = "Healthy")
    THEN SelectSeq(sent[p], LAMBDA e :
            ~(  (e.src = p[1] /\ ab = "Healthy") \/ (e.src = p[2] /\ ba = "Healthy")))
    ELSE sent[p]

\* Whether the repair coin is consulted at all (the match arm is reached)
RepairArm(p, cf) ==
    LET ab == lstate[<<p[1], p[2]>>]  ba == lstate[<<p[2], p[1]>>] IN
    ~(cf /\ (ab = "Healthy" \/ ba = "Healthy")) /\ (ab = "Rand" \/ ba = "Rand")

\* Link::enqueue_message(src -> dst) at host instant (pstep-1)*Tick + off
Enqueue(src, dst, off, cf, cr, lat, kind, label) ==
    /\ LET p   == PairOf(src, dst)
           now == pstep * Tick
           st2 == RandStates(p, cf, cr)
           s1  == RandSent(p, cf)
           dirState == IF src < dst THEN st2[1] ELSE st2[2]
           id  == Len(msgs) + 1
           t   == (pstep - 1) * Tick + off
           s2  == IF dirState = "Healthy" THEN Append(s1, [id |-> id, src |-> src, dst |-> dst, st |-> now + lat])
                  ELSE IF dirState = "Hold" THEN Append(s1, [id |-> id, src |-> src, dst |-> dst, st |-> -1])
                  ELSE s1
           outcome == IF dirState = "Healthy" THEN "queued" ELSE IF dirState = "Hold" THEN "held" ELSE "dropped"
       IN
       /\ (cf => failOn) /\ (cr => failOn /\ RepairArm(p, cf))
       /\ lat \in EffMin(p)..EffMax(p)
       /\ (dirState # "Healthy" => lat = EffMin(p))      \* not sampled: keep one representative
       /\ lstate' = [lstate EXCEPT ![<<p[1], p[2]>>] = st2[1], ![<<p[2], p[1]>>] = st2[2]]
       /\ sent' = [sent EXCEPT ![p] = PDsent(s2, now)]
       /\ dlv'  = [dlv EXCEPT ![p] = PDdlv(s2, dlv[p], now)]
       /\ P_SendK(src, dst, t, IF dirState = "Healthy" THEN lat ELSE -1, EffMin(p), EffMax(p), kind)
       /\ last' = [a |-> label, id |-> id, src |-> src, dst |-> dst, off |-> off, kind |-> kind,
                   lat |-> lat, cf |-> cf, cr |-> cr, outcome |-> outcome,
                   sab |-> st2[1], sba |-> st2[2]]
    /\ UNCHANGED <<phase, todo, cur, gmax, lover, nctl, nlat>>

\* probes whose answer may still have to be sent (bound only)
Unanswered == Cardinality({i \in Ids : msgs[i].kind = "probe"}) - Cardinality({i \in Ids : msgs[i].kind = "rst"})

HostSend(dst, off, cf, cr, lat, kind) ==
    /\ phase = "turn" /\ cur # 0 /\ dst # cur /\ pend = <<>> /\ kind \in Kinds
    /\ Len(msgs) + Unanswered + (IF kind = "probe" THEN 2 ELSE 1) <= MaxMsgs
    /\ Enqueue(cur, dst, off, cf, cr, lat, kind, "send")
    /\ pend' = pend

\* the host answers the oldest refused segment: Link::deliver_messages calls
\* enqueue_message(dst -> src, RST) for it, through the same link state as any send
ReplySend(cf, cr, lat) ==
    /\ phase = "turn" /\ cur # 0 /\ pend # <<>>
    /\ Enqueue(cur, msgs[Head(pend)].src, 0, cf, cr, lat, "rst", "reply")
    /\ pend' = Tail(pend)

---------------------------------------------------------------------------
\* Control calls.  by = "ctl" when phase = "ctl", "host" during a turn.
CtlEnabled(op) ==
    \/ phase = "ctl" /\ op \in CtlOps
    \/ phase = "turn" /\ cur # 0 /\ pend = <<>> /\ op \in HostCtlOps
By == IF phase = "ctl" THEN "ctl" ELSE "host"

Ctl(op, a, b) ==
    /\ CtlEnabled(op) /\ nctl < MaxCtl /\ a # b
    /\ LET p == PairOf(a, b)  now == pstep * Tick IN
       CASE op = "partition" ->
               /\ lstate' = [lstate EXCEPT ![<<a, b>>] = "Explicit", ![<<b, a>>] = "Explicit"]
               /\ sent' = [sent EXCEPT ![p] = <<>>]
         [] op = "partition_oneway" ->
               /\ lstate' = [lstate EXCEPT ![<<a, b>>] = "Explicit"]
               /\ sent' = [sent EXCEPT ![p] = SelectSeq(@, LAMBDA e : e.src # a)]
         [] op = "repair" ->
               /\ lstate' = [lstate EXCEPT ![<<a, b>>] = "Healthy", ![<<b, a>>] = "Healthy"]
               /\ sent' = sent
         [] op = "repair_oneway" ->
               /\ lstate' = [lstate EXCEPT ![<<a, b>>] = "Healthy"]
               /\ sent' = sent
         [] op = "hold" ->
               /\ lstate' = [lstate EXCEPT ![<<a, b>>] = "Hold", ![<<b, a>>] = "Hold"]
               /\ sent' = [sent EXCEPT ![p] = [k \in 1..Len(@) |-> [@[k] EXCEPT !.st = -1]]]
         [] op = "release" ->
               /\ lstate' = [lstate EXCEPT ![<<a, b>>] = "Healthy", ![<<b, a>>] = "Healthy"]
               /\ sent' = [sent EXCEPT ![p] = ReleasedSent(@, now)]
    /\ P_Ctl(op, a, b, By)
    /\ nctl' = nctl + 1
    /\ last' = [a |-> "ctl", op |-> op, x |-> a, y |-> b, by |-> By]
    /\ UNCHANGED <<phase, todo, cur, gmax, lover, dlv, pend, nlat>>

\* Two-way calls are symmetric in (a, b): keep one representative.
CtlArgsOk(op, a, b) == op \in {"partition_oneway", "repair_oneway"} \/ a < b

\* SentRef::deliver on the k-th message of link p
ManualDeliver(p, k) ==
    /\ AllowManual /\ phase = "ctl" /\ nctl < MaxCtl
    /\ k \in 1..Len(sent[p])
    /\ sent' = [sent EXCEPT ![p][k].st = pstep * Tick]
    /\ P_ManualDeliver(sent[p][k].id)
    /\ nctl' = nctl + 1
    /\ last' = [a |-> "manual", p |-> p, k |-> k, id |-> sent[p][k].id]
    /\ UNCHANGED <<phase, todo, cur, lstate, gmax, lover, dlv, pend, nlat>>

\* Sim::set_link_latency(a, b, v): min = max = v
SetLinkLatency(p, v) ==
    /\ phase = "ctl" /\ nlat < MaxLatCtl /\ v \in LatChoices
    /\ lover' = [lover EXCEPT ![p] = [min |-> v, max |-> v]]
    /\ nlat' = nlat + 1
    /\ last' = [a |-> "set_link_latency", p |-> p, v |-> v]
    /\ UNCHANGED <<pvars, phase, todo, cur, lstate, gmax, sent, dlv, pend, nctl>>

\* Sim::set_link_max_message_latency(a, b, v): copies the global config on first use
SetLinkMaxLatency(p, v) ==
    /\ phase = "ctl" /\ nlat < MaxLatCtl /\ v \in MaxChoices /\ v >= EffMin(p)
    /\ lover' = [lover EXCEPT ![p] = [min |-> EffMin(p), max |-> v]]
    /\ nlat' = nlat + 1
    /\ last' = [a |-> "set_link_max_latency", p |-> p, v |-> v]
    /\ UNCHANGED <<pvars, phase, todo, cur, lstate, gmax, sent, dlv, pend, nctl>>

\* Sim::set_max_message_latency(v): global; links with an override keep theirs
SetMaxLatency(v) ==
    /\ phase = "ctl" /\ nlat < MaxLatCtl /\ v \in MaxChoices /\ v >= GMin
    /\ gmax' = v
    /\ nlat' = nlat + 1
    /\ last' = [a |-> "set_max_latency", v |-> v]
    /\ UNCHANGED <<pvars, phase, todo, cur, lstate, lover, sent, dlv, pend, nctl>>

\* Sim::links inspected between steps: compared with the property-level expectation
LinksSnapshot ==
    [p \in Pairs |-> [k \in 1..Len(sent[p]) |-> sent[p][k].id]]

\* exhaustive exploration keeps one representative of symmetric calls and
\* prunes setter calls that change nothing
CtlMC(op, a, b) == CtlArgsOk(op, a, b) /\ Ctl(op, a, b)
SetLinkLatencyMC(p, v) == lover[p] # [min |-> v, max |-> v] /\ SetLinkLatency(p, v)
SetLinkMaxLatencyMC(p, v) == v # EffMax(p) /\ SetLinkMaxLatency(p, v)
SetMaxLatencyMC(v) == v # gmax /\ SetMaxLatency(v)

Next ==
    \/ StepBegin
    \/ \E h \in Hosts : TurnBegin(h)
    \/ StepEnd
    \/ \E dst \in Hosts, off \in Offsets, cf, cr \in BOOLEAN, lat \in 0..(GMax + 8), kind \in Kinds :
           HostSend(dst, off, cf, cr, lat, kind)
    \/ \E cf, cr \in BOOLEAN, lat \in 0..(GMax + 8) : ReplySend(cf, cr, lat)
    \/ \E op \in CtlOps \cup HostCtlOps, a, b \in Hosts : CtlMC(op, a, b)
    \/ \E p \in Pairs, k \in 1..MaxMsgs : ManualDeliver(p, k)
    \* (setter calls that change nothing are pruned from exhaustive exploration)
    \/ \E p \in Pairs, v \in LatChoices : SetLinkLatencyMC(p, v)
    \/ \E p \in Pairs, v \in MaxChoices : SetLinkMaxLatencyMC(p, v)
    \/ \E v \in MaxChoices : SetMaxLatencyMC(v)

Spec == Init /\ [][Next]_vars

---------------------------------------------------------------------------
\* Sim::links must agree with the property-level expectation whenever it is
\* inspected between steps (checked in every "ctl" state of the model).
LinksAgree ==
    phase = "ctl" =>
        \A p \in Pairs : LinksDecidable(p) =>
            {sent[p][k].id : k \in 1..Len(sent[p])} = ExpectedInFlight(p)

\* Structural invariants of the implementation model
TypeOK ==
    /\ phase \in {"ctl", "turn"}
    /\ cur \in 0..N
    /\ \A d \in Dirs : lstate[d] \in {"Healthy", "Explicit", "Rand", "Hold"}
    /\ \A p \in Pairs : \A k \in 1..Len(sent[p]) : PairOf(sent[p][k].src, sent[p][k].dst) = p
\* sent keeps send order per link (ids increase)
SentOrdered ==
    \A p \in Pairs : \A j, k \in 1..Len(sent[p]) : j < k => sent[p][j].id < sent[p][k].id
\* a Hold direction is held in both directions unless a one-way partition/repair intervened
NoMatureLeftBehind ==
    phase = "turn" => \A p \in Pairs : \A k \in 1..Len(sent[p]) :
        (sent[p][k].st >= 0 /\ sent[p][k].st <= pstep * Tick) =>
            \* only a release / manual delivery made in this step
            (msgs[sent[p][k].id].relStep = pstep \/ msgs[sent[p][k].id].unspec)

ImplInv == TypeOK /\ SentOrdered /\ NoMatureLeftBehind /\ LinksAgree

\* View for exhaustive checking: drop the action label
View == <<pvars, ivars>>
=============================================================================
