----------------------------- MODULE UringGen -----------------------------
(* Behaviour generation for spec -> code replay: Uring plus a history       *)
(* variable holding the consumer's commands together with the observation   *)
(* TLC predicts for each.  Every behaviour of GenLen commands is printed as  *)
(* one JSON line.  (The file setup steps and End are not part of the         *)
(* behaviour: the driver creates the files first and always finishes with    *)
(* its own final drain + end.)                                               *)
EXTENDS Uring, Json

CONSTANT GenLen
VARIABLE hist

Done == Len(hist) = GenLen

Entry ==
    CASE last'.a = "push" ->
            LET u == Len(ops') IN
            [a |-> "push", r |-> last'.r, ud |-> u, tag |-> ops'[u].tag, kind |-> ops'[u].kind, f |-> ops'[u].f,
             off |-> opx'[u].off, bytes |-> opx'[u].bytes, len |-> ops'[u].len, tgt |-> ops'[u].tgt,
             bad |-> ops'[u].bad, ok |-> last'.ok]
      [] last'.a = "pop" /\ last'.some ->
            LET c == cqs'[Len(cqs')] IN
            [a |-> "pop", r |-> last'.r, some |-> TRUE, ud |-> c.ud, tag |-> c.tag, res |-> c.res, data |-> c.data,
             amb |-> last'.amb, damb |-> last'.damb, files |-> fs']
      [] last'.a = "shimw" ->
            [a |-> "shimw", f |-> last'.f, off |-> last'.off,
             bytes |-> [i \in 1..last'.wl |-> last'.wv], files |-> fs']
      [] last'.a = "crash" -> [a |-> "crash", files |-> fs']
      [] OTHER -> last'

GenInit == Init /\ hist = <<>>
GenNext ==
    /\ ~Done
    /\ NextNoEnd
    /\ hist' = IF last'.a = "newfile" THEN hist ELSE Append(hist, Entry)
GenSpec == GenInit /\ [][GenNext]_<<vars, hist>>

Emit == Done => PrintT(<<"REPLAY", ToJson(hist)>>)
=============================================================================
