------------------------------- MODULE Uring -------------------------------
(***************************************************************************)
(* ImplSpec of the simulated io_uring (crates/turmoil-io-uring) together   *)
(* with the consumer-side protocol the harness follows.                    *)
(*                                                                         *)
(* One action per critical section of the Rust code:                       *)
(*   NewRing     IoUring::new            (lib.rs: depth = next_power_of_two)*)
(*   PushOk/PushFail  SubmissionQueue::push   (squeue.rs: full => PushError)*)
(*   Submit      Submitter::submit = schedule_pending (submit.rs): the SQ  *)
(*               is drained in push order; unsupported flags post an        *)
(*               immediate -EINVAL; read / write / fsync are scheduled at   *)
(*               now + latency; AsyncCancel = RingState::cancel (sim.rs)    *)
(*   SyncCq      CompletionQueue::sync   (cqueue.rs: ready + matured count) *)
(*   PopSome/PopNone  CompletionQueue::next = pop_ready ; execute (sim.rs)  *)
(*   TickNow     the embedder enters the next tick with a larger `now`      *)
(*   DropRing    Drop for IoUring,  Crash = IoUringHostState::crash +       *)
(*               Fs::crash (turmoil sim.rs),  CloseFile / OpenFile = the    *)
(*               shim File being dropped / opened,  ShimWrite = a write     *)
(*               through the synchronous shim between ring operations       *)
(*                                                                         *)
(* Modelling decision (documented in notes/uring.md): promote_ready        *)
(* shuffles the matured entries with the fs rng and appends them to the    *)
(* FIFO `ready`.  The model keeps `ready` as a sequence of *batches* (sets)*)
(* and lets PopSome take any member of the first batch: choosing the       *)
(* permutation lazily is observationally the same as choosing it up front  *)
(* (nothing in the code observes the order inside a batch: cancel looks an *)
(* entry up by user_data and `remove` keeps the order of the others).      *)
(*                                                                         *)
(* The filesystem is a tiny model (file = sequence of bytes, durable copy  *)
(* made by fsync, crash = back to the durable copy) kept twice: `fs` is    *)
(* changed the way the ring code changes it (execute at pop), `tw` is the  *)
(* twin the harness drives through the synchronous API: it executes the    *)
(* operation of a popped completion unless that completion is the          *)
(* cancellation error.  The P_* ghosts of UringProp receive the two sides. *)
(***************************************************************************)
EXTENDS UringProp, TLC

CONSTANTS Tick,         \* ring-clock units per tick
          LatChoices,   \* latencies (clock units) the fs may sample for read / write / fsync
          NF,           \* number of files
          InitLen,      \* every file starts as InitLen bytes of value 1 (durable)
          Entries,      \* values passed to IoUring::new
          Kinds,        \* subset of {"read","write","fsync","cancel"}
          WVals, WLens, \* a write carries WLens bytes of one value from WVals
          Offs,         \* offsets of reads / writes
          RLens,        \* read buffer lengths
          BadFlags,     \* subset of BOOLEAN: may an entry carry an unsupported flag
          CtlOps,       \* subset of {"dropring","close","open","shimw","crash","submitbad"}
          Modes,        \* access modes a re-opened handle may have: subset of {"rw","ro","wo","ao","wa","ra"}
                        \* (ao = append only, wa = write+append, ra = read+append)
          AllowDup,     \* BOOLEAN: may the consumer push a copy of an outstanding write / fsync with the same user_data
          MaxRings, MaxOps, MaxTicks, MaxCrash

VARIABLES
    rg,      \* Seq([alive, gone, depth, sq, infl, ready])  RingState per ring id
    vis,     \* Seq(Nat)   CompletionQueue::visible of the consumer's current handle
    opx,     \* Seq([off, bytes, lat, mode])  per user_data: what the PropSpec does not need
    hmode,   \* Seq(mode)  access mode of the current handle of each file
    fs, dur, \* [1..NF -> Seq(byte)]  filesystem under test: visible / durable contents
    tw, tdur,\* the twin
    bufs,    \* Seq(Seq(byte))  read buffers owned by the consumer, per user_data
    nticks, ncrash,
    last     \* label of the action taken (scalars only: it is outside the VIEW)

ivars == <<rg, vis, opx, hmode, fs, dur, tw, tdur, bufs, nticks, ncrash>>
vars  == <<pvars, ivars, last>>

Files == 1..NF
InitContent == [i \in 1..InitLen |-> 1]
WBytes == {[i \in 1..n |-> v] : n \in WLens, v \in WVals}
Min2(a, b) == IF a < b THEN a ELSE b
Max2(a, b) == IF a > b THEN a ELSE b
SetMin(S) == CHOOSE x \in S : \A y \in S : x <= y
SetMax(S) == CHOOSE x \in S : \A y \in S : x >= y
LatLo == SetMin(LatChoices)
LatHi == SetMax(LatChoices)
Pow2Ceil(e) == CHOOSE p \in {1, 2, 4, 8, 16} : p >= e /\ \A q \in {1, 2, 4, 8, 16} : q >= e => p <= q

IsIo(k) == k \in {"read", "write", "fsync"}

Init ==
    /\ PInit
    /\ rg = <<>> /\ vis = <<>> /\ opx = <<>>
    /\ hmode = [f \in Files |-> "rw"]
    /\ fs = [f \in Files |-> InitContent] /\ dur = [f \in Files |-> InitContent]
    /\ tw = [f \in Files |-> InitContent] /\ tdur = [f \in Files |-> InitContent]
    /\ bufs = <<>>
    /\ nticks = 0 /\ ncrash = 0
    /\ last = [a |-> "init"]

\* the files are created and opened before the first ring operation
Setup ==
    /\ Len(fh) < NF /\ ~ended
    /\ P_NewFile
    /\ last' = [a |-> "newfile", f |-> Len(fh) + 1]
    /\ UNCHANGED ivars

Ready0 == Len(fh) = NF /\ ~ended

---------------------------------------------------------------------------
NewRing(e) ==
    /\ Ready0 /\ Len(rg) < MaxRings
    /\ P_NewRing(Pow2Ceil(e))
    /\ rg' = Append(rg, [alive |-> TRUE, gone |-> FALSE, depth |-> Pow2Ceil(e),
                         sq |-> <<>>, infl |-> {}, ready |-> <<>>])
    /\ vis' = Append(vis, 0)
    /\ last' = [a |-> "ring", r |-> Len(rg) + 1, entries |-> e, depth |-> Pow2Ceil(e)]
    /\ UNCHANGED <<opx, hmode, fs, dur, tw, tdur, bufs, nticks, ncrash>>

\* SubmissionQueue::push (the consumer only pushes to rings it still owns and
\* that were not wiped by a crash)
Push(r, tag, kind, f, off, bs, len, tgt, bad, lat, ok) ==
    /\ Ready0 /\ Len(ops) < MaxOps
    /\ r \in 1..Len(rg) /\ rg[r].alive
    /\ ok = (Len(rg[r].sq) < rg[r].depth)
    /\ LET io == IsIo(kind) /\ ~bad IN
       /\ P_Push(r, tag, kind, f, tgt, bad, IF io THEN LatLo ELSE 0, IF io THEN LatHi ELSE 0, len, ok)
       /\ opx' = Append(opx, [off |-> off, bytes |-> bs, lat |-> IF io THEN lat ELSE 0,
                               mode |-> IF f \in Files THEN hmode[f] ELSE "rw"])
    /\ bufs' = Append(bufs, Pristine(len))
    /\ rg' = IF ok THEN [rg EXCEPT ![r].sq = Append(@, Len(ops) + 1)] ELSE rg
    /\ last' = [a |-> "push", r |-> r, ud |-> Len(ops) + 1, tag |-> tag, ok |-> ok]
    /\ UNCHANGED <<vis, hmode, fs, dur, tw, tdur, nticks, ncrash>>

PushOk(r, tag, kind, f, off, bs, len, tgt, bad, lat)   == Push(r, tag, kind, f, off, bs, len, tgt, bad, lat, TRUE)
PushFail(r, tag, kind, f, off, bs, len, tgt, bad, lat) == Push(r, tag, kind, f, off, bs, len, tgt, bad, lat, FALSE)

\* RingState::cancel on the pools (infl, ready) for cancel c with target user_data t at `now`.
\* The code takes the first match in the Vec `inflight` (whose order swap_remove perturbs: any
\* match), else the first match in the deque `ready` (earliest batch; any match inside it), and
\* drops exactly that one scheduled completion.
TagOf(e) == ops[e.ud].tag
Imm(u, code) == [ud |-> u, when |-> now, x |-> FALSE, code |-> code]
DropFromReady(rd, i, e) ==
    LET cut == [j \in 1..Len(rd) |-> IF j = i THEN rd[j] \ {e} ELSE rd[j]]
    IN SelectSeq(cut, LAMBDA b : b # {})
CancelOutcomes(p, c, t) ==
    LET mi == {e \in p.infl : TagOf(e) = t}
        bi == {i \in 1..Len(p.ready) : \E e \in p.ready[i] : TagOf(e) = t}
    IN IF mi # {}
       THEN {[infl |-> (p.infl \ {e}) \cup {Imm(e.ud, ECANCELED), Imm(c, 0)}, ready |-> p.ready] : e \in mi}
       ELSE IF bi # {}
       THEN LET i == CHOOSE i \in bi : \A j \in bi : i <= j IN
            {[infl |-> p.infl \cup {Imm(e.ud, ECANCELED), Imm(c, 0)}, ready |-> DropFromReady(p.ready, i, e)]
                : e \in {e \in p.ready[i] : TagOf(e) = t}}
       ELSE {[infl |-> p.infl \cup {Imm(c, ENOENT)}, ready |-> p.ready]}

\* schedule_pending: the SQ entries in order (the set of pools the batch may lead to)
RECURSIVE ScheduleSet(_, _)
ScheduleSet(P, q) ==
    IF q = <<>> THEN P
    ELSE LET u == Head(q)  o == ops[u] IN
         ScheduleSet(
            UNION {IF o.bad THEN {[p EXCEPT !.infl = @ \cup {Imm(u, EINVAL)}]}
                   ELSE IF o.kind = "cancel" THEN CancelOutcomes(p, u, o.tgt)
                   ELSE {[p EXCEPT !.infl = @ \cup {[ud |-> u, when |-> now + opx[u].lat, x |-> TRUE, code |-> 0]}]}
                   : p \in P},
            Tail(q))

Submit(r) ==
    /\ Ready0 /\ r \in 1..Len(rg) /\ rg[r].alive
    /\ P_Submit(r)
    /\ \E p \in ScheduleSet({[infl |-> rg[r].infl, ready |-> rg[r].ready]}, rg[r].sq) :
          rg' = [rg EXCEPT ![r].sq = <<>>, ![r].infl = p.infl, ![r].ready = p.ready]
    \* camb: a cancel in this batch had several entries with its target user_data to choose from (the
    \* code takes the first in its Vec / deque order, which the model does not track)
    /\ last' = [a |-> "submit", r |-> r, n |-> Len(rg[r].sq),
                camb |-> Cardinality(ScheduleSet({[infl |-> rg[r].infl, ready |-> rg[r].ready]}, rg[r].sq)) > 1]
    /\ UNCHANGED <<vis, opx, hmode, fs, dur, tw, tdur, bufs, nticks, ncrash>>

\* A submit entry point returned Err: Submitter::submit_with_args with a malformed timespec (validated
\* before anything is touched: the SQ keeps its entries), or any submit on a ring wiped by a crash.
SubmitFail(r) ==
    /\ Ready0 /\ r \in 1..Len(rg) /\ ~rg[r].gone
    /\ last' = [a |-> "submitbad", r |-> r]
    /\ UNCHANGED <<pvars, ivars>>

RECURSIVE ReadyLen(_)
ReadyLen(rd) == IF rd = <<>> THEN 0 ELSE Cardinality(Head(rd)) + ReadyLen(Tail(rd))
Matured(r) == {e \in rg[r].infl : e.when <= now}
CqCount(r) == IF rg[r].alive THEN ReadyLen(rg[r].ready) + Cardinality(Matured(r)) ELSE 0

\* CompletionQueue::sync on a fresh handle (also used to probe a ring wiped by a crash)
SyncCq(r) ==
    /\ Ready0 /\ r \in 1..Len(rg) /\ ~rg[r].gone
    /\ P_Sync(r, CqCount(r))
    /\ vis' = [vis EXCEPT ![r] = CqCount(r)]
    /\ last' = [a |-> "sync", r |-> r, n |-> CqCount(r)]
    /\ UNCHANGED <<rg, opx, hmode, fs, dur, tw, tdur, bufs, nticks, ncrash>>

Overlay(c, off, bs) ==
    LET n == Max2(Len(c), off + Len(bs)) IN
    [i \in 1..n |-> IF i > off /\ i <= off + Len(bs) THEN bs[i - off]
                    ELSE IF i <= Len(c) THEN c[i] ELSE 0]
ReadN(c, off, len) == Min2(len, Max2(0, Len(c) - off))
ReadBuf(c, off, len) == [i \in 1..len |-> IF i <= ReadN(c, off, len) THEN c[off + i] ELSE Fill]

HandleValid(o) == o.hopen /\ fh[o.f].open /\ fh[o.f].gen = o.gen

\* CompletionQueue::next yields entry e (promote_ready ; pop_front ; execute)
PopSome(r) ==
    /\ Ready0 /\ r \in 1..Len(rg) /\ rg[r].alive /\ vis[r] > 0
    /\ LET m  == {[ud |-> e.ud, x |-> e.x, code |-> e.code] : e \in Matured(r)}
           r1 == IF m = {} THEN rg[r].ready ELSE Append(rg[r].ready, m)
       IN /\ r1 # <<>>
          /\ \E e \in r1[1] :
               LET r2 == IF r1[1] = {e} THEN Tail(r1) ELSE [r1 EXCEPT ![1] = @ \ {e}]
                   u  == e.ud   o == ops[u]   x == opx[u]
                   run == e.x /\ IsIo(o.kind)
                   valid == run /\ HandleValid(o)
                   \* the handle grants the access the operation needs (else -EBADF, no effect; the
                   \* synchronous API refuses it as well: PermissionDenied)
                   acc   == \/ o.kind = "read" /\ x.mode \in {"rw", "ro", "ra"}
                            \/ o.kind = "write" /\ x.mode \in {"rw", "wo", "ao", "wa", "ra"}   \* append grants write access
                            \/ o.kind = "fsync"
                   c  == IF valid THEN fs[o.f] ELSE <<>>
                   res == IF ~e.x THEN e.code
                          ELSE IF ~valid \/ ~acc THEN EBADF
                          ELSE IF o.kind = "read" THEN ReadN(c, x.off, o.len)
                          ELSE IF o.kind = "write" THEN Len(x.bytes) ELSE 0
                   data == IF valid /\ acc /\ o.kind = "read" THEN ReadBuf(c, x.off, o.len) ELSE bufs[u]
                   \* the twin: same operation through the synchronous API, now
                   doTw == IsIo(o.kind) /\ ~o.bad /\ HandleValid(o) /\ res # ECANCELED
                   tc   == IF doTw THEN tw[o.f] ELSE <<>>
                   exp  == IF ~doTw THEN 0
                           ELSE IF ~acc THEN EBADF
                           ELSE IF o.kind = "read" THEN ReadN(tc, x.off, o.len)
                           ELSE IF o.kind = "write" THEN Len(x.bytes) ELSE 0
                   expd == IF doTw /\ o.kind = "read" THEN (IF acc THEN ReadBuf(tc, x.off, o.len) ELSE Pristine(o.len)) ELSE <<>>
                   fs1  == IF valid /\ acc /\ o.kind = "write" THEN [fs EXCEPT ![o.f] = Overlay(c, x.off, x.bytes)] ELSE fs
                   dur1 == IF valid /\ acc /\ o.kind = "fsync" THEN [dur EXCEPT ![o.f] = c] ELSE dur
                   tw1  == IF doTw /\ acc /\ o.kind = "write" THEN [tw EXCEPT ![o.f] = Overlay(tc, x.off, x.bytes)] ELSE tw
                   tdur1 == IF doTw /\ acc /\ o.kind = "fsync" THEN [tdur EXCEPT ![o.f] = tc] ELSE tdur
               IN /\ P_Cqe(r, o.tag, res, IF o.kind = "read" THEN data ELSE <<>>, exp, expd, fs1 = tw1)
                  /\ rg' = [rg EXCEPT ![r].infl = @ \ Matured(r), ![r].ready = r2]
                  /\ vis' = [vis EXCEPT ![r] = @ - 1]
                  /\ fs' = fs1 /\ dur' = dur1 /\ tw' = tw1 /\ tdur' = tdur1
                  /\ bufs' = [bufs EXCEPT ![u] = data]
                  /\ last' = [a |-> "pop", r |-> r, some |-> TRUE, ud |-> u, tag |-> o.tag, res |-> res,
                              amb |-> Cardinality(r1[1]) > 1,
                              \* several entries of the batch carry this user_data (the completion does not say which came)
                              damb |-> Cardinality({e2 \in r1[1] : ops[e2.ud].tag = o.tag}) > 1]
    /\ UNCHANGED <<opx, hmode, nticks, ncrash>>

PopNone(r) ==
    /\ Ready0 /\ r \in 1..Len(rg) /\ ~rg[r].gone
    /\ ~(rg[r].alive /\ vis[r] > 0)
    /\ P_PopNone(r)
    /\ last' = [a |-> "pop", r |-> r, some |-> FALSE]
    /\ UNCHANGED ivars

TickTo(t) ==
    /\ Ready0 /\ t > now
    /\ P_Tick(t)
    /\ nticks' = nticks + 1
    /\ last' = [a |-> "tick", now |-> t]
    /\ UNCHANGED <<rg, vis, opx, hmode, fs, dur, tw, tdur, bufs, ncrash>>
TickNow == nticks < MaxTicks /\ TickTo(now + Tick)

\* Drop for IoUring (also how the consumer disposes of a handle wiped by a crash)
DropRing(r) ==
    /\ Ready0 /\ r \in 1..Len(rg) /\ ~rg[r].gone
    /\ P_DropRing(r)
    /\ rg' = [rg EXCEPT ![r] = [@ EXCEPT !.alive = FALSE, !.gone = TRUE, !.sq = <<>>, !.infl = {}, !.ready = <<>>]]
    /\ vis' = [vis EXCEPT ![r] = 0]
    /\ last' = [a |-> "dropring", r |-> r]
    /\ UNCHANGED <<opx, hmode, fs, dur, tw, tdur, bufs, nticks, ncrash>>

CloseFile(f) ==
    /\ Ready0 /\ f \in Files /\ fh[f].open
    /\ P_Close(f)
    /\ last' = [a |-> "close", f |-> f]
    /\ UNCHANGED ivars

OpenFile(f, m) ==
    /\ Ready0 /\ f \in Files /\ ~fh[f].open
    /\ P_Open(f)
    /\ hmode' = [hmode EXCEPT ![f] = m]
    /\ last' = [a |-> "open", f |-> f, mode |-> m]
    /\ UNCHANGED <<rg, vis, opx, fs, dur, tw, tdur, bufs, nticks, ncrash>>

\* a write through the synchronous shim, applied to both filesystems
ShimWrite(f, off, bs) ==
    /\ Ready0 /\ f \in Files /\ fh[f].open /\ hmode[f] # "ro"
    /\ fs' = [fs EXCEPT ![f] = Overlay(@, off, bs)]
    /\ tw' = [tw EXCEPT ![f] = Overlay(@, off, bs)]
    /\ P_Files(fs' = tw')
    /\ last' = [a |-> "shimw", f |-> f, off |-> off, wl |-> Len(bs), wv |-> IF bs = <<>> THEN 0 ELSE bs[1]]
    /\ UNCHANGED <<rg, vis, opx, hmode, dur, tdur, bufs, nticks, ncrash>>

\* Sim::crash: Fs::crash (pending writes lost) + IoUringHostState::crash (rings cleared)
Crash ==
    /\ Ready0 /\ ncrash < MaxCrash
    /\ fs' = dur /\ tw' = tdur
    /\ P_Crash(fs' = tw')
    /\ rg' = [r \in 1..Len(rg) |-> [rg[r] EXCEPT !.alive = FALSE, !.sq = <<>>, !.infl = {}, !.ready = <<>>]]
    /\ vis' = [r \in 1..Len(vis) |-> 0]
    /\ ncrash' = ncrash + 1
    /\ last' = [a |-> "crash"]
    /\ UNCHANGED <<opx, hmode, dur, tdur, bufs, nticks>>

End ==
    /\ Ready0
    /\ P_End([u \in 1..Len(bufs) |-> [ud |-> u, data |-> bufs[u]]], fs = tw)
    /\ last' = [a |-> "end"]
    /\ UNCHANGED ivars

---------------------------------------------------------------------------
\* Alphabet of the exhaustive / generating configurations (redundant repetitions pruned)
PushArgsOk(kind, f, off, bs, len, tgt) ==
    CASE kind = "read"   -> f \in Files /\ off \in Offs /\ bs = <<>> /\ len \in RLens /\ tgt = 0
      [] kind = "write"  -> f \in Files /\ off \in Offs /\ bs \in WBytes /\ len = 0 /\ tgt = 0
      [] kind = "fsync"  -> f \in Files /\ off = 0 /\ bs = <<>> /\ len = 0 /\ tgt = 0
      [] kind = "cancel" -> f = 0 /\ off = 0 /\ bs = <<>> /\ len = 0 /\ tgt \in 1..MaxOps

PushMC(r, kind, f, off, bs, len, tgt, bad, lat) ==
    /\ PushArgsOk(kind, f, off, bs, len, tgt)
    /\ (IsIo(kind) /\ ~bad) \/ lat = LatLo
    /\ \/ PushOk(r, Len(ops) + 1, kind, f, off, bs, len, tgt, bad, lat)      \* a fresh user_data
       \/ PushFail(r, Len(ops) + 1, kind, f, off, bs, len, tgt, bad, lat)
\* a copy of an outstanding write / fsync (same ring, handle, offset, payload) under the same user_data
PushDup(r, u, lat) ==
    /\ AllowDup /\ u \in Uds /\ ops[u].ring = r /\ ops[u].kind \in {"write", "fsync"} /\ ~ops[u].bad
    /\ ops[u].st \in {"sq", "pend"}
    /\ fh[ops[u].f].gen = ops[u].gen /\ fh[ops[u].f].open = ops[u].hopen /\ hmode[ops[u].f] = opx[u].mode
    /\ \/ PushOk(r, ops[u].tag, ops[u].kind, ops[u].f, opx[u].off, opx[u].bytes, 0, 0, FALSE, lat)
       \/ PushFail(r, ops[u].tag, ops[u].kind, ops[u].f, opx[u].off, opx[u].bytes, 0, 0, FALSE, lat)
PushRead(r, f, off, len, bad, lat)  == "read" \in Kinds /\ PushMC(r, "read", f, off, <<>>, len, 0, bad, lat)
PushWrite(r, f, off, bs, bad, lat)  == "write" \in Kinds /\ PushMC(r, "write", f, off, bs, 0, 0, bad, lat)
PushFsync(r, f, bad, lat)           == "fsync" \in Kinds /\ PushMC(r, "fsync", f, 0, <<>>, 0, 0, bad, lat)
PushCancel(r, tgt, bad)             == "cancel" \in Kinds /\ PushMC(r, "cancel", 0, 0, <<>>, 0, tgt, bad, LatLo)
SubmitMC(r)  == r \in 1..Len(rg) /\ rg[r].sq # <<>> /\ Submit(r)
SyncMC(r)    == ~(last.a = "sync" /\ last.r = r) /\ SyncCq(r)
PopNoneMC(r) == ~(last.a = "pop" /\ last.r = r /\ ~last.some) /\ PopNone(r)
SubmitBadMC(r) == "submitbad" \in CtlOps /\ r \in 1..Len(rg) /\ rg[r].alive /\ rg[r].sq # <<>>
                    /\ last.a # "submitbad" /\ SubmitFail(r)
DropRingMC(r) == "dropring" \in CtlOps /\ DropRing(r)
CloseMC(f)   == "close" \in CtlOps /\ CloseFile(f)
OpenMC(f, m) == "open" \in CtlOps /\ f \in 1..Len(fh) /\ fh[f].gen < 3 /\ OpenFile(f, m)   \* at most two re-opens per file
ShimWriteMC(f, off, bs) == "shimw" \in CtlOps /\ ShimWrite(f, off, bs)
CrashMC      == "crash" \in CtlOps /\ Crash

NextNoEnd ==
    \/ Setup
    \/ \E e \in Entries : NewRing(e)
    \/ \E r \in 1..MaxRings, bad \in BadFlags, lat \in LatChoices, f \in Files, off \in Offs, len \in RLens :
            PushRead(r, f, off, len, bad, lat)
    \/ \E r \in 1..MaxRings, bad \in BadFlags, lat \in LatChoices, f \in Files, off \in Offs, bs \in WBytes :
            PushWrite(r, f, off, bs, bad, lat)
    \/ \E r \in 1..MaxRings, bad \in BadFlags, lat \in LatChoices, f \in Files : PushFsync(r, f, bad, lat)
    \/ \E r \in 1..MaxRings, bad \in BadFlags, tgt \in 1..MaxOps : PushCancel(r, tgt, bad)
    \/ \E r \in 1..MaxRings, u \in 1..MaxOps, lat \in LatChoices : PushDup(r, u, lat)
    \/ \E r \in 1..MaxRings : SubmitMC(r)
    \/ \E r \in 1..MaxRings : SubmitBadMC(r)
    \/ \E r \in 1..MaxRings : SyncMC(r)
    \/ \E r \in 1..MaxRings : PopSome(r)
    \/ \E r \in 1..MaxRings : PopNoneMC(r)
    \/ TickNow
    \/ \E r \in 1..MaxRings : DropRingMC(r)
    \/ \E f \in Files : CloseMC(f)
    \/ \E f \in Files, m \in Modes : OpenMC(f, m)
    \/ \E f \in Files, off \in Offs, bs \in WBytes : ShimWriteMC(f, off, bs)
    \/ CrashMC

Next == NextNoEnd \/ End

Spec == Init /\ [][Next]_vars

---------------------------------------------------------------------------
\* Structural invariants tying the implementation state to the history
RingUds(r) ==
    {e.ud : e \in rg[r].infl} \cup UNION {{e.ud : e \in rg[r].ready[i]} : i \in 1..Len(rg[r].ready)}
TypeOK ==
    /\ Len(rg) = Len(rmeta) /\ Len(vis) = Len(rg) /\ Len(opx) = Len(ops) /\ Len(bufs) = Len(ops)
    /\ \A r \in 1..Len(rg) : rg[r].alive = rmeta[r].alive /\ Len(rg[r].sq) <= rg[r].depth
\* one scheduled completion per outstanding entry, none for anything else
OnePerOutstanding ==
    \A r \in 1..Len(rg) :
        /\ {rg[r].sq[i] : i \in 1..Len(rg[r].sq)} = {u \in Uds : ops[u].ring = r /\ ops[u].st = "sq"}
        \* (per user_data: entries tagged alike are interchangeable copies, the history attributes a
        \* completion to the lowest-numbered one)
        /\ \A t \in {ops[u].tag : u \in Uds} :
               Cardinality({u \in RingUds(r) : ops[u].tag = t})
                 = Cardinality({u \in Uds : ops[u].ring = r /\ ops[u].st = "pend" /\ ops[u].tag = t})
        /\ Cardinality(rg[r].infl) + ReadyLen(rg[r].ready) = Cardinality(RingUds(r))
\* the ring code changed the filesystem exactly as the synchronous API changed the twin
SameEffect == fs = tw /\ dur = tdur
\* no empty batch is ever kept
NoEmptyBatch == \A r \in 1..Len(rg) : \A i \in 1..Len(rg[r].ready) : rg[r].ready[i] # {}

ImplInv == TypeOK /\ OnePerOutstanding /\ SameEffect /\ NoEmptyBatch

\* vacuity witnesses (their *violation* is expected; checked by dedicated runs)
W_DupCancel      == ~(\E k \in CqIdx : cqs[k].res = ECANCELED /\ cqs[k].stb = "pend" /\
                          \E c \in Uds : EffCancel(c) /\ Cardinality(ops[c].tcands) >= 2 /\ ops[c].tgt = cqs[k].tag)
W_CancelInflight == ~(\E k \in CqIdx : cqs[k].res = ECANCELED /\ cqs[k].stb = "pend")
W_CancelMissing  == ~(\E k \in CqIdx : cqs[k].res = ENOENT)
W_FullPush       == ~(\E u \in Uds : ops[u].st = "rej")
W_LateDrain      == ~(\E k \in CqIdx : cqs[k].stb = "pend" /\ cqs[k].at > cqs[k].dueLo)
W_CrashLoses     == ~(\E u \in Uds : ops[u].st = "lost" /\ ops[u].subAt >= 0)

View == <<pvars, ivars>>
=============================================================================
