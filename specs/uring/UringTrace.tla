---------------------------- MODULE UringTrace ----------------------------
(* Fidelity-level trace validation: the recorded runs must be behaviours of  *)
(* the ImplSpec Uring (TLC infers which member of the first ready batch the  *)
(* shuffle put first, and - when a latency range is configured - nothing     *)
(* else); ImplInv and the PropSpec clauses are evaluated in every state.     *)
EXTENDS Uring, Json, IOUtils

Rec == ndJsonDeserialize(IOEnv.TRACE)

VARIABLE l
E == Rec[l]
Is(e) == l <= Len(Rec) /\ Rec[l].ev = e /\ l' = l + 1

TInit == Init /\ l = 1

TReset ==
    /\ Is("reset") /\ P_Reset
    /\ rg' = <<>> /\ vis' = <<>> /\ opx' = <<>> /\ hmode' = [f \in Files |-> "rw"]
    /\ fs' = [f \in Files |-> InitContent] /\ dur' = [f \in Files |-> InitContent]
    /\ tw' = [f \in Files |-> InitContent] /\ tdur' = [f \in Files |-> InitContent]
    /\ bufs' = <<>> /\ nticks' = 0 /\ ncrash' = 0
    /\ last' = [a |-> "init"]

TPush ==
    /\ Is("push") /\ Len(ops) + 1 = E.ud
    /\ \E lat \in LatChoices :
          /\ (IsIo(E.kind) /\ ~E.bad) \/ lat = LatLo
          /\ Push(E.r, E.tag, E.kind, E.f, E.off, E.bytes, E.len, E.tgt, E.bad, lat, E.ok)

TCqe ==
    /\ Is("cqe") /\ PopSome(E.r)
    /\ last'.tag = E.tag /\ last'.res = E.res
    /\ cqs'[Len(cqs')].data = E.data
    /\ fs' = E.files

TNext ==
    \/ TReset
    \/ Is("newfile") /\ Setup
    \/ Is("ring") /\ NewRing(E.entries) /\ last'.r = E.r /\ last'.depth = E.depth
    \/ TPush
    \/ Is("submit") /\ E.ok /\ Submit(E.r) /\ last'.n = E.n
    \/ Is("submit") /\ ~E.ok /\ SubmitFail(E.r)
    \/ Is("sync") /\ SyncCq(E.r) /\ last'.n = E.n
    \/ TCqe
    \/ Is("none") /\ PopNone(E.r)
    \/ Is("tick") /\ TickTo(E.now)
    \/ Is("dropring") /\ DropRing(E.r)
    \/ Is("close") /\ CloseFile(E.f)
    \/ Is("open") /\ OpenFile(E.f, E.mode)
    \/ Is("shimw") /\ ShimWrite(E.f, E.off, E.bytes) /\ fs' = E.files
    \/ Is("crash") /\ Crash /\ fs' = E.files
    \/ Is("end") /\ End /\ fs = E.files
    \/ Is("readable") /\ P_Readable(E.r, E.ok, E.grace) /\ (E.ok => CqCount(E.r) > 0)
                      /\ last' = [a |-> "readable"] /\ UNCHANGED ivars
    \/ /\ l <= Len(Rec) /\ Rec[l].ev \in {"note"}
       /\ l' = l + 1 /\ UNCHANGED vars

TSpec == TInit /\ [][TNext]_<<vars, l>>

Accepted ==
    LET d == TLCGet("stats").diameter IN
    IF d - 1 = Len(Rec) THEN TRUE
    ELSE Print(<<"UNMATCHED", d, ToJson(Rec[d])>>, FALSE)
=============================================================================
