-------------------------- MODULE UringPropTrace --------------------------
(* Verdict-level trace validation: the observations recorded from the real  *)
(* code (and from the twin filesystem driven through the synchronous shim)  *)
(* are replayed through the P_* actions of UringProp; the clauses of the    *)
(* statement are evaluated in every state.                                   *)
EXTENDS UringProp, Json, IOUtils, TLC

Rec == ndJsonDeserialize(IOEnv.TRACE)

VARIABLE l
E == Rec[l]
Is(e) == l <= Len(Rec) /\ Rec[l].ev = e /\ l' = l + 1

TInit == PInit /\ l = 1

TNext ==
    \/ Is("reset") /\ P_Reset
    \/ Is("newfile") /\ P_NewFile
    \/ Is("ring") /\ P_NewRing(E.depth) /\ Len(rmeta) + 1 = E.r
    \/ Is("push") /\ P_Push(E.r, E.tag, E.kind, E.f, E.tgt, E.bad, E.llo, E.lhi, E.len, E.ok) /\ Len(ops) + 1 = E.ud
    \/ Is("submit") /\ IF E.ok THEN P_Submit(E.r) ELSE UNCHANGED pvars
    \/ Is("sync") /\ P_Sync(E.r, E.n)
    \/ Is("cqe") /\ P_Cqe(E.r, E.tag, E.res, E.data, E.exp, E.expdata, E.files = E.tfiles)
    \/ Is("none") /\ P_PopNone(E.r)
    \/ Is("tick") /\ P_Tick(E.now)
    \/ Is("dropring") /\ P_DropRing(E.r)
    \/ Is("close") /\ P_Close(E.f)
    \/ Is("open") /\ P_Open(E.f)
    \/ Is("shimw") /\ P_Files(E.files = E.tfiles)
    \/ Is("crash") /\ P_Crash(E.files = E.tfiles)
    \/ Is("end") /\ P_End(E.bufs, E.files = E.tfiles)
    \/ Is("readable") /\ P_Readable(E.r, E.ok, E.grace)
    \/ /\ l <= Len(Rec) /\ Rec[l].ev \in {"note"}
       /\ l' = l + 1 /\ UNCHANGED pvars

TSpec == TInit /\ [][TNext]_<<pvars, l>>

Accepted ==
    LET d == TLCGet("stats").diameter IN
    IF d - 1 = Len(Rec) THEN TRUE
    ELSE Print(<<"UNMATCHED", d, ToJson(Rec[d])>>, FALSE)
=============================================================================
