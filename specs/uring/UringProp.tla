----------------------------- MODULE UringProp -----------------------------
(***************************************************************************)
(* PropSpec for C18: "every io_uring submission completes exactly once     *)
(* with the right result".                                                 *)
(*                                                                         *)
(* Only what the statement talks about: the entries the consumer pushed    *)
(* (ring, kind, target of a cancel, unsupported flags, the latency bounds  *)
(* configured for it), when the consumer submitted them on the ring clock, *)
(* what sync() reported, every completion the consumer popped (user data,  *)
(* result, buffer contents, ring time), and - as the statement's own       *)
(* oracle - what the *same* operation returned when the harness issued it  *)
(* through the synchronous file API on a twin filesystem at the moment of  *)
(* the pop (exp / expdata / tfiles).  No SQ, in-flight set, ready queue.   *)
(*                                                                         *)
(* The variables are history variables; the P_* actions only append to     *)
(* them, the clauses of the statement are state predicates over the        *)
(* history (each annotated with the sentence it encodes).                  *)
(*                                                                         *)
(* Used three ways (as TopLinkProp): Uring.tla drives the P_* actions as   *)
(* ghosts; UringPropTrace.tla replays recorded observations (verdict);     *)
(* UringTrace.tla replays them through the ImplSpec (fidelity).            *)
(***************************************************************************)
EXTENDS Naturals, Integers, Sequences, FiniteSets

CONSTANTS Fill      \* byte the harness fills every read buffer with before pushing

ECANCELED == -125
ENOENT    == -2
EINVAL    == -22
EBADF     == -9

VARIABLES
    now,       \* ring clock: the per-tick `now` of the embedder (integer time units)
    rmeta,     \* Seq([depth, alive])       index = ring id, in creation order
    fh,        \* Seq([gen, open])          index = file; gen counts the handles opened so far
    ops,       \* Seq(op record)            index = user_data, issued in push order
    cqs,       \* Seq(cqe record)           every completion popped, in pop order
    rem,       \* Seq(Nat)                  per ring: what the last sync() exposed, minus pops since
    flags,     \* record of BOOLEANs accumulated by the observation actions (see P_Sync, ...)
    ended,     \* the consumer finished the run and reported its buffers
    endBufs    \* Seq([ud, data])           final contents of read buffers (at P_End)

pvars == <<now, rmeta, fh, ops, cqs, rem, flags, ended, endBufs>>

Uds   == 1..Len(ops)
Rings == 1..Len(rmeta)

Pristine(n) == [i \in 1..n |-> Fill]

PInit ==
    /\ now = 0
    /\ rmeta = <<>>
    /\ fh = <<>>
    /\ ops = <<>>
    /\ cqs = <<>>
    /\ rem = <<>>
    /\ flags = [syncLow |-> TRUE, syncUp |-> TRUE, deadSync |-> TRUE, none |-> TRUE, files |-> TRUE, readable |-> TRUE]
    /\ ended = FALSE
    /\ endBufs = <<>>

Alive(r) == r \in Rings /\ rmeta[r].alive
Occupancy(r) == Cardinality({u \in Uds : ops[u].ring = r /\ ops[u].st = "sq"})

\* earliest ring time at which the completion of u may be visible: its submit
\* time plus the lower latency bound - or the moment a cancel that found it
\* outstanding was submitted, if that is earlier.
DueLo(o) == IF o.cto >= 0 /\ o.cto < o.subAt + o.llo THEN o.cto ELSE o.subAt + o.llo
DueHi(o) == o.subAt + o.lhi

---------------------------------------------------------------------------
(* Observation actions *)

P_NewFile ==      \* a file was created and opened (setup); handle generation 1
    /\ fh' = Append(fh, [gen |-> 1, open |-> TRUE])
    /\ UNCHANGED <<now, rmeta, ops, cqs, rem, flags, ended, endBufs>>

P_Close(f) ==
    /\ fh' = [fh EXCEPT ![f].open = FALSE]
    /\ UNCHANGED <<now, rmeta, ops, cqs, rem, flags, ended, endBufs>>

P_Open(f) ==      \* a new handle (new fd) for file f
    /\ fh' = [fh EXCEPT ![f] = [gen |-> @.gen + 1, open |-> TRUE]]
    /\ UNCHANGED <<now, rmeta, ops, cqs, rem, flags, ended, endBufs>>

P_NewRing(depth) ==     \* IoUring::new succeeded; depth = params().sq_entries()
    /\ rmeta' = Append(rmeta, [depth |-> depth, alive |-> TRUE])
    /\ rem' = Append(rem, 0)
    /\ UNCHANGED <<now, fh, ops, cqs, flags, ended, endBufs>>

\* SubmissionQueue::push of the entry number Len(ops)+1 (entries are numbered in
\* push order; the number is the consumer's own bookkeeping).  tag = the user_data
\* the consumer put on it - usually unique, but a consumer may tag several entries
\* alike (the driver does so only for entries that are copies of each other: same
\* ring, kind, handle, offset, payload).
\* kind in {"read","write","fsync","cancel"}; f = file (0 for cancel); tgt =
\* target user_data of a cancel (0 otherwise); bad = an unsupported flag is set;
\* llo/lhi = latency bounds configured for this entry (0 for cancel / bad);
\* len = length of the read buffer (0 otherwise); ok = push returned Ok.
P_Push(r, tag, kind, f, tgt, bad, llo, lhi, len, ok) ==
    /\ ops' = Append(ops,
          [ring |-> r, tag |-> tag, kind |-> kind, f |-> f,
           gen |-> IF f \in 1..Len(fh) THEN fh[f].gen ELSE 0,
           hopen |-> IF f \in 1..Len(fh) THEN fh[f].open ELSE FALSE,
           tgt |-> tgt, bad |-> bad, llo |-> llo, lhi |-> lhi, len |-> len,
           full |-> (~Alive(r)) \/ Occupancy(r) >= rmeta[r].depth,
           st |-> IF ok THEN "sq" ELSE "rej",
           subAt |-> -1, tgtOut |-> FALSE, tcands |-> {}, cto |-> -1])
    /\ UNCHANGED <<now, rmeta, fh, cqs, rem, flags, ended, endBufs>>

\* The entries carrying the target user_data of cancel c that were outstanding on
\* the same ring when c was processed (submitted earlier and completion not yet
\* popped, or earlier in this batch).  A cancel takes out at most one of them.
TgtCands(r, c) ==
    {t \in Uds : /\ ops[t].tag = ops[c].tgt /\ ops[t].ring = r
                 /\ \/ ops[t].st = "pend"
                    \/ ops[t].st = "sq" /\ t < c}
TgtOutAtSubmit(r, c) == TgtCands(r, c) # {}

EffCancel(c) == ops[c].kind = "cancel" /\ ~ops[c].bad

\* Submitter::submit on ring r returned Ok: the whole SQ is handed over, in push order.
P_Submit(r) ==
    /\ LET batch == {u \in Uds : ops[u].ring = r /\ ops[u].st = "sq"}
           hit   == UNION {TgtCands(r, c) : c \in {c \in batch : EffCancel(c)}}
       IN ops' = [u \in Uds |->
            LET o1 == IF u \in batch
                      THEN [ops[u] EXCEPT !.st = "pend", !.subAt = now,
                                          !.tgtOut = EffCancel(u) /\ TgtOutAtSubmit(r, u),
                                          !.tcands = IF EffCancel(u) THEN TgtCands(r, u) ELSE {}]
                      ELSE ops[u]
            IN IF u \in hit /\ o1.cto < 0 THEN [o1 EXCEPT !.cto = now] ELSE o1]
    /\ UNCHANGED <<now, rmeta, fh, cqs, rem, flags, ended, endBufs>>

DueSet(r)  == {u \in Uds : ops[u].ring = r /\ ops[u].st = "pend" /\ DueHi(ops[u]) <= now}
EligSet(r) == {u \in Uds : ops[u].ring = r /\ ops[u].st = "pend" /\ DueLo(ops[u]) <= now}

\* CompletionQueue::sync on a fresh handle of ring r; n = len() afterwards.
P_Sync(r, n) ==
    /\ rem' = [rem EXCEPT ![r] = n]
    /\ flags' = IF Alive(r)
                THEN [flags EXCEPT !.syncLow = @ /\ n >= Cardinality(DueSet(r)),
                                   !.syncUp  = @ /\ n <= Cardinality(EligSet(r))]
                ELSE [flags EXCEPT !.deadSync = @ /\ n = 0]
    /\ UNCHANGED <<now, rmeta, fh, ops, cqs, ended, endBufs>>

\* AsyncFd::readable on ring r resolved (ok), or is still pending (~ok): either the
\* consumer gave up after the upper latency bound plus two ticks (grace = 0), or a
\* reactor task parked in readable() since before the submissions is found still
\* parked (grace = one tick: completions due only within the last tick may not have
\* had their wake-up processed yet).
P_Readable(r, ok, grace) ==
    /\ flags' = [flags EXCEPT !.readable =
                    @ /\ (IF ok THEN Alive(r) /\ EligSet(r) # {}
                          ELSE (~Alive(r)) \/ {u \in DueSet(r) : DueHi(ops[u]) <= now - grace} = {})]
    /\ UNCHANGED <<now, rmeta, fh, ops, cqs, rem, ended, endBufs>>

\* CompletionQueue::next returned Some(cqe) on ring r.
\*   data     buffer of the entry after the pop (<<>> unless it is a read)
\*   exp      result of the same operation through the synchronous shim on the twin
\*   expdata  buffer the twin's read filled
\*   feq      contents of every file (read through the synchronous shim) are
\*            equal on the filesystem under test and on the twin after this pop
\* The completion carries only the user_data `tag`.  It is attributed to the
\* lowest-numbered entry with that tag that is owed a completion on this ring
\* (entries tagged alike are copies of each other, so the choice is immaterial);
\* if there is none, to the latest entry with that tag at all (then CqeOnce fails).
Attribute(r, tag) ==
    LET owed == {u \in Uds : ops[u].tag = tag /\ ops[u].ring = r /\ ops[u].st = "pend"}
        any  == {u \in Uds : ops[u].tag = tag}
    IN IF owed # {} THEN CHOOSE u \in owed : \A v \in owed : u <= v
       ELSE IF any # {} THEN CHOOSE u \in any : \A v \in any : u >= v
       ELSE 0

P_Cqe(r, tag, res, data, exp, expdata, feq) ==
    LET ud == Attribute(r, tag) IN
    /\ cqs' = Append(cqs,
          [ring |-> r, ud |-> ud, tag |-> tag, res |-> res, at |-> now, data |-> data,
           exp |-> exp, expdata |-> expdata, feq |-> feq,
           stb |-> IF ud \in Uds THEN ops[ud].st ELSE "unknown",
           sameRing |-> ud \in Uds /\ ops[ud].ring = r,
           dueLo |-> IF ud \in Uds /\ ops[ud].st = "pend" THEN DueLo(ops[ud]) ELSE 0,
           closed |-> IF ud \in Uds /\ ops[ud].f \in 1..Len(fh)
                      THEN ~(fh[ops[ud].f].open /\ fh[ops[ud].f].gen = ops[ud].gen /\ ops[ud].hopen)
                      ELSE FALSE])
    /\ ops' = IF ud \in Uds /\ ops[ud].st = "pend" THEN [ops EXCEPT ![ud].st = "done"] ELSE ops
    /\ rem' = IF r \in Rings /\ rem[r] > 0 THEN [rem EXCEPT ![r] = @ - 1] ELSE rem
    /\ UNCHANGED <<now, rmeta, fh, flags, ended, endBufs>>

\* CompletionQueue::next returned None on ring r.
P_PopNone(r) ==
    /\ flags' = [flags EXCEPT !.none = @ /\ ~(Alive(r) /\ rem[r] > 0)]
    /\ UNCHANGED <<now, rmeta, fh, ops, cqs, rem, ended, endBufs>>

P_Tick(t) ==
    /\ t >= now
    /\ now' = t
    /\ UNCHANGED <<rmeta, fh, ops, cqs, rem, flags, ended, endBufs>>

Lose(rs) == [u \in Uds |-> IF ops[u].ring \in rs /\ ops[u].st \in {"sq", "pend"}
                           THEN [ops[u] EXCEPT !.st = "lost"] ELSE ops[u]]

P_DropRing(r) ==
    /\ rmeta' = [rmeta EXCEPT ![r].alive = FALSE]
    /\ ops' = Lose({r})
    /\ UNCHANGED <<now, fh, cqs, rem, flags, ended, endBufs>>

\* A comparison of all file contents (test filesystem vs twin) outside a pop:
\* after a shim write, after a crash, at the end of the run.
P_Files(feq) ==
    /\ flags' = [flags EXCEPT !.files = @ /\ feq]
    /\ UNCHANGED <<now, rmeta, fh, ops, cqs, rem, ended, endBufs>>

\* The host crashed (Sim::crash / Fs::crash + IoUringHostState::crash).
P_Crash(feq) ==
    /\ rmeta' = [r \in Rings |-> [rmeta[r] EXCEPT !.alive = FALSE]]
    /\ ops' = Lose(Rings)
    /\ fh' = [f \in 1..Len(fh) |-> [fh[f] EXCEPT !.open = FALSE]]
    /\ flags' = [flags EXCEPT !.files = @ /\ feq]
    /\ UNCHANGED <<now, cqs, rem, ended, endBufs>>

\* End of the run: bufs = final contents of the read buffers, Seq([ud, data]).
P_End(bufs, feq) ==
    /\ ended' = TRUE
    /\ endBufs' = bufs
    /\ flags' = [flags EXCEPT !.files = @ /\ feq]
    /\ UNCHANGED <<now, rmeta, fh, ops, cqs, rem>>

P_Reset ==   \* start of a new recorded run (trace validation only)
    /\ now' = 0 /\ rmeta' = <<>> /\ fh' = <<>> /\ ops' = <<>> /\ cqs' = <<>> /\ rem' = <<>>
    /\ flags' = [syncLow |-> TRUE, syncUp |-> TRUE, deadSync |-> TRUE, none |-> TRUE, files |-> TRUE, readable |-> TRUE]
    /\ ended' = FALSE /\ endBufs' = <<>>

---------------------------------------------------------------------------
(* The clauses of the statement *)

CqIdx == 1..Len(cqs)
CqOf(u) == {k \in CqIdx : cqs[k].ud = u}

\* "Every entry submitted yields exactly one completion carrying its user data"
\* - at most once, only for entries that were submitted and are still owed one,
\* on the ring they were submitted to.  (Entries whose push failed - "push on a
\* full SQ ... queues nothing" - and entries submitted before a crash or to a
\* dropped ring - "after the host crashes, no previously submitted operation
\* completes" - are not owed one: stb is then "rej" / "lost".)
CqeOnce == \A k \in CqIdx : cqs[k].stb = "pend" /\ cqs[k].sameRing

\* - at least once: a completion is visible to sync() once the upper latency
\* bound has elapsed on the ring clock (a sync() that reports fewer leaves an
\* entry without its completion; sync() = 0 is how a consumer decides it has
\* drained the ring) ...
SyncLower == flags.syncLow
\* ... and what sync() exposed can be obtained with next().
Delivers == flags.none

\* "no completion becomes visible before the operation's simulated latency has
\* elapsed" (ring clock, DESIGN A.6): popped completions, and the count sync() shows.
NotEarly  == \A k \in CqIdx : cqs[k].stb = "pend" => cqs[k].at >= cqs[k].dueLo
SyncUpper == flags.syncUp
\* the AsyncFd::readable drain pattern: it resolves only when a completion may be
\* visible, and it does resolve once one is due
ReadableOk == flags.readable

\* a cancellation error is justified by a cancel, on that ring, that found that
\* user_data outstanding (entries tagged alike are copies: which of them the
\* history attributes the error to is immaterial)
Backed(k) ==
    \E c \in Uds : /\ EffCancel(c) /\ ops[c].tgt = cqs[k].tag /\ ops[c].ring = cqs[k].ring /\ ops[c].tgtOut
                   /\ \A j \in CqOf(c) : cqs[j].res \in {0, ECANCELED}
\* ... and one cancel takes out one entry: on every ring, no more cancellation
\* errors for a user_data than cancels that found that user_data outstanding
CancelCount ==
    \A k \in CqIdx : (cqs[k].stb = "pend" /\ cqs[k].res = ECANCELED) =>
        LET r == cqs[k].ring  t == cqs[k].tag IN
        Cardinality({j \in CqIdx : cqs[j].ring = r /\ cqs[j].tag = t /\ cqs[j].stb = "pend" /\ cqs[j].res = ECANCELED})
          <= Cardinality({c \in Uds : EffCancel(c) /\ ops[c].ring = r /\ ops[c].tgt = t /\ ops[c].tgtOut})

\* "the result ... of each read, write and fsync equal those of the same
\* operation performed through the synchronous file API"; "a cancelled operation
\* completes once with a cancellation error"; unsupported flags => -EINVAL;
\* closed file => -EBADF; a cancel completes with 0 or -ENOENT, 0 only if its
\* target was outstanding.
ResultOk ==
    \A k \in CqIdx : cqs[k].stb = "pend" =>
        LET c == cqs[k]  o == ops[c.ud] IN
        \/ /\ c.res = ECANCELED /\ Backed(k)
           /\ (o.kind = "read" => c.data = Pristine(o.len))       \* buffer not written
        \/ /\ c.res # ECANCELED
           /\ IF o.bad THEN c.res = EINVAL /\ (o.kind = "read" => c.data = Pristine(o.len))
              ELSE IF o.kind = "cancel" THEN c.res \in {0, ENOENT} /\ (c.res = 0 => o.tgtOut)
              ELSE IF c.closed THEN c.res = EBADF /\ (o.kind = "read" => c.data = Pristine(o.len))
              ELSE c.res = c.exp /\ (o.kind = "read" => c.data = c.expdata)

\* a cancel that reports success made an entry with the target user_data complete
\* with the cancellation error (if every such entry on the ring has completed,
\* one of the completions is the cancellation error)
CancelPairs ==
    \A k \in CqIdx :
        LET c == cqs[k] IN
        (c.stb = "pend" /\ EffCancel(c.ud) /\ c.res = 0) =>
            LET t == ops[c.ud].tgt IN
            \/ \E j \in CqIdx : cqs[j].ring = c.ring /\ cqs[j].tag = t /\ cqs[j].stb = "pend" /\ cqs[j].res = ECANCELED
            \/ \E u \in Uds : ops[u].ring = c.ring /\ ops[u].tag = t /\ ops[u].st \in {"pend", "lost"}

\* "... and filesystem effect ... equal those of the same operation performed
\* through the synchronous file API" (the twin executes the operation exactly
\* when a completion other than the cancellation error is popped); a cancelled
\* or lost operation has no effect; "after the host crashes, no previously
\* submitted operation ... takes effect".
EffectOk == flags.files /\ \A k \in CqIdx : cqs[k].feq

\* "push on a full SQ fails and queues nothing"
PushFull == \A u \in Uds : ops[u].full => ops[u].st = "rej"

\* "after the host crashes, no previously submitted operation completes":
\* a dead ring shows nothing
DeadRingSilent == flags.deadSync

\* "its buffer is not touched afterwards": at the end of the run the buffer of
\* every read that did not complete normally still holds the fill pattern.
NormalRead(u) == \E k \in CqOf(u) : cqs[k].stb = "pend" /\ cqs[k].res >= 0
BufferUntouched ==
    ended => \A u \in Uds : (ops[u].kind = "read" /\ ~NormalRead(u)) =>
                \E i \in 1..Len(endBufs) : endBufs[i].ud = u /\ endBufs[i].data = Pristine(ops[u].len)

PropInv ==
    /\ CqeOnce /\ SyncLower /\ Delivers /\ NotEarly /\ SyncUpper /\ ResultOk /\ CancelPairs /\ CancelCount
    /\ EffectOk /\ PushFull /\ DeadRingSilent /\ BufferUntouched /\ ReadableOk
=============================================================================
