----------------------------- MODULE KSockGen -----------------------------
(* Behaviour generation for spec -> code replay: KSock plus a history       *)
(* variable.  Every entry carries, besides the action and its predicted     *)
(* result, the predicted outcome of a probe sweep in the post-state:        *)
(*   udp[f][h][a][p]  fd that receives a datagram sent by host h's prober   *)
(*                    to (SwA[a], SwP[p]) in family FamSeq[f]       *)
(*                    (0 = nobody)                                          *)
(*   syn[f][h][a][p]  answer to a SYN from (FirstAddr(h), SynPort):         *)
(*                    listener fd, 0 = no answer, -1 = RST, -2 = bare ACK,  *)
(*                    -9 = not probed                                       *)
(*   conn             for every live connection <<client, child, fd reading *)
(*                    client's data, fd reading child's data, answer to a   *)
(*                    SYN re-using the client's 4-tuple (same coding)>>     *)
EXTENDS KSock, Json, SequencesExt

VARIABLE hist

NH == Cardinality(Hosts)
FamSeq == IF Fams = {4} THEN <<4>> ELSE IF Fams = {6} THEN <<6>> ELSE <<4, 6>>

\* canonical orders shared with the Rust driver
AddrOrder == <<"lo", "a1", "a2", "b1", "b2", "c1", "c2", "x", "wild">>
SwA == SelectSeq(AddrOrder, LAMBDA a : a \in SwAddrs)
SwP == SetToSortSeq(SwPorts, LAMBDA x, y : x < y)

One(s) == IF s = {} THEN 0 ELSE CHOOSE x \in s : TRUE
SynCode(r) == IF r.reply = "synack" THEN One(r.obs)
              ELSE IF r.reply = "rst" THEN -1 ELSE IF r.reply = "ack" THEN -2 ELSE 0

SwUdp == [f \in 1..Len(FamSeq) |-> [h \in 1..NH |-> [a \in 1..Len(SwA) |-> [p \in 1..Len(SwP) |->
            One(ImplUdp(h, FamSeq[f], FirstAddr(h), ProbePort, SwA[a], SwP[p]))]]]]

SwSyn == [f \in 1..Len(FamSeq) |-> [h \in 1..NH |-> [a \in 1..Len(SwA) |-> [p \in 1..Len(SwP) |->
            IF Local(h, SwA[a]) THEN -9
            ELSE SynCode(ImplSyn(h, FamSeq[f], FirstAddr(h), SynPort, SwA[a], SwP[p]))]]]]

Clients == SelectSeq([i \in 1..Len(isock) |-> i],
                     LAMBDA i : isock[i].open /\ isock[i].mate > i)

SwConn == [k \in 1..Len(Clients) |->
            LET c == Clients[k]
                m == isock[c].mate
            IN <<c, m, One(ImplData(c)), One(ImplData(m)),
                 IF Local(isock[c].h, isock[c].peer[1]) THEN -9
                 ELSE SynCode(ImplSyn(isock[c].h, isock[c].fam, isock[c].addr, isock[c].port,
                                      isock[c].peer[1], isock[c].peer[2]))>>]

Done == nops = MaxOps

Entry == [act |-> last', udp |-> SwUdp', syn |-> SwSyn', conn |-> SwConn']

GenInit == Init /\ hist = <<>>
GenNext == ~Done /\ Next /\ hist' = Append(hist, Entry)
GenSpec == GenInit /\ [][GenNext]_<<vars, hist>>

Emit == Done => PrintT(<<"REPLAY", ToJson(hist)>>)
=============================================================================
