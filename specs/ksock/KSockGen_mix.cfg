SPECIFICATION GenSpec
CONSTANTS
  Hosts = {1, 2}
  EphLo = 49152
  EphHi = 49154
  Fams = {4}
  Protos = {"udp", "tcp"}
  BindHosts = {1}
  BindAddrs = {"wild", "lo", "a1", "a2", "b1"}
  BindPorts = {5000, 0}
  PeerAddrs = {"a1", "b1"}
  ConnHosts = {1, 2}
  ConnAddrs = {"lo", "a1", "a2", "x"}
  ConnPorts = {5000}
  MaxSocks = 4
  MaxOps = 3
  NoWrap = TRUE
  StallHosts = {}
  ProbeActs = FALSE
  FillFrom = 0
  SwAddrs = {"lo", "a1", "a2", "b1", "x"}
  SwPorts = {5000, 49152}
INVARIANTS
  Emit
  BindOracle
  FreshPort
  DemuxOracle
  ImplInv
CHECK_DEADLOCK FALSE
