SPECIFICATION Spec
CONSTANTS
  Hosts = {1, 2}
  EphLo = 49152
  EphHi = 49154
  Fams = {4}
  Protos = {"udp", "tcp"}
  BindHosts = {1}
  BindAddrs = {"wild", "lo", "a1", "a2", "b1"}
  BindPorts = {5000, 0}
  PeerAddrs = {}
  ConnHosts = {}
  ConnAddrs = {}
  ConnPorts = {}
  MaxSocks = 3
  MaxOps = 4
  NoWrap = FALSE
  StallHosts = {}
  ProbeActs = FALSE
  FillFrom = 0
  SwAddrs = {"lo", "a1", "a2", "b1", "x"}
  SwPorts = {5000, 49152, 49153}
INVARIANTS
  BindOracle
  FreshPort
  DemuxOracle
  ImplInv
  SweepAgrees
VIEW View
CHECK_DEADLOCK FALSE
