----------------------------- MODULE KSockProp -----------------------------
(***************************************************************************)
(* PropSpec for C17: turmoil-net binds and routes packets like a real      *)
(* socket table.                                                           *)
(*                                                                         *)
(* Only what the statement talks about: the set of live sockets (host,     *)
(* protocol, IP family, bound address, port, connected peer, role), the    *)
(* results of bind calls, and which socket observed each probe packet.     *)
(* No binding index, connection index, allocator cursor or fd numbers.     *)
(*                                                                         *)
(* Used three ways:                                                        *)
(*   - KSock.tla (ImplSpec) extends it and drives the P_* actions as       *)
(*     ghosts, so TLC checks "ImplSpec => BindOracle, FreshPort,           *)
(*     DemuxOracle";                                                       *)
(*   - KSockPropTrace.tla replays observations recorded from the real      *)
(*     code through the P_* actions alone (the verdict);                   *)
(*   - KSockTrace.tla replays the same events through KSock.               *)
(*                                                                         *)
(* Addresses are names.  "wild" = 0.0.0.0 / ::, "lo" = 127.0.0.1 / ::1;    *)
(* every other name is a concrete address whose owner is fixed by the      *)
(* naming convention below (a* -> host 1, b* -> host 2, c* -> host 3,      *)
(* anything else, e.g. "x", is owned by nobody).  The IP family (4 / 6) is *)
(* a separate field; the two families are disjoint name spaces (DESIGN §6  *)
(* C17: "same protocol (and IP family)").                                  *)
(***************************************************************************)
EXTENDS Naturals, Integers, Sequences, FiniteSets

CONSTANTS Hosts,    \* set of host ids, a subset of 1..3
          EphLo,    \* first ephemeral port (real code: 49152)
          EphHi     \* last ephemeral port  (real code: 65535)

Owner(a) == CASE a \in {"a1", "a2"} -> 1
              [] a \in {"b1", "b2"} -> 2
              [] a \in {"c1", "c2"} -> 3
              [] OTHER -> 0

\* loopback names: "lo" = 127.0.0.1 / ::1, "lo2" = 127.0.0.2 (another address of 127.0.0.0/8; IPv4 only,
\* used by binds and UDP probes of the directed loopback-alias scenario)
Lo == {"lo", "lo2"}

\* address a is configured on host h (loopback is implicit on every host)
Local(h, a) == a \in Lo \/ (Owner(a) = h /\ h \in Hosts)

\* host that owns the destination of a packet sent by `from` to address a
\* (0 = nobody: unknown destination - a foreign address no host has, e.g. "x", or the
\* unspecified address "wild" used as a destination)
Target(from, a) == IF a \in Lo THEN from
                   ELSE IF Owner(a) \in Hosts THEN Owner(a) ELSE 0

VARIABLES
    socks,     \* sequence of socket records, index = socket id (creation order)
    bindOk,    \* every bind result so far equals the reference bind oracle
    freshOk,   \* every port handed out for port 0 was ephemeral and unused
    demuxOk,   \* every probe so far was observed exactly by the reference demux choice
    lastObs    \* the last judged observation (diagnostics only)

pvars == <<socks, bindOk, freshOk, demuxOk, lastObs>>

NoPeer == <<>>

\* A socket record.  kind: "udp" | "listener" | "client" | "child" | "fill"
\* ("fill" = a block of sockets bound one per port to port..hi, used to shrink
\* the real 16 384-port ephemeral range; every other socket has hi = port).
Sock(h, proto, fam, addr, port, hi, peer, kind) ==
    [h |-> h, proto |-> proto, fam |-> fam, addr |-> addr, port |-> port, hi |-> hi,
     peer |-> peer, kind |-> kind, live |-> TRUE]

Same(S, i, h, proto, fam) ==
    S[i].live /\ S[i].h = h /\ S[i].proto = proto /\ S[i].fam = fam
Covers(s, p) == s.port <= p /\ p <= s.hi
SameSet(S, h, proto, fam) == {i \in 1..Len(S) : Same(S, i, h, proto, fam)}

InUse(S, h, proto, fam, p) ==
    \E i \in SameSet(S, h, proto, fam) : Covers(S[i], p)

\* "same address, or a wildcard against any address"
AddrClash(a, b) == a = b \/ a = "wild" \/ b = "wild"

Conflict(S, h, proto, fam, addr, lo, hi) ==
    \E i \in SameSet(S, h, proto, fam) :
        /\ S[i].port <= hi /\ lo <= S[i].hi
        /\ AddrClash(S[i].addr, addr)

Max(a, b) == IF a > b THEN a ELSE b
Min(a, b) == IF a < b THEN a ELSE b

\* no ephemeral port is left for (h, proto, fam): the union of the port
\* intervals in use covers the whole range
Exhausted(S, h, proto, fam) ==
    Cardinality(UNION {Max(S[i].port, EphLo)..Min(S[i].hi, EphHi) : i \in SameSet(S, h, proto, fam)})
        = EphHi - EphLo + 1

(* The reference bind oracle.  "a bind succeeds exactly when no live socket *)
(* of the same protocol conflicts on that port (same address, or a wildcard *)
(* against any address) and the address is local, fails with AddrInUse or   *)
(* AddrNotAvailable otherwise" - AddrNotAvailable (non-local) checked first;*)
(* port 0: AddrInUse only when no ephemeral port is left.                   *)
RefBind(S, h, proto, fam, addr, port) ==
    IF addr # "wild" /\ ~Local(h, addr) THEN "AddrNotAvailable"
    ELSE IF port = 0
         THEN IF Exhausted(S, h, proto, fam) THEN "AddrInUse" ELSE "Ok"
         ELSE IF Conflict(S, h, proto, fam, addr, port, port) THEN "AddrInUse" ELSE "Ok"

(* The reference demux for a UDP datagram from (sa, sp) to (da, dp) sent by *)
(* host `from`: the host owning da; there the socket bound to exactly da,   *)
(* else the wildcard one; a connected socket only from its peer.            *)
RefUdp(S, from, fam, sa, sp, da, dp) ==
    LET T == Target(from, da)
        cand(a) == {i \in SameSet(S, T, "udp", fam) : Covers(S[i], dp) /\ S[i].addr = a}
        tgt == IF cand(da) # {} THEN cand(da) ELSE cand("wild")
    IN IF T = 0 THEN {}
       ELSE {i \in tgt : S[i].peer = NoPeer \/ S[i].peer = <<sa, sp>>}

(* The reference demux for a TCP segment: the host owning da; there an      *)
(* established connection with that 4-tuple before a listener (exact        *)
(* address before wildcard); otherwise nobody (the stack answers RST).      *)
RefTcp(S, from, fam, sa, sp, da, dp) ==
    LET T == Target(from, da)
        conn == {i \in SameSet(S, T, "tcp", fam) :
                    /\ S[i].kind \in {"client", "child"}
                    /\ S[i].addr = da /\ S[i].port = dp /\ S[i].peer = <<sa, sp>>}
        lst(a) == {i \in SameSet(S, T, "tcp", fam) :
                    S[i].kind = "listener" /\ S[i].port = dp /\ S[i].addr = a}
    IN IF T = 0 THEN [k |-> "none", who |-> {}]
       ELSE IF conn # {} THEN [k |-> "conn", who |-> conn]
       ELSE IF lst(da) # {} THEN [k |-> "listener", who |-> lst(da)]
       ELSE IF lst("wild") # {} THEN [k |-> "listener", who |-> lst("wild")]
       ELSE [k |-> "rst", who |-> {}]

---------------------------------------------------------------------------
PInit ==
    /\ socks = <<>>
    /\ bindOk = TRUE /\ freshOk = TRUE /\ demuxOk = TRUE
    /\ lastObs = [ev |-> "init"]

\* bind(proto, addr, port) on host h returned res ("Ok" with the bound port
\* `got`, "AddrInUse", "AddrNotAvailable").  TCP binds are listeners
\* (TcpListener::bind is the only TCP bind of the shim).
P_Bind(h, proto, fam, addr, port, res, got) ==
    LET want == RefBind(socks, h, proto, fam, addr, port)
        fresh == res = "Ok" =>
                    IF port = 0
                    THEN got \in EphLo..EphHi /\ ~InUse(socks, h, proto, fam, got)
                    ELSE got = port
    IN /\ bindOk' = (bindOk /\ res = want)
       /\ freshOk' = (freshOk /\ fresh)
       /\ socks' = IF res = "Ok"
                   THEN Append(socks, Sock(h, proto, fam, addr, got, got, NoPeer,
                                           IF proto = "tcp" THEN "listener" ELSE "udp"))
                   ELSE socks
       /\ lastObs' = [ev |-> "bind", want |-> want, got |-> res, port |-> got]
       /\ UNCHANGED demuxOk

\* A block of explicit binds, one per port lo..hi, all at `addr`; allOk = every
\* one of them returned Ok.  (Compact encoding of hi-lo+1 bind events with the
\* same outcome; used only to pre-fill the fixed 16 384-port range.)
P_Fill(h, proto, fam, addr, lo, hi, allOk) ==
    LET want == (addr = "wild" \/ Local(h, addr)) /\ ~Conflict(socks, h, proto, fam, addr, lo, hi)
    IN /\ bindOk' = (bindOk /\ allOk = want)
       /\ socks' = IF allOk THEN Append(socks, Sock(h, proto, fam, addr, lo, hi, NoPeer, "fill")) ELSE socks
       /\ lastObs' = [ev |-> "fill", want |-> want, got |-> allOk]
       /\ UNCHANGED <<freshOk, demuxOk>>

\* the sockets in ss were closed (and, for TCP connections, the close
\* handshake ran to completion): "closing a socket frees its binding"
P_Close(ss) ==
    /\ socks' = [i \in 1..Len(socks) |-> IF i \in ss THEN [socks[i] EXCEPT !.live = FALSE] ELSE socks[i]]
    /\ lastObs' = [ev |-> "close"]
    /\ UNCHANGED <<bindOk, freshOk, demuxOk>>

\* UdpSocket::connect(pa:pp) on socket s
P_ConnectUdp(s, pa, pp) ==
    /\ socks' = [socks EXCEPT ![s].peer = <<pa, pp>>]
    /\ lastObs' = [ev |-> "connect_udp"]
    /\ UNCHANGED <<bindOk, freshOk, demuxOk>>

(* TcpStream::connect(da:dp) from host h.  res: "Ok" (acc = the listener    *)
(* whose accept returned the connection; cl / chl = local address of the    *)
(* client stream / of the accepted stream), "Refused" (RST), "NoReply" (no  *)
(* answer at all), or a local failure of the implicit bind ("AddrInUse",    *)
(* "AddrNotAvailable": outside the statement, not judged).  The SYN is a    *)
(* probe: it must reach the listener the reference demux selects.           *)
P_Connect(h, fam, da, dp, res, acc, cl, chl) ==
    LET r == RefTcp(socks, h, fam, "?", 0, da, dp)
        ok == CASE res \in {"AddrInUse", "AddrNotAvailable"} -> TRUE
                [] r.k = "none" -> res = "NoReply"
                [] r.k = "listener" -> res = "Ok" /\ r.who = {acc}
                [] OTHER -> res = "Refused"
        T == Target(h, da)
    IN /\ demuxOk' = (demuxOk /\ ok)
       /\ socks' = IF res = "Ok"
                   THEN socks \o <<Sock(h, "tcp", fam, cl[1], cl[2], cl[2], <<da, dp>>, "client"),
                                   Sock(T, "tcp", fam, chl[1], chl[2], chl[2], cl, "child")>>
                   ELSE socks
       /\ lastObs' = [ev |-> "connect", want |-> r, got |-> res, acc |-> acc]
       /\ UNCHANGED <<bindOk, freshOk>>

\* A uniquely tagged datagram sent by host `from` from (sa, sp) to (da, dp) was
\* received by exactly the sockets in obs (try_recv_from on every socket of
\* every host).
P_ProbeUdp(from, fam, sa, sp, da, dp, obs) ==
    LET want == RefUdp(socks, from, fam, sa, sp, da, dp)
    IN /\ demuxOk' = (demuxOk /\ obs = want)
       /\ lastObs' = [ev |-> "probe_udp", want |-> want, got |-> obs]
       /\ UNCHANGED <<socks, bindOk, freshOk>>

(* A SYN from (sa, sp) to (da, dp) put on the wire on behalf of host `from`.*)
(* reply: "synack" | "rst" | "none"; obs = the listeners whose accept       *)
(* returned the resulting connection.  When the 4-tuple is that of an       *)
(* established connection the statement only requires that no listener sees *)
(* it (what the connection itself answers is not specified).                *)
P_ProbeSyn(from, fam, sa, sp, da, dp, reply, obs) ==
    LET r == RefTcp(socks, from, fam, sa, sp, da, dp)
        ok == CASE r.k = "none" -> reply = "none" /\ obs = {}
                [] r.k = "conn" -> reply # "synack" /\ obs = {}
                [] r.k = "listener" -> reply = "synack" /\ obs = r.who
                [] OTHER -> reply = "rst" /\ obs = {}
    IN /\ demuxOk' = (demuxOk /\ ok)
       /\ lastObs' = [ev |-> "probe_syn", want |-> r, reply |-> reply, got |-> obs]
       /\ UNCHANGED <<socks, bindOk, freshOk>>

\* A tagged byte written on the connected TCP socket c was read by exactly the
\* stream sockets in obs: "an established TCP connection before a listener".
P_Data(c, obs) ==
    LET s == socks[c]
        r == RefTcp(socks, s.h, s.fam, s.addr, s.port, s.peer[1], s.peer[2])
    IN /\ c \in 1..Len(socks) /\ socks[c].live /\ socks[c].kind \in {"client", "child"}
       /\ demuxOk' = (demuxOk /\ r.k = "conn" /\ obs = r.who)
       /\ lastObs' = [ev |-> "data", want |-> r, got |-> obs]
       /\ UNCHANGED <<socks, bindOk, freshOk>>

(* A SYN from (sa, sp) to (da, dp) whose handshake is never completed (the wire *)
(* loses every answer, no ACK and no RST ever comes back) until the stack gives *)
(* up retransmitting.  Such a half-open connection is never handed to any       *)
(* application, so it is no socket in the sense of the statement: `socks` does  *)
(* not change - in particular it can never be the reason for a later AddrInUse  *)
(* once the listener is closed ("closing a socket frees its binding").  The     *)
(* first answer is judged like any SYN probe (which socket the SYN reached).    *)
P_Stall(from, fam, sa, sp, da, dp, reply) ==
    LET r == RefTcp(socks, from, fam, sa, sp, da, dp)
        ok == CASE r.k = "none" -> reply = "none"
                [] r.k = "conn" -> reply # "synack"
                [] r.k = "listener" -> reply = "synack"
                [] OTHER -> reply = "rst"
    IN /\ demuxOk' = (demuxOk /\ ok)
       /\ lastObs' = [ev |-> "stall", want |-> r, reply |-> reply]
       /\ UNCHANGED <<socks, bindOk, freshOk>>

\* start of a new recorded run (trace validation only)
P_Reset ==
    /\ socks' = <<>>
    /\ bindOk' = TRUE /\ freshOk' = TRUE /\ demuxOk' = TRUE
    /\ lastObs' = [ev |-> "reset"]

---------------------------------------------------------------------------
(* The properties *)

\* "a bind succeeds exactly when no live socket of the same protocol conflicts
\* on that port (same address, or a wildcard against any address) and the
\* address is local, fails with AddrInUse or AddrNotAvailable otherwise ...
\* closing a socket frees its binding" (closed sockets are not live)
BindOracle == bindOk

\* "port 0 yields an ephemeral port not in use at any local address"
FreshPort == freshOk

\* "An inbound packet is delivered only to the host owning its destination
\* address, and there only to the socket whose binding matches -- an exact
\* address before the wildcard, an established TCP connection before a
\* listener, a connected UDP socket only from its peer -- and never to any
\* other socket or host"
DemuxOracle == demuxOk

PropInv == BindOracle /\ FreshPort /\ DemuxOracle
=============================================================================
