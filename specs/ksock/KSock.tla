------------------------------- MODULE KSock -------------------------------
(***************************************************************************)
(* ImplSpec for C17: the socket table of turmoil-net as written.           *)
(*                                                                         *)
(*   kernel/socket.rs  SocketTable { sockets, bindings: IndexMap<BindKey,  *)
(*                     Vec<Fd>>, connections: IndexMap<(local, remote),    *)
(*                     Fd>, ports: PortAllocator { range, cursor } }       *)
(*   kernel/mod.rs     Kernel::bind (locality check, allocate_port,        *)
(*                     conflict walk over bindings_on_port, insert),       *)
(*                     Kernel::close / SocketTable::remove, egress (local  *)
(*                     destinations fold back)                             *)
(*   kernel/udp.rs     deliver: exact key, else wildcard key, first fd,    *)
(*                     connected-peer filter                               *)
(*   kernel/tcp.rs     poll_connect (auto_bind: loopback or first address  *)
(*                     of the family, allocate_port, insert_connection),   *)
(*                     deliver: find_connection, else find_listener        *)
(*                     (exact then wildcard, first fd that listens),       *)
(*                     accept_syn (child bound to the concrete             *)
(*                     destination, insert_binding + insert_connection),   *)
(*                     else RST                                            *)
(*   fabric.rs         deliver: ip_to_host, unknown destination dropped    *)
(*                                                                         *)
(* One action per call of the public API; the decision of every action is  *)
(* computed from the implementation tables (isock, binds, conns, cursor)   *)
(* only and handed to the P_* ghost action of KSockProp, whose reference   *)
(* oracles work on the abstract socket set.                                *)
(***************************************************************************)
EXTENDS KSockProp, TLC

CONSTANTS
    Fams,         \* IP families in play, subset of {4, 6}
    Protos,       \* subset of {"udp", "tcp"}
    BindHosts,    \* hosts on which Bind is explored
    BindAddrs,    \* address names used by Bind
    BindPorts,    \* ports used by Bind (0 = ephemeral)
    PeerAddrs,    \* addresses a used by ConnectUdp (peer = <<a, ProbePort>>)
    ConnHosts,    \* hosts that issue TCP connects
    ConnAddrs,    \* destination addresses of TCP connects
    ConnPorts,    \* fixed destination ports of TCP connects (live listener ports are always tried)
    MaxSocks,     \* bound on sockets ever created
    MaxOps,       \* bound on actions
    NoWrap,       \* TRUE: disable allocations whose scan would pass EphHi (so the
                  \*       behaviour is the same on the real 16 384-port range)
    StallHosts,   \* hosts from which stalled handshakes are started ({} = none)
    ProbeActs,    \* TRUE: Probe* actions are part of Next (design-level run)
    FillFrom,     \* 0, or a port: every (BindHosts, Protos, Fams) starts with a block of sockets
                  \* bound to "lo" on FillFrom..EphHi (how the harness shrinks the real range)
    SwAddrs,      \* set of probe destination addresses (sweeps)
    SwPorts       \* set of probe destination ports (sweeps)

VARIABLES
    isock,    \* Seq of implementation socket records, index = Fd in creation order
    binds,    \* [Hosts -> Seq([fam, proto, addr, port, hi, fds])]   IndexMap<BindKey, Vec<Fd>>
    conns,    \* [Hosts -> Seq([fam, la, lp, ra, rp, fd])]           IndexMap<(local, remote), Fd>
    cursor,   \* [Hosts -> EphLo..EphHi+1]   PortAllocator::cursor (one per host)
    nops,
    last      \* label + result of the action taken (not part of the VIEW)

ivars == <<isock, binds, conns, cursor, nops>>
vars  == <<pvars, ivars, last>>

\* Kernel::addresses: the first configured address is what auto-bind and
\* wildcard senders use for non-loopback destinations
FirstAddr(h) == CASE h = 1 -> "a1" [] h = 2 -> "b1" [] OTHER -> "c1"

ProbePort == 40000     \* UDP prober sockets (outside the model's port universe)
SynPort   == 40001     \* source port of SYN probes put on the wire by the harness

ISock(h, proto, fam, addr, port, peer, listen, mate) ==
    [h |-> h, proto |-> proto, fam |-> fam, addr |-> addr, port |-> port, hi |-> port,
     peer |-> peer, listen |-> listen, mate |-> mate, open |-> TRUE]

---------------------------------------------------------------------------
(* SocketTable helpers *)

EntryCovers(e, p) == e.port <= p /\ p <= e.hi

\* bindings_on_port(domain, ty, port)
OnPort(h, fam, proto, p) ==
    {k \in 1..Len(binds[h]) :
        binds[h][k].fam = fam /\ binds[h][k].proto = proto /\ EntryCovers(binds[h][k], p)}

\* PortAllocator::allocate with in_use = "some binding of (domain, ty) on p at
\* any address".  Returns [port (0 = None), cur (cursor afterwards), faithful
\* (the scan did not pass EphHi)].
Alloc(h, fam, proto) ==
    LET R == EphHi - EphLo + 1
        c == IF cursor[h] > EphHi THEN EphLo ELSE cursor[h]
        ks == {k \in 1..Len(binds[h]) : binds[h][k].fam = fam /\ binds[h][k].proto = proto}
        used == (UNION {binds[h][k].port..binds[h][k].hi : k \in ks}) \cap (EphLo..EphHi)
        n == Cardinality(used)
        \* the first n+1 candidates of the scan contain a free port iff one exists
        W == {EphLo + ((c - EphLo + i) % R) : i \in 0..(IF n + 1 < R THEN n ELSE R - 1)}
        free == W \ used
        dist(p) == (p - c + R) % R
    IN IF free = {} THEN [port |-> 0, cur |-> cursor[h], faithful |-> FALSE]
       ELSE LET p == CHOOSE p \in free : \A q \in free : dist(p) <= dist(q)
            IN [port |-> p,
                cur |-> IF p = EphHi THEN (IF NoWrap THEN EphHi + 1 ELSE EphLo) ELSE p + 1,
                faithful |-> cursor[h] <= EphHi /\ p >= c]

\* SocketTable::insert_binding: entry(key).or_default().push(fd)
InsertBinding(bs, fam, proto, addr, port, fd) ==
    IF \E k \in 1..Len(bs) : bs[k].fam = fam /\ bs[k].proto = proto /\ bs[k].addr = addr
                              /\ bs[k].port = port /\ bs[k].hi = port
    THEN [k \in 1..Len(bs) |->
            IF bs[k].fam = fam /\ bs[k].proto = proto /\ bs[k].addr = addr
               /\ bs[k].port = port /\ bs[k].hi = port
            THEN [bs[k] EXCEPT !.fds = Append(@, fd)] ELSE bs[k]]
    ELSE Append(bs, [fam |-> fam, proto |-> proto, addr |-> addr, port |-> port, hi |-> port, fds |-> <<fd>>, h |-> 0])

\* SocketTable::remove: bindings.retain(..), connections.retain(..)
RemoveFds(bs, fdset) ==
    LET strip(e) == [e EXCEPT !.fds = SelectSeq(@, LAMBDA f : f \notin fdset)]
        stripped == [k \in 1..Len(bs) |-> strip(bs[k])]
    IN SelectSeq(stripped, LAMBDA e : Len(e.fds) > 0)
RemoveConns(cs, fdset) == SelectSeq(cs, LAMBDA e : e.fd \notin fdset)

\* the binding entry with exactly this key (0 = none)
EntryAt(h, fam, proto, addr, p) ==
    LET ks == {k \in OnPort(h, fam, proto, p) : binds[h][k].addr = addr}
    IN IF ks = {} THEN 0 ELSE CHOOSE k \in ks : TRUE

\* egress folds local destinations back; otherwise Fabric::deliver by ip_to_host
Route(from, a) == IF Local(from, a) THEN from
                  ELSE IF Owner(a) \in Hosts THEN Owner(a) ELSE 0

\* tcp::find_listener on tables bs: exact key then wildcard key, first fd that listens
FindListenerIn(bs, S, fam, a, p) ==
    LET at(addr) == {k \in 1..Len(bs) : bs[k].fam = fam /\ bs[k].proto = "tcp"
                                          /\ bs[k].addr = addr /\ bs[k].port = p /\ bs[k].hi = p}
        firstL(addr) ==
            IF at(addr) = {} THEN 0
            ELSE LET e == bs[CHOOSE k \in at(addr) : TRUE]
                     ls == {j \in 1..Len(e.fds) : S[e.fds[j]].listen}
                 IN IF ls = {} THEN 0 ELSE e.fds[CHOOSE j \in ls : \A j2 \in ls : j <= j2]
    IN IF firstL(a) # 0 THEN firstL(a) ELSE firstL("wild")

\* SocketTable::find_connection
FindConnIn(cs, fam, la, lp, ra, rp) ==
    LET ks == {k \in 1..Len(cs) : cs[k].fam = fam /\ cs[k].la = la /\ cs[k].lp = lp
                                   /\ cs[k].ra = ra /\ cs[k].rp = rp}
    IN IF ks = {} THEN 0 ELSE cs[CHOOSE k \in ks : TRUE].fd

---------------------------------------------------------------------------
(* What the implementation does with a probe (pure functions of the tables) *)

\* udp::deliver -> set of fds that queue the datagram
ImplUdp(from, fam, sa, sp, da, dp) ==
    LET T == Route(from, da)
        ex == IF T = 0 THEN 0 ELSE EntryAt(T, fam, "udp", da, dp)
        wi == IF T = 0 THEN 0 ELSE EntryAt(T, fam, "udp", "wild", dp)
        fd == IF ex # 0 THEN binds[T][ex].fds[1] ELSE IF wi # 0 THEN binds[T][wi].fds[1] ELSE 0
    IN IF fd = 0 THEN {}
       ELSE IF isock[fd].peer # NoPeer /\ isock[fd].peer # <<sa, sp>> THEN {} ELSE {fd}

\* tcp::deliver of a bare SYN -> [reply, obs]
ImplSyn(from, fam, sa, sp, da, dp) ==
    LET T == Route(from, da)
        fc == IF T = 0 THEN 0 ELSE FindConnIn(conns[T], fam, da, dp, sa, sp)
        fl == IF T = 0 THEN 0 ELSE FindListenerIn(binds[T], isock, fam, da, dp)
    IN IF T = 0 THEN [reply |-> "none", obs |-> {}]
       \* handle_established: a segment that occupies sequence space but is not accepted is
       \* answered with a bare ACK (repo commit b7a1b92); before that commit it was ignored
       ELSE IF fc # 0 THEN [reply |-> "ack", obs |-> {}]
       ELSE IF fl # 0 THEN [reply |-> "synack", obs |-> {fl}]
       ELSE [reply |-> "rst", obs |-> {}]

\* a data segment of connected socket c -> fds whose recv_buf gets it
ImplData(c) ==
    LET s == isock[c]
        T == Route(s.h, s.peer[1])
        fc == IF T = 0 THEN 0 ELSE FindConnIn(conns[T], s.fam, s.peer[1], s.peer[2], s.addr, s.port)
    IN IF fc = 0 THEN {} ELSE {fc}

---------------------------------------------------------------------------
\* blocks of pre-bound sockets (one block per host / protocol / family), in a fixed order
FillKeys == IF FillFrom = 0 THEN {} ELSE BindHosts \X Protos \X Fams
FillOrd(k) == k[1] * 100 + (IF k[2] = "udp" THEN 0 ELSE 10) + k[3]
FillSeq == LET RECURSIVE Ord(_)
               Ord(S) == IF S = {} THEN <<>>
                         ELSE LET m == CHOOSE x \in S : \A y \in S : FillOrd(x) <= FillOrd(y)
                              IN <<m>> \o Ord(S \ {m})
           IN Ord(FillKeys)

Init ==
    /\ bindOk = TRUE /\ freshOk = TRUE /\ demuxOk = TRUE
    /\ lastObs = [ev |-> "init"]
    /\ socks = [i \in 1..Len(FillSeq) |->
                  Sock(FillSeq[i][1], FillSeq[i][2], FillSeq[i][3], "lo", FillFrom, EphHi, NoPeer, "fill")]
    /\ isock = [i \in 1..Len(FillSeq) |->
                  [ISock(FillSeq[i][1], FillSeq[i][2], FillSeq[i][3], "lo", FillFrom, NoPeer, FALSE, 0)
                     EXCEPT !.hi = EphHi]]
    /\ binds = [h \in Hosts |->
                  SelectSeq([i \in 1..Len(FillSeq) |->
                               [fam |-> FillSeq[i][3], proto |-> FillSeq[i][2], addr |-> "lo",
                                port |-> FillFrom, hi |-> EphHi, fds |-> <<i>>, h |-> FillSeq[i][1]]],
                            LAMBDA e : e.h = h)]
    /\ conns = [h \in Hosts |-> <<>>]
    /\ cursor = [h \in Hosts |-> EphLo]
    /\ nops = 0
    /\ last = [a |-> "init"]

Budget == nops < MaxOps
Step == nops' = nops + 1

(* Kernel::bind (UdpSocket::bind / TcpListener::bind = bind + listen).     *)
(* BindCalc = the decision (locality check, allocate_port, conflict walk),  *)
(* BindDo = the state change.                                               *)
NoAlloc == [port |-> 0, cur |-> 0, faithful |-> TRUE]
BindCalc(h, proto, fam, addr, port) ==
    LET notLocal == addr # "wild" /\ ~Local(h, addr)
        al == IF port = 0 /\ ~notLocal THEN Alloc(h, fam, proto) ELSE NoAlloc
        p == IF port = 0 THEN al.port ELSE port
        clash == \E k \in OnPort(h, fam, proto, p) : AddrClash(binds[h][k].addr, addr)
        res == IF notLocal THEN "AddrNotAvailable"
               ELSE IF port = 0 /\ al.port = 0 THEN "AddrInUse"
               ELSE IF clash THEN "AddrInUse" ELSE "Ok"
    IN [res |-> res, p |-> IF res = "Ok" THEN p ELSE 0, al |-> al, alloc |-> port = 0 /\ ~notLocal,
        cls |-> IF res = "Ok" THEN (IF port = 0 THEN "OkEphemeral" ELSE "OkFixed")
                ELSE IF res = "AddrInUse" THEN (IF port = 0 THEN "Exhausted" ELSE "InUse")
                ELSE "NotLocal"]

BindDo(h, proto, fam, addr, port, c) ==
    LET fd == Len(isock) + 1
    IN /\ Budget /\ Len(isock) < MaxSocks
       /\ (NoWrap /\ c.alloc) => c.al.faithful
       /\ cursor' = IF c.alloc THEN [cursor EXCEPT ![h] = c.al.cur] ELSE cursor
       /\ IF c.res = "Ok"
          THEN /\ isock' = Append(isock, ISock(h, proto, fam, addr, c.p, NoPeer, proto = "tcp", 0))
               /\ binds' = [binds EXCEPT ![h] = InsertBinding(@, fam, proto, addr, c.p, fd)]
          ELSE UNCHANGED <<isock, binds>>
       /\ UNCHANGED conns
       /\ P_Bind(h, proto, fam, addr, port, c.res, c.p)
       /\ last' = [a |-> "bind", h |-> h, proto |-> proto, fam |-> fam, addr |-> addr, port |-> port,
                   res |-> c.res, got |-> c.p, sid |-> IF c.res = "Ok" THEN fd ELSE 0]
       /\ Step

Bind(h, proto, fam, addr, port) == BindDo(h, proto, fam, addr, port, BindCalc(h, proto, fam, addr, port))

(* Kernel::close of a UDP socket or of a listener (no unaccepted children *)
(* exist between actions: Connect accepts at once)                         *)
Close(s) ==
    /\ Budget
    /\ s \in 1..Len(isock) /\ isock[s].open
    /\ isock[s].proto = "udp" \/ isock[s].listen
    /\ isock' = [isock EXCEPT ![s].open = FALSE]
    /\ binds' = [binds EXCEPT ![isock[s].h] = RemoveFds(@, {s})]
    /\ conns' = [conns EXCEPT ![isock[s].h] = RemoveConns(@, {s})]
    /\ UNCHANGED cursor
    /\ P_Close({s})
    /\ last' = [a |-> "close", sids |-> <<s>>]
    /\ Step

(* A listener closed in the middle of a handshake: a SYN from (sa, sp) has  *)
(* reached listener s through address da (accept_syn: child in SynReceived), *)
(* the SYN-ACK is still on the wire when the listener is closed; on_close    *)
(* (CloseListener) resets and removes the half-open child together with the  *)
(* listener, and the client's late ACK finds nothing.  The tables end up as   *)
(* after Close(s).  (Defined after ImplSyn's use: see CloseMidMC.)            *)
CloseMid(s, from, fam, sa, sp, da) ==
    /\ Budget
    /\ s \in 1..Len(isock) /\ isock[s].open /\ isock[s].listen /\ isock[s].fam = fam
    /\ ~Local(from, da)
    /\ isock' = [isock EXCEPT ![s].open = FALSE]
    /\ binds' = [binds EXCEPT ![isock[s].h] = RemoveFds(@, {s})]
    /\ conns' = [conns EXCEPT ![isock[s].h] = RemoveConns(@, {s})]
    /\ UNCHANGED cursor
    /\ P_Close({s})
    /\ last' = [a |-> "close", sids |-> <<s>>,
                mid |-> [from |-> from, fam |-> fam, sa |-> sa, sp |-> sp, da |-> da, dp |-> isock[s].port]]
    /\ Step

(* both ends of an established connection are dropped and the close        *)
(* handshake runs to completion: both sockets are reaped                    *)
CloseConn(c) ==
    /\ Budget
    /\ c \in 1..Len(isock) /\ isock[c].open /\ isock[c].mate # 0 /\ isock[c].mate > c
    /\ LET m == isock[c].mate
           hs == {isock[c].h, isock[m].h}
       IN /\ isock' = [isock EXCEPT ![c].open = FALSE, ![m].open = FALSE]
          /\ binds' = [h \in Hosts |-> IF h \in hs THEN RemoveFds(binds[h], {c, m}) ELSE binds[h]]
          /\ conns' = [h \in Hosts |-> IF h \in hs THEN RemoveConns(conns[h], {c, m}) ELSE conns[h]]
          /\ P_Close({c, m})
          /\ last' = [a |-> "close", sids |-> <<c, m>>]
    /\ UNCHANGED cursor
    /\ Step

(* UdpSocket::connect on a bound socket: stores the peer *)
ConnectUdp(s, peer) ==
    /\ Budget
    /\ s \in 1..Len(isock) /\ isock[s].open /\ isock[s].proto = "udp"
    /\ isock' = [isock EXCEPT ![s].peer = peer]
    /\ UNCHANGED <<binds, conns, cursor>>
    /\ P_ConnectUdp(s, peer[1], peer[2])
    /\ last' = [a |-> "connect_udp", sid |-> s, pa |-> peer[1], pp |-> peer[2]]
    /\ Step

LiveListenerPorts(fam) ==
    {isock[i].port : i \in {j \in 1..Len(isock) : isock[j].open /\ isock[j].listen /\ isock[j].fam = fam}}

(* TcpStream::connect(da:dp) from host h, the wire delivering everything   *)
(* at once, followed by accept on the listener that got the connection.    *)
ConnCalc(h, fam, da, dp) ==
    LET lip == IF da = "lo" THEN "lo" ELSE FirstAddr(h)          \* tcp::auto_bind
        al == Alloc(h, fam, "tcp")
        ep == al.port
        T == Route(h, da)
        cfd == Len(isock) + 1
        bindsC == [binds EXCEPT ![h] = InsertBinding(@, fam, "tcp", lip, ep, cfd)]
        isockC == Append(isock, ISock(h, "tcp", fam, lip, ep, <<da, dp>>, FALSE, cfd + 1))
        fl == IF T = 0 \/ ep = 0 THEN 0 ELSE FindListenerIn(bindsC[T], isockC, fam, da, dp)
    IN [lip |-> lip, al |-> al, ep |-> ep, T |-> T, fl |-> fl,
        res |-> IF ep = 0 THEN "AddrInUse"
                ELSE IF T = 0 THEN "NoReply"
                ELSE IF fl = 0 THEN "Refused" ELSE "Ok"]

ConnDo(h, fam, da, dp, c) ==
    LET lip == c.lip
        ep == c.ep
        T == c.T
        cfd == Len(isock) + 1
        kfd == Len(isock) + 2
        bindsC == [binds EXCEPT ![h] = InsertBinding(@, fam, "tcp", lip, ep, cfd)]
        connsC == [conns EXCEPT ![h] = Append(@, [fam |-> fam, la |-> lip, lp |-> ep, ra |-> da, rp |-> dp, fd |-> cfd])]
        isockC == Append(isock, ISock(h, "tcp", fam, lip, ep, <<da, dp>>, FALSE, kfd))
    IN /\ Budget /\ Len(isock) + 2 <= MaxSocks
       /\ dp \in ConnPorts \cup LiveListenerPorts(fam)
       /\ NoWrap => c.al.faithful
       \* a SYN that meets its own SynSent socket (self-connect) is outside the model
       /\ ~(ep # 0 /\ T = h /\ da = lip /\ dp = ep)
       /\ cursor' = [cursor EXCEPT ![h] = c.al.cur]
       /\ IF c.res = "Ok"
          THEN /\ isock' = Append(isockC, ISock(T, "tcp", fam, da, dp, <<lip, ep>>, FALSE, cfd))
               /\ binds' = [bindsC EXCEPT ![T] = InsertBinding(@, fam, "tcp", da, dp, kfd)]
               /\ conns' = [connsC EXCEPT ![T] = Append(@, [fam |-> fam, la |-> da, lp |-> dp, ra |-> lip, rp |-> ep, fd |-> kfd])]
          ELSE UNCHANGED <<isock, binds, conns>>        \* the SynSent socket is reaped by FdGuard
       /\ P_Connect(h, fam, da, dp, c.res, c.fl, <<lip, ep>>, <<da, dp>>)
       /\ last' = [a |-> "connect", h |-> h, fam |-> fam, da |-> da, dp |-> dp, res |-> c.res, acc |-> c.fl,
                   cla |-> lip, clp |-> ep,
                   csid |-> IF c.res = "Ok" THEN cfd ELSE 0, ksid |-> IF c.res = "Ok" THEN kfd ELSE 0]
       /\ Step

Connect(h, fam, da, dp) == ConnDo(h, fam, da, dp, ConnCalc(h, fam, da, dp))

---------------------------------------------------------------------------
(* Probes.  They change nothing but the ghost verdict variables. *)

SwAddrSet == SwAddrs
SwPortSet == SwPorts

\* which branch of udp::deliver / tcp::deliver a probe takes (for the vacuity guard only)
UdpClass(from, fam, sa, sp, da, dp) ==
    LET T == Route(from, da)
        ex == IF T = 0 THEN 0 ELSE EntryAt(T, fam, "udp", da, dp)
        wi == IF T = 0 THEN 0 ELSE EntryAt(T, fam, "udp", "wild", dp)
    IN IF T = 0 THEN "unowned"
       ELSE IF ex = 0 /\ wi = 0 THEN "nobody"
       ELSE IF ImplUdp(from, fam, sa, sp, da, dp) = {} THEN "filtered"
       ELSE IF ex # 0 THEN "exact" ELSE "wild"

SynClass(from, fam, sa, sp, da, dp) ==
    LET T == Route(from, da)
        r == ImplSyn(from, fam, sa, sp, da, dp)
    IN IF T = 0 THEN "unowned"
       ELSE IF r.reply = "rst" THEN "rst"
       ELSE IF r.reply = "ack" THEN "conn"
       ELSE IF isock[CHOOSE x \in r.obs : TRUE].addr = "wild" THEN "wild" ELSE "exact"

ProbeUdp(from, fam, sa, sp, da, dp) ==
    /\ P_ProbeUdp(from, fam, sa, sp, da, dp, ImplUdp(from, fam, sa, sp, da, dp))
    /\ UNCHANGED ivars
    /\ last' = [a |-> "probe_udp", cls |-> UdpClass(from, fam, sa, sp, da, dp)]

ProbeSyn(from, fam, sa, sp, da, dp) ==
    LET r == ImplSyn(from, fam, sa, sp, da, dp)
    IN /\ ~Local(from, da)                  \* loopback / own-address traffic never is on the wire
       /\ P_ProbeSyn(from, fam, sa, sp, da, dp, r.reply, r.obs)
       /\ UNCHANGED ivars
       /\ last' = [a |-> "probe_syn", cls |-> SynClass(from, fam, sa, sp, da, dp)]

(* A handshake that stalls until the server gives up: tcp::deliver hands the  *)
(* SYN to the listener (accept_syn: child in SynReceived, bound + indexed),   *)
(* every SYN-ACK is lost, check_retx retransmits retx_max times and then      *)
(* abort_timed_out -> abort_with removes the never-accepted child from the    *)
(* table again (repo commit cbf2d0e).  Taken as one atomic step the tables    *)
(* are unchanged; without a listener it is an ordinary refused / lost SYN.    *)
Stall(from, fam, sa, sp, da, dp) ==
    LET r == ImplSyn(from, fam, sa, sp, da, dp)
    IN /\ Budget
       /\ ~Local(from, da)
       /\ P_Stall(from, fam, sa, sp, da, dp, r.reply)
       /\ UNCHANGED <<isock, binds, conns, cursor>>
       /\ last' = [a |-> "stall", from |-> from, fam |-> fam, sa |-> sa, sp |-> sp, da |-> da, dp |-> dp,
                   reply |-> r.reply]
       /\ Step

ProbeData(c) ==
    /\ c \in 1..Len(isock) /\ isock[c].open /\ isock[c].mate # 0
    /\ P_Data(c, ImplData(c))
    /\ UNCHANGED ivars
    /\ last' = [a |-> "probe_data"]

\* SYN probes: from the harness' own source port, and from the address of every
\* live connected socket (so established 4-tuples are hit)
SynSources(from) ==
    {<<FirstAddr(from), SynPort>>}
      \cup {<<isock[i].addr, isock[i].port>> : i \in {j \in 1..Len(isock) :
                 isock[j].open /\ isock[j].mate # 0 /\ isock[j].h = from /\ isock[j].addr # "lo"}}

\* Bind / Connect split by outcome, so that -coverage shows that every outcome
\* class of the two oracles was exercised (vacuity guard)
BindClass(cls) ==
    \E h \in BindHosts, proto \in Protos, fam \in Fams, addr \in BindAddrs, port \in BindPorts :
        LET c == BindCalc(h, proto, fam, addr, port)
        IN c.cls = cls /\ BindDo(h, proto, fam, addr, port, c)
BindOkFixed     == BindClass("OkFixed") /\ last'.a = "bind"      \* (this conjunct makes -coverage name the action)
BindOkEphemeral == BindClass("OkEphemeral") /\ last'.a = "bind"
BindInUse       == BindClass("InUse") /\ last'.a = "bind"
BindExhausted   == BindClass("Exhausted") /\ last'.a = "bind"
BindNotLocal    == BindClass("NotLocal") /\ last'.a = "bind"
CloseMC == \E s \in 1..Len(isock) : Close(s)
CloseConnMC == \E c \in 1..Len(isock) : CloseConn(c)
ConnectUdpMC == \E s \in 1..Len(isock), pa \in PeerAddrs : ConnectUdp(s, <<pa, ProbePort>>)
ConnectClass(res) ==
    \E h \in ConnHosts, fam \in Fams, da \in ConnAddrs : \E dp \in ConnPorts \cup LiveListenerPorts(fam) :
        /\ "tcp" \in Protos /\ Budget /\ Len(isock) + 2 <= MaxSocks
        /\ LET c == ConnCalc(h, fam, da, dp)
           IN c.res = res /\ ConnDo(h, fam, da, dp, c)
ConnectOk      == ConnectClass("Ok") /\ last'.a = "connect"
ConnectRefused == ConnectClass("Refused") /\ last'.a = "connect"
ConnectNoReply == ConnectClass("NoReply") /\ last'.a = "connect"
ConnectNoPort  == ConnectClass("AddrInUse") /\ last'.a = "connect"
ProbeUdpAny == \E from \in Hosts, fam \in Fams, da \in SwAddrSet, dp \in SwPortSet :
              ProbeActs /\ "udp" \in Protos /\ ProbeUdp(from, fam, FirstAddr(from), ProbePort, da, dp)
ProbeUdpExact    == ProbeUdpAny /\ last'.cls = "exact"
ProbeUdpWild     == ProbeUdpAny /\ last'.cls = "wild"
ProbeUdpFiltered == ProbeUdpAny /\ last'.cls = "filtered"
ProbeUdpNobody   == ProbeUdpAny /\ last'.cls = "nobody"
ProbeUdpUnowned  == ProbeUdpAny /\ last'.cls = "unowned"
ProbeSynAny == \E from \in Hosts, fam \in Fams, da \in SwAddrSet, dp \in SwPortSet :
              \E src \in SynSources(from) :
              ProbeActs /\ "tcp" \in Protos /\ ProbeSyn(from, fam, src[1], src[2], da, dp)
ProbeSynExact   == ProbeSynAny /\ last'.cls = "exact"
ProbeSynWild    == ProbeSynAny /\ last'.cls = "wild"
ProbeSynConn    == ProbeSynAny /\ last'.cls = "conn"
ProbeSynRst     == ProbeSynAny /\ last'.cls = "rst"
ProbeSynUnowned == ProbeSynAny /\ last'.cls = "unowned"
ProbeDataMC == \E c \in 1..Len(isock) : ProbeActs /\ ProbeData(c)
CloseMidMC == /\ \E from \in StallHosts, fam \in Fams, da \in ConnAddrs, s \in 1..Len(isock) :
                 /\ "tcp" \in Protos
                 /\ s \in 1..Len(isock) /\ isock[s].open /\ isock[s].listen /\ isock[s].fam = fam
                 /\ ImplSyn(from, fam, FirstAddr(from), SynPort, da, isock[s].port).obs = {s}
                 /\ CloseMid(s, from, fam, FirstAddr(from), SynPort, da)
              /\ last'.a = "close"
StallMC == /\ \E from \in StallHosts, fam \in Fams, da \in ConnAddrs : \E dp \in ConnPorts \cup LiveListenerPorts(fam) :
              "tcp" \in Protos /\ Stall(from, fam, FirstAddr(from), SynPort, da, dp)
           /\ last'.a = "stall"

\* the alphabet split by outcome class / demux branch (vacuity runs with -coverage)
NextCov ==
    \/ BindOkFixed
    \/ BindOkEphemeral
    \/ BindInUse
    \/ BindExhausted
    \/ BindNotLocal
    \/ CloseMC
    \/ CloseConnMC
    \/ ConnectUdpMC
    \/ ConnectOk
    \/ ConnectRefused
    \/ ConnectNoReply
    \/ ConnectNoPort
    \/ ProbeUdpExact
    \/ ProbeUdpWild
    \/ ProbeUdpFiltered
    \/ ProbeUdpNobody
    \/ ProbeUdpUnowned
    \/ ProbeSynExact
    \/ ProbeSynWild
    \/ ProbeSynConn
    \/ ProbeSynRst
    \/ ProbeSynUnowned
    \/ ProbeDataMC
    \/ StallMC
    \/ CloseMidMC

\* the alphabet (design-level runs, behaviour generation)
BindMC == /\ \E h \in BindHosts, proto \in Protos, fam \in Fams, addr \in BindAddrs, port \in BindPorts :
                Bind(h, proto, fam, addr, port)
          /\ last'.a = "bind"
ConnectMC == /\ \E h \in ConnHosts, fam \in Fams, da \in ConnAddrs : \E dp \in ConnPorts \cup LiveListenerPorts(fam) :
                "tcp" \in Protos /\ Budget /\ Len(isock) + 2 <= MaxSocks /\ Connect(h, fam, da, dp)
             /\ last'.a = "connect"
Next ==
    \/ BindMC
    \/ CloseMC
    \/ CloseConnMC
    \/ ConnectUdpMC
    \/ ConnectMC
    \/ StallMC
    \/ CloseMidMC

Spec == Init /\ [][Next]_vars
SpecCov == Init /\ [][NextCov]_vars

View == <<socks, bindOk, freshOk, demuxOk, ivars>>

---------------------------------------------------------------------------
(* Implementation-level invariants *)

OpenFds == {i \in 1..Len(isock) : isock[i].open}

ImplInv ==
    \* the abstract socket set is the set of open fds, field by field
    /\ Len(isock) = Len(socks)
    /\ \A i \in 1..Len(isock) :
          /\ isock[i].open = socks[i].live
          /\ isock[i].h = socks[i].h /\ isock[i].proto = socks[i].proto /\ isock[i].fam = socks[i].fam
          /\ isock[i].addr = socks[i].addr /\ isock[i].port = socks[i].port /\ isock[i].hi = socks[i].hi
          /\ isock[i].peer = socks[i].peer
          /\ isock[i].listen = (socks[i].kind = "listener")
          /\ (isock[i].mate # 0) = (socks[i].kind \in {"client", "child"})
    \* every open bound fd is indexed exactly once under its key, nothing else is indexed
    /\ \A h \in Hosts :
          /\ \A k \in 1..Len(binds[h]) : \A j \in 1..Len(binds[h][k].fds) :
                LET f == binds[h][k].fds[j] IN
                f \in OpenFds /\ isock[f].h = h /\ isock[f].addr = binds[h][k].addr
                  /\ isock[f].port = binds[h][k].port /\ isock[f].fam = binds[h][k].fam
          /\ \A f \in OpenFds : isock[f].h = h =>
                /\ Cardinality({k \in 1..Len(binds[h]) :
                                   \E j \in 1..Len(binds[h][k].fds) : binds[h][k].fds[j] = f}) = 1
                /\ \A k \in 1..Len(binds[h]) :
                      Cardinality({j \in 1..Len(binds[h][k].fds) : binds[h][k].fds[j] = f}) <= 1
          /\ \A k \in 1..Len(conns[h]) : conns[h][k].fd \in OpenFds
    /\ \A h \in Hosts : cursor[h] \in EphLo..(EphHi + 1)

(* DemuxOracle over the whole probe space in every reachable state: what   *)
(* the implementation tables select equals what the reference demux        *)
(* selects on the abstract socket set ("followed by probe packets to every *)
(* (address, port, protocol) combination from every host").                *)
SweepAgrees ==
    \A from \in Hosts, fam \in Fams, da \in SwAddrSet, dp \in SwPortSet :
        /\ ("udp" \in Protos) =>
              ImplUdp(from, fam, FirstAddr(from), ProbePort, da, dp)
                 = RefUdp(socks, from, fam, FirstAddr(from), ProbePort, da, dp)
        /\ ("tcp" \in Protos /\ ~Local(from, da)) =>
              \A src \in SynSources(from) :
                 LET r == ImplSyn(from, fam, src[1], src[2], da, dp)
                     w == RefTcp(socks, from, fam, src[1], src[2], da, dp)
                 IN CASE w.k = "none" -> r.reply = "none" /\ r.obs = {}
                      [] w.k = "conn" -> r.reply # "synack" /\ r.obs = {}
                      [] w.k = "listener" -> r.reply = "synack" /\ r.obs = w.who
                      [] OTHER -> r.reply = "rst" /\ r.obs = {}
=============================================================================
