----------------------------- MODULE KSockTrace -----------------------------
(* Fidelity-level trace validation for C17: the same recorded events must   *)
(* be a behaviour of the ImplSpec KSock (every result - error kinds, ports  *)
(* handed out, acceptor, observers of every probe - as the implementation   *)
(* tables predict); ImplInv and the PropSpec invariants are evaluated in    *)
(* every state.                                                             *)
EXTENDS KSock, Json, IOUtils

Rec == ndJsonDeserialize(IOEnv.TRACE)

VARIABLE l
E == Rec[l]
Is(e) == l <= Len(Rec) /\ Rec[l].ev = e /\ l' = l + 1
SetOf(q) == {q[i] : i \in 1..Len(q)}

TInit == Init /\ l = 1

TReset ==
    /\ Is("reset") /\ P_Reset
    /\ isock' = <<>>
    /\ binds' = [h \in Hosts |-> <<>>]
    /\ conns' = [h \in Hosts |-> <<>>]
    /\ cursor' = [h \in Hosts |-> EphLo]
    /\ nops' = 0
    /\ last' = [a |-> "init"]

\* a block of explicit binds, one per port E.lo..E.hi (see P_Fill)
TFill ==
    /\ Is("fill")
    /\ LET ok == /\ (E.addr = "wild" \/ Local(E.h, E.addr))
                 /\ ~\E k \in 1..Len(binds[E.h]) :
                        /\ binds[E.h][k].fam = E.fam /\ binds[E.h][k].proto = E.proto
                        /\ binds[E.h][k].port <= E.hi /\ E.lo <= binds[E.h][k].hi
                        /\ AddrClash(binds[E.h][k].addr, E.addr)
           fd == Len(isock) + 1
       IN /\ ok = E.ok
          /\ P_Fill(E.h, E.proto, E.fam, E.addr, E.lo, E.hi, E.ok)
          /\ IF ok
             THEN /\ isock' = Append(isock, [ISock(E.h, E.proto, E.fam, E.addr, E.lo, NoPeer, FALSE, 0) EXCEPT !.hi = E.hi])
                  /\ binds' = [binds EXCEPT ![E.h] = Append(@, [fam |-> E.fam, proto |-> E.proto, addr |-> E.addr,
                                                                 port |-> E.lo, hi |-> E.hi, fds |-> <<fd>>, h |-> 0])]
             ELSE UNCHANGED <<isock, binds>>
    /\ UNCHANGED <<conns, cursor, nops>>
    /\ last' = [a |-> "fill"]

TNext ==
    \/ TReset
    \/ TFill
    \/ /\ Is("bind") /\ Bind(E.h, E.proto, E.fam, E.addr, E.port)
       /\ last'.res = E.res /\ last'.got = E.got /\ last'.sid = (IF E.res = "Ok" THEN E.sid ELSE 0)
    \/ /\ Is("close")
       /\ IF Len(E.sids) = 1 THEN Close(E.sids[1])
          ELSE CloseConn(IF E.sids[1] < E.sids[2] THEN E.sids[1] ELSE E.sids[2])
       /\ SetOf(last'.sids) = SetOf(E.sids)
    \/ Is("connect_udp") /\ ConnectUdp(E.sid, <<E.pa, E.pp>>)
    \/ /\ Is("connect") /\ Connect(E.h, E.fam, E.da, E.dp)
       /\ last'.res = E.res /\ last'.acc = E.acc
       /\ E.res = "Ok" => /\ last'.cla = E.cla /\ last'.clp = E.clp
                          /\ E.cha = E.da /\ E.chp = E.dp
                          /\ last'.csid = E.csid /\ last'.ksid = E.ksid
    \/ /\ Is("probe_udp") /\ ProbeUdp(E.from, E.fam, E.sa, E.sp, E.da, E.dp)
       /\ ImplUdp(E.from, E.fam, E.sa, E.sp, E.da, E.dp) = SetOf(E.obs)
    \/ /\ Is("probe_syn") /\ ProbeSyn(E.from, E.fam, E.sa, E.sp, E.da, E.dp)
       /\ LET r == ImplSyn(E.from, E.fam, E.sa, E.sp, E.da, E.dp)
          IN r.reply = E.reply /\ r.obs = SetOf(E.obs)
    \/ /\ Is("stall") /\ Stall(E.from, E.fam, E.sa, E.sp, E.da, E.dp)
       /\ last'.reply = E.reply
    \/ /\ Is("data") /\ ProbeData(E.c)
       /\ ImplData(E.c) = SetOf(E.obs)

TSpec == TInit /\ [][TNext]_<<vars, l>>

Accepted ==
    LET d == TLCGet("stats").diameter IN
    IF d - 1 = Len(Rec) THEN TRUE
    ELSE Print(<<"UNMATCHED", d, ToJson(Rec[d])>>, FALSE)
=============================================================================
