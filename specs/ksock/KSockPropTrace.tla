-------------------------- MODULE KSockPropTrace --------------------------
(* Verdict-level trace validation for C17: the observations recorded from   *)
(* the real code (results of bind / connect / close calls and, for every    *)
(* probe, the set of sockets that observed it) are replayed through the P_* *)
(* actions of KSockProp; BindOracle, FreshPort and DemuxOracle are          *)
(* evaluated in every state.                                                *)
EXTENDS KSockProp, Json, IOUtils, TLC

Rec == ndJsonDeserialize(IOEnv.TRACE)

VARIABLE l
E == Rec[l]
Is(e) == l <= Len(Rec) /\ Rec[l].ev = e /\ l' = l + 1
SetOf(q) == {q[i] : i \in 1..Len(q)}

TInit == PInit /\ l = 1

TNext ==
    \/ Is("reset") /\ P_Reset
    \/ /\ Is("bind")
       /\ P_Bind(E.h, E.proto, E.fam, E.addr, E.port, E.res, E.got)
       /\ E.res = "Ok" => E.sid = Len(socks) + 1
    \/ Is("fill") /\ P_Fill(E.h, E.proto, E.fam, E.addr, E.lo, E.hi, E.ok) /\ (E.ok => E.sid = Len(socks) + 1)
    \/ Is("close") /\ P_Close(SetOf(E.sids))
    \/ Is("connect_udp") /\ P_ConnectUdp(E.sid, E.pa, E.pp)
    \/ /\ Is("connect")
       /\ P_Connect(E.h, E.fam, E.da, E.dp, E.res, E.acc, <<E.cla, E.clp>>, <<E.cha, E.chp>>)
       /\ E.res = "Ok" => E.csid = Len(socks) + 1 /\ E.ksid = Len(socks) + 2
    \/ Is("probe_udp") /\ P_ProbeUdp(E.from, E.fam, E.sa, E.sp, E.da, E.dp, SetOf(E.obs))
    \/ Is("probe_syn") /\ P_ProbeSyn(E.from, E.fam, E.sa, E.sp, E.da, E.dp, E.reply, SetOf(E.obs))
    \/ Is("data") /\ P_Data(E.c, SetOf(E.obs))
    \/ Is("stall") /\ P_Stall(E.from, E.fam, E.sa, E.sp, E.da, E.dp, E.reply)

TSpec == TInit /\ [][TNext]_<<pvars, l>>

Accepted ==
    LET d == TLCGet("stats").diameter IN
    IF d - 1 = Len(Rec) THEN TRUE
    ELSE Print(<<"UNMATCHED", d, ToJson(Rec[d])>>, FALSE)
=============================================================================
