---------------------------- MODULE SimCrashGen ----------------------------
(* Behaviour generation for C04 (spec -> code replay): SimCrash plus a       *)
(* history variable.  A behaviour is complete after MaxSteps steps; it says  *)
(* which operations each host starts in which step and where the crash /     *)
(* bounce calls fall (fault enumeration), and carries the observations TLC   *)
(* predicts (results per turn, counters, the crash / bounce observations).   *)
EXTENDS SimCrash, Json

VARIABLE hist

Done == phase = "ctl" /\ pstep = MaxSteps


GenInit == Init /\ hist = <<>>
GenNext == /\ ~Done /\ Next /\ hist' = Append(hist, last')
           /\ (last'.a \in {"crash", "bounce"} => last'.fr)
GenSpec == GenInit /\ [][GenNext]_<<vars, hist>>

Emit == Done => PrintT(<<"REPLAY", ToJson(hist)>>)

=============================================================================
