---------------------------- MODULE SimRunTrace ----------------------------
(* Fidelity-level trace validation: the full event stream recorded from the  *)
(* real code (calls of the test thread with their results, turmoil's         *)
(* `step N` tracing events, the order in which the nodes ran, every clock    *)
(* sample and completion) must be a behaviour of the ImplSpec SimRun; the    *)
(* PropSpec clauses and ImplInv are evaluated in every state.                *)
EXTENDS SimRun, Json, IOUtils

Rec == ndJsonDeserialize(IOEnv.TRACE)

VARIABLE l
E == Rec[l]
Is(e) == l <= Len(Rec) /\ Rec[l].ev = e /\ l' = l + 1

TInit == Init /\ l = 1

TReset ==
    /\ Is("reset") /\ P_Reset
    /\ elapsed' = 0 /\ steps' = 1 /\ nd' = <<>>
    /\ phase' = "ctl" /\ todo' = <<>> /\ ran' = {} /\ cur' = 0 /\ isFin' = TRUE
    /\ inRun' = FALSE /\ rr' = "none" /\ nctl' = 0
    /\ last' = [a |-> "init"]

TSample ==
    /\ Is("sample")
    /\ EvSample(E.task)
    /\ last'.h = E.h /\ last'.k = E.k /\ last'.st = E.st /\ last'.el = E.el
    /\ last'.sim = E.sim /\ last'.ep = E.ep /\ last'.di = E.di

TStepEnd ==
    /\ Is("step_end")
    /\ \/ StepEnd \/ StepPanic \/ (TurnEnd /\ last'.a = "step_end")
    /\ last'.res = E.res
    /\ E.known => (last'.known /\ last'.e = E.e /\ last'.polls = E.polls)

TNext ==
    \/ TReset
    \/ Is("reg") /\ Register(E.kind, E.pat, E.out, E.tpat, E.tout) /\ last'.n = E.n /\ nd'[E.n].off = E.e
    \/ Is("step") /\ StepBegin /\ last'.n = E.n
    \/ Is("turn") /\ TurnBegin(E.h)
    \/ TSample
    \/ Is("fin") /\ EvFin("m") /\ last'.a = "fin" /\ last'.h = E.h /\ last'.out = E.out /\ last'.at = E.at
    \/ Is("panic") /\ EvFin(E.task) /\ last'.a = "panic" /\ last'.h = E.h
    \/ Is("will_panic") /\ E.at \in pn[E.h].wp /\ UNCHANGED vars
    \/ Is("turn_end") /\ TurnEnd /\ last'.a = "turn_end" /\ last'.h = E.h
    \/ TStepEnd
    \/ Is("crash") /\ Crash(E.h) /\ Polls = E.polls
    \/ Is("bounce") /\ Bounce(E.h) /\ Polls = E.polls
    \/ Is("run_begin") /\ RunBegin
    \/ Is("run_end") /\ RunEnd /\ last'.res = E.res
          /\ (E.res # "Panic" => (last'.e = E.e /\ last'.polls = E.polls))

TSpec == TInit /\ [][TNext]_<<vars, l>>

Accepted ==
    LET d == TLCGet("stats").diameter IN
    IF d - 1 = Len(Rec) THEN TRUE
    ELSE Print(<<"UNMATCHED", d, ToJson(Rec[d])>>, FALSE)
=============================================================================
