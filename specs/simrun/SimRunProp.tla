---------------------------- MODULE SimRunProp ----------------------------
(***************************************************************************)
(* PropSpec for the simulation loop and the virtual clocks:                *)
(*   C05  virtual clocks advance exactly one tick per step and agree       *)
(*   C11  Sim::run succeeds exactly when every client finished Ok in time  *)
(*                                                                         *)
(* Only what the statements talk about: what the test thread did           *)
(* (register / step / run / crash / bounce), what it saw (results,         *)
(* Sim::elapsed, Sim::since_epoch, a per-node activity counter), and what  *)
(* the programs saw (clock samples taken around whole-millisecond timers,  *)
(* the instant their main future completed or a task panicked).  No        *)
(* software handles, host timers, turn order or tokio runtimes.            *)
(*                                                                         *)
(* Every observation is recorded by a P_* action; a clause that the        *)
(* observation contradicts is added to `bad`.  The invariants are          *)
(* "clause \notin bad".  Used three ways: SimRun.tla (ImplSpec) extends    *)
(* the module and drives the P_* actions as ghosts (design level);         *)
(* SimRunPropTrace.tla replays recorded observations through the P_*       *)
(* actions alone (the verdict); SimRunTrace.tla replays full traces        *)
(* through SimRun.                                                         *)
(***************************************************************************)
EXTENDS Naturals, Integers, Sequences, FiniteSets, TLC

CONSTANTS Tick,       \* Builder::tick_duration, whole milliseconds (C05 "Bounds")
          Duration,   \* Builder::simulation_duration (ms)
          Epoch       \* Builder::epoch as ms since UNIX_EPOCH

VARIABLES
    pn,     \* [registered node id -> PNode]
    pc,     \* controller-level observation state (record, see PInit)
    bad     \* set of clause names contradicted by an observation

pvars == <<pn, pc, bad>>

PInit ==
    /\ pn = <<>>                 \* function with empty domain
    /\ pc = [e       |-> 0,      \* simulation time implied by the steps counted so far
             e0      |-> 0,      \* simulation time at which the current / last step began
             inStep  |-> FALSE,
             errSeen |-> FALSE,  \* a main future returned Err during the current step
             panSeen |-> FALSE,  \* a task panicked during the current step
             clock   |-> TRUE,   \* C05 is claimed while every step ran to its end: cleared by the first software Err / panic
             over    |-> FALSE,  \* an error or panic was reported: the simulation is over (C11 claims stop)
             inRun   |-> FALSE,
             rsteps  |-> 0,      \* steps taken by the current Sim::run call
             runE0   |-> 0,      \* simulation time at which the current Sim::run call began
             runOver |-> FALSE,  \* `over` when the current Sim::run call began
             lastRes |-> "none"] \* result of the last step of the current run
    /\ bad = {}

Nodes   == DOMAIN pn
Clients == {n \in Nodes : pn[n].kind = "client"}

\* A client counts as finished once its main future completed (the result of
\* an Err completion was reported at its own step).
AllDone(p) == \A n \in DOMAIN p : p[n].kind = "client" => p[n].fin # "none"

Flag(cond, name) == IF cond THEN {} ELSE {name}

\* C11 "never polls finished or crashed software again": for every node that
\* is down with a known baseline the activity counter still shows the baseline.
FrozenOk(p, polls) ==
    \A n \in DOMAIN p : (p[n].down /\ p[n].frozen >= 0) => polls[n] = p[n].frozen

\* nodes whose baseline is still unknown (they went down inside Sim::run,
\* where the test thread cannot look) take the first value seen afterwards
Baseline(p, polls) ==
    [n \in DOMAIN p |-> IF p[n].down /\ p[n].frozen < 0
                        THEN [p[n] EXCEPT !.frozen = polls[n]] ELSE p[n]]

---------------------------------------------------------------------------
(* Observation actions *)

\* Sim::client / Sim::host; e = Sim::elapsed() read just before.
\* C05: "sim time = host time + the simulation time at which the host was registered"
P_Register(n, kind, e) ==
    /\ ~pc.inStep /\ ~pc.inRun /\ n \notin Nodes
    /\ pn' = pn @@ (n :> [kind |-> kind, off |-> e, down |-> FALSE, fin |-> "none",
                          finStart |-> 0, finAt |-> 0, frozen |-> -1, lastEl |-> 0,
                          wp |-> {}])   \* simulation instants at which a task of the node is going to panic
    /\ bad' = bad \cup Flag(pc.clock => e = pc.e, "ClockStep")
    /\ UNCHANGED pc

\* A step begins (Sim::step called by the test, or the next iteration of Sim::run).
P_StepBegin ==
    /\ ~pc.inStep
    /\ pc' = [pc EXCEPT !.inStep = TRUE, !.e0 = pc.e, !.errSeen = FALSE, !.panSeen = FALSE,
                        !.rsteps = IF pc.inRun THEN @ + 1 ELSE @]
    \* C11 "run returns as soon as ...": inside run a step follows only a step that returned Ok(false)
    /\ bad' = bad \cup Flag(pc.inRun => pc.lastRes \in {"none", "false"}, "RunResult")
    /\ UNCHANGED pn

\* A program sampled the clocks right after a whole-millisecond timer:
\* s = [h, k, st, el, sim, ep, di]: the timer was set for k ms when elapsed()
\* read st; now elapsed() = el, sim_elapsed() = sim, since_epoch() = ep and
\* tokio::time::Instant advanced by di (all ms; -1 = not a whole number of ms).
P_Sample(s) ==
    /\ pc.inStep /\ s.h \in Nodes
    /\ LET n == pn[s.h] IN
       /\ pn' = [pn EXCEPT ![s.h].lastEl = IF s.el > @ THEN s.el ELSE @]
       /\ bad' = bad
            \* C05 "host code only ever observes times inside the window of the step it runs in"
            \cup Flag(pc.clock => (pc.e0 <= s.sim /\ s.sim <= pc.e0 + Tick), "Window")
            \* C05 "sim time = host time + registration time; epoch time = configured epoch + sim time"
            \cup Flag(pc.clock => (s.sim = s.el + n.off /\ s.ep = Epoch + s.sim), "Consistent")
            \* C05 "monotone ... keep counting across crash and bounce"
            \cup Flag(pc.clock => s.el >= n.lastEl, "Monotone")
            \* C05 "a tokio timer set for a whole number of ms fires at exactly that virtual instant"
            \cup Flag(pc.clock => (s.el = s.st + s.k /\ s.di = s.k), "TimerExact")
            \* C11 / C04 "finished or crashed software is never polled again"
            \cup Flag(~n.down, "NoRepoll")
    /\ UNCHANGED pc

\* The main future of h is about to return out \in {"Ok","Err"}; at = sim_elapsed() then.
P_Fin(h, out, at) ==
    /\ pc.inStep /\ h \in Nodes
    /\ pn' = [pn EXCEPT ![h].fin = out, ![h].finStart = pc.e0, ![h].finAt = at]
    /\ pc' = [pc EXCEPT !.errSeen = @ \/ out = "Err"]
    /\ bad' = bad \cup Flag(~pn[h].down, "NoRepoll")
                  \* the completion instant is a clock reading of host code too (C05 window)
                  \cup Flag(pc.clock => (pc.e0 <= at /\ at <= pc.e0 + Tick), "Window")

\* A task of h (main future or spawned) is about to panic.
P_Panic(h) ==
    /\ pc.inStep /\ h \in Nodes
    /\ pc' = [pc EXCEPT !.panSeen = TRUE]
    /\ bad' = bad \cup Flag(~pn[h].down, "NoRepoll")
    /\ UNCHANGED pn

\* The software of h started a task that is going to panic at simulation instant `at` (a whole-
\* millisecond timer from now), unless the node is crashed / bounced / finished and left alone first.
P_WillPanic(h, at) ==
    /\ pc.inStep /\ h \in Nodes
    /\ pn' = [pn EXCEPT ![h].wp = @ \cup {at}]
    /\ UNCHANGED <<pc, bad>>

\* Code of an incarnation of h that has been replaced by Sim::bounce ran (a leftover task of the
\* old main future took a turn next to the new incarnation).
\* C11 "never polls finished or crashed software again"
P_Stale(h) ==
    /\ bad' = bad \cup {"NoRepoll"}
    /\ UNCHANGED <<pn, pc>>

\* What C11 says the step must report, from the completions observed in it:
\*  "a panic ... surfaces as a panic of the calling test";
\*  "returns an error as soon as any client or host software returns an error";
\*  "step reports completion" = all clients finished;
\*  "or once the duration is exceeded with a client still unfinished";
\*  "host software that never finishes does not prevent success".
ExpRes ==
    IF pc.panSeen THEN "Panic"
    ELSE IF pc.errSeen THEN "Err"
    ELSE IF AllDone(pn) THEN "true"
    ELSE IF pc.e0 + Tick > Duration THEN "Err"
    ELSE "false"

\* The step is over.  res \in {"true","false","Err","Panic"}.  known = the test
\* thread could look (Sim::step); inside Sim::run only the result is implied
\* ("false" when another step follows, else the result of run) and e, se, polls
\* are not observed.
P_StepEnd(res, known, e, se, polls) ==
    /\ pc.inStep
    /\ LET \* the step ran to its end: it returned Ok, or the error is the duration check at the end of
           \* a complete step ("every call to step advances the simulation clock ... by exactly the
           \* configured tick"); a software error / panic leaves the step half way and ends the C05 claims
           okres == res \in {"true", "false"} \/ (res = "Err" /\ ~pc.errSeen)
           p1 == [n \in Nodes |->
                    IF pn[n].fin # "none" /\ pn[n].finStart = pc.e0 /\ ~pn[n].down
                    THEN [pn[n] EXCEPT !.down = TRUE, !.frozen = IF known THEN polls[n] ELSE -1]
                    ELSE pn[n]]
       IN
       /\ bad' = bad
            \cup Flag(~pc.over => res = ExpRes, "StepResult")
            \* C11 "a panic inside any host or client surfaces as a panic of the calling test": a node that
            \* was running when the step began is run through the whole tick (Sim::step "runs each host ...
            \* a fixed duration"), so a panic that is due strictly inside the step's window happens in it -
            \* also when the node's main future completes earlier in the same tick.  (Not claimed when a
            \* software error cut the step short, or for a panic due exactly at the end of the window.)
            \cup Flag((~pc.over /\ res # "Panic" /\ ~(res = "Err" /\ pc.errSeen))
                        => \A n \in Nodes : ~pn[n].down => \A t \in pn[n].wp : t >= pc.e0 + Tick,
                      "PanicSurfaces")
            \* C05 "every call to step advances the simulation clock ... by exactly the configured tick"
            \cup Flag((pc.clock /\ known /\ okres) => (e = pc.e0 + Tick /\ se = Epoch + e), "ClockStep")
            \cup Flag(known => FrozenOk(pn, polls), "NoRepoll")
       /\ pn' = IF known THEN Baseline(p1, polls) ELSE p1
       /\ pc' = [pc EXCEPT !.inStep = FALSE,
                           !.e = IF res = "Err" /\ pc.errSeen THEN pc.e0 ELSE pc.e0 + Tick,
                           !.clock = @ /\ okres,
                           !.over = @ \/ res \in {"Panic", "Err"},
                           !.lastRes = res]

\* Sim::crash(h) returned (h is a host); polls = the activity counters read right after.
P_Crash(h, polls) ==
    /\ ~pc.inStep /\ ~pc.inRun /\ h \in Nodes
    /\ bad' = bad \cup Flag(FrozenOk(pn, polls), "NoRepoll")
    /\ pn' = [Baseline(pn, polls) EXCEPT ![h].down = TRUE, ![h].wp = {},
                  ![h].frozen = IF pn[h].down /\ pn[h].frozen >= 0 THEN @ ELSE polls[h]]
    /\ UNCHANGED pc

\* Sim::bounce(h) returned: the software of h will run again (fresh main future).
P_Bounce(h, polls) ==
    /\ ~pc.inStep /\ ~pc.inRun /\ h \in Nodes
    /\ bad' = bad \cup Flag(FrozenOk([pn EXCEPT ![h].down = FALSE], polls), "NoRepoll")
    /\ pn' = [Baseline(pn, polls) EXCEPT ![h].down = FALSE, ![h].fin = "none", ![h].frozen = -1, ![h].wp = {}]
    /\ UNCHANGED pc

P_RunBegin ==
    /\ ~pc.inStep /\ ~pc.inRun
    /\ pc' = [pc EXCEPT !.inRun = TRUE, !.rsteps = 0, !.lastRes = "none", !.runE0 = pc.e, !.runOver = pc.over]
    /\ UNCHANGED <<pn, bad>>

\* C11 "finishes that coincide exactly with a step boundary may be attributed
\* to either adjacent step": a completion observed at the very start of a step
\* may be counted for the step before.
InTime(n) ==
    \/ pn[n].finStart <= Duration
    \/ (pn[n].finAt = pn[n].finStart /\ pn[n].finStart - Tick <= Duration)

\* Sim::run returned res \in {"Ok","Err","Panic"}; e, se, polls read right after
\* (not after a panic).
P_RunEnd(res, e, se, polls) ==
    /\ ~pc.inStep /\ pc.inRun
    /\ pc' = [pc EXCEPT !.inRun = FALSE]
    /\ pn' = IF res = "Panic" THEN pn ELSE Baseline(pn, polls)
    /\ bad' = bad
         \* "zero clients => Ok immediately"; otherwise run returns what its last step reported
         \cup Flag(~pc.runOver =>
                     IF Clients = {} THEN res = "Ok" /\ pc.rsteps = 0
                     ELSE /\ pc.rsteps >= 1
                          /\ (res = "Ok")    = (pc.lastRes = "true")
                          /\ (res = "Err")   = (pc.lastRes = "Err")
                          /\ (res = "Panic") = (pc.lastRes = "Panic"), "RunResult")
         \* "Ok if and only if every client future completed with Ok before the duration elapsed"
         \* (a run that was *started* after the duration had already elapsed is the family of
         \*  known finding D14 and is reported under its own name, see LateRun below)
         \cup Flag((~pc.runOver /\ res = "Ok") => \A c \in Clients : pn[c].fin = "Ok" /\ InTime(c),
                 IF pc.runE0 > Duration THEN "LateRun" ELSE "InTime")
         \cup Flag((pc.clock /\ res # "Panic") => (e = pc.e /\ se = Epoch + e), "ClockStep")
         \cup Flag(res # "Panic" => FrozenOk(pn, polls), "NoRepoll")

\* The test thread read Sim::elapsed / Sim::since_epoch and the counters between calls.
P_Look(e, se, polls) ==
    /\ ~pc.inStep /\ ~pc.inRun
    /\ bad' = bad
         \cup Flag(pc.clock => (e = pc.e /\ se = Epoch + e), "ClockStep")
         \cup Flag(FrozenOk(pn, polls), "NoRepoll")
    /\ pn' = Baseline(pn, polls)
    /\ UNCHANGED pc

\* start of a new recorded scenario (trace validation only)
P_Reset ==
    /\ pn' = <<>>
    /\ pc' = [e |-> 0, e0 |-> 0, inStep |-> FALSE, errSeen |-> FALSE, panSeen |-> FALSE,
              clock |-> TRUE, over |-> FALSE, inRun |-> FALSE, rsteps |-> 0, runE0 |-> 0, runOver |-> FALSE, lastRes |-> "none"]
    /\ bad' = {}

---------------------------------------------------------------------------
(* The properties *)

\* C05
ClockStep   == "ClockStep"  \notin bad
Window      == "Window"     \notin bad
Consistent  == "Consistent" \notin bad
Monotone    == "Monotone"   \notin bad
TimerExact  == "TimerExact" \notin bad
\* C11
StepResult  == "StepResult" \notin bad
RunResult   == "RunResult"  \notin bad
RunInTime   == "InTime"     \notin bad
NoRepoll    == "NoRepoll"   \notin bad
PanicSurfaces == "PanicSurfaces" \notin bad
\* Family predicate of known finding D14 (C11): Sim::run called when the simulation
\* duration has already elapsed lets its first step run unchecked, so a client that
\* completes within that step yields Ok although it finished after the duration.
\* Part of the statement ("Ok if and only if ... before the duration elapsed"); listed
\* separately so that the check reports it as the known finding and every other way
\* of finishing late stays a violation of RunInTime.
NoLateRun   == "LateRun"    \notin bad

C05Inv == ClockStep /\ Window /\ Consistent /\ Monotone /\ TimerExact
C11Inv == StepResult /\ RunResult /\ RunInTime /\ NoRepoll /\ PanicSurfaces
=============================================================================
