------------------------- MODULE SimCrashPropTrace -------------------------
(* Verdict-level trace validation for C04: the observations recorded from    *)
(* the real code are replayed through the P_* actions of SimCrashProp alone. *)
EXTENDS SimCrashProp, Json, IOUtils

Rec == ndJsonDeserialize(IOEnv.TRACE)

VARIABLE l
E == Rec[l]
Is(e) == l <= Len(Rec) /\ Rec[l].ev = e /\ l' = l + 1

TInit == PInit /\ l = 1

TCmd ==
    /\ Is("cmd")
    /\ IF E.op = "usend" THEN IF E.res = "ok" THEN P_Send(E.c, E.h, E.inc) ELSE UNCHANGED pvars
       ELSE IF E.op = "bg" THEN UNCHANGED pvars
       ELSE P_CmdRes(E.id, E.h, E.inc, E.op, E.c, E.res)

TNext ==
    \/ Is("reset") /\ P_Reset
    \/ Is("step") /\ P_StepBegin
    \/ Is("turn") /\ P_Turn(E.h, E.inc, E.got, E.res)
    \/ TCmd
    \/ Is("step_end") /\ P_StepEnd(E.polls, E.sent, E.okc)
    \/ Is("crash") /\ P_Crash(E.h, E.obs)
    \/ Is("bounce") /\ P_Bounce(E.h, E.obs)
    \/ Is("setlat") /\ P_SetLat(E.v)
    \/ Is("twin") /\ P_Twin(E.equal)
    \/ /\ l <= Len(Rec) /\ Rec[l].ev \in {"turn_end"}
       /\ l' = l + 1 /\ UNCHANGED pvars

TSpec == TInit /\ [][TNext]_<<pvars, l>>

Accepted ==
    LET d == TLCGet("stats").diameter IN
    IF d - 1 = Len(Rec) THEN TRUE
    ELSE Print(<<"UNMATCHED", d, ToJson(Rec[d])>>, FALSE)
=============================================================================
