----------------------------- MODULE SimRunGen -----------------------------
(* Behaviour generation for spec -> code replay: SimRun plus a history       *)
(* variable.  Every complete behaviour (MaxCtl calls of the test thread, or  *)
(* a panic) is printed as one JSON line; the entries between the calls are   *)
(* the observations TLC predicts (turn order, clock samples, completions,    *)
(* step / run results, Sim::elapsed, activity counters).                     *)
EXTENDS SimRun, Json

VARIABLE hist

Done == phase = "dead" \/ (phase = "ctl" /\ ~inRun /\ nctl = MaxCtl)

GenInit == Init /\ hist = <<>>
GenNext == ~Done /\ Next /\ hist' = Append(hist, last')
GenSpec == GenInit /\ [][GenNext]_<<vars, hist>>

Emit == Done => PrintT(<<"REPLAY", ToJson(hist)>>)

\* witnesses of the known-finding family: complete behaviours on which the family clause fails
EmitWitness == (Done /\ "LateRun" \in bad) => PrintT(<<"WITNESS", ToJson(hist)>>)
=============================================================================
