--------------------------- MODULE SimCrashProp ---------------------------
(***************************************************************************)
(* PropSpec for C04: a crashed host stops dead, releases everything, and   *)
(* restarts cleanly.                                                       *)
(*                                                                         *)
(* Two hosts take part in the protocol workloads: one listens and accepts, *)
(* the other connects; both read / write on established streams,           *)
(* hold a UDP socket with a multicast membership, send datagrams to each   *)
(* other and run background tasks that hold drop guards.  (Two further     *)
(* hosts that never talk to 1 or 2 exist only in the harness; their logs   *)
(* are compared with a crash-free twin run and the outcome is the `twin`   *)
(* observation.)                                                           *)
(*                                                                         *)
(* Observation level only: the calls of the test thread (step / crash /    *)
(* bounce), what it reads right after them (activity and send counters,    *)
(* drop-guard counters, factory invocations, is_host_running, the hook     *)
(* tables), and what the programs did and saw (operations started, their   *)
(* results with the step in which they returned, datagrams received by     *)
(* which incarnation).  The link is healthy with a fixed latency of        *)
(* LatSteps whole steps, so a message sent in step s (or by a destructor   *)
(* between steps s and s+1) reaches its destination's turn in step         *)
(* s + LatSteps.                                                           *)
(***************************************************************************)
EXTENDS Naturals, Integers, Sequences, FiniteSets, TLC

CONSTANTS LatSteps,     \* link latency in steps (>= 1) configured by the Builder
          EphPorts      \* size of the range given to Builder::ephemeral_ports, 0 = the default (16 384 ports)

Hosts == {1, 2}
Other(h) == 3 - h

VARIABLES
    pstep,   \* number of Sim::step calls begun
    ph,      \* [Hosts -> per-host observation record]
    pops,    \* [operation id -> record]  operations started by the programs
    pdg,     \* [datagram id -> record]   datagrams sent
    plat,    \* latency (steps) of the link between the two hosts now in force: the Builder's value
             \* until the test calls Sim::set_link_latency; a message keeps the latency it was sent with
    bad      \* set of clause names contradicted by an observation

pvars == <<pstep, ph, pops, pdg, plat, bad>>

PInit ==
    /\ pstep = 0
    /\ ph = [h \in Hosts |->
               [up |-> TRUE, inc |-> 1,
                turned |-> FALSE,  \* this incarnation has had a turn
                lastTurn |-> 0,    \* last step in which h had a turn
                downs |-> {},      \* closed down intervals <<n, b>>: crashed at pstep n, bounced at pstep b
                downAt |-> -1,     \* pstep of the crash if h is down now
                tears |-> {},      \* <<n, w>>: h was crashed (while up) at pstep n; what its destructors sent, and
                                   \* everything it had sent before, has arrived by step w
                fpolls |-> -1, fsent |-> -1,   \* counters frozen at the crash
                bound |-> {}]]     \* sockets ("tcp", "udp") the current incarnation has bound
    /\ pops = <<>>
    /\ pdg = <<>>
    /\ plat = LatSteps
    /\ bad = {}

Flag(cond, name) == IF cond THEN {} ELSE {name}
OpIds == DOMAIN pops
Pending(o) == pops[o].res = "pend"

\* was h down (no turn possible) during step a?  (p = per-host record table)
DownAtStepP(p, h, a) ==
    \/ (p[h].downAt >= 0 /\ p[h].downAt < a)
    \/ \E iv \in p[h].downs : iv[1] < a /\ a <= iv[2]
DownAtStep(h, a) == DownAtStepP(ph, h, a)

\* The observation actions about operations are written as transformers of
\* st = [pops, ph, bad] so that an ImplSpec action in which several operations
\* return can drive them one after the other.
Cur == [pops |-> pops, ph |-> ph, bad |-> bad]
Set(st) == pops' = st.pops /\ ph' = st.ph /\ bad' = st.bad

---------------------------------------------------------------------------
P_StepBegin ==
    /\ pstep' = pstep + 1
    /\ ph' = [h \in Hosts |-> IF ph[h].up THEN [ph[h] EXCEPT !.lastTurn = pstep + 1, !.turned = TRUE]
                                ELSE ph[h]]
    /\ UNCHANGED <<pops, pdg, bad, plat>>

\* The program of host h (incarnation inc) started operation `id`:
\* kind \in {"listen","ubind","connect","accept","read","write"}; c = the connection a
\* connect / read / write works on (the program knows which stream it uses; the two ends
\* of a connection are matched through the connector's port), 0 otherwise.
SetMax(S) == CHOOSE x \in S : \A y \in S : y <= x
SetMin(S) == CHOOSE x \in S : \A y \in S : x <= y
\* Crashes of the other host that hit connection c after it was established (the connect
\* that made c had returned ok).  A read on such a stream - also one that is started after
\* the crash - is a peer waiting on a stream that was established at the crash instant: it
\* must return (the remaining data, then end-of-file or a reset) once everything the dead
\* side sent has arrived.
DeadTears(st, h, c) ==
    {t \in st.ph[Other(h)].tears :
        \E p \in DOMAIN st.pops : st.pops[p].kind = "connect" /\ st.pops[p].c = c
                                    /\ st.pops[p].res = "ok" /\ st.pops[p].rstep <= t[1]}
PS_Cmd(st, id, h, inc, kind, c) ==
    LET dt == IF kind = "read" /\ c # 0 THEN DeadTears(st, h, c) ELSE {}
        dl == IF dt = {} THEN 0 ELSE SetMax({pstep + 1, SetMin({t[2] : t \in dt})})
    IN
    [st EXCEPT
       !.pops = @ @@ (id :> [h |-> h, inc |-> inc, kind |-> kind, c |-> c, start |-> pstep,
                             lat |-> plat,      \* latency in force when it started (a connect sends its SYN then)
                             res |-> "pend", rstep |-> 0,
                             rlat |-> 0,        \* latency in force when it returned (a write sends its segment then)
                             dl |-> dl]),
       \* "none of its code runs ... until it is bounced"
       !.bad = @ \cup Flag(st.ph[h].up /\ st.ph[h].inc = inc, "StopsDead")]
P_Cmd(id, h, inc, kind, c) ==
    /\ id \notin OpIds
    /\ Set(PS_Cmd(Cur, id, h, inc, kind, c))
    /\ UNCHANGED <<pstep, pdg, plat>>

\* Operation `id` returned res:  "ok" | "refused" | "inuse" | "data" | "closed"
\* (end-of-file or reset) | "err".
PS_Res(st, id, res) ==
    LET o == st.pops[id]  h == o.h IN
    [pops |-> [st.pops EXCEPT ![id].res = res, ![id].rstep = pstep, ![id].rlat = plat],
     ph   |-> [st.ph EXCEPT
                 ![h].bound = IF o.kind = "listen" /\ res = "ok" THEN @ \cup {"tcp"}
                              ELSE IF o.kind = "ubind" /\ res = "ok" THEN @ \cup {"udp"} ELSE @],
     bad  |-> st.bad
        \cup Flag(st.ph[h].up /\ st.ph[h].inc = o.inc, "StopsDead")
        \* "its ports can be bound again": a bind by an incarnation that holds no socket
        \* of its own on the port succeeds
        \cup Flag((o.kind = "listen" /\ "tcp" \notin st.ph[h].bound) => res = "ok", "Rebind")
        \cup Flag((o.kind = "ubind" /\ "udp" \notin st.ph[h].bound) => res = "ok", "Rebind")
        \* "connection attempts ... that reach the host while it is down ... must be refused,
        \*  reset or dropped rather than handed to the new incarnation"
        \cup Flag((o.kind = "connect" /\ res = "ok")
                    => ~DownAtStepP(st.ph, Other(h), o.start + o.lat), "StaleConnect")]
P_Res(id, res) ==
    /\ id \in OpIds /\ Pending(id)
    /\ Set(PS_Res(Cur, id, res))
    /\ UNCHANGED <<pstep, pdg, plat>>

\* Host h (incarnation inc) sent datagram d to the other host.
P_Send(d, h, inc) ==
    /\ d \notin DOMAIN pdg
    /\ pdg' = pdg @@ (d :> [from |-> h, sent |-> pstep, lat |-> plat])
    /\ bad' = bad \cup Flag(ph[h].up /\ ph[h].inc = inc, "StopsDead")
    /\ UNCHANGED <<pstep, ph, pops, plat>>

\* Host h (incarnation inc) received datagram d.
PS_Recv(st, d, h, inc) ==
    [st EXCEPT !.bad = @
         \cup Flag(st.ph[h].up /\ st.ph[h].inc = inc, "StopsDead")
         \* "datagrams that reach the host while it is down ... dropped"
         \cup Flag(~DownAtStepP(st.ph, h, pdg[d].sent + pdg[d].lat), "StaleDatagram")]
P_Recv(d, h, inc) ==
    /\ d \in DOMAIN pdg
    /\ Set(PS_Recv(Cur, d, h, inc))
    /\ UNCHANGED <<pstep, pdg, plat>>

\* A turn of host h: the operations in rs (sequence of <<id, res>>) returned and the
\* datagrams in got were handed to the program (incarnation inc).
RECURSIVE FoldRes(_, _)
FoldRes(st, rs) == IF rs = <<>> THEN st ELSE FoldRes(PS_Res(st, Head(rs)[1], Head(rs)[2]), Tail(rs))
RECURSIVE FoldRecv(_, _, _, _)
FoldRecv(st, got, h, inc) ==
    IF got = <<>> THEN st ELSE FoldRecv(PS_Recv(st, Head(got), h, inc), Tail(got), h, inc)
P_Turn(h, inc, got, rs) ==
    /\ \A i \in 1..Len(rs) : rs[i][1] \in OpIds /\ Pending(rs[i][1])
    /\ \A i \in 1..Len(got) : got[i] \in DOMAIN pdg
    /\ Set(FoldRecv(FoldRes(Cur, rs), got, h, inc))
    /\ UNCHANGED <<pstep, pdg, plat>>

\* A program started an operation that returned at once (res # "") or blocks (res = "").
P_CmdRes(id, h, inc, kind, c, res) ==
    /\ id \notin OpIds
    /\ LET st0 == PS_Cmd(Cur, id, h, inc, kind, c) IN
       Set(IF res = "" THEN st0 ELSE PS_Res(st0, id, res))
    /\ UNCHANGED <<pstep, pdg, plat>>

\* The step is over; polls / sent = activity and send counters of both hosts.
\* ports a host may legitimately hold for outgoing connections: one per connect of its current
\* incarnation that is pending or returned ok (an over-estimate: closed streams are not subtracted)
HeldPorts(h) ==
    Cardinality({o \in OpIds : pops[o].h = h /\ pops[o].inc = ph[h].inc /\ pops[o].kind = "connect"
                                /\ pops[o].res \in {"pend", "ok"}})

\* okc = how Sim::step ended: "ok", "ports" (it panicked with "... ports exhausted") or "other".
P_StepEnd(polls, sent, okc) ==
    /\ bad' = bad
         \* "its ports can be bound again": the ephemeral ports of torn-down streams and abandoned
         \* connects are free again, so the range is only exhausted by what a host really holds
         \cup Flag(okc = "ports" => \E h \in Hosts : EphPorts > 0 /\ HeldPorts(h) > EphPorts, "Rebind")
         \* "causes no further observable effect until it is bounced"
         \cup Flag(\A h \in Hosts : ~ph[h].up => (polls[h] = ph[h].fpolls /\ sent[h] = ph[h].fsent),
                   "StopsDead")
         \* "peers blocked on connections to it are unblocked ... instead of hanging"
         \cup Flag(\A o \in OpIds : (Pending(o) /\ pops[o].dl > 0) => pstep < pops[o].dl, "PeersUnblocked")
    /\ UNCHANGED <<pstep, ph, pops, pdg, plat>>

\* Data segments of connection c that reached host h (during one of its turns) and that
\* h's programs have not read: they are what makes h's stream destructor emit an RST.
\* From public observations only: writes of the other host that returned ok (a write
\* returns in the step in which its segment is sent) and reads of h that returned data.
UnreadAt(h, c) ==
    Cardinality({o \in OpIds : pops[o].h = Other(h) /\ pops[o].kind = "write" /\ pops[o].c = c
                                /\ pops[o].res = "ok" /\ pops[o].rstep + pops[o].rlat <= ph[h].lastTurn})
    - Cardinality({o \in OpIds : pops[o].h = h /\ pops[o].kind = "read" /\ pops[o].c = c
                                  /\ pops[o].res = "data"})

\* Obligations created by the crash of h at pstep: operations of the other host that are
\* waiting on h get a deadline (the latency window, at step granularity).
\*  - reads on an established stream (they exist only on such streams);
\*  - writes parked for send credit, when h holds unread data of the stream (then the
\*    crash resets the stream).  If all the credits are still on their way to h, the
\*    segments "reach the host while it is down [and] may stay pending until it is
\*    bounced, when they must be ... reset": that deadline is set by P_Bounce;
\*  - connects whose request reached h during a turn of h (so it was refused at once or
\*    queued at h's listener).
Deadlines(h) ==
    [o \in OpIds |->
        IF Pending(o) /\ pops[o].h = Other(h) /\ pops[o].dl = 0 /\
           (\/ pops[o].kind = "read"
            \/ (pops[o].kind = "write" /\ UnreadAt(h, pops[o].c) > 0)
            \/ (pops[o].kind = "connect" /\ pops[o].start + pops[o].lat <= ph[h].lastTurn
                                          /\ ~DownAtStep(h, pops[o].start + pops[o].lat)))
        THEN [pops[o] EXCEPT !.dl = pstep + plat + 1]
        ELSE pops[o]]

\* h is bounced at pstep: what reached it while it was down is answered in its first turn
\* (step pstep + 1); a writer of the other host that is still parked is reset one latency later
BounceDeadlines(p, h) ==
    [o \in DOMAIN p |->
        IF p[o].res = "pend" /\ p[o].h = Other(h) /\ p[o].dl = 0 /\ p[o].kind = "write"
        THEN [p[o] EXCEPT !.dl = pstep + plat + 2] ELSE p[o]]

\* the step by which everything h has sent so far, and what its destructors send now, has arrived
ArrivedBy(h) ==
    SetMax({pstep + plat} \cup {pops[o].rstep + pops[o].rlat :
               o \in {q \in OpIds : pops[q].h = h /\ pops[q].kind = "write" /\ pops[q].res = "ok"}}) + 1

\* operations of the dead incarnation never return
Cancelled(p, h) ==
    [o \in DOMAIN p |-> IF p[o].h = h /\ p[o].res = "pend" THEN [p[o] EXCEPT !.res = "cancelled"] ELSE p[o]]

\* Sim::crash(h) returned.  obs = [polls, sent  : counters of both hosts,
\*   glive : drop guards of h created and not yet dropped,
\*   running : is_host_running(h),
\*   udp, tcp, mcast, streams : sizes of h's hook tables]
P_Crash(h, obs) ==
    IF ~ph[h].up
    THEN \* crash of a host that is already down: nothing may change
         /\ bad' = bad \cup Flag(obs.polls[h] = ph[h].fpolls /\ obs.sent[h] = ph[h].fsent /\ ~obs.running,
                                 "StopsDead")
         /\ UNCHANGED <<pstep, ph, pops, pdg, plat>>
    ELSE /\ ph' = [ph EXCEPT ![h].up = FALSE, ![h].downAt = pstep, ![h].bound = {},
                             ![h].tears = @ \cup {<<pstep, ArrivedBy(h)>>},
                             ![h].fpolls = obs.polls[h], ![h].fsent = obs.sent[h]]
         /\ pops' = Cancelled(Deadlines(h), h)
         /\ bad' = bad
              \* "all of that host's tasks have been dropped (their destructors have run)"
              \cup Flag(obs.glive = 0, "GuardsRan")
              \cup Flag(~obs.running, "NotRunning")
              \* "every listener, UDP socket, multicast membership and TCP stream it held is released"
              \* (D12 - entries left behind by failed or cancelled connects - is repaired, so the
              \*  ghost that used to excuse them is gone and the stream table must be empty)
              \cup Flag(obs.udp = 0 /\ obs.tcp = 0 /\ obs.mcast = 0 /\ obs.streams = 0, "TablesEmpty")
         /\ UNCHANGED <<pstep, pdg, plat>>

\* Sim::bounce(h) returned.  obs = [polls, sent, fact : factory invocations caused by
\* this call, running].
P_Bounce(h, obs) ==
    /\ ph' = [ph EXCEPT ![h].up = TRUE, ![h].inc = @ + 1, ![h].turned = FALSE, ![h].bound = {},
                        ![h].downAt = -1,
                        ![h].downs = IF ph[h].up THEN @ ELSE @ \cup {<<ph[h].downAt, pstep>>}]
    /\ pops' = IF ph[h].up THEN Cancelled(pops, h) ELSE BounceDeadlines(pops, h)
    /\ bad' = bad
         \* "Sim::bounce starts the host's software exactly once per call"
         \cup Flag(obs.fact = 1 /\ obs.running, "FactoryOnce")
         \cup Flag(~ph[h].up => (obs.polls[h] = ph[h].fpolls /\ obs.sent[h] = ph[h].fsent), "StopsDead")
    /\ UNCHANGED <<pstep, pdg, plat>>

\* The test called Sim::set_link_latency(h1, h2, v steps): messages sent from now on take v
\* steps.  Deadlines that are already running are extended by v (an answer that is still to be
\* sent may now travel with the new latency) - never tightened.
P_SetLat(v) ==
    /\ plat' = v
    /\ pops' = [o \in OpIds |-> IF Pending(o) /\ pops[o].dl > 0 THEN [pops[o] EXCEPT !.dl = @ + v] ELSE pops[o]]
    /\ UNCHANGED <<pstep, ph, pdg, bad>>

\* The logs of the two hosts that never talk to host 1 or 2 were compared with
\* those of a twin run in which the crash and bounce calls were left out.
\* "crashing or bouncing one host never disturbs ... any other host"
P_Twin(equal) ==
    /\ bad' = bad \cup Flag(equal, "Undisturbed")
    /\ UNCHANGED <<pstep, ph, pops, pdg, plat>>

P_Reset ==
    /\ pstep' = 0
    /\ ph' = [h \in Hosts |->
               [up |-> TRUE, inc |-> 1, turned |-> FALSE, lastTurn |-> 0, downs |-> {}, downAt |-> -1, tears |-> {},
                fpolls |-> -1, fsent |-> -1, bound |-> {}]]
    /\ pops' = <<>> /\ pdg' = <<>> /\ plat' = LatSteps /\ bad' = {}

---------------------------------------------------------------------------
GuardsRan      == "GuardsRan"      \notin bad
StopsDead      == "StopsDead"      \notin bad
NotRunning     == "NotRunning"     \notin bad
TablesEmpty    == "TablesEmpty"    \notin bad
PeersUnblocked == "PeersUnblocked" \notin bad
Rebind         == "Rebind"         \notin bad
StaleConnect   == "StaleConnect"   \notin bad
StaleDatagram  == "StaleDatagram"  \notin bad
FactoryOnce    == "FactoryOnce"    \notin bad
Undisturbed    == "Undisturbed"    \notin bad
C04Inv == GuardsRan /\ StopsDead /\ NotRunning /\ TablesEmpty /\ PeersUnblocked /\ Rebind
          /\ StaleConnect /\ StaleDatagram /\ FactoryOnce /\ Undisturbed
=============================================================================
