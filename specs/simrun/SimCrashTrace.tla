--------------------------- MODULE SimCrashTrace ---------------------------
(* Fidelity-level trace validation for C04: the full event stream recorded   *)
(* from the real code must be a behaviour of the ImplSpec SimCrash (every    *)
(* result in the turn TLC expects it, every counter, the hook tables after   *)
(* a crash); PropSpec clauses and ImplInv are evaluated in every state.      *)
EXTENDS SimCrash, Json, IOUtils

Rec == ndJsonDeserialize(IOEnv.TRACE)

VARIABLE l
E == Rec[l]
Is(e) == l <= Len(Rec) /\ Rec[l].ev = e /\ l' = l + 1

TInit == Init /\ l = 1

TReset ==
    /\ Is("reset") /\ P_Reset
    /\ phase' = "ctl" /\ todo' = <<>> /\ cur' = 0
    /\ hs' = [h \in Hosts |-> [polls |-> 0, sent |-> 0, fact |-> 1, glive |-> 0]]
    /\ lst' = [bound |-> FALSE, since |-> 0, q |-> <<>>]
    /\ ud' = [h \in Hosts |-> FALSE]
    /\ cn' = <<>> /\ net' = <<>> /\ oc' = <<>> /\ wk' = {} /\ dlv' = [h \in Hosts |-> <<>>] /\ nlat' = 0
    /\ nid' = 0 /\ ndg' = 0 /\ nflt' = 0
    /\ last' = [a |-> "init"]

SameSet(a, b) == {a[i] : i \in 1..Len(a)} = {b[i] : i \in 1..Len(b)} /\ Len(a) = Len(b)

TCmd ==
    /\ Is("cmd")
    /\ \/ E.op = "listen" /\ CmdListen
       \/ E.op = "accept" /\ CmdAccept /\ last'.c = E.c
       \/ E.op = "connect" /\ CmdConnect /\ last'.c = E.c
       \/ E.op = "read" /\ CmdRead(E.h, E.c)
       \/ E.op = "write" /\ CmdWrite(E.h, E.c)
       \/ E.op = "ubind" /\ CmdUbind(E.h)
       \/ E.op = "usend" /\ CmdUsend(E.h) /\ last'.c = E.c
       \/ E.op = "bg" /\ CmdBg(E.h)
    /\ last'.h = E.h /\ last'.res = E.res
    \* the harness numbers the operations itself: bind its id to the model's
    /\ last'.id = E.id

TNext ==
    \/ TReset
    \/ Is("step") /\ StepBegin
    \/ Is("turn") /\ TurnBegin(E.h) /\ SameSet(last'.got, E.got) /\ SameSet(last'.res, E.res)
                  /\ SameSet(last'.acc, E.acc)
    \/ TCmd
    \/ Is("turn_end") /\ TurnEnd /\ last'.h = E.h
    \/ Is("step_end") /\ StepEnd /\ last'.polls = E.polls /\ last'.sent = E.sent /\ E.okc = "ok"
    \/ Is("crash") /\ (\E fr \in FrChoices : Crash(E.h, fr)) /\ last'.obs = E.obs
    \/ Is("bounce") /\ (\E fr \in FrChoices : Bounce(E.h, fr)) /\ last'.obs = E.obs
    \/ Is("setlat") /\ SetLat(E.v)
    \/ Is("twin") /\ P_Twin(E.equal) /\ UNCHANGED ivars /\ last' = [a |-> "twin"]

TSpec == TInit /\ [][TNext]_<<vars, l>>

Accepted ==
    LET d == TLCGet("stats").diameter IN
    IF d - 1 = Len(Rec) THEN TRUE
    ELSE Print(<<"UNMATCHED", d, ToJson(Rec[d])>>, FALSE)
=============================================================================
