-------------------------- MODULE SimRunPropTrace --------------------------
(* Verdict-level trace validation for C05 / C11: observation events recorded *)
(* from the real code are replayed through the P_* actions of SimRunProp     *)
(* alone; the clause invariants are evaluated in every state.  Events that   *)
(* only the ImplSpec talks about (turn, turn_end) are skipped.               *)
EXTENDS SimRunProp, Json, IOUtils

Rec == ndJsonDeserialize(IOEnv.TRACE)

VARIABLE l
E == Rec[l]
Is(e) == l <= Len(Rec) /\ Rec[l].ev = e /\ l' = l + 1

TInit == PInit /\ l = 1

Smp == [h |-> E.h, k |-> E.k, st |-> E.st, el |-> E.el, sim |-> E.sim, ep |-> E.ep, di |-> E.di]

TNext ==
    \/ Is("reset") /\ P_Reset
    \/ Is("reg") /\ P_Register(E.n, E.kind, E.e)
    \/ Is("step") /\ P_StepBegin
    \/ Is("sample") /\ P_Sample(Smp)
    \/ Is("fin") /\ P_Fin(E.h, E.out, E.at)
    \/ Is("panic") /\ P_Panic(E.h)
    \/ Is("step_end") /\ P_StepEnd(E.res, E.known, E.e, E.se, E.polls)
    \/ Is("crash") /\ P_Crash(E.h, E.polls)
    \/ Is("bounce") /\ P_Bounce(E.h, E.polls)
    \/ Is("run_begin") /\ P_RunBegin
    \/ Is("run_end") /\ P_RunEnd(E.res, E.e, E.se, E.polls)
    \/ Is("look") /\ P_Look(E.e, E.se, E.polls)
    \/ Is("stale") /\ P_Stale(E.h)
    \/ Is("will_panic") /\ P_WillPanic(E.h, E.at)
    \/ /\ l <= Len(Rec) /\ Rec[l].ev \in {"turn", "turn_end"}
       /\ l' = l + 1 /\ UNCHANGED pvars

TSpec == TInit /\ [][TNext]_<<pvars, l>>

Accepted ==
    LET d == TLCGet("stats").diameter IN
    IF d - 1 = Len(Rec) THEN TRUE
    ELSE Print(<<"UNMATCHED", d, ToJson(Rec[d])>>, FALSE)
=============================================================================
