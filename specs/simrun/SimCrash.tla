------------------------------ MODULE SimCrash ------------------------------
(***************************************************************************)
(* ImplSpec for C04: Sim::crash / Sim::bounce (sim.rs, rt.rs cancel_tasks) *)
(* composed with a compact model of turmoil::net's message-level TCP and   *)
(* UDP (host.rs Tcp / Udp tables, net/tcp/stream.rs connect / read /       *)
(* write / the ReadHalf and WriteHalf destructors, net/tcp/listener.rs     *)
(* accept / destructor, net/udp.rs destructor) over a healthy link with a  *)
(* fixed latency of LatSteps steps.                                        *)
(*                                                                         *)
(* Host Lis listens on one TCP port and accepts, the other connects.  Programs *)
(* are command interpreters: the behaviour says which operations a host    *)
(* starts in its turn; blocking operations are tasks that return in the    *)
(* turn in which their condition holds.                                    *)
(*                                                                         *)
(*   StepBegin   Topology::tick_by + partition of the running hosts        *)
(*   TurnBegin   Topology::deliver_messages(dst) (SYN -> listener queue or *)
(*               refusal, data / FIN into the stream's channel, RST        *)
(*               removes the stream entry, segments for unknown streams    *)
(*               are answered with RST, datagrams into the bound socket)   *)
(*               followed by the woken tasks of the host                   *)
(*   Cmd*        one operation started by the program                      *)
(*   TurnEnd / StepEnd                                                     *)
(*   Crash(h)    Rt::crash: handle.take(), runtime and LocalSet dropped:   *)
(*               every task is dropped, so the destructors of every socket *)
(*               run: listener unbinds (queued SYNs are dropped -> their   *)
(*               connectors are refused), each stream endpoint sends RST   *)
(*               if it has unread data and / or FIN, and removes its       *)
(*               entry; the UDP socket unbinds and leaves its groups.  A   *)
(*               connect that is still pending is cancelled; its entry is  *)
(*               released by the PendingConnect guard (repair of D12).     *)
(*   Bounce(h)   Rt::bounce: the same teardown if the host is up, then the *)
(*               factory is called once and a fresh incarnation starts     *)
(* Repaired deviations, kept as constants so that the old behaviour can be *)
(* modelled: WriterFixed (a parked writer is woken by an arriving RST) and *)
(* HalfOpenFixed (an abandoned connect resets what the listener accepted). *)
(***************************************************************************)
EXTENDS SimCrashProp

CONSTANTS
    Tick,         \* ms per step (activity counter only)
    Cap,          \* Builder::tcp_capacity
    MaxConn,      \* connections host 2 may open
    Ops,          \* operation alphabet: subset of {"listen","accept","connect","read","write","ubind","usend","bg"}
    Faults,       \* subset of {"crash","bounce"}
    Targets,      \* hosts that may be crashed / bounced
    MaxOps,       \* operations started in total
    MaxFaults,    \* crash / bounce calls in total
    MaxSteps,
    Lis,          \* the host that listens and accepts (1 or 2); the other one connects.  Hosts run
                  \* in the order 1, 2, so Lis = 2 puts the connector's turn first
    LatChoices,   \* values (steps) the test may pass to Sim::set_link_latency between steps
    MaxLat,       \* number of set_link_latency calls
    Writers,      \* hosts whose programs may write
    Early,        \* TRUE: the handshake is not varied (listen and connect in step 1, accept in step 2,
                  \* latency changes from then on) - keeps the reordering configurations small
    WriterFixed,  \* TRUE: an arriving RST wakes a parked writer and writes on a reset stream fail at once
                  \* (commit 12fd6eb; FALSE = the code before it: the writer stays parked forever)
    HalfOpenFixed \* TRUE: a connect that is abandoned while pending sends an RST to the listener
                  \* (commit 733b4d1; FALSE = the code before it: an accepted stream stays half-open)

VARIABLES
    phase,   \* "ctl" | "turn"
    todo,    \* running hosts that still get their turn in this step (registration order)
    cur,     \* host whose turn it is, 0 if none
    hs,      \* [Hosts -> [polls, sent, fact, glive]]   counters read by the test thread
    lst,     \* listener of host Lis: [bound, since, q]
    ud,      \* [Hosts -> BOOLEAN]   UDP socket bound (and group joined)
    cn,      \* sequence of connection records, index = connection id (issued by host 2)
    net,     \* Link::sent: messages in flight, in send order
    dlv,     \* [Hosts -> sequence]  Link::deliverable: matured messages waiting for the host's turn
    nlat,    \* set_link_latency calls so far
    oc,      \* [operation id -> connection it works on, 0 if none / not yet known]
    wk,      \* <<kind, connection>> of the operations that returned at the start of the current turn
    nid,     \* operation ids issued so far
    ndg,     \* datagram ids issued so far
    nflt,    \* crash / bounce calls so far
    last     \* label of the action taken

ivars == <<phase, todo, cur, hs, lst, ud, cn, net, dlv, nlat, oc, wk, nid, ndg, nflt>>
vars  == <<pvars, ivars, last>>

Con == 3 - Lis
SideOf(h) == IF h = Con THEN "c" ELSE "s"
HostOf(side) == IF side = "c" THEN Con ELSE Lis
OSide(side) == IF side = "c" THEN "s" ELSE "c"
\* data written by side x travels in direction x
NoConnMsg == 0

NewConn(cinc, opid) ==
    [fut  |-> "pend",    \* connect future: "pend" | "est" | "ref" | "gone" (dropped with its host)
     ack  |-> "none",    \* one-shot SYN-ACK channel: "none" | "ok" | "ref" (sender dropped)
     cop  |-> opid,      \* operation id of the connect
     inc  |-> [c |-> cinc, s |-> 0],          \* incarnation owning each endpoint
     ent  |-> [c |-> TRUE, s |-> FALSE],      \* entry in Tcp::sockets (connect registers it before the SYN)
     live |-> [c |-> FALSE, s |-> FALSE],     \* a TcpStream for this endpoint is held by the host's tasks
     est  |-> [c |-> 0, s |-> 0],             \* step in which the endpoint's stream was handed to the program
     cred |-> [c |-> Cap, s |-> Cap],         \* send credits of the writer on side x
     chan |-> [c |-> 0, s |-> 0],             \* data segments queued for the reader on side x
     fin  |-> [c |-> FALSE, s |-> FALSE],     \* FIN queued for the reader on side x
     rst  |-> [c |-> FALSE, s |-> FALSE],     \* side x's entry was removed by an arriving RST
     sseq |-> [c |-> 1, s |-> 1],             \* next sequence number side x sends with
     rseq |-> [c |-> 0, s |-> 0],             \* StreamSocket::recv_seq of side x
     buf  |-> [c |-> {}, s |-> {}],           \* StreamSocket::buf of side x: segments parked behind a gap
     inl  |-> FALSE]     \* the acceptor's stream was returned by accept() at once (queue not empty)

Init ==
    /\ PInit
    /\ phase = "ctl" /\ todo = <<>> /\ cur = 0
    /\ hs = [h \in Hosts |-> [polls |-> 0, sent |-> 0, fact |-> 1, glive |-> 0]]
    /\ lst = [bound |-> FALSE, since |-> 0, q |-> <<>>]
    /\ ud = [h \in Hosts |-> FALSE]
    /\ cn = <<>> /\ net = <<>> /\ dlv = [h \in Hosts |-> <<>>] /\ nlat = 0
    /\ oc = <<>> /\ wk = {} /\ nid = 0 /\ ndg = 0 /\ nflt = 0
    /\ last = [a |-> "init"]

Conns == 1..Len(cn)
Up(h) == ph[h].up
Inc(h) == ph[h].inc
PollsV == [h \in Hosts |-> hs[h].polls]
SentV  == [h \in Hosts |-> hs[h].sent]
\* a message keeps the latency that was in force when it was sent; seq = TCP sequence number
\* (data and FIN of one direction share a sequence space starting at 1), 0 for the others
MsgS(k, c, to, seq) == [k |-> k, c |-> c, to |-> to, due |-> pstep + plat, seq |-> seq]
Msg(k, c, to) == MsgS(k, c, to, 0)

\* pending operation of host h of a kind on connection c (0: any)
PendOps(h, kind, c) ==
    {o \in OpIds : Pending(o) /\ pops[o].h = h /\ pops[o].kind = kind /\ (c = 0 \/ oc[o] = c)}

---------------------------------------------------------------------------
(* Delivery: Host::receive_from_network for every mature message addressed  *)
(* to h, in order.  W = [cn, lst, net, got] is threaded through.            *)

\* StreamSocket::buffer on side x of connection record r: park the segment, then release
\* every segment that is next in sequence into the channel
RECURSIVE Release(_, _)
Release(r, x) ==
    IF \E e \in r.buf[x] : e.seq = r.rseq[x] + 1
    THEN LET e == CHOOSE e \in r.buf[x] : e.seq = r.rseq[x] + 1
             r1 == [r EXCEPT !.buf[x] = @ \ {e}, !.rseq[x] = @ + 1]
         IN Release(IF e.k = "data" THEN [r1 EXCEPT !.chan[x] = @ + 1] ELSE [r1 EXCEPT !.fin[x] = TRUE], x)
    ELSE r
Buffer(r, x, seq, k) == Release([r EXCEPT !.buf[x] = @ \cup {[seq |-> seq, k |-> k]}], x)

DeliverOne(W, m, h) ==
    LET side == SideOf(h)  c == m.c IN
    CASE m.k = "syn" ->
           IF W.lst.bound
           THEN [W EXCEPT !.lst.q = Append(@, c)]
           ELSE \* "we drop the syn triggering connection refused on the client"
                [W EXCEPT !.cn[c].ack = "ref"]
      [] m.k = "data" ->
           IF W.cn[c].ent[side]
           THEN [W EXCEPT !.cn[c] = Buffer(@, side, m.seq, "data")]
           ELSE [W EXCEPT !.net = Append(@, Msg("rst", c, Other(h)))]
      [] m.k = "fin" ->
           IF W.cn[c].ent[side]
           THEN [W EXCEPT !.cn[c] = Buffer(@, side, m.seq, "fin")]
           ELSE W      \* a FIN for a stream that is already closed here is ignored (commit 4f46db4)
      [] m.k = "rst" ->
           IF W.cn[c].ent[side]
           THEN [W EXCEPT !.cn[c].ent[side] = FALSE, !.cn[c].rst[side] = TRUE]
           ELSE W
      [] m.k = "udp" ->
           IF ud[h] THEN [W EXCEPT !.got = Append(@, c)] ELSE W

RECURSIVE DeliverAll(_, _, _)
DeliverAll(W, ms, h) ==
    IF ms = <<>> THEN W ELSE DeliverAll(DeliverOne(W, Head(ms), h), Tail(ms), h)


---------------------------------------------------------------------------
(* Woken tasks of host h: every pending operation whose condition holds     *)
(* returns.  R = [cn, lst, net, res] where res is a sequence of <<id, res>> *)

\* result of a read by side x on connection record r, "" if it stays blocked
ReadRes(r, x) ==
    IF r.chan[x] > 0 THEN "data"
    ELSE IF r.fin[x] \/ r.rst[x] THEN "closed"
    ELSE ""

\* TcpListener::accept loop: pop requests, skipping those whose connector is gone
RECURSIVE AcceptPop(_, _)
AcceptPop(q, c0) ==    \* returns <<connection accepted or 0, remaining queue>>
    IF q = <<>> THEN <<0, <<>>>>
    ELSE IF c0[Head(q)].fut = "pend" /\ c0[Head(q)].ack = "none" THEN <<Head(q), Tail(q)>>
    ELSE AcceptPop(Tail(q), c0)

CompleteOne(R, o) ==
    LET op == pops[o]  h == op.h  x == SideOf(h)  c == oc[o] IN
    CASE op.kind = "connect" ->
           IF R.cn[c].ack = "ok"
           THEN [R EXCEPT !.cn[c].fut = "est", !.cn[c].live.c = TRUE, !.cn[c].est.c = pstep,
                          !.res = Append(@, <<o, "ok">>)]
           ELSE IF R.cn[c].ack = "ref"
           THEN \* the refused attempt releases the entry it registered (PendingConnect guard;
                \* before the repair of D12 the entry stayed behind)
                [R EXCEPT !.cn[c].fut = "ref", !.cn[c].ent.c = FALSE, !.res = Append(@, <<o, "refused">>)]
           ELSE R
      [] op.kind = "accept" ->
           LET pq == AcceptPop(R.lst.q, R.cn)  a == pq[1] IN
           IF a = 0 THEN [R EXCEPT !.lst.q = pq[2]]
           ELSE [R EXCEPT !.lst.q = pq[2],
                          !.cn[a].ack = "ok", !.cn[a].ent.s = TRUE, !.cn[a].live.s = TRUE,
                          !.cn[a].inc.s = Inc(Lis), !.cn[a].est.s = pstep,
                          !.res = Append(@, <<o, "ok">>), !.acc = Append(@, <<o, a>>)]
      [] op.kind = "read" ->
           LET rr == ReadRes(R.cn[c], x) IN
           IF rr = "" THEN R
           ELSE IF rr = "data"
           THEN \* the reader pops a segment and releases one credit to the writer
                [R EXCEPT !.cn[c].chan[x] = @ - 1, !.cn[c].cred[OSide(x)] = @ + 1,
                          !.res = Append(@, <<o, "data">>)]
           ELSE [R EXCEPT !.res = Append(@, <<o, "closed">>)]
      [] op.kind = "write" ->
           IF WriterFixed /\ R.cn[c].rst[x]
           THEN [R EXCEPT !.res = Append(@, <<o, "err">>)]     \* reset flag is checked before the credits
           ELSE IF R.cn[c].cred[x] > 0
           THEN IF R.cn[c].ent[x]
                THEN [R EXCEPT !.cn[c].cred[x] = @ - 1, !.cn[c].sseq[x] = @ + 1,
                               !.net = Append(@, MsgS("data", c, Other(h), R.cn[c].sseq[x])),
                               !.res = Append(@, <<o, "ok">>)]
                ELSE \* WriteHalf::seq fails: BrokenPipe
                     [R EXCEPT !.cn[c].cred[x] = @ - 1, !.res = Append(@, <<o, "err">>)]
           ELSE R      \* parked on the flow-control waker
      [] OTHER -> R

RECURSIVE CompleteAll(_, _)
CompleteAll(R, os) ==     \* os: sequence of operation ids in issue order
    IF os = <<>> THEN R ELSE CompleteAll(CompleteOne(R, Head(os)), Tail(os))

SortedIds(S) == LET n == Cardinality(S) IN
    CHOOSE f \in [1..n -> S] : \A i, j \in 1..n : i < j => f[i] < f[j]

---------------------------------------------------------------------------
StepBegin ==
    /\ phase = "ctl" /\ pstep < MaxSteps
    /\ P_StepBegin
    /\ phase' = "turn" /\ cur' = 0
    /\ todo' = SelectSeq(<<1, 2>>, LAMBDA h : Up(h))
    \* Link::tick -> process_deliverables: what has matured moves, in send order, to the queue of
    \* its destination (where it waits for the destination's next turn, however long it is down)
    /\ dlv' = [h \in Hosts |-> dlv[h] \o SelectSeq(net, LAMBDA m : m.to = h /\ m.due <= pstep + 1)]
    /\ net' = SelectSeq(net, LAMBDA m : m.due > pstep + 1)
    /\ last' = [a |-> "step_begin"]
    /\ UNCHANGED <<hs, lst, ud, cn, nlat, oc, nid, ndg, nflt, wk>>

TurnBegin(h) ==
    /\ phase = "turn" /\ cur = 0 /\ todo # <<>> /\ h = Head(todo)
    /\ LET ms  == dlv[h]
           W0  == [cn |-> cn, lst |-> lst, net |-> net, got |-> <<>>]
           W1  == DeliverAll(W0, ms, h)
           pend == {o \in OpIds : Pending(o) /\ pops[o].h = h}
           R0  == [cn |-> W1.cn, lst |-> W1.lst, net |-> W1.net, res |-> <<>>, acc |-> <<>>]
           R1  == IF pend = {} THEN R0 ELSE CompleteAll(R0, SortedIds(pend))
       IN
       /\ cn' = R1.cn /\ lst' = R1.lst /\ net' = R1.net /\ dlv' = [dlv EXCEPT ![h] = <<>>]
       /\ oc' = [o \in DOMAIN oc |->
                    IF \E i \in 1..Len(R1.acc) : R1.acc[i][1] = o
                    THEN R1.acc[CHOOSE i \in 1..Len(R1.acc) : R1.acc[i][1] = o][2]
                    ELSE oc[o]]
       /\ Set(FoldRecv(FoldRes(Cur, R1.res), W1.got, h, Inc(h)))
       /\ wk' = {<<pops[R1.res[i][1]].kind,
                    IF pops[R1.res[i][1]].kind = "accept" THEN 0 ELSE oc[R1.res[i][1]]>> : i \in 1..Len(R1.res)}
       /\ last' = [a |-> "turn", h |-> h, got |-> W1.got, res |-> R1.res, acc |-> R1.acc]
    /\ cur' = h /\ todo' = Tail(todo)
    /\ UNCHANGED <<pstep, pdg, phase, hs, ud, nid, ndg, nflt, plat, nlat>>

CanCmd(h, op) == phase = "turn" /\ cur = h /\ op \in Ops /\ nid < MaxOps

\* ghost: a new operation of host h and (if it returns at once) its result
NewOp(id, h, kind, c, res) ==
    /\ LET st0 == PS_Cmd(Cur, id, h, Inc(h), kind, c) IN
       Set(IF res = "" THEN st0 ELSE PS_Res(st0, id, res))
    /\ oc' = oc @@ (id :> c)

CmdListen ==        \* TcpListener::bind("0.0.0.0:80") on the listening host
    /\ CanCmd(Lis, "listen") /\ (Early => pstep = 1)
    /\ LET res == IF lst.bound THEN "inuse" ELSE "ok" IN
       /\ NewOp(nid + 1, Lis, "listen", 0, res)
       /\ lst' = IF lst.bound THEN lst ELSE [bound |-> TRUE, since |-> pstep, q |-> <<>>]
       /\ last' = [a |-> "cmd", h |-> Lis, op |-> "listen", id |-> nid + 1, c |-> 0, res |-> res]
    /\ nid' = nid + 1
    /\ UNCHANGED <<pstep, pdg, phase, todo, cur, hs, ud, cn, net, ndg, nflt, wk, plat, dlv, nlat>>

CmdAccept ==        \* a task of the listening host calls accept(); the listener was bound in an earlier turn
    /\ CanCmd(Lis, "accept") /\ lst.bound /\ lst.since < pstep /\ (Early => pstep = 2)
    /\ PendOps(Lis, "accept", 0) = {} /\ <<"accept", 0>> \notin wk
    \* (at most one accept / read / write per stream is outstanding at any moment of a turn: an
    \*  operation that returned at the start of this turn was still pending when the program ran)
    /\ LET pq == AcceptPop(lst.q, cn)  a == pq[1] IN
       /\ lst' = [lst EXCEPT !.q = pq[2]]
       /\ IF a = 0
          THEN /\ NewOp(nid + 1, Lis, "accept", 0, "")
               /\ cn' = cn
          ELSE /\ NewOp(nid + 1, Lis, "accept", a, "ok")
               /\ cn' = [cn EXCEPT ![a].ack = "ok", ![a].ent.s = TRUE, ![a].live.s = TRUE, ![a].inl = TRUE,
                                   ![a].inc.s = Inc(Lis), ![a].est.s = pstep]
       /\ last' = [a |-> "cmd", h |-> Lis, op |-> "accept", id |-> nid + 1, c |-> a,
                   res |-> IF a = 0 THEN "" ELSE "ok"]
    /\ nid' = nid + 1
    /\ UNCHANGED <<pstep, pdg, phase, todo, cur, hs, ud, net, ndg, nflt, wk, plat, dlv, nlat>>

CmdConnect ==       \* a task of the connecting host calls TcpStream::connect("<listener>:80")
    /\ CanCmd(Con, "connect") /\ Len(cn) < MaxConn /\ (Early => pstep = 1)
    \* Tcp::receive_from_network panics ("server socket buffer full") when a SYN meets a
    \* listener queue that already holds `capacity` requests - a documented panic, kept
    \* out of the alphabet: at most Cap requests are queued or on their way
    /\ Len(lst.q) + Cardinality({i \in 1..Len(net) : net[i].k = "syn"})
                  + Cardinality({i \in 1..Len(dlv[Lis]) : dlv[Lis][i].k = "syn"}) < Cap
    /\ LET c == Len(cn) + 1 IN
       /\ cn' = Append(cn, NewConn(Inc(Con), nid + 1))
       /\ net' = Append(net, Msg("syn", c, Lis))
       /\ NewOp(nid + 1, Con, "connect", c, "")
       /\ last' = [a |-> "cmd", h |-> Con, op |-> "connect", id |-> nid + 1, c |-> c, res |-> ""]
    /\ nid' = nid + 1
    /\ UNCHANGED <<pstep, pdg, phase, todo, cur, hs, lst, ud, ndg, nflt, wk, plat, dlv, nlat>>

\* the endpoint of c on host h is held by the current incarnation and was handed to the
\* program in an earlier turn, or in this turn by an accept() that returned at once
Usable(h, c) ==
    LET x == SideOf(h) IN
    /\ c \in Conns /\ cn[c].live[x] /\ cn[c].inc[x] = Inc(h)
    /\ (cn[c].est[x] < pstep \/ (x = "s" /\ cn[c].inl))

CmdRead(h, c) ==
    /\ CanCmd(h, "read") /\ Usable(h, c) /\ PendOps(h, "read", c) = {} /\ <<"read", c>> \notin wk
    /\ LET x == SideOf(h)  rr == ReadRes(cn[c], x) IN
       /\ cn' = IF rr = "data" THEN [cn EXCEPT ![c].chan[x] = @ - 1, ![c].cred[OSide(x)] = @ + 1] ELSE cn
       /\ NewOp(nid + 1, h, "read", c, rr)
       /\ last' = [a |-> "cmd", h |-> h, op |-> "read", id |-> nid + 1, c |-> c, res |-> rr]
    /\ nid' = nid + 1
    /\ UNCHANGED <<pstep, pdg, phase, todo, cur, hs, lst, ud, net, ndg, nflt, wk, plat, dlv, nlat>>

CmdWrite(h, c) ==
    /\ CanCmd(h, "write") /\ h \in Writers /\ Usable(h, c) /\ PendOps(h, "write", c) = {} /\ <<"write", c>> \notin wk
    /\ LET x == SideOf(h)
           isrst == WriterFixed /\ cn[c].rst[x]
           res == IF isrst THEN "err"
                  ELSE IF cn[c].cred[x] > 0 THEN (IF cn[c].ent[x] THEN "ok" ELSE "err")
                  ELSE ""
       IN
       /\ cn' = IF ~isrst /\ cn[c].cred[x] > 0
                THEN [cn EXCEPT ![c].cred[x] = @ - 1, ![c].sseq[x] = IF res = "ok" THEN @ + 1 ELSE @] ELSE cn
       /\ net' = IF res = "ok" THEN Append(net, MsgS("data", c, Other(h), cn[c].sseq[x])) ELSE net
       /\ NewOp(nid + 1, h, "write", c, res)
       /\ last' = [a |-> "cmd", h |-> h, op |-> "write", id |-> nid + 1, c |-> c, res |-> res]
    /\ nid' = nid + 1
    /\ UNCHANGED <<pstep, pdg, phase, todo, cur, hs, lst, ud, ndg, nflt, wk, plat, dlv, nlat>>

CmdUbind(h) ==      \* UdpSocket::bind("0.0.0.0:90") + join_multicast_v4
    /\ CanCmd(h, "ubind")
    /\ LET res == IF ud[h] THEN "inuse" ELSE "ok" IN
       /\ NewOp(nid + 1, h, "ubind", 0, res)
       /\ last' = [a |-> "cmd", h |-> h, op |-> "ubind", id |-> nid + 1, c |-> 0, res |-> res]
    /\ ud' = [ud EXCEPT ![h] = TRUE]
    /\ nid' = nid + 1
    /\ UNCHANGED <<pstep, pdg, phase, todo, cur, hs, lst, cn, net, ndg, nflt, wk, plat, dlv, nlat>>

CmdUsend(h) ==      \* send_to(other:90) through the host's own socket
    /\ CanCmd(h, "usend") /\ ud[h] /\ "udp" \in ph[h].bound
    /\ P_Send(ndg + 1, h, Inc(h))
    /\ net' = Append(net, Msg("udp", ndg + 1, Other(h)))
    /\ hs' = [hs EXCEPT ![h].sent = @ + 1]
    /\ ndg' = ndg + 1 /\ nid' = nid + 1
    /\ last' = [a |-> "cmd", h |-> h, op |-> "usend", id |-> nid + 1, c |-> ndg + 1, res |-> "ok"]
    /\ UNCHANGED <<pstep, ph, pops, phase, todo, cur, lst, ud, cn, oc, nflt, wk, dlv, nlat>>

CmdBg(h) ==         \* spawn a background task that holds a drop guard
    /\ CanCmd(h, "bg")
    /\ hs' = [hs EXCEPT ![h].glive = @ + 1]
    /\ nid' = nid + 1
    /\ last' = [a |-> "cmd", h |-> h, op |-> "bg", id |-> nid + 1, c |-> 0, res |-> "ok"]
    /\ UNCHANGED <<pvars, phase, todo, cur, lst, ud, cn, net, oc, ndg, nflt, wk, dlv, nlat>>

TurnEnd ==
    /\ phase = "turn" /\ cur # 0
    /\ hs' = [hs EXCEPT ![cur].polls = @ + Tick]
    /\ cur' = 0 /\ wk' = {}
    /\ last' = [a |-> "turn_end", h |-> cur]
    /\ UNCHANGED <<pvars, phase, todo, lst, ud, cn, net, oc, nid, ndg, nflt, dlv, nlat>>

StepEnd ==
    /\ phase = "turn" /\ cur = 0 /\ todo = <<>>
    /\ P_StepEnd(PollsV, SentV, "ok")
    /\ phase' = "ctl"
    /\ last' = [a |-> "step_end", polls |-> PollsV, sent |-> SentV]
    /\ UNCHANGED <<todo, cur, hs, lst, ud, cn, net, oc, nid, ndg, nflt, wk, dlv, nlat>>

---------------------------------------------------------------------------
(* cancel_tasks: every task of h is dropped, so every socket destructor runs *)

\* endpoint of connection record r on side x is dropped; fr = TRUE: the WriteHalf is
\* dropped before the ReadHalf (FIN, then RST if unread data), else ReadHalf first.
DropEndpoint(r, x) == [r EXCEPT !.live[x] = FALSE, !.ent[x] = FALSE]
DropMsgs(r, c, x, fr) ==
    LET \* ReadHalf::drop: a Data segment in the channel, or (Tcp::has_buffered_data) any Data
        \* segment parked in the reorder buffer of an entry that still exists
        unread == r.chan[x] > 0 \/ (r.ent[x] /\ \E e \in r.buf[x] : e.k = "data")
        to == HostOf(OSide(x))
        fin == <<MsgS("fin", c, to, r.sseq[x])>>   rst == <<Msg("rst", c, to)>>
    IN IF unread THEN (IF fr /\ r.ent[x] THEN fin \o rst ELSE rst)
       ELSE IF r.ent[x] THEN fin ELSE <<>>

RECURSIVE TearConns(_, _, _, _, _)
TearConns(h, k, c0, fr, ms) ==    \* returns <<cn', messages sent>>
    IF k > Len(c0) THEN <<c0, ms>>
    ELSE LET r == c0[k]  x == SideOf(h) IN
         IF r.live[x] /\ r.inc[x] = Inc(h)
         THEN TearConns(h, k + 1, [c0 EXCEPT ![k] = DropEndpoint(r, x)], fr,
                        ms \o DropMsgs(r, k, x, fr[k]))
         ELSE IF x = "c" /\ r.fut = "pend" /\ r.inc.c = Inc(h)
         THEN \* the pending connect future is dropped: its one-shot receiver goes away and the
              \* PendingConnect guard releases the entry registered by connect (D12 repaired)
              \* and, since 733b4d1, sends an RST that resets whatever the listener accepted
              TearConns(h, k + 1, [c0 EXCEPT ![k].fut = "gone", ![k].ent.c = FALSE], fr,
                        IF HalfOpenFixed THEN ms \o <<Msg("rst", k, Lis)>> ELSE ms)
         ELSE TearConns(h, k + 1, c0, fr, ms)

\* listener destructor: unbind; the queued requests are dropped with it
RefuseQueued(c0, q) ==
    [k \in 1..Len(c0) |-> IF \E i \in 1..Len(q) : q[i] = k THEN [c0[k] EXCEPT !.ack = "ref"] ELSE c0[k]]

\* hook tables of h after the teardown
StreamEntries(c0, h) == Cardinality({k \in 1..Len(c0) : c0[k].ent[SideOf(h)]})

Teardown(h, fr) ==     \* <<cn', lst', ud', net'>>
    LET t  == TearConns(h, 1, cn, fr, <<>>)
        c1 == IF h = Lis /\ lst.bound THEN RefuseQueued(t[1], lst.q) ELSE t[1]
    IN <<c1,
         IF h = Lis THEN [bound |-> FALSE, since |-> 0, q |-> <<>>] ELSE lst,
         [ud EXCEPT ![h] = FALSE],
         net \o t[2]>>

Crash(h, fr) ==
    /\ phase = "ctl" /\ "crash" \in Faults /\ h \in Targets /\ nflt < MaxFaults
    /\ LET t == IF Up(h) THEN Teardown(h, fr) ELSE <<cn, lst, ud, net>>
           hs1 == IF Up(h) THEN [hs EXCEPT ![h].glive = 0] ELSE hs
           obs == [polls |-> PollsV, sent |-> SentV, glive |-> hs1[h].glive, running |-> FALSE,
                   udp |-> 0, tcp |-> 0, mcast |-> 0, streams |-> StreamEntries(t[1], h)]
       IN
       /\ cn' = t[1] /\ lst' = t[2] /\ ud' = t[3] /\ net' = t[4]
       /\ hs' = hs1
       /\ P_Crash(h, obs)
       /\ last' = [a |-> "crash", h |-> h, obs |-> obs, fr |-> \A k \in DOMAIN fr : ~fr[k]]
    /\ nflt' = nflt + 1
    /\ UNCHANGED <<phase, todo, cur, oc, nid, ndg, wk, dlv, nlat>>

Bounce(h, fr) ==
    /\ phase = "ctl" /\ "bounce" \in Faults /\ h \in Targets /\ nflt < MaxFaults
    /\ LET t == IF Up(h) THEN Teardown(h, fr) ELSE <<cn, lst, ud, net>>
           hs1 == [hs EXCEPT ![h].glive = 0, ![h].fact = @ + 1]
           obs == [polls |-> PollsV, sent |-> SentV, fact |-> 1, running |-> TRUE]
       IN
       /\ cn' = t[1] /\ lst' = t[2] /\ ud' = t[3] /\ net' = t[4]
       /\ hs' = hs1
       /\ P_Bounce(h, obs)
       /\ last' = [a |-> "bounce", h |-> h, obs |-> obs, streams |-> StreamEntries(t[1], h),
                   fr |-> \A k \in DOMAIN fr : ~fr[k]]
    /\ nflt' = nflt + 1
    /\ UNCHANGED <<phase, todo, cur, oc, nid, ndg, wk, dlv, nlat>>

\* Sim::set_link_latency(h1, h2, v) between steps
SetLat(v) ==
    /\ phase = "ctl" /\ v \in LatChoices /\ v # plat /\ nlat < MaxLat /\ (Early => pstep >= 2)
    /\ P_SetLat(v)
    /\ nlat' = nlat + 1
    /\ last' = [a |-> "setlat", v |-> v]
    /\ UNCHANGED <<phase, todo, cur, hs, lst, ud, cn, net, dlv, oc, wk, nid, ndg, nflt>>
SetLatAny == \E v \in LatChoices : SetLat(v)

\* drop-order choices: one boolean per connection
FrChoices == [1..Len(cn) -> BOOLEAN]

TurnBeginAny == \E h \in Hosts : TurnBegin(h)
CmdReadAny   == \E h \in Hosts, c \in Conns : CmdRead(h, c)
CmdWriteAny  == \E h \in Hosts, c \in Conns : CmdWrite(h, c)
CmdUbindAny  == \E h \in Hosts : CmdUbind(h)
CmdUsendAny  == \E h \in Hosts : CmdUsend(h)
CmdBgAny     == \E h \in Hosts : CmdBg(h)
CrashAny     == \E h \in Hosts, fr \in FrChoices : Crash(h, fr)
BounceAny    == \E h \in Hosts, fr \in FrChoices : Bounce(h, fr)

Next ==
    \/ StepBegin
    \/ TurnBeginAny
    \/ CmdListen \/ CmdAccept \/ CmdConnect
    \/ CmdReadAny
    \/ CmdWriteAny
    \/ CmdUbindAny
    \/ CmdUsendAny
    \/ CmdBgAny
    \/ TurnEnd
    \/ StepEnd
    \/ CrashAny
    \/ BounceAny
    \/ SetLatAny

Spec == Init /\ [][Next]_vars

View == <<pvars, ivars>>

\* implementation-level sanity: credits, queued and in-flight data add up to the capacity
ImplInv ==
    \A c \in Conns : \A x \in {"c", "s"} :
        cn[c].cred[x] + cn[c].chan[OSide(x)] <= Cap
=============================================================================
