------------------------------- MODULE SimRun -------------------------------
(***************************************************************************)
(* ImplSpec of turmoil's simulation loop: crates/turmoil/src/sim.rs        *)
(* (client / host / step / run / crash / bounce), rt.rs (tick, crash,      *)
(* bounce, cancel_tasks) and host.rs HostTimer.                            *)
(*                                                                         *)
(* One action per critical section of the Rust code:                       *)
(*   Register   Sim::client / Sim::host: World::register with              *)
(*              HostTimer::new(self.elapsed, ..), Rt::client / Rt::host    *)
(*              (software spawned, handle = Some)                          *)
(*   StepBegin  Sim::step up to the partition of `rts` into running        *)
(*              (handle present) and stopped, optional shuffle             *)
(*   TurnBegin  deliver_messages ; timer.now(rt.now()) ; start of rt.tick  *)
(*   EvSample / EvFin   what the host's tasks do inside                    *)
(*              run_until(sleep(tick)): timers that expire at an instant   *)
(*              t with hElapsed <= t < hElapsed + Tick fire in this turn   *)
(*              (run_until polls its own sleep first, so a timer expiring  *)
(*              exactly at the end of the window fires in the next turn)   *)
(*   TurnEnd    harvest in rt.tick (handle.is_finished -> take, Err is     *)
(*              returned by `?` before world.tick, before later hosts run  *)
(*              and before self.elapsed is advanced), is_finished fold     *)
(*              over running clients, world.tick(addr)                     *)
(*   StepEnd    tick of the stopped nodes, elapsed += tick, steps += 1,    *)
(*              `elapsed > duration && !is_finished`                       *)
(*   Crash / Bounce   Rt::crash (handle.take + cancel_tasks) / Rt::bounce  *)
(*              (cancel_tasks + spawn of the stored factory)               *)
(*   RunBegin / RunEnd   Sim::run (no client -> Ok without stepping; loop) *)
(*                                                                         *)
(* Programs are scripts: the main future walks through a list of           *)
(* whole-millisecond waits (sampling the clocks after each) and then       *)
(* returns Ok / returns Err / panics / never finishes; optionally a        *)
(* spawned task does the same.  An activity counter per node (a spawned    *)
(* task that wakes every millisecond) stands for "the software was         *)
(* polled".                                                                *)
(***************************************************************************)
EXTENDS SimRunProp

CONSTANTS
    MaxNodes,      \* nodes are registered as 1, 2, ... up to MaxNodes
    Kinds,         \* subset of {"client", "host"}
    Waits, MaxPat, \* main future: up to MaxPat waits drawn from Waits (ms)
    Outs,          \* subset of {"Ok","Err","Panic","Never"}
    TWaits, MaxTPat,
    TOuts,         \* spawned task: "none" (no task) or its outcome
    RandomOrder,   \* Builder::enable_random_order
    CtlOps,        \* subset of {"register","step","run","crash","bounce"}
    MaxCtl,        \* number of calls made by the test thread
    MaxSteps,      \* bound on the number of steps
    DetTies        \* TRUE: ties between tasks of one host are broken main-first (behaviour generation)

VARIABLES
    elapsed,   \* Sim::elapsed (ms)
    steps,     \* Sim::steps (starts at 1, bumped after each step that did not fail)
    nd,        \* sequence of node records in registration order (Sim::rts is an IndexMap)
    phase,     \* "ctl" | "turns" | "panicked" | "dead"
    todo,      \* sequence of running nodes that still get their turn in this step
    ran,       \* the `running` partition computed at the start of the step
    cur,       \* node whose runtime is being ticked, 0 if none
    isFin,     \* `is_finished` of Sim::step
    inRun,     \* inside Sim::run
    rr,        \* result Sim::run is about to return, "none" while it loops
    nctl,      \* calls made by the test thread so far (bound only)
    last       \* label of the action taken (for behaviour extraction / trace binding)

ivars == <<elapsed, steps, nd, phase, todo, ran, cur, isFin, inRun, rr, nctl>>
vars  == <<pvars, ivars, last>>

INF == 1000000

Pats  == UNION {[1..n -> Waits] : n \in 0..MaxPat}
TPats == UNION {[1..n -> TWaits] : n \in 1..MaxTPat}

NNodes == Len(nd)
Ids    == 1..NNodes
Polls  == [n \in Ids |-> nd[n].polls]

RECURSIVE SumSeq(_)
SumSeq(q) == IF q = <<>> THEN 0 ELSE Head(q) + SumSeq(Tail(q))

Idle == [pc |-> 0, next |-> INF, st |-> 0, s |-> "idle"]

\* a task whose waits are `pat` starts running at host time now
StartTask(pat, out, now) ==
    IF pat = <<>>
    THEN IF out \in {"Ok", "Err", "Panic"} THEN [pc |-> 0, next |-> now, st |-> now, s |-> "run"]
         ELSE [pc |-> 0, next |-> INF, st |-> now, s |-> "parked"]
    ELSE [pc |-> 0, next |-> now + pat[1], st |-> now, s |-> "run"]

Init ==
    /\ PInit
    /\ elapsed = 0 /\ steps = 1 /\ nd = <<>>
    /\ phase = "ctl" /\ todo = <<>> /\ ran = {} /\ cur = 0 /\ isFin = TRUE
    /\ inRun = FALSE /\ rr = "none" /\ nctl = 0
    /\ last = [a |-> "init"]

CanCtl(op) == phase = "ctl" /\ ~inRun /\ nctl < MaxCtl /\ op \in CtlOps

---------------------------------------------------------------------------
\* Sim::client / Sim::host
Register(kind, pat, out, tpat, tout) ==
    /\ CanCtl("register") /\ NNodes < MaxNodes
    /\ LET n == NNodes + 1 IN
       /\ P_Register(n, kind, elapsed)
       /\ nd' = Append(nd, [kind |-> kind, pat |-> pat, out |-> out, tpat |-> tpat, tout |-> tout,
                            handle |-> "present",       \* Rt::client / Rt::host spawn the software
                            off |-> elapsed, hEl |-> 0, \* HostTimer::new(self.elapsed, ..)
                            inc |-> 1, polls |-> 0, started |-> FALSE,
                            m |-> Idle, t |-> Idle])
       /\ last' = [a |-> "register", n |-> n, kind |-> kind, pat |-> pat, out |-> out,
                   tpat |-> tpat, tout |-> tout]
    /\ nctl' = nctl + 1
    /\ UNCHANGED <<elapsed, steps, phase, todo, ran, cur, isFin, inRun, rr>>

RegisterAny ==
    \E kind \in Kinds, pat \in Pats, out \in Outs, tout \in TOuts :
      \E tpat \in (IF tout = "none" THEN {<<>>} ELSE TPats) :
        Register(kind, pat, out, tpat, tout)

\* Rt::crash: only hosts; handle.take(); cancel_tasks (every task is dropped)
Crash(h) ==
    /\ CanCtl("crash") /\ h \in Ids /\ nd[h].kind = "host"
    /\ nd' = [nd EXCEPT ![h].handle = "none", ![h].started = FALSE, ![h].m = Idle, ![h].t = Idle]
    /\ P_Crash(h, Polls)
    /\ nctl' = nctl + 1
    /\ last' = [a |-> "crash", h |-> h]
    /\ UNCHANGED <<elapsed, steps, phase, todo, ran, cur, isFin, inRun, rr>>

\* Rt::bounce: cancel_tasks, then the stored factory is called and spawned
Bounce(h) ==
    /\ CanCtl("bounce") /\ h \in Ids /\ nd[h].kind = "host"
    /\ nd' = [nd EXCEPT ![h].handle = "present", ![h].started = FALSE, ![h].m = Idle, ![h].t = Idle,
                        ![h].inc = @ + 1]
    /\ P_Bounce(h, Polls)
    /\ nctl' = nctl + 1
    /\ last' = [a |-> "bounce", h |-> h]
    /\ UNCHANGED <<elapsed, steps, phase, todo, ran, cur, isFin, inRun, rr>>

\* Sim::run: "check if we have any clients"
RunBegin ==
    /\ CanCtl("run")
    /\ P_RunBegin
    /\ inRun' = TRUE
    /\ rr' = IF \E n \in Ids : nd[n].kind = "client" THEN "none" ELSE "Ok"
    /\ nctl' = nctl + 1
    /\ last' = [a |-> "run_begin"]
    /\ UNCHANGED <<elapsed, steps, nd, phase, todo, ran, cur, isFin>>

RunEnd ==
    /\ phase \in {"ctl", "runpanic"} /\ inRun /\ rr # "none"
    /\ P_RunEnd(rr, elapsed, Epoch + elapsed, Polls)
    /\ inRun' = FALSE /\ rr' = "none"
    /\ phase' = IF rr = "Panic" THEN "dead" ELSE "ctl"
    /\ last' = [a |-> "run_end", res |-> rr, e |-> elapsed, polls |-> Polls]
    /\ UNCHANGED <<elapsed, steps, nd, todo, ran, cur, isFin, nctl>>

---------------------------------------------------------------------------
Running == SelectSeq([i \in Ids |-> i], LAMBDA n : nd[n].handle = "present")
SeqRange(s) == {s[i] : i \in 1..Len(s)}
Perms(s) == {f \in [1..Len(s) -> SeqRange(s)] : \A i, j \in 1..Len(s) : i # j => f[i] # f[j]}

\* Sim::step: partition of rts by is_software_running, optional shuffle
StepBegin ==
    /\ phase = "ctl" /\ steps <= MaxSteps
    /\ \/ (CanCtl("step") /\ nctl' = nctl + 1)
       \/ (inRun /\ rr = "none" /\ nctl' = nctl)
    /\ P_StepBegin
    /\ phase' = "turns" /\ cur' = 0 /\ isFin' = TRUE
    /\ todo' \in (IF RandomOrder THEN Perms(Running) ELSE {Running})
    /\ ran' = SeqRange(Running)
    /\ last' = [a |-> "step_begin", n |-> steps]
    /\ UNCHANGED <<elapsed, steps, nd, inRun, rr>>

\* start of rt.tick for the next running node; software that was never polled starts now
TurnBegin(h) ==
    /\ phase = "turns" /\ cur = 0 /\ todo # <<>> /\ h = Head(todo)
    /\ cur' = h /\ todo' = Tail(todo)
    /\ nd' = IF nd[h].started THEN nd
             ELSE [nd EXCEPT ![h].started = TRUE,
                             ![h].m = StartTask(nd[h].pat, nd[h].out, nd[h].hEl),
                             ![h].t = IF nd[h].tout = "none" THEN Idle
                                      ELSE StartTask(nd[h].tpat, nd[h].tout, nd[h].hEl)]
    \* the software announces a task that is going to panic (ghost for PanicSurfaces)
    /\ IF ~nd[h].started /\ nd[h].tout = "Panic"
       THEN P_WillPanic(h, nd[h].off + nd[h].hEl + SumSeq(nd[h].tpat))
       ELSE UNCHANGED pvars
    /\ last' = [a |-> "turn", h |-> h]
    /\ UNCHANGED <<elapsed, steps, phase, ran, isFin, inRun, rr, nctl>>

WEnd == nd[cur].hEl + Tick
Task(t) == IF t = "m" THEN nd[cur].m ELSE nd[cur].t
PatOf(t) == IF t = "m" THEN nd[cur].pat ELSE nd[cur].tpat
OutOf(t) == IF t = "m" THEN nd[cur].out ELSE nd[cur].tout
Active(t) == Task(t).s = "run" /\ Task(t).next < WEnd
Cand(t) == /\ Active(t)
           /\ \A u \in {"m", "t"} : Active(u) => Task(t).next <= Task(u).next
           /\ (DetTies /\ t = "t") => ~(Active("m") /\ Task("m").next = Task("t").next)

\* a wait of task t completes: the program samples the clocks
EvSample(t) ==
    /\ phase = "turns" /\ cur # 0 /\ Cand(t) /\ Task(t).pc < Len(PatOf(t))
    /\ LET tk == Task(t)  pat == PatOf(t)  k == pat[tk.pc + 1]  now == tk.next
           more == tk.pc + 1 < Len(pat)
           ends == OutOf(t) \in {"Ok", "Err", "Panic"} /\ ~(t = "t" /\ OutOf(t) \in {"Ok", "Err"})
           ntk == IF more THEN [pc |-> tk.pc + 1, next |-> now + pat[tk.pc + 2], st |-> now, s |-> "run"]
                  ELSE IF ends THEN [pc |-> tk.pc + 1, next |-> now, st |-> now, s |-> "run"]
                  ELSE [pc |-> tk.pc + 1, next |-> INF, st |-> now,
                        s |-> IF OutOf(t) = "Never" THEN "parked" ELSE "done"]
           smp == [h |-> cur, task |-> t, k |-> k, st |-> tk.st, el |-> now,
                   sim |-> now + nd[cur].off, ep |-> Epoch + now + nd[cur].off, di |-> k]
       IN /\ nd' = IF t = "m" THEN [nd EXCEPT ![cur].m = ntk] ELSE [nd EXCEPT ![cur].t = ntk]
          /\ P_Sample(smp)
          /\ last' = [a |-> "sample"] @@ smp
    /\ UNCHANGED <<elapsed, steps, phase, todo, ran, cur, isFin, inRun, rr, nctl>>

\* task t ends: the main future returns Ok / Err, or a task panics
EvFin(t) ==
    /\ phase = "turns" /\ cur # 0 /\ Cand(t) /\ Task(t).pc = Len(PatOf(t))
    /\ LET now == Task(t).next  out == OutOf(t) IN
       IF out = "Panic"
       THEN /\ P_Panic(cur)
            /\ phase' = "panicked"
            /\ nd' = nd
            /\ last' = [a |-> "panic", h |-> cur, task |-> t]
       ELSE /\ t = "m"
            /\ P_Fin(cur, out, now + nd[cur].off)
            /\ phase' = phase
            /\ nd' = [nd EXCEPT ![cur].m = [@ EXCEPT !.s = "done", !.next = INF]]
            /\ last' = [a |-> "fin", h |-> cur, out |-> out, at |-> now + nd[cur].off]
    /\ UNCHANGED <<elapsed, steps, todo, ran, cur, isFin, inRun, rr, nctl>>

\* unhandled_panic = ShutdownRuntime: block_on panics, the panic leaves Sim::step
StepPanic ==
    /\ phase = "panicked"
    /\ P_StepEnd("Panic", FALSE, 0, 0, <<>>)
    /\ phase' = IF inRun THEN "runpanic" ELSE "dead"
    /\ rr' = IF inRun THEN "Panic" ELSE rr
    /\ last' = [a |-> "step_end", res |-> "Panic", known |-> FALSE]
    /\ UNCHANGED <<elapsed, steps, nd, todo, ran, cur, isFin, inRun, nctl>>

\* end of rt.tick: the window is exhausted; harvest the software result
TurnEnd ==
    /\ phase = "turns" /\ cur # 0 /\ ~Active("m") /\ ~Active("t")
    /\ LET h == cur
           done == nd[h].m.s = "done"
           err == done /\ nd[h].out = "Err"
           \* the activity task ran through the whole window
           n1 == [nd EXCEPT ![h].polls = @ + Tick,
                            ![h].handle = IF done THEN "none" ELSE @]
       IN
       IF err
       THEN \* `rt.tick(tick)?` returns: no world.tick for h, later nodes are not run,
            \* stopped nodes are not ticked, elapsed and steps are unchanged
            /\ nd' = n1
            /\ P_StepEnd("Err", TRUE, elapsed, Epoch + elapsed, [n \in Ids |-> n1[n].polls])
            /\ phase' = "ctl" /\ todo' = <<>> /\ cur' = 0
            /\ rr' = IF inRun THEN "Err" ELSE rr
            /\ isFin' = isFin
            /\ last' = [a |-> "step_end", res |-> "Err", known |-> TRUE, e |-> elapsed,
                        polls |-> [n \in Ids |-> n1[n].polls], by |-> h]
       ELSE /\ nd' = [n1 EXCEPT ![h].hEl = @ + Tick]           \* world.tick(addr, tick)
            /\ isFin' = IF nd[h].kind = "client" THEN isFin /\ done ELSE isFin
            /\ cur' = 0
            /\ last' = [a |-> "turn_end", h |-> h]
            /\ UNCHANGED <<pvars, phase, todo, rr>>
    /\ UNCHANGED <<elapsed, steps, ran, inRun, nctl>>

\* tail of Sim::step
StepEnd ==
    /\ phase = "turns" /\ cur = 0 /\ todo = <<>>
    /\ LET \* "Tick the nodes that are not actively running": every node that did not get a
           \* turn in this step (the stopped partition was computed at the start of the step)
           e1 == elapsed + Tick
           res == IF e1 > Duration /\ ~isFin THEN "Err" ELSE IF isFin THEN "true" ELSE "false"
       IN
       /\ nd' = [n \in Ids |-> IF n \in ran THEN nd[n] ELSE [nd[n] EXCEPT !.hEl = @ + Tick]]
       /\ elapsed' = e1 /\ steps' = steps + 1
       /\ P_StepEnd(res, TRUE, e1, Epoch + e1, Polls)
       /\ rr' = IF ~inRun THEN rr ELSE IF res = "Err" THEN "Err" ELSE IF res = "true" THEN "Ok" ELSE "none"
       /\ last' = [a |-> "step_end", res |-> res, known |-> TRUE, e |-> e1, polls |-> Polls]
    /\ phase' = "ctl"
    /\ UNCHANGED <<todo, ran, cur, isFin, inRun, nctl>>

CrashAny     == \E h \in Ids : Crash(h)
BounceAny    == \E h \in Ids : Bounce(h)
TurnBeginAny == \E h \in Ids : TurnBegin(h)
EvSampleAny  == \E t \in {"m", "t"} : EvSample(t)
EvFinAny     == \E t \in {"m", "t"} : EvFin(t)

Next ==
    \/ RegisterAny
    \/ CrashAny
    \/ BounceAny
    \/ RunBegin
    \/ RunEnd
    \/ StepBegin
    \/ TurnBeginAny
    \/ EvSampleAny
    \/ EvFinAny
    \/ StepPanic
    \/ TurnEnd
    \/ StepEnd

Spec == Init /\ [][Next]_vars

View == <<pvars, ivars>>

\* implementation-level sanity: every registered node's timer agrees with the
\* simulation clock as long as no step failed (HostTimer::sim_elapsed)
ImplInv ==
    (pc.clock /\ phase = "ctl") => \A n \in Ids : nd[n].off + nd[n].hEl = elapsed
=============================================================================
